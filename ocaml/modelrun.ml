(* Line-protocol driver around the code extracted from the Coq development (coq/Extract/model.ml).
   Same protocol as harness/verif_driver.rs:  op TAB hexfield ...  ->  TAG TAB token ...            *)
module M = Model

let rec pos_of_int i = if i = 1 then M.XH else if i land 1 = 0 then M.XO (pos_of_int (i lsr 1)) else M.XI (pos_of_int (i lsr 1))
let n_of_int i = if i = 0 then M.N0 else M.Npos (pos_of_int i)
let rec int_of_pos = function M.XH -> 1 | M.XO p -> 2 * int_of_pos p | M.XI p -> 2 * int_of_pos p + 1
let int_of_n = function M.N0 -> 0 | M.Npos p -> int_of_pos p
let rec int_of_nat = function M.O -> 0 | M.S n -> 1 + int_of_nat n
let rec nat_of_int i = if i <= 0 then M.O else M.S (nat_of_int (i - 1))

let unhex (s : string) : string =
  if s = "-" then "" else begin
    let v c = match c with
      | '0'..'9' -> Char.code c - 48 | 'a'..'f' -> Char.code c - 87 | 'A'..'F' -> Char.code c - 55 | _ -> 0 in
    let n = String.length s / 2 in
    String.init n (fun i -> Char.chr (v s.[2*i] * 16 + v s.[2*i+1]))
  end

let hex (s : string) : string =
  if s = "" then "-" else begin
    let b = Buffer.create (2 * String.length s) in
    String.iter (fun c -> Buffer.add_string b (Printf.sprintf "%02x" (Char.code c))) s;
    Buffer.contents b
  end

exception Bad_utf8

(* strict UTF-8 decoding to code points *)
let decode (s : string) : int list =
  let n = String.length s in
  let rec go i acc =
    if i >= n then List.rev acc else
    let c = Char.code s.[i] in
    let cont k = if i + k >= n then raise Bad_utf8 else
      let x = Char.code s.[i+k] in if x land 0xc0 <> 0x80 then raise Bad_utf8 else x land 0x3f in
    if c < 0x80 then go (i+1) (c :: acc)
    else if c land 0xe0 = 0xc0 then (let v = ((c land 0x1f) lsl 6) lor cont 1 in if v < 0x80 then raise Bad_utf8; go (i+2) (v :: acc))
    else if c land 0xf0 = 0xe0 then (let v = ((c land 0x0f) lsl 12) lor (cont 1 lsl 6) lor cont 2 in
                                     if v < 0x800 || (v >= 0xd800 && v <= 0xdfff) then raise Bad_utf8; go (i+3) (v :: acc))
    else if c land 0xf8 = 0xf0 then (let v = ((c land 0x07) lsl 18) lor (cont 1 lsl 12) lor (cont 2 lsl 6) lor cont 3 in
                                     if v < 0x10000 || v > 0x10ffff then raise Bad_utf8; go (i+4) (v :: acc))
    else raise Bad_utf8 in
  go 0 []

let encode (l : int list) : string =
  let b = Buffer.create 16 in
  List.iter (fun u ->
    if u < 0x80 then Buffer.add_char b (Char.chr u)
    else if u < 0x800 then (Buffer.add_char b (Char.chr (0xc0 lor (u lsr 6))); Buffer.add_char b (Char.chr (0x80 lor (u land 0x3f))))
    else if u < 0x10000 then (Buffer.add_char b (Char.chr (0xe0 lor (u lsr 12))); Buffer.add_char b (Char.chr (0x80 lor ((u lsr 6) land 0x3f))); Buffer.add_char b (Char.chr (0x80 lor (u land 0x3f))))
    else (Buffer.add_char b (Char.chr (0xf0 lor (u lsr 18))); Buffer.add_char b (Char.chr (0x80 lor ((u lsr 12) land 0x3f))); Buffer.add_char b (Char.chr (0x80 lor ((u lsr 6) land 0x3f))); Buffer.add_char b (Char.chr (0x80 lor (u land 0x3f))))) l;
  Buffer.contents b

let to_str (field : string) : M.n list = List.map n_of_int (decode (unhex field))
(* paths may be arbitrary bytes; the model works on code points, so non-UTF-8 paths are outside it *)
let to_str_lossy (field : string) : M.n list = to_str field
let of_str (s : M.n list) : string = hex (encode (List.map int_of_n s))
let bare (field : string) : string = unhex field     (* small ASCII selector fields *)

let ok toks = String.concat "\t" ("OK" :: toks)
let tf b = if b then "TRUE" else "FALSE"

let flags_of = function
  | "exec" -> M.fl_exec | "args" -> M.fl_args | "strv" -> M.fl_strv | _ -> failwith "bad flags"

let dump_unit (u : (M.n list * (M.n list * M.n list) list) list) : string list =
  List.concat_map (fun (name, es) ->
    "S" :: of_str name :: List.concat_map (fun (k, v) -> ["E"; of_str k; of_str v]) es) u @ ["."]

let parse_text (field : string) = M.parse_unit (to_str field)

let pres_list = function M.POk l -> ok (List.map of_str l) | M.PPanic -> "PANIC"

let rec unit_ops (u : (M.n list * (M.n list * M.n list) list) list) (errs : int) (f : string list) =
  match f with
  | [] -> (u, errs)
  | name :: rest ->
    (match bare name, rest with
     | "add", s :: k :: v :: r -> unit_ops (M.unit_add u (to_str s) (to_str k) (to_str v)) errs r
     | "add_raw", s :: k :: v :: r ->
         (match M.unit_add_raw u (to_str s) (to_str k) (to_str v) with Some u' -> unit_ops u' errs r | None -> unit_ops u (errs + 1) r)
     | "set", s :: k :: v :: r -> unit_ops (M.unit_set u (to_str s) (to_str k) (to_str v)) errs r
     | "set_raw", s :: k :: v :: r ->
         (match M.unquote_value (to_str v) with Some _ -> unit_ops (M.set_entry u (to_str s) (to_str k) (to_str v)) errs r | None -> unit_ops u (errs + 1) r)
     | "prepend", s :: k :: v :: r -> unit_ops (M.unit_prepend u (to_str s) (to_str k) (to_str v)) errs r
     | "rename", a :: b :: r -> unit_ops (M.rename_section u (to_str a) (to_str b)) errs r
     | "merge", t :: r -> (match parse_text t with Some o -> unit_ops (M.merge_from u o) errs r | None -> unit_ops u (errs + 1) r)
     | _ -> failwith "bad unit op")

let berr_class (e : M.berr) : string = match e with
  | M.EImageNotFound _ -> "ImageNotFound" | M.EInternal -> "InternalQuadletError" | M.EInvalidDeviceOptions -> "InvalidDeviceOptions"
  | M.EInvalidDeviceType -> "InvalidDeviceType" | M.EInvalidGroup -> "InvalidGroup" | M.EInvalidImageOrRootfs -> "InvalidImageOrRootfs"
  | M.EInvalidKillMode _ -> "InvalidKillMode" | M.EInvalidMountCsv -> "InvalidMountCsv" | M.EInvalidMountFormat _ -> "InvalidMountFormat"
  | M.EInvalidMountSource -> "InvalidMountSource" | M.EInvalidNetworkOptions -> "InvalidNetworkOptions" | M.EInvalidPod _ -> "InvalidPod"
  | M.EInvalidPortFormat _ -> "InvalidPortFormat" | M.EInvalidRelativeFile -> "InvalidRelativeFile" | M.EInvalidRemapUsers -> "InvalidRemapUsers"
  | M.EInvalidResourceNameIn _ -> "InvalidResourceNameIn" | M.EInvalidServiceType _ -> "InvalidServiceType"
  | M.EInvalidSetWorkingDirectory -> "InvalidSetWorkingDirectory" | M.EInvalidSubnet -> "InvalidSubnet"
  | M.ENoImageTagKeySpecified -> "NoImageTagKeySpecified" | M.ENoFileKeySpecified -> "NoFileKeySpecified"
  | M.ENoSetWorkingDirectoryNorFileKeySpecified -> "NoSetWorkingDirectoryNorFileKeySpecified" | M.ENoYamlKeySpecified -> "NoYamlKeySpecified"
  | M.EParsing -> "Parsing" | M.EPodNotFound _ -> "PodNotFound" | M.ESourceNotFound _ -> "SourceNotFound"
  | M.EUnsupportedValueForKey (_, _) -> "UnsupportedValueForKey"
let err_class (e : M.cerr) : string = match e with M.EUnknownKey _ -> "UnknownKey" | M.EB b -> berr_class b

let berr_detail (e : M.berr) : string = match e with
  | M.EImageNotFound s | M.EInvalidKillMode s | M.EInvalidMountFormat s | M.EInvalidPod s | M.EInvalidPortFormat s
  | M.EInvalidResourceNameIn s | M.EInvalidServiceType s | M.EPodNotFound s | M.ESourceNotFound s -> of_str s
  | M.EUnsupportedValueForKey (_, v) -> of_str v
  | _ -> "-"
let err_detail (e : M.cerr) : string = match e with M.EUnknownKey s -> of_str s | M.EB b -> berr_detail b

let exists_path (p : M.n list) : bool = Sys.file_exists (encode (List.map int_of_n p))
let podman_bin = List.map n_of_int (decode "/usr/bin/podman")

let run_convert (kill_fixed : bool) (mount_nl : bool) (f : string list) : string =
  match f with
  | _is_user :: rest ->
    let rec pairs = function p :: t :: r -> (to_str_lossy p, t) :: pairs r | _ -> [] in
    let files = pairs rest in
    (* files whose text is not UTF-8 are load errors of class Utf8, reported first like the driver does *)
    let decoded = List.map (fun (p, t) -> (p, (try Some (to_str t) with Bad_utf8 -> None))) files in
    let good = List.filter_map (fun (p, t) -> match t with Some t -> Some (p, t) | None -> None) decoded in
    let (loads, convs) = M.process_files podman_bin exists_path kill_fixed mount_nl good in
    let panic = ref false and skip = ref false in
    let out = ref [] in
    List.iter (fun (p, t) ->
      match t with
      | None -> out := !out @ ["L"; of_str p; "ERR"; "Utf8"; "-"]
      | Some _ ->
        (match List.assoc p loads with
         | M.LOk (_, _) -> ()
         | M.LParseErr -> out := !out @ ["L"; of_str p; "ERR"; "Unit"; "-"]
         | M.LTypeErr -> out := !out @ ["L"; of_str p; "ERR"; "UnsupportedQuadletType"; "-"]
         | M.LPanic -> panic := true)) decoded;
    List.iter (fun (p, r) ->
      match r with
      | M.ROk (svc, sp) -> out := !out @ (["F"; of_str p; "OK"; of_str sp] @ dump_unit svc)
      | M.RErr e -> out := !out @ ["F"; of_str p; "ERR"; err_class e; err_detail e]
      | M.RPanic -> panic := true
      | M.RSkip -> skip := true) convs;
    if !panic then "PANIC" else if !skip then "SKIP" else ok !out
  | [] -> "ERR\tbad-convert"

(* a run over unit files WITH drop-ins: fields  names_after(1|0)  then per file  path  main-text  n  dropin-text*n ; output as "convert" *)
let run_convert_tree (f : string list) : string =
  match f with
  | na :: rest ->
    let rec take k l acc = if k = 0 then (List.rev acc, l) else (match l with x :: r -> take (k - 1) r (x :: acc) | [] -> (List.rev acc, [])) in
    let rec files = function
      | p :: t :: n :: r -> let (ds, r') = take (int_of_string (bare n)) r [] in ((to_str_lossy p, to_str t), List.map to_str ds) :: files r'
      | _ -> [] in
    let fs = (try files rest with Bad_utf8 -> []) in
    let (loads, convs) = M.process_trees podman_bin exists_path true false (bare na = "1") fs in
    let panic = ref false and skip = ref false in
    let out = ref [] in
    List.iter (fun (p, l) ->
      match l with
      | M.LOk (_, _) -> ()
      | M.LParseErr -> out := !out @ ["L"; of_str p; "ERR"; "Unit"; "-"]
      | M.LTypeErr -> out := !out @ ["L"; of_str p; "ERR"; "UnsupportedQuadletType"; "-"]
      | M.LPanic -> panic := true) loads;
    List.iter (fun (p, r) ->
      match r with
      | M.ROk (svc, sp) -> out := !out @ (["F"; of_str p; "OK"; of_str sp] @ dump_unit svc)
      | M.RErr e -> out := !out @ ["F"; of_str p; "ERR"; err_class e; err_detail e]
      | M.RPanic -> panic := true
      | M.RSkip -> skip := true) convs;
    if !panic then "PANIC" else if !skip then "SKIP" else ok !out
  | [] -> "ERR\tbad-convert-tree"

let run (op : string) (f : string list) : string =
  match op, f with
  | "convert", f -> run_convert true false f
  | "convert_pinned", f -> run_convert false true f
  | "convert_tree", f -> run_convert_tree f
  | ("links" | "links_pinned"), [out; svcfile; text] ->
      (match parse_text text with
       | None -> "ERR\tUnit"
       | Some u ->
         (match M.plan_links (op = "links") (to_str out) u (to_str svcfile) with
          | M.COk l -> ok (List.concat_map (fun (p, t) -> [of_str p; of_str t]) l)
          | M.CPanic -> "PANIC" | M.CSkip -> "SKIP" | M.CErr (_, _) -> "ERR"))
  | "root_includes", comps -> ok [tf (M.root_includes (List.map to_str comps))]
  | ("rootless_includes" | "rootless_includes_pinned"), uid :: comps ->
      ok [tf (M.rootless_includes (op = "rootless_includes") (to_str uid) (List.map to_str comps))]
  | "is_url", [s] -> ok [tf (M.is_url (to_str s))]
  | "digest", f ->
      (* the same projection of a whole run that tools/vlib.py step_incoq evaluates inside Coq: per result a tag and the service text *)
      let rec pairs = function p :: t :: r -> (to_str p, to_str t) :: pairs r | _ -> [] in
      let (_, convs) = M.process_files podman_bin (fun _ -> false) true false (pairs f) in
      ok (List.concat_map (fun (_, r) -> match r with
            | M.ROk (svc, sp) -> ["1"; of_str (M.to_string svc @ [n_of_int 0] @ sp)]
            | M.RErr _ -> ["2"; of_str []] | M.RPanic -> ["3"; of_str []] | M.RSkip -> ["4"; of_str []]) convs)
  | "quote_words_raw", ws -> ok [of_str (M.quote_words (List.map to_str ws))]
  | "c07_lists", [w] ->
      let w = bare w in
      if w = "managed" then ok (List.map of_str M.mANAGED) else
      let t = (match w with "container" -> M.TContainer | "kube" -> M.TKube | "pod" -> M.TPod | "build" -> M.TBuild
                          | "image" -> M.TImage | "network" -> M.TNetwork | _ -> M.TVolume) in
      ok (List.concat_map (fun (a, b) -> [of_str a; of_str b]) (M.a_of t))
  | "cleaned", [p] -> ok [of_str (M.cleaned (to_str p))]
  | "absolute_from", [p; r] -> (match M.absolute_from (to_str p) (to_str r) with Some x -> ok [of_str x] | None -> "CWD")
  | "absolute_from_unit", [p; u] -> (match M.absolute_from_unit (to_str p) (to_str u) with Some x -> ok [of_str x] | None -> "CWD")
  | "specifier", [p] -> ok [tf (M.starts_with_systemd_specifier (to_str p))]
  | "template_parts", [p] ->
      let o = function Some v -> "S" ^ of_str v | None -> "N" in
      let (a, b) = M.template_parts (to_str p) in ok [o a; o b]
  | "parse", [t] -> (match parse_text t with Some u -> ok (dump_unit u) | None -> "ERR\tUnit")
  | "render", [t] -> (match parse_text t with
      | Some u -> ok [of_str (M.to_string u); of_str (List.concat (M.write_calls u))]
      | None -> "ERR\tUnit")
  | "unit_ops", ops ->
      let (u, errs) = unit_ops [] 0 ops in
      ok (string_of_int errs :: dump_unit u @ [of_str (M.to_string u)])
  | "lookup", [t; sec; key; kind] ->
      (match parse_text t with
       | Some u ->
         let sec = to_str sec and key = to_str key in
         (match bare kind with
          | "last" -> (match M.lookup_last u sec key with Some (M.POk v) -> ok ["SOME"; of_str v] | Some M.PPanic -> "PANIC" | None -> ok ["NONE"])
          | "last_raw" -> (match M.lookup_last_value u sec key with Some v -> ok ["SOME"; of_str v] | None -> ok ["NONE"])
          | "bool" -> (match M.lookup_bool u sec key with Some true -> ok ["TRUE"] | Some false -> ok ["FALSE"] | None -> ok ["NONE"])
          | "all" -> pres_list (M.lookup_all u sec key)
          | "all_raw" -> ok (List.map of_str (M.lookup_all_values u sec key))
          | "args" -> ok (List.map of_str (M.lookup_all_args u sec key))
          | "strv" -> ok (List.map of_str (M.lookup_all_strv u sec key))
          | "keyval" ->
              let kv = List.map (fun (k, v) -> (encode (List.map int_of_n k), encode (List.map int_of_n v))) (M.lookup_all_key_val u sec key) in
              let kv = List.sort compare kv in
              ok (List.concat_map (fun (k, v) -> [hex k; hex v]) kv)
          | "has_key" -> ok [tf (M.has_key u sec key)]
          | _ -> failwith "bad lookup kind")
       | None -> "ERR\tUnit")
  | "parse_bool", [s] ->
      (match M.unquote_value (to_str s) with
       | None -> "ERR"
       | Some _ -> (match M.to_bool (to_str s) with Some true -> ok ["TRUE"] | Some false -> ok ["FALSE"] | None -> ok ["INVALID"]))
  | "quote_words", ws -> ok [of_str (M.quote_words (List.map to_str ws))]
  | "quote_words_pinned", ws -> ok [of_str (M.quote_words_pinned (List.map to_str ws))]
  | "quote_value", [s] -> ok [of_str (M.quote_value (to_str s))]
  | "unquote", [s] -> (match M.unquote_value (to_str s) with Some r -> ok [of_str r] | None -> "ERR")
  | "unquote_pinned", [s] -> (match M.unquote_value_pinned (to_str s) with Some r -> ok [of_str r] | None -> "ERR")
  | "split_word", [s] -> ok (List.map of_str (M.split_word_all (to_str s)))
  | "split_word_pinned", [s] -> ok (List.map of_str (M.split_word_all_pinned (to_str s)))
  | "split_strv", [s] -> ok (List.map of_str (M.split_strv_all (to_str s)))
  | "split_strv_pinned", [s] -> ok (List.map of_str (M.split_strv_all_pinned (to_str s)))
  | "port", [s] -> ok [tf (M.is_port_range (to_str s))]
  | "port_pinned", [s] -> ok [tf (M.is_port_range_pinned (to_str s))]
  | "trim", [s] -> ok [of_str (M.trim (to_str s))]
  (* oracle: systemd splitting of a line *)
  | "sd_split", [fl; raw] ->
      (match M.sd_split (flags_of (bare fl)) (to_str raw) with
       | Some ws -> ok (List.map of_str ws)
       | None -> "ERR")
  | _ -> "ERR\tunknown-op"


let () =
  try
    while true do
      let line = input_line stdin in
      let parts = String.split_on_char '\t' line in
      let r = match parts with
        | [] -> "ERR\tempty"
        | op :: f -> (try run op f with
                      | Bad_utf8 -> "ERR\tUtf8"
                      | Failure m -> "MODELFAIL\t" ^ hex m
                      | Stack_overflow -> "MODELFAIL\t" ^ hex "stack"
                      | Not_found -> "MODELFAIL\t" ^ hex "notfound"
                      | Invalid_argument m -> "MODELFAIL\t" ^ hex m) in
      print_string r; print_char '\n'
    done
  with End_of_file -> ()
