#!/bin/sh
# build ocaml/modelrun from the extracted model
set -e
B=/verif/.build/ocaml
mkdir -p $B
cp /verif/coq/Extract/model.ml /verif/coq/Extract/model.mli /verif/ocaml/modelrun.ml $B/
cd $B
ocamlfind ocamlopt -O2 -w -a model.mli model.ml modelrun.ml -o modelrun 2>/dev/null || ocamlfind ocamlopt -w -a model.mli model.ml modelrun.ml -o modelrun
