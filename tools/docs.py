"""The DOCUMENTED keys of each Quadlet unit type and the podman option each one adds (podman-systemd.unit(5) as of the
podman release this port tracks; DESIGN.md Appendix A).  Written by hand from the documentation, independently of
src/quadlet/convert.rs; used by the direct oracles of C02, C06, C07, C16 and mirrored by coq/Spec/Docs.v.

kind:
  str    single value, unquoted as a whole; option omitted when the effective value is empty     -> [opt, V]
  streq  like str but rendered as one argument  opt=V
  bool   opt  /  opt=false
  all    one option per (effective) assignment, value unquoted as a whole                       -> [opt, V]*
  strv   one option per word, strv splitting (escapes kept)                                       -> [opt, W]*
  args   one option per word, args splitting (escapes decoded)                                   -> [opt, W]*
  kv     NAME=VALUE words (args splitting), last value per name                                  -> [opt, N=V]* (order unspecified)
  special   has its own rule (see oracle code); listed so that C16 knows the key is documented
"""

COMMON = {"ContainersConfModule": ("all", "--module", "global"), "GlobalArgs": ("argsraw", None, "global"),
          "PodmanArgs": ("argsraw", None, "tail"), "ServiceName": ("special", None, None)}

CONTAINER = {
    "ContainerName": ("special", "--name"), "CgroupsMode": ("special", "--cgroups"),
    "Timezone": ("str", "--tz"), "PidsLimit": ("str", "--pids-limit"), "ShmSize": ("str", "--shm-size"),
    "Entrypoint": ("str", "--entrypoint"), "WorkingDir": ("str", "--workdir"), "IP": ("str", "--ip"), "IP6": ("str", "--ip6"),
    "HostName": ("str", "--hostname"), "StopSignal": ("str", "--stop-signal"), "StopTimeout": ("str", "--stop-timeout"),
    "Pull": ("str", "--pull"), "LogDriver": ("str", "--log-driver"),
    "UserNS": ("str", "--userns"), "SubUIDMap": ("str", "--subuidname"), "SubGIDMap": ("str", "--subgidname"),
    "HealthCmd": ("str", "--health-cmd"), "HealthInterval": ("str", "--health-interval"), "HealthOnFailure": ("str", "--health-on-failure"),
    "HealthRetries": ("str", "--health-retries"), "HealthStartPeriod": ("str", "--health-start-period"), "HealthTimeout": ("str", "--health-timeout"),
    "HealthStartupCmd": ("str", "--health-startup-cmd"), "HealthStartupInterval": ("str", "--health-startup-interval"),
    "HealthStartupRetries": ("str", "--health-startup-retries"), "HealthStartupSuccess": ("str", "--health-startup-success"),
    "HealthStartupTimeout": ("str", "--health-startup-timeout"),
    "SeccompProfile": ("special", "--security-opt"), "SecurityLabelType": ("special", "--security-opt"),
    "SecurityLabelFileType": ("special", "--security-opt"), "SecurityLabelLevel": ("special", "--security-opt"),
    "AutoUpdate": ("special", "--label"),
    "RunInit": ("bool", "--init"), "EnvironmentHost": ("bool", "--env-host"), "ReadOnlyTmpfs": ("bool", "--read-only-tmpfs"),
    "ReadOnly": ("bool", "--read-only"),
    "NoNewPrivileges": ("special", None), "SecurityLabelDisable": ("special", None), "SecurityLabelNested": ("special", None),
    "VolatileTmp": ("special", None),
    "NetworkAlias": ("all", "--network-alias"), "Ulimit": ("all", "--ulimit"), "DNS": ("all", "--dns"), "DNSOption": ("all", "--dns-option"),
    "DNSSearch": ("all", "--dns-search"), "GroupAdd": ("all", "--group-add"), "AddHost": ("all", "--add-host"), "Tmpfs": ("all", "--tmpfs"),
    "PublishPort": ("all", "--publish"), "ExposeHostPort": ("special", "--expose"), "Network": ("special", "--network"), "Volume": ("special", "-v"),
    "AddCapability": ("special", "--cap-add"), "DropCapability": ("special", "--cap-drop"), "AddDevice": ("special", "--device"),
    "Sysctl": ("strv", "--sysctl"), "LogOpt": ("strv", "--log-opt"), "UIDMap": ("strv", "--uidmap"), "GIDMap": ("strv", "--gidmap"),
    "RemapUid": ("special", None), "RemapGid": ("special", None), "RemapUidSize": ("special", None), "RemapUsers": ("special", None),
    "Secret": ("args", "--secret"), "Mask": ("special", "--security-opt"), "Unmask": ("special", "--security-opt"),
    "EnvironmentFile": ("special", "--env-file"), "Mount": ("special", "--mount"), "Exec": ("special", None),
    "Environment": ("kv", "--env"), "Label": ("kv", "--label"), "Annotation": ("kv", "--annotation"),
    "Image": ("special", None), "Rootfs": ("special", "--rootfs"), "User": ("special", "--user"), "Group": ("special", "--user"),
    "Notify": ("special", None), "Pod": ("special", None), "StartWithPod": ("special", None),
}

POD = {
    "PodName": ("special", "--name"), "IP": ("str", "--ip"), "IP6": ("str", "--ip6"),
    "UserNS": ("str", "--userns"), "SubUIDMap": ("str", "--subuidname"), "SubGIDMap": ("str", "--subgidname"),
    "NetworkAlias": ("all", "--network-alias"), "DNS": ("all", "--dns"), "DNSOption": ("all", "--dns-option"), "DNSSearch": ("all", "--dns-search"),
    "AddHost": ("all", "--add-host"), "PublishPort": ("all", "--publish"), "Network": ("special", "--network"), "Volume": ("special", "-v"),
    "UIDMap": ("strv", "--uidmap"), "GIDMap": ("strv", "--gidmap"),
    "RemapUid": ("special", None), "RemapGid": ("special", None), "RemapUidSize": ("special", None), "RemapUsers": ("special", None),
}

VOLUME = {
    "VolumeName": ("special", None), "Driver": ("str", "--driver"), "Device": ("special", "--opt"), "Type": ("special", "--opt"),
    "Options": ("special", "--opt"), "User": ("special", "--opt"), "Group": ("special", "--opt"), "Image": ("special", "--opt"),
    "Copy": ("special", "--opt"), "Label": ("kv", "--label"),
}

NETWORK = {
    "NetworkName": ("special", None), "Driver": ("str", "--driver"), "IPAMDriver": ("str", "--ipam-driver"),
    "DisableDNS": ("bool", "--disable-dns"), "Internal": ("bool", "--internal"), "IPv6": ("bool", "--ipv6"),
    "DNS": ("all", "--dns"), "Subnet": ("special", "--subnet"), "Gateway": ("special", "--gateway"), "IPRange": ("special", "--ip-range"),
    "Options": ("kv", "--opt"), "Label": ("kv", "--label"),
}

KUBE = {
    "Yaml": ("special", None), "ExitCodePropagation": ("streq", "--service-exit-code-propagation"), "LogDriver": ("str", "--log-driver"),
    "UserNS": ("str", "--userns"), "SetWorkingDirectory": ("special", None), "KubeDownForce": ("special", "--force"),
    "Network": ("special", "--network"), "PublishPort": ("all", "--publish"), "LogOpt": ("strv", "--log-opt"),
    "ConfigMap": ("special", "--configmap"), "AutoUpdate": ("special", "--annotation"),
    "RemapUid": ("special", None), "RemapGid": ("special", None), "RemapUidSize": ("special", None), "RemapUsers": ("special", None),
}

IMAGE = {
    "Image": ("special", None), "Arch": ("str", "--arch"), "AuthFile": ("str", "--authfile"), "CertDir": ("str", "--cert-dir"),
    "Creds": ("str", "--creds"), "DecryptionKey": ("str", "--decryption-key"), "OS": ("str", "--os"), "Variant": ("str", "--variant"),
    "ImageTag": ("special", None), "AllTags": ("bool", "--all-tags"), "TLSVerify": ("bool", "--tls-verify"),
}

BUILD = {
    "Pull": ("streq", "--pull"), "Arch": ("str", "--arch"), "AuthFile": ("str", "--authfile"), "Target": ("str", "--target"),
    "Variant": ("str", "--variant"), "File": ("special", "--file"), "SetWorkingDirectory": ("special", None),
    "TLSVerify": ("bool", "--tls-verify"), "ForceRM": ("bool", "--force-rm"),
    "DNS": ("all", "--dns"), "DNSOption": ("all", "--dns-option"), "DNSSearch": ("all", "--dns-search"), "GroupAdd": ("all", "--group-add"),
    "ImageTag": ("all", "--tag"), "Network": ("special", "--network"), "Volume": ("special", "-v"), "Secret": ("args", "--secret"),
    "Annotation": ("kv", "--annotation"), "Environment": ("kv", "--env"), "Label": ("kv", "--label"),
}

TYPES = {
    "container": ("Container", CONTAINER), "pod": ("Pod", POD), "volume": ("Volume", VOLUME), "network": ("Network", NETWORK),
    "kube": ("Kube", KUBE), "image": ("Image", IMAGE), "build": ("Build", BUILD),
}

QUADLET_KEYS = ["DefaultDependencies"]


def documented_keys(typ):
    sec, table = TYPES[typ]
    return sorted(set(table) | set(COMMON))


def kind_of(typ, key):
    sec, table = TYPES[typ]
    if key in table:
        return table[key]
    if key in COMMON:
        return COMMON[key][:2]
    return None


# the minimal text that makes a unit of each type convertible
MINIMAL = {
    "container": "Image=img\n", "pod": "", "volume": "", "network": "", "kube": "Yaml=/y.yml\n", "image": "Image=quay.io/x/y\n",
    "build": "ImageTag=localhost/t\nFile=/Containerfile\n",
}
SUFFIX = {"container": "", "pod": "-pod", "volume": "-volume", "network": "-network", "kube": "", "image": "-image", "build": "-build"}
