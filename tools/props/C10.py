"""C10 -- files are converted independently; exit status reflects failures."""
import os, re
import vlib, e2e, gen_conv, docs
from vlib import show

THEOREMS = ["C10_exit", "C10_one_result_per_file", "C10_each_unit_converted_once", "C10_unloadable_files_change_nothing", "C10_added_files_change_nothing", "C10_added_files_keep_results", "C10_convert_one_monotone", "C10_sort_filter", "C10_independence_example", "C10_priority_table", "C10_added_files_change_nothing_pods", "C10_pod_independence_example", "C10_one_result_per_file_with_dropins", "C10_each_unit_converted_once_with_dropins", "C10_unloadable_files_change_nothing_with_dropins", "C10_added_files_change_nothing_with_dropins", "C10_added_files_change_nothing_pods_with_dropins", "C10_lone_unit_result_any_order", "C10_lone_unit_example", "C10_group_result_any_surroundings"]

BROKEN = {
    "syntax": "[Container\nImage=x\n",
    "nosection": "Image=x\n",
    "unknown_key": "[Container]\nImage=img\nNotAKey=1\n",
    "missing_image": "[Container]\nPodmanArgs=--x\n",
    "dangling": "[Container]\nImage=img\nVolume=ghost.volume:/data\n",
    "bad_escape": "[Container]\nImage=img\nExec=\\q\n",
    "invalid_utf8": b"[Container]\nImage=\xff\xfe\n",
    "bad_port": "[Container]\nImage=img\nExposeHostPort=http\n",
}



def inventory(ctx):
    """the conversion loop of main.rs::process, which the in-process driver's op "convert" re-implements: sort key, order of
    sorting / table construction / conversion, the converter called for each type, and the priorities of the driver"""
    import gen_tables
    txt = " ".join(t[1] for t in gen_tables.nontest_tokens("src/main.rs"))
    sort_ok = ("units . sort_unstable_by ( | a , b | { let a_typ = match QuadletType :: from_path ( a . unit_file . path ( ) ) { Ok ( typ ) => sorting_priority . get ( & typ ) . unwrap_or ( & usize :: MAX ) , Err ( _ ) => & usize :: MAX , } ; "
               "let b_typ = match QuadletType :: from_path ( b . unit_file . path ( ) ) { Ok ( typ ) => sorting_priority . get ( & typ ) . unwrap_or ( & usize :: MAX ) , Err ( _ ) => & usize :: MAX , } ; "
               "a_typ . partial_cmp ( b_typ ) . unwrap_or ( Ordering :: Less ) } ) ; let mut units_info_map = UnitsInfoMap :: from_quadlet_units ( units . clone ( ) ) ; for quadlet in units {") in txt
    ctx.oblig("process-loop inventory: units are sorted ascending by sorting_priority of their type, then the name table is built from the sorted list, then the units are converted in that order",
              sort_ok, "the sort / table / loop sequence of main.rs::process changed")
    disp = re.findall(r"QuadletType :: (\w+) => (?:\{ )?(?:warn_if_ambiguous_image_name \( unit , \w+ \) ; )?convert :: (\w+) \( unit , & mut units_info_map , cfg \. is_user \)", txt)
    want = [("Build", "from_build_unit"), ("Container", "from_container_unit"), ("Image", "from_image_unit"), ("Kube", "from_kube_unit"), ("Network", "from_network_unit"), ("Pod", "from_pod_unit"), ("Volume", "from_volume_unit")]
    ctx.oblig("process-loop inventory: each unit type is handed to its own converter with the shared name table", sorted(disp) == want, "found %s" % disp)
    drv = open(os.path.join(vlib.VERIF, "harness", "verif_driver.rs")).read()
    body = drv[drv.index("fn prio("):drv.index("fn op_convert")]
    dp = {}
    for arms, n in re.findall(r"((?:QuadletType::\w+\s*\|?\s*)+)=>\s*(\d+)", body):
        for t in re.findall(r"QuadletType::(\w+)", arms):
            dp[t] = int(n)
    src = (ctx.tables or {}).get("priority", {})
    ctx.oblig("process-loop inventory: the priorities of the in-process driver are the ones found in main.rs today", bool(src) and dp == src, "driver %s source %s" % (dp, src))


def canon(text):
    lines = text.rstrip("\n").split("\n")
    ex = [(i, l) for i, l in enumerate(lines) if re.match(r"Exec\w*=", l)]
    argvs = vlib.sd_split_many([l.split("=", 1)[1].encode() for _, l in ex]) if ex else []
    for (i, l), a in zip(ex, argvs):
        lines[i] = (l.split("=", 1)[0], vlib.canon_argv(a))
    # SourcePath depends on where the file was placed: compare its basename only; relative paths in values are resolved against the
    # unit's own directory, which is part of the placement: that directory is replaced by a token wherever it appears
    udir = [os.path.dirname(l.split("=", 1)[1]) for l in lines if isinstance(l, str) and l.startswith("SourcePath=")]
    if udir and udir[0] not in ("", "/"):
        sub = lambda x: x.replace(udir[0], "<UNITDIR>") if isinstance(x, str) else x
        lines = [(l[0], [sub(a) for a in l[1]]) if isinstance(l, tuple) else sub(l) if not l.startswith("SourcePath=") else l for l in lines]
    return [(("SourcePath", os.path.basename(l.split("=", 1)[1])) if isinstance(l, str) and l.startswith("SourcePath=") else l) for l in lines]


PLACED = {}          # file name -> full path of the last placement (the errors must name the PATH of the offending file)


def place(rng, files, root, ndirs):
    """distribute files over search directories and subdirectories, creating them in a random order"""
    dirs = ["d%d" % i for i in range(ndirs)]
    subs = [d + "/" + rng.choice(["", "sub", "sub/deep"]) for d in dirs]
    order = list(files.items())
    rng.shuffle(order)
    for name, content in order:
        d = rng.choice(subs).rstrip("/")
        os.makedirs(os.path.join(root, d), exist_ok=True)
        p = os.path.join(root, d, name)
        PLACED[name] = p
        if content is None:
            os.makedirs(p)
        elif isinstance(content, tuple):
            os.symlink(content[1], p)          # ("symlink", target): e.g. a dangling link named like a unit
        else:
            with open(p, "wb") as f:
                f.write(content.encode() if isinstance(content, str) else content)
    for d in dirs:
        os.makedirs(os.path.join(root, d), exist_ok=True)
    return [os.path.join(root, d) for d in dirs]


def run(ctx):
    ctx.rule = ("a base set S of 2-6 valid units of all types (with references inside S) and an extra set E of 1-5 files (valid units, and broken ones: syntax error, no section, unknown key, "
                "missing image, dangling reference, bad escape, invalid UTF-8, bad value, a directory named like a unit, a dangling symbolic link named like a unit), names disjoint, nothing in S referring to E and no valid container of E naming a pod of S (failing ones may); "
                "also runs in which every file fails to load or to convert, and runs with 256 / 512 failing files (the exit status must not wrap), and an unloadable file that has the NAME of a valid unit found later in the search order; S alone and S+E each placed over 1-3 search directories with nested subdirectories in random creation order; compared service by service; non-trivial = E contains at least one broken file; "
                "distinct = distinct (S, E)")
    rng = ctx.rng
    n = ctx.volume(60, 800)
    with e2e.Box() as box:
        for i in range(n):
            S = {}
            S["net.network"] = "[Network]\nLabel=k=v\n"
            S["data.volume"] = "[Volume]\nVolumeName=vol-data\n"
            S["web.container"] = "[Container]\nImage=img\nNetwork=net.network\nVolume=data.volume:/srv\nEnvironment=A=1 B=2\n[Install]\nWantedBy=default.target\n"
            if rng.random() < 0.7:
                # references between the lower priority classes: a volume backed by an image, a build using a volume and a network
                S["base.image"] = "[Image]\nImage=quay.io/base:1\n"
                S["imgvol.volume"] = "[Volume]\nDriver=image\nImage=base.image\n"
                S["bld.build"] = "[Build]\nImageTag=localhost/bld\nFile=/Containerfile\nVolume=data.volume:/bv\nNetwork=net.network\n"
            if rng.random() < 0.6:
                S["pd.pod"] = "[Pod]\n"
                S["in.container"] = "[Container]\nImage=img\nPod=pd.pod\n"
            for j in range(rng.randint(0, 2)):
                typ = rng.choice(["container", "volume", "network", "image", "kube"])
                S["s%d.%s" % (j, typ)] = re.sub(r"(?m)^ServiceName=(.*)$", lambda m: "ServiceName=%s-s%d" % (m.group(1), j), gen_conv.gen_unit(rng, typ, 0.3)[0])
            E, broken = {}, []
            for j in range(rng.randint(1, 5)):
                r = rng.random()
                if r < 0.35:
                    typ = rng.choice(list(docs.TYPES))
                    # service names of the extra units are kept apart from those of the base set (a collision makes two units share one service file)
                    E["e%d.%s" % (j, typ)] = re.sub(r"(?m)^ServiceName=(.*)$", lambda m: "ServiceName=%s-e%d" % (m.group(1), j), gen_conv.gen_unit(rng, typ, 0.3)[0])
                elif r < 0.92:
                    kind = rng.choice(list(BROKEN))
                    E["x%d.container" % j] = BROKEN[kind]; broken.append("x%d.container" % j)
                elif r < 0.96:
                    E["dir%d.container" % j] = None; broken.append("dir%d.container" % j)
                else:
                    # an unreadable unit file: a symbolic link to nothing (or to itself)
                    E["gone%d.container" % j] = ("symlink", rng.choice(["/nonexistent/target.container", "nowhere.container", "gone%d.container" % j])); broken.append("gone%d.container" % j)
            if "pd.pod" in S and rng.random() < 0.5:
                # a file that names a pod of the base set but fails conversion (at the first check, or after every handler has run): the pod does not reference it
                kind = rng.choice(["Rootfs=/also\n", "Volume=ghost.volume:/data\n", "ExposeHostPort=http\n", "Group=g\n", "Network=ghost.network\n", "PodmanArgs=\\q\n", "[Service]\nType=forking\n"])
                E["xm.container"] = "[Container]\nImage=img\nPod=pd.pod\n" + kind; broken.append("xm.container")
            r1, r2 = box.path("%d_a" % i), box.path("%d_b" % i)
            os.makedirs(r1); os.makedirs(r2)
            d1 = place(rng, S, r1, rng.randint(1, 3))
            both = dict(S); both.update(E)
            d2 = place(rng, both, r2, rng.randint(1, 3))
            rc1, out1, err1 = e2e.run_quadlet(d1, os.path.join(r1, "out"), dry_run=True)
            rc2, out2, err2 = e2e.run_quadlet(d2, os.path.join(r2, "out"), dry_run=True)
            s1 = {os.path.basename(k): v for k, v in e2e.parse_dry_run(out1).items()}
            s2 = {os.path.basename(k): v for k, v in e2e.parse_dry_run(out2).items()}
            ctx.evaluations += 1
            if broken:
                ctx.nontrivial.add(str((sorted(S.items()), sorted((k, str(v)) for k, v in E.items()))))
            ctx.count("broken_files=%d" % len(broken))
            bad = None
            if rc1 != 0:
                bad = "base set alone exits with %s: %s" % (rc1, err1.decode("utf-8", "replace")[-300:])
            else:
                for name, text in s1.items():
                    if name not in s2:
                        bad = "service %s of the base set disappears when unrelated files are added" % name
                    elif canon(text) != canon(s2[name]):
                        a, b = canon(text), canon(s2[name])
                        d = [(x, y) for x, y in zip(a, b) if x != y][:2] or [("length", len(a), len(b))]
                        bad = "service %s of the base set changes when unrelated files are added: %s" % (name, d)
            if not bad:
                errt = err2.decode("utf-8", "surrogateescape")
                if (rc2 != 0) != bool(broken):
                    bad = "exit status %s with broken files %s" % (rc2, broken)
                else:
                    for b in broken:
                        if not any(PLACED[b] in l and "ERROR" in l for l in errt.split("\n")):
                            bad = "no error line naming the path %s of the failing file" % PLACED[b]
            if bad:
                ctx.failures.append({"op": "e2e", "base": sorted(S), "extra": {k: (show(v) if isinstance(v, (str, bytes)) else ("<directory>" if v is None else "<symlink to %s>" % v[1])) for k, v in E.items()}, "what": bad, "class": None})
        # a file that cannot be loaded does not stand in for a valid file of the same name found later in the search order
        for kind in ("syntax", "nosection", "invalid_utf8", "directory", "dangling"):
            root = box.path("same_%s" % kind)
            good = "[Container]\nImage=img\nLabel=k=v\n"
            e2e.make_tree(root, {"late/web.container": good, "late/other.volume": "[Volume]\n", "only/web.container": good, "only/other.volume": "[Volume]\n", "early/.keep": ""})
            bp = os.path.join(root, "early", "web.container")
            if kind == "directory":
                os.makedirs(bp)
            elif kind == "dangling":
                os.symlink("/nonexistent/web.container", bp)
            else:
                open(bp, "wb").write(BROKEN[kind].encode() if isinstance(BROKEN[kind], str) else BROKEN[kind])
            rc1, out1, err1 = e2e.run_quadlet([os.path.join(root, "only")], os.path.join(root, "out"), dry_run=True)
            rc2, out2, err2 = e2e.run_quadlet([os.path.join(root, "early"), os.path.join(root, "late")], os.path.join(root, "out"), dry_run=True)
            s1 = {os.path.basename(k): [l for l in canon(v) if not str(l).startswith("SourcePath=")] for k, v in e2e.parse_dry_run(out1).items()}
            s2 = {os.path.basename(k): [l for l in canon(v) if not str(l).startswith("SourcePath=")] for k, v in e2e.parse_dry_run(out2).items()}
            ctx.evaluations += 1
            ctx.count("same_name_broken_first:" + kind)
            ctx.nontrivial.add(("same_name", kind))
            errt = err2.decode("utf-8", "surrogateescape")
            bad = None
            if s1 != s2:
                bad = "a %s file named web.container in an earlier search directory changes the services: %s instead of %s" % (kind, sorted(s2), sorted(s1))
            elif rc2 == 0 or not any("early/web.container" in l and "ERROR" in l for l in errt.split("\n")):
                bad = "the unloadable early/web.container (%s) is not reported: exit status %s" % (kind, rc2)
            if bad:
                ctx.failures.append({"op": "e2e", "base": ["late/web.container", "late/other.volume"], "extra": {"early/web.container": kind}, "what": bad, "class": None})
        # many failures at once: the exit status is a yes/no answer, not a count (256 failing files must not wrap to 0)
        for nbad, kind in ((256, "unknown_key"), (512, "syntax")):
            root = box.path("many_%d" % nbad)
            files = {"ok.container": "[Container]\nImage=img\n"}
            for j in range(nbad):
                files["u/b%03d.container" % j] = BROKEN[kind] if kind in BROKEN else "[Container]\nNoSuchKey=1\nImage=img\n"
            e2e.make_tree(root, {("u/" + k if not k.startswith("u/") else k): v for k, v in files.items()})
            rc, out, err = e2e.run_quadlet([os.path.join(root, "u")], os.path.join(root, "out"), dry_run=True, timeout=120)
            ctx.evaluations += 1
            ctx.count("many_failures=%d" % nbad)
            if rc == 0 or rc in (101, 134, "timeout"):
                ctx.failures.append({"op": "e2e", "base": ["ok.container"], "extra": {"%d files" % nbad: kind}, "what": "exit status %s with %d failing files" % (rc, nbad), "class": None})
        # references across search directories: the referring file discovered before / after the file it refers to
        import e2e_refs
        for b in e2e_refs.failures(e2e_refs.run(box, "c10")):
            ctx.failures.append({"op": "e2e", "base": sorted({**e2e_refs.REFERRERS, **e2e_refs.REFERENCED}), "extra": {}, "what": b, "class": None})
        ctx.evaluations += 2
        ctx.count("reference_orders", 2)
        # runs in which NO file survives loading, or none converts: the exit status and the error lines must still be there
        load_fail = ["syntax", "nosection", "invalid_utf8"]
        for i in range(ctx.volume(30, 300)):
            kinds = [rng.choice(load_fail if i % 2 == 0 else list(BROKEN)) for _ in range(rng.randint(1, 4))]
            files = {"f%d.%s" % (j, rng.choice(["container", "volume", "kube"]) if k in load_fail else "container"): BROKEN[k] for j, k in enumerate(kinds)}
            if i % 2 == 1 and not any(k in load_fail for k in kinds):
                pass
            root = box.path("only_%d" % i)
            os.makedirs(root)
            ds = place(rng, files, root, rng.randint(1, 2))
            rc, out, err = e2e.run_quadlet(ds, os.path.join(root, "out"), dry_run=bool(i % 3))
            errt = err.decode("utf-8", "surrogateescape")
            ctx.evaluations += 1
            ctx.nontrivial.add(str(sorted((k, str(v)) for k, v in files.items())))
            ctx.count("only_broken_files=%d" % len(files))
            bad = None
            if rc == 0 or rc in (101, 134, "timeout"):
                bad = "exit status %s although every file fails (%s)" % (rc, kinds)
            else:
                for name in files:
                    if not any(name in l and "ERROR" in l for l in errt.split("\n")):
                        bad = "no error line naming %s" % name
            if bad:
                ctx.failures.append({"op": "e2e", "base": [], "extra": {k: show(v) for k, v in files.items()}, "what": bad, "class": None})
    ctx.samples = [{"base": ["net.network", "data.volume", "web.container", "pd.pod", "in.container"], "extra_kinds": sorted(BROKEN)}]
    ctx.oblig("direct oracle: every service of the base set is unchanged (up to name=value option order) by unrelated valid/broken files, placements and creation orders; exit status is non-zero exactly when a file fails; each failing file is named in an ERROR line",
              not ctx.failures, "%d failures" % len(ctx.failures))


def replay(ctx, obj):
    f = obj.get("failure") or {}
    print("replay: re-run ./check C10 (sets are regenerated from the seed): %s" % f.get("what"))
    return 1
