"""C14 -- root never reads per-user directories; a user reads only its own and shared ones."""
import json, os, shutil, subprocess, tempfile
import vlib, e2e
from vlib import hx, unhx, case_line, show

THEOREMS = ["C14_root", "C14_user", "C14_pinned_refuted"]

STAGE = r'''
set -e
mount -t tmpfs tmpfs /etc
mount -t tmpfs tmpfs /run
mount -t tmpfs tmpfs /usr/share
python3 - "$1" <<'PY'
import json, os, sys
plan = json.load(open(sys.argv[1]))
for d, marker in plan["dirs"]:
    os.makedirs(d, exist_ok=True)
    if marker:
        with open(os.path.join(d, marker + ".container"), "w") as f:
            f.write("[Container]\nImage=img\n")
for d in set(x[0] for x in plan["dirs"]):
    os.chmod(d, 0o755)
# an ancestor of /etc/containers/systemd/users may be a symbolic link (relative or absolute target)
lay = plan.get("layout", "plain")
if lay == "containers_symlink":
    os.rename("/etc/containers", "/etc/containers.real"); os.symlink("containers.real", "/etc/containers")
elif lay == "containers_symlink_abs":
    os.rename("/etc/containers", "/etc/containers.real"); os.symlink("/etc/containers.real", "/etc/containers")
elif lay == "systemd_symlink":
    os.rename("/etc/containers/systemd", "/etc/containers/systemd.real"); os.symlink("systemd.real", "/etc/containers/systemd")
elif lay == "users_symlink_abs":
    os.rename("/etc/containers/systemd/users", "/etc/containers/users.real"); os.symlink("/etc/containers/users.real", "/etc/containers/systemd/users")
elif lay == "users_symlink_chain":
    os.rename("/etc/containers/systemd/users", "/etc/containers/users.rev2"); os.symlink("/etc/containers/users.rev2", "/etc/containers/users.current"); os.symlink("/etc/containers/users.current", "/etc/containers/systemd/users")
elif lay == "users_symlink_chain_rel":
    os.rename("/etc/containers/systemd/users", "/etc/containers/users.rev2"); os.symlink("users.rev2", "/etc/containers/users.current"); os.symlink("../users.current", "/etc/containers/systemd/users")
elif lay.startswith("users_symlink_spelled:"):
    # the link target spelled with a trailing separator, a doubled separator or a '.' element: the same directory
    os.rename("/etc/containers/systemd/users", "/etc/containers/users.real"); os.symlink(lay.split(":", 1)[1], "/etc/containers/systemd/users")
elif lay == "users_symlink":
    os.rename("/etc/containers/systemd/users", "/etc/containers/users.real"); os.symlink("../users.real", "/etc/containers/systemd/users")
elif lay == "systemd_symlink_abs":
    os.rename("/etc/containers/systemd", "/etc/containers/systemd.real"); os.symlink("/etc/containers/systemd.real", "/etc/containers/systemd")
PY
for run in $(python3 -c "import json,sys; print(' '.join(str(r) for r in json.load(open('$1'))['uids']))"); do
  if [ "$run" = "root" ]; then
    "$2" --dry-run --no-kmsg-log /nonexistent-out > "$3/out.root" 2> "$3/err.root" || true
  elif [ "${run#sys}" != "$run" ]; then
    # the SYSTEM generator started by an unprivileged UID: which generator runs is decided by --user / the program name, not by the UID
    HOME=/nonexistent-home XDG_CONFIG_HOME=/nonexistent-cfg XDG_RUNTIME_DIR=/nonexistent-run \
      setpriv --reuid="${run#sys}" --regid="${run#sys}" --clear-groups "$2" --dry-run --no-kmsg-log /nonexistent-out > "$3/out.$run" 2> "$3/err.$run" || true
  else
    # "<uid>" or "<uid>.<gid>": the primary group is not the user (whose directory is users/<UID>, never users/<GID>)
    HOME=/nonexistent-home XDG_CONFIG_HOME=/nonexistent-cfg XDG_RUNTIME_DIR=/nonexistent-run \
      setpriv --reuid="${run%%.*}" --regid="${run#*.}" --clear-groups "$2" --user --dry-run --no-kmsg-log /nonexistent-out > "$3/out.$run" 2> "$3/err.$run" || true
  fi
done
'''


def inventory(ctx):
    import gen_tables
    toks = gen_tables.nontest_tokens("src/quadlet/iterators.rs")
    txt = " ".join(t[1] for t in toks if t != ("p", ","))
    ctx.oblig("search-dir inventory: the system generator walks UNIT_DIR_TEMP and UNIT_DIR_ADMIN with the user-level filter and UNIT_DIR_DISTRO unfiltered; the user generator walks users/ with the non-numeric filter, users/<uid> with the user-level filter, and adds users/",
              "PathBuf :: from ( UNIT_DIR_TEMP ) Some ( user_level_filter )" in txt and "PathBuf :: from ( UNIT_DIR_ADMIN ) Some ( user_level_filter )" in txt
              and "PathBuf :: from ( UNIT_DIR_DISTRO ) None" in txt and "join ( users ) Some ( non_numeric_filter )" in txt
              and "users :: get_current_uid ( ) . to_string ( ) ) Some ( user_level_filter )" in txt, "get_root_dirs / get_rootless_dirs changed")


def allowed_user(uid, rel):
    """independent reading of the property; rel = components below /etc/containers/systemd"""
    if rel == ["users"]:
        return True
    if len(rel) >= 2 and rel[0] == "users":
        is_number = rel[1] != "" and all(c in "0123456789" for c in rel[1])      # "a number": decimal digits only, of any length
        return (not is_number) or rel[1] == str(uid)
    return False


def gen_tree(rng):
    names = ["1000", "2000", "3000", "42", "shared", "abc", "12ab", "x1", "7", "sub", "0", "team",
             "4294967296", "99999999999999999999", "007", "+5", "-3", "1e3", "0x10"]      # numbers that do not fit a uid_t; near-numbers
    dirs = [["users"]]
    for _ in range(rng.randint(3, 10)):
        depth = rng.randint(1, 3)
        dirs.append(["users"] + [rng.choice(names) for _ in range(depth)])
    dirs += [[], ["plain"], ["plain", "1000"], ["9"]]
    # close under prefixes
    allp = set()
    for d in dirs:
        for i in range(len(d) + 1):
            allp.add(tuple(d[:i]))
    return sorted(allp)


def run(ctx):
    ctx.rule = ("random directory trees below /etc/containers/systemd (numeric and non-numeric names nested to depth 3 below users/, plus system-level subdirectories) with one marker unit "
                "per directory, plus marker units in /usr/share/containers/systemd and /run/containers/systemd; staged in a private mount namespace (tmpfs over /etc, /run, /usr/share), in 3 of 5 trees with /etc/containers or /etc/containers/systemd being a symbolic link (relative or absolute target); the real "
                "binary run as root (system generator), as 3 unprivileged UIDs (--user), as the system generator started by an unprivileged UID and as the user generator started by UID 0, with --dry-run; non-trivial = tree has a numeric directory with a nested subdirectory or a numeric "
                "directory below a non-numeric one; distinct = distinct (tree, uid)")
    rng = ctx.rng
    ntrees = ctx.volume(13, 78)
    if os.geteuid() != 0 or not shutil.which("unshare") or not shutil.which("setpriv"):
        ctx.oblig("end-to-end staging in a mount namespace (needs root, unshare, setpriv)", False, "not available in this environment")
        return
    mism = 0
    for t in range(ntrees):
        tree = gen_tree(rng)
        uids = ["root"] + rng.sample([1000, 2000, 3000, 42, 77], 3) + [rng.choice(["sys1000", "sys42"]), 0, rng.choice(["1000.2000", "3000.1000", "42.0", "77.42"])]      # also: system generator as a user, user generator as UID 0, a user whose primary GID is another user's UID
        plan = {"dirs": [], "uids": uids, "layout": ["plain", "containers_symlink", "containers_symlink_abs", "systemd_symlink_abs", "users_symlink_abs", "systemd_symlink", "users_symlink",
                                                       "users_symlink_spelled:/etc/containers/users.real/", "users_symlink_spelled:/etc/containers//users.real", "users_symlink_spelled:/etc/containers/./users.real",
                                                       "users_symlink_spelled:../users.real/", "users_symlink_chain", "users_symlink_chain_rel"][t % 13]}
        ctx.count("layout:" + plan["layout"])
        markers = {}
        for i, rel in enumerate(tree):
            m = "adm%d" % i
            markers[m] = ("admin", list(rel))
            plan["dirs"].append(["/etc/containers/systemd/" + "/".join(rel), m])
        plan["dirs"].append(["/usr/share/containers/systemd", "distro0"]); markers["distro0"] = ("distro", [])
        plan["dirs"].append(["/usr/share/containers/systemd/sub", "distro1"]); markers["distro1"] = ("distro", ["sub"])
        plan["dirs"].append(["/run/containers/systemd", "temp0"]); markers["temp0"] = ("temp", [])
        work = tempfile.mkdtemp(prefix="qv-c14-")
        try:
            os.chmod(work, 0o777)
            pf = os.path.join(work, "plan.json")
            json.dump(plan, open(pf, "w"))
            sf = os.path.join(work, "stage.sh")
            open(sf, "w").write(STAGE)
            p = subprocess.run(["unshare", "-m", "sh", sf, pf, vlib.IMPL_BIN, work], stdout=subprocess.PIPE, stderr=subprocess.STDOUT, timeout=120)
            if p.returncode != 0:
                ctx.oblig("end-to-end staging in a mount namespace", False, p.stdout.decode()[-600:])
                return
            for uid in uids:
                out = open(os.path.join(work, "out.%s" % uid), "rb").read()
                seen = {os.path.basename(k)[:-len(".service")] for k in e2e.parse_dry_run(out)}
                ctx.evaluations += 1
                nontriv = any(len(r) >= 3 and r[0] == "users" and (r[1][:1].isdigit() or r[2][:1].isdigit()) for r in tree)
                if nontriv:
                    ctx.nontrivial.add((tuple(tree), uid))
                system = uid == "root" or str(uid).startswith("sys")
                ctx.count("run:%s" % ("root" if uid == "root" else ("system-generator-as-user" if system else ("user-generator-as-uid0" if uid == 0 else "user"))))
                for m, (where, rel) in markers.items():
                    used = m in seen
                    if system:
                        want = not (where == "admin" and rel[:1] == ["users"])
                    else:
                        want = where == "admin" and allowed_user(int(str(uid).split(".")[0]), rel)
                    if used != want:
                        path = {"admin": "/etc/containers/systemd/", "distro": "/usr/share/containers/systemd/", "temp": "/run/containers/systemd/"}[where] + "/".join(rel)
                        cls = None
                        if not system and where == "admin" and len(rel) >= 3 and rel[0] == "users":
                            cls = "LastComponentTested"
                        ctx.failures.append({"op": "e2e", "uid": uid, "dir": path, "tree": ["/".join(r) for r in tree],
                                             "layout": plan["layout"], "what": "generator for %s %s %s (layout %s)" % (uid, "reads" if used else "does not read", path, plan["layout"]), "class": cls})
                    # model correspondence (administrator's tree only)
                    if where == "admin" and ctx.model_ok:
                        if system:
                            mo = vlib.run_model([case_line("root_includes", *rel)])[0]
                        else:
                            mo = vlib.run_model([case_line("rootless_includes", str(uid).split(".")[0], *rel)])[0]
                        if (mo == "OK\tTRUE") != used:
                            mism += 1
                            if mism <= 3:
                                ctx.broken.append("correspondence search dirs: uid=%s dir=%s impl=%s model=%s" % (uid, "/".join(rel), used, mo))
        finally:
            shutil.rmtree(work, ignore_errors=True)
    ctx.oblig("correspondence: Discover model = directories actually used by the binary (administrator's tree)", mism == 0, "%d mismatches" % mism)
    ctx.samples = [{"tree": ["/".join(r) for r in gen_tree(rng)][:12]}]
    unknown = [f for f in ctx.failures if f["class"] is None]
    ctx.oblig("direct oracle: root uses nothing at or below users/; each UID uses users/, users/<non-numeric>/..., users/<own uid>/... and no system-wide directory",
              not ctx.failures, "%d failures (%d outside known classes)" % (len(ctx.failures), len(unknown)))


def replay(ctx, obj):
    print("replay: re-run ./check C14 (the tree is regenerated from the seed): %s" % ((obj.get("failure") or {}).get("what")))
    return 1
