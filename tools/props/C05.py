"""C05 -- list-valued keys are split into words exactly as systemd splits them."""
import os
import itertools, re
import vlib, sdref
from vlib import hx, unhx, case_line, show

THEOREMS = ["C05_args_equiv", "C05_strv_equiv", "C05_pinned_refuted"]

A9 = ["a", " ", '"', "'", "\\", "n", "x", "4", "1"]
RICH = ["a", " ", '"', "'", "\\", "n", "x", "4", "1", "0", "7", "u", "U", "\t", "\n", "s", "é", "d", "8", "f", "q", "-", "=", "\r", "\U0001F600", "3", "2",
        "\x0b", "\x0c", "\u00a0", "\u3000", "\u2028", "\x85", "\x1f"]          # Unicode / ASCII white space that is NOT a systemd separator

# which splitter each list-valued key is read with (documented kinds; property statement + podman-systemd.unit(5))
ARGS_KEYS = {"Exec", "PodmanArgs", "GlobalArgs", "Environment", "Label", "Annotation", "Mount", "Secret", "Mask", "Unmask",
             "EnvironmentFile", "Options"}
STRV_KEYS = {"AddCapability", "DropCapability", "AddDevice", "Sysctl", "LogOpt", "UIDMap", "GIDMap", "RemapUid", "RemapGid",
             "ConfigMap", "AutoUpdate", "WantedBy", "RequiredBy", "Alias"}

# escapes whose systemd meaning is a raw byte / ill-formed UTF-8 (documented deviation of the spec): not compared with libsystemd
EIGHTBIT = re.compile(r"\\x[89a-fA-F][0-9a-fA-F]|\\[123][0-7][0-7]|\\u[dD][89a-fA-F]|\\U")


def inventory(ctx):
    import gen_tables
    found = {"args": set(), "strv": set(), "keyval": set()}
    for path in ("src/quadlet/convert.rs", "src/main.rs", "src/quadlet/mod.rs"):
        toks = gen_tables.nontest_tokens(path)
        for k, t in enumerate(toks):
            if t[0] == "id" and t[1] in ("lookup_all_args", "lookup_all_strv", "lookup_all_key_val") and toks[k + 1] == ("p", "("):
                # second argument is the key literal
                j = k + 2
                depth = 1
                while depth and j < len(toks):
                    if toks[j] == ("p", "("):
                        depth += 1
                    elif toks[j] == ("p", ")"):
                        depth -= 1
                    elif toks[j][0] == "str" and depth == 1:
                        kind = {"lookup_all_args": "args", "lookup_all_strv": "strv", "lookup_all_key_val": "keyval"}[t[1]]
                        found[kind].add(toks[j][1])
                    j += 1
    # Exec is read with SplitWord directly
    got_args = found["args"] | found["keyval"] | {"Exec"}
    ctx.oblig("splitter inventory: keys read with SplitWord (args) are exactly the documented argument-style keys",
              got_args == ARGS_KEYS, "found %s, documented %s" % (sorted(got_args ^ ARGS_KEYS), "symmetric difference"))
    ctx.oblig("splitter inventory: keys read with SplitStrv are exactly the documented plain list keys",
              found["strv"] == STRV_KEYS, "differs on %s" % sorted(found["strv"] ^ STRV_KEYS))


def gen(ctx):
    rng = ctx.rng
    S = ["", " ", 'sh -c "" foo', '""', "''", 'a "" b', "a\\", '"abc', "a 'b c' d", '\\x41\\101\\u00e9', "a\\ b", '\t"x" \r\n',
         'K="v w" L=\\"q', "a\x0bb c", "k=v\u00a0w", "x\u3000y z", "p\x0cq", "\\q", "\\8", "\\x4", "\\", "a \\", '"a"b', "a'b'c", '"\\""', "'\\''", "\\s\\t", "\\U0001F600", "\\777", "\\xff", "\\ud800"]
    L = 6 if ctx.tier == "thorough" else 4
    for k in range(1, L + 1):
        for p in itertools.product(A9, repeat=k):
            S.append("".join(p))
    for _ in range(ctx.volume(20000, 300000)):
        S.append("".join(rng.choice(RICH) for _ in range(rng.randint(0, 12))))
    return S


def words(out):
    t = out.split("\t")
    return [unhx(x).decode("utf-8", "replace") for x in t[1:]] if t[0] == "OK" else None


def check(ctx, S, use_libsd):
    specval_bad = 0
    for mode, iop in (("args", "split_word"), ("strv", "split_strv")):
        impl = vlib.run_impl([case_line(iop, s) for s in S])
        model = vlib.run_model([case_line(iop, s) for s in S]) if ctx.model_ok else None
        spec = vlib.run_model([case_line("sd_split", mode, s) for s in S]) if ctx.model_ok else [None] * len(S)
        mism = 0
        for i, s in enumerate(S):
            ctx.evaluations += 1
            if any(c in s for c in "\"'\\"):
                ctx.nontrivial.add((mode, s))
            iw = words(impl[i])
            if model is not None and model[i] != impl[i]:
                mism += 1
                if mism <= 3:
                    ctx.broken.append("correspondence %s: raw=%s impl=%s model=%s" % (iop, show(s), impl[i], model[i]))
            sw = words(spec[i]) if spec[i] is not None else None
            ctx.count("%s:%s" % (mode, "sd_ok" if sw is not None else "sd_err"))
            bad = None
            if sw is not None and iw != sw:
                bad = "systemd (spec, %s flags) splits into %s, the code into %s" % (mode, sw, iw)
            lib = None
            if use_libsd and "\0" not in s and not EIGHTBIT.search(s):
                lib = sdref.split(s.encode(), mode)
                libw = [w.decode("utf-8", "replace") for w in lib] if lib is not None else None
                if libw != sw:
                    specval_bad += 1
                    if specval_bad <= 3:
                        ctx.broken.append("spec validation: Spec.sd_split %s %s = %s but libsystemd gives %s" % (mode, show(s), sw, libw))
                if bad is None and libw is not None and iw != libw:
                    bad = "libsystemd extract_first_word (%s flags) gives %s, the code %s" % (mode, libw, iw)
            if bad:
                dropped = sw is not None and iw is not None and len(iw) < len(sw) and "" in sw
                ctx.failures.append({"op": iop, "raw": show(s), "raw_hex": hx(s), "what": bad, "class": "EmptyWordEndsList" if dropped else None})
        ctx.oblig("correspondence: model %s = implementation on every generated value" % iop, mism == 0, "%d mismatches" % mism)
    if use_libsd:
        ctx.oblig("spec validation: Spec/SdExtract.v = real libsystemd extract_first_word on every generated value without 8-bit escapes",
                  specval_bad == 0, "%d disagreements" % specval_bad)


def lookups(ctx, S):
    """the unit-level readers (lookup_all_args / _strv / _key_val) on values that survive the file format"""
    ok = [s for s in S if s and "\n" not in s and "\r" not in s and s.strip() == s and not s.endswith("\\") and s[0] not in "#;["]
    ok = ok[: ctx.volume(3000, 40000)]
    acc = vlib.run_impl([case_line("unquote", s) for s in ok])
    ok = [s for s, a in zip(ok, acc) if a.startswith("OK")]
    texts = ["[S]\nK=%s\n" % s for s in ok]
    for kind, mode in (("args", "args"), ("strv", "strv")):
        impl = vlib.run_impl([case_line("lookup", t, "S", "K", kind) for t in texts])
        spec = vlib.run_model([case_line("sd_split", mode, s) for s in ok]) if ctx.model_ok else []
        n = 0
        for s, i, sp in zip(ok, impl, spec):
            ctx.evaluations += 1
            sw = words(sp)
            if sw is not None and words(i) != sw:
                n += 1
                ctx.failures.append({"op": "lookup_all_" + kind, "raw": show(s), "raw_hex": hx(s),
                                     "what": "unit-level reader gives %s, systemd %s" % (words(i), sw),
                                     "class": "EmptyWordEndsList" if "" in sw else None})
        ctx.count("lookup_%s_cases" % kind, len(ok))


# (unit type, key, mode, how a word w appears in the command): the list-valued keys whose words go into the command one by one
COMMAND_KEYS = [
    ("container", "Secret", "args", ["--secret", "%s"]), ("build", "Secret", "args", ["--secret", "%s"]), ("container", "PodmanArgs", "args", ["%s"]),
    ("pod", "PodmanArgs", "args", ["%s"]), ("kube", "PodmanArgs", "args", ["%s"]), ("volume", "PodmanArgs", "args", ["%s"]), ("network", "PodmanArgs", "args", ["%s"]),
    ("image", "PodmanArgs", "args", ["%s"]), ("build", "PodmanArgs", "args", ["%s"]),
    ("container", "GlobalArgs", "args", ["%s"]), ("pod", "GlobalArgs", "args", ["%s"]), ("kube", "GlobalArgs", "args", ["%s"]), ("volume", "GlobalArgs", "args", ["%s"]),
    ("network", "GlobalArgs", "args", ["%s"]), ("image", "GlobalArgs", "args", ["%s"]), ("build", "GlobalArgs", "args", ["%s"]),
    ("container", "Mask", "args", ["--security-opt", "mask=%s"]), ("container", "Unmask", "args", ["--security-opt", "unmask=%s"]),
    ("container", "Sysctl", "strv", ["--sysctl", "%s"]), ("container", "LogOpt", "strv", ["--log-opt", "%s"]), ("kube", "LogOpt", "strv", ["--log-opt", "%s"]),
    ("container", "UIDMap", "strv", ["--uidmap", "%s"]), ("container", "GIDMap", "strv", ["--gidmap", "%s"]), ("pod", "UIDMap", "strv", ["--uidmap", "%s"]),
    ("container", "AddDevice", "strv", ["--device", "%s"]),
]


def command_level(ctx):
    """every list-valued key of every unit type, through the converter: the words of the value (as systemd splits it) appear in the command"""
    import docs
    rng = ctx.rng
    vals = ['a b', 'id=x\\x20y', '"q r" s', "it\\'s", 'k=\\"v\\"', "a\\tb c", "'s q' t", "x\\\\y", 'a "" b', "\\101B", "p=1 q='2 3'"]
    work = []
    for typ, key, mode, shape in COMMAND_KEYS:
        for v in vals + ["".join(rng.choice(RICH[:27]) for _ in range(rng.randint(1, 8))) for _ in range(ctx.volume(6, 60))]:
            v = v.strip()
            if not v or "\n" in v or "\r" in v or v[0] in "#;[-" or v.endswith("\\"):
                continue
            work.append((typ, key, mode, shape, v))
    acc = vlib.run_impl([case_line("unquote", w[4]) for w in work])
    work = [w for w, a in zip(work, acc) if a.startswith("OK")]
    cases = [case_line("convert", "0", "/u/x.%s" % typ, "[%s]\n%s%s=%s\n" % (docs.TYPES[typ][0], docs.MINIMAL[typ], key, v)) for typ, key, mode, shape, v in work]
    outs = vlib.run_impl(cases)
    spec = vlib.run_model([case_line("sd_split", mode, v) for typ, key, mode, shape, v in work]) if ctx.model_ok else []
    lines, idx = [], []
    recs = [vlib.parse_convert(o) for o in outs]
    for i, rs in enumerate(recs):
        r = rs[0] if rs else {}
        ex = vlib.entries(r, "Service", "ExecStartPre" if work[i][0] == "pod" else "ExecStart") if r.get("ok") else []
        if ex:
            lines.append(ex[-1].encode()); idx.append(i)
    argvs = vlib.sd_split_many(lines) if lines else []
    for i, argv in zip(idx, argvs):
        typ, key, mode, shape, v = work[i]
        sw = words(spec[i]) if i < len(spec) else None
        ctx.evaluations += 1
        ctx.count("command:%s:%s" % (typ, key))
        if sw is None or argv is None:
            continue
        ctx.nontrivial.add((typ, key, v))
        want = [x for w in sw for x in [t.replace("%s", w) if "%s" in t else t for t in shape]]
        if key == "AddDevice":
            want = [x for w in sw if not w.startswith("-") for x in ["--device", w]]
        ok = any(argv[j:j + len(want)] == want for j in range(len(argv) - len(want) + 1)) if want else True
        if not ok:
            ctx.failures.append({"op": "convert", "raw": show(v), "raw_hex": hx(v), "what": "%s=%s in a .%s unit: systemd splits the value into %s, the command %s does not carry %s" % (key, show(v), typ, sw, argv, want),
                                 "class": None, "case_hex": cases[i]})


INSTALL_WORDS = ["default.target", "dev-mapper-data\\x2dvol.device", "a\\x20b.target", "\"q r.target\"", "tab\\there.target", "\\\\srv.mount", "'s q'.target", "\\u00e9.target"]


def install_level(ctx):
    """[Install] WantedBy= / RequiredBy= / Alias= are plain list keys (escapes kept literally, quotes removed): a real run must create
    the links under exactly the words systemd's strv splitting gives"""
    import e2e
    rng = ctx.rng
    with e2e.Box() as box:
        for i in range(ctx.volume(12, 120)):
            keys = {k: rng.sample(INSTALL_WORDS, rng.randint(1, 3)) for k in ("WantedBy", "RequiredBy", "Alias")}
            text = "[Container]\nImage=img\n[Install]\n" + "".join("%s=%s\n" % (k, " ".join(ws)) for k, ws in keys.items())
            root = box.path("inst%d" % i)
            e2e.make_tree(root, {"u/a.container": text})
            rc, out, err = e2e.run_quadlet([os.path.join(root, "u")], os.path.join(root, "out"))
            snap = e2e.snapshot(os.path.join(root, "out"))
            links = {p for p, v in snap.items() if v[0] == "l"}
            want = set()
            for k, ws in keys.items():
                res = vlib.sd_split_many([" ".join(ws).encode()], "strv")[0] or []
                for w in res:
                    if "/" in w:
                        continue
                    want.add({"WantedBy": "%s.wants/a.service", "RequiredBy": "%s.requires/a.service", "Alias": "%s"}[k] % w)
            ctx.evaluations += 1
            ctx.nontrivial.add(text)
            ctx.count("install_units")
            if links != want:
                ctx.failures.append({"op": "e2e-install", "unit": text, "what": "[Install] %s: links created %s, systemd's word splitting (plain list key) gives %s" % (keys, sorted(links), sorted(want)), "class": None})


def run(ctx):
    ctx.rule = ("raw values over {a,SP,\",',\\,n,x,4,1} exhaustively to length 4 (quick) / 6 (thorough) plus random strings of <=12 symbols over a "
                "34-symbol escape-rich alphabet (incl. VT, FF, NBSP, U+3000, U+2028, U+0085, US: white space that is not a systemd separator) and a hand-written corpus; each through SplitWord and SplitStrv, the extracted spec and the real libsystemd; "
                "plus 25 (unit type, list-valued key) pairs through the converters: the words systemd would see appear in the command; plus [Install] WantedBy=/RequiredBy=/Alias= words with escapes and quotes in real runs (link names); "
                "non-trivial = contains a quote or backslash; distinct = distinct (mode, value)")
    use = sdref.available()
    ctx.notes.append("libsystemd second oracle / spec validation: %s" % ("used" if use else "unavailable"))
    S = gen(ctx)
    for i in range(0, len(S), 150000):
        check(ctx, S[i:i + 150000], use)
    lookups(ctx, S)
    command_level(ctx)
    install_level(ctx)
    ctx.exhaustive = True
    ctx.samples = [{"raw": show(s)} for s in S[2:9]] + [{"raw": show(s)} for s in S[-3:]]
    unknown = [f for f in ctx.failures]
    ctx.oblig("direct oracle: wherever systemd's splitter succeeds, the implementation returns the same word list (spec and libsystemd)",
              not unknown, "%d failures" % len(unknown))


def replay(ctx, obj):
    f = obj.get("failure")
    if not f:
        print("replay: broken-tie record: %s" % obj.get("broken"))
        return 1
    if "raw_hex" not in f:
        print("replay: %s\n%s" % (f.get("unit"), f.get("what")))
        return 1
    s = unhx(f["raw_hex"]).decode()
    check(ctx, [s], sdref.available())
    print("replay: %s" % ("still failing: %s" % ctx.failures[0]["what"] if ctx.failures else "passes now"))
    return 1 if ctx.failures else 0
