"""C03 -- unit files parse losslessly and independently of their spelling."""
import vlib, gen_units
from vlib import hx, unhx, case_line, show

THEOREMS = ["C03_parse_render", "C03_final_newline_optional", "C03_spelling_independent"]


def value_ok(v):
    return "\n" not in v and "\r" not in v and not v.startswith((" ", "\t")) and v.rstrip() == v and "\x0c" not in v


def dump_of(out):
    t = out.split("\t")
    if t[0] != "OK":
        return None
    secs, _ = vlib.parse_unit_tokens(t, 1)
    return secs


def filter_models(ctx, models):
    """keep models whose values pass the implementation's own load-time validation"""
    vals = sorted({v for m in models for _, es in m for _, v in es})
    acc = vlib.run_impl([case_line("unquote", v) for v in vals])
    okv = {v for v, a in zip(vals, acc) if a.startswith("OK") and value_ok(v)}
    return [[(s, [(k, v) for k, v in es if v in okv]) for s, es in m] for m in models]


def bracket_case():
    # known finding: a '[' at the start of the line after a continuation ends the value (pinned by the repo's own test)
    return ([("S", [("K", "a [b]")])], "[S]\nK=a \\\n[b]\n")


def run(ctx):
    ctx.rule = ("random file models (1-4 section instances from 12 section names incl. repeats, 0-5 entries, keys over [A-Za-z0-9-], raw values over 35 adversarial "
                "tokens filtered by the implementation's own validation) x random renderings (comment/blank lines, indentation, blanks around '=', trailing blanks, "
                "backslash-newline continuation of single blanks with optional spaces and interleaved comment lines, repeated headers, optional final newline) "
                "+ a mutation stream for model-vs-implementation agreement; non-trivial = rendering differs from the canonical one; distinct = distinct texts")
    rng = ctx.rng
    models = filter_models(ctx, [gen_units.gen_model(rng) for _ in range(ctx.volume(6000, 30000))])
    texts = [gen_units.render(rng, m, True) for m in models]
    texts2 = [gen_units.render(rng, m, True) for m in models]
    canon = [gen_units.render(rng, m, False) for m in models]
    cases = [case_line("parse", t) for t in texts + texts2 + canon]
    impl = vlib.run_impl(cases)
    model = vlib.run_model(cases) if ctx.model_ok else impl
    mism = 0
    n = len(models)
    for i, out in enumerate(impl):
        ctx.evaluations += 1
        m = models[i % n]
        text = (texts + texts2 + canon)[i]
        if i < 2 * n and text != canon[i % n]:
            ctx.nontrivial.add(text)
        ctx.count("rendering:" + ("canonical" if i >= 2 * n else ("continuation" if "\\\n" in text else "plain")))
        if model[i] != out:
            mism += 1
            if mism <= 3:
                ctx.broken.append("correspondence parse: text=%s impl=%s model=%s" % (show(text), out[:200], model[i][:200]))
        want = gen_units.merged(m)
        got = dump_of(out)
        if got != want:
            ctx.failures.append({"op": "parse", "text": show(text), "text_hex": hx(text), "model": m,
                                 "what": "rendering of %s read back as %s" % (want, got), "class": None})
    # the known finding is exercised on every run
    bm, bt = bracket_case()
    bo = vlib.run_impl([case_line("parse", bt)])[0]
    ctx.evaluations += 1
    if dump_of(bo) != gen_units.merged(bm):
        ctx.failures.append({"op": "parse", "text": show(bt), "text_hex": hx(bt), "model": bm,
                             "what": "continuation followed by a line starting with '[': read as %s, systemd joins the line (%s)" % (dump_of(bo), gen_units.merged(bm)),
                             "class": "BracketAfterContinuation"})
    # mutation stream: model and implementation agree on arbitrary (also malformed) texts
    muts = [gen_units.mutate(rng, t) for t in texts[: ctx.volume(6000, 30000)]]
    mi = vlib.run_impl([case_line("parse", t) for t in muts])
    mm = vlib.run_model([case_line("parse", t) for t in muts]) if ctx.model_ok else mi
    for t, a, b in zip(muts, mi, mm):
        ctx.evaluations += 1
        ctx.count("mutated:" + ("accepted" if a.startswith("OK") else "rejected"))
        if a != b:
            mism += 1
            if mism <= 6:
                ctx.broken.append("correspondence parse (mutated): text=%s impl=%s model=%s" % (show(t), a[:200], b[:200]))
    ctx.oblig("correspondence: model parser = implementation on every rendering and every mutated text", mism == 0, "%d mismatches" % mism)
    # spelling independence downstream: two renderings of a container unit convert identically
    sub = []
    for _ in range(ctx.volume(300, 4000)):
        m = [("Container", [("Image", "img"), ("Exec", "sh -c \"a b\" c"), ("Environment", "A=1 B=2")]), ("Service", [("Restart", "always"), ("ExecStartPre", "/bin/echo three     four  five")]),
             ("Container", [("PodmanArgs", "--x y"), ("Label", "l=v w"), ("HealthCmd", "\"echo a   b\"")])]
        sub.append((gen_units.render(rng, m, True), gen_units.render(rng, m, True)))
    oc = vlib.canon_records(vlib.run_impl([case_line("convert", "0", "/u/c.container", t) for pair in sub for t in pair]))
    for j, (t1, t2) in enumerate(sub):
        ctx.evaluations += 1
        if oc[2 * j] != oc[2 * j + 1]:
            ctx.failures.append({"op": "convert", "text": show(t1), "text_hex": hx(t1), "text2_hex": hx(t2), "what": "two spellings of the same content convert differently", "class": None})
    # ... and as FILES read by the real binary (what happens to the text between the disk and the parser is part of reading a unit file)
    import e2e, os
    with e2e.Box() as box:
        for j, (t1, t2) in enumerate(sub[: ctx.volume(25, 300)]):
            svc = []
            for tag, t in (("a", t1), ("b", t2)):
                root = box.path("sp%d%s" % (j, tag))
                e2e.make_tree(root, {"u/c.container": t})
                rc, out, err = e2e.run_quadlet([os.path.join(root, "u")], os.path.join(root, "out"), dry_run=True)
                texts_ = list(e2e.parse_dry_run(out).values())
                lines_ = [l for l in (texts_[0] if texts_ else "").split("\n") if not l.startswith("SourcePath=")]
                ex = [k for k, l in enumerate(lines_) if l.startswith("Exec")]
                for k, a in zip(ex, vlib.sd_split_many([lines_[k].split("=", 1)[1].encode() for k in ex]) if ex else []):
                    lines_[k] = lines_[k].split("=", 1)[0] + "=" + repr(vlib.canon_argv(a))          # name=value runs come out of a HashMap: sorted
                svc.append((rc, lines_))
            ctx.evaluations += 1
            ctx.count("e2e_spellings")
            if svc[0] != svc[1]:
                d = [(x, y) for x, y in zip(svc[0][1], svc[1][1]) if x != y][:2]
                ctx.failures.append({"op": "e2e", "text": show(t1), "text_hex": hx(t1), "text2_hex": hx(t2),
                                     "what": "two spellings of the same content, read from files by the real binary, give different services: %s" % (d or (svc[0][0], svc[1][0]),), "class": None})
    ctx.samples = [{"text": show(t)} for t in texts[:5]]
    ctx.oblig("direct oracle: every rendering reads back as the merged model it was rendered from; two spellings convert identically",
              not [f for f in ctx.failures if f["class"] is None], "%d failures" % len([f for f in ctx.failures if f["class"] is None]))


def replay(ctx, obj):
    f = obj.get("failure")
    if not f:
        print("replay: broken-tie record: %s" % obj.get("broken"))
        return 1
    t = unhx(f["text_hex"]).decode()
    out = vlib.run_impl([case_line("parse", t)])[0]
    print("text:", show(t)); print("impl:", dump_of(out))
    ok = f.get("model") is not None and dump_of(out) == gen_units.merged([(s, [tuple(e) for e in es]) for s, es in f["model"]])
    print("replay: %s" % ("passes now" if ok else "still failing"))
    return 0 if ok else 1
