"""C08 -- references to other Quadlet units resolve to real names and add dependencies."""
import os
import vlib, e2e
from vlib import hx, unhx, case_line, show

THEOREMS = ["C08_storage_source", "C08_image_source", "C08_network", "C08_service_names", "C08_tables_set", "C08_sorted", "C08_names_along_the_run", "C08_volume_creates", "C08_network_creates", "C08_lower_priority_first", "C08_priority_table", "C08_referenced_types_first", "C08_run_without_dropins_is_the_plain_run", "C08_names_follow_the_merged_unit", "C08_dropin_names_example"]

SUFFIX = {"container": "", "volume": "-volume", "network": "-network", "image": "-image", "build": "-build", "pod": "-pod", "kube": ""}
SECTION = {"container": "Container", "volume": "Volume", "network": "Network", "image": "Image", "build": "Build", "pod": "Pod", "kube": "Kube"}


class U:
    def __init__(self, typ, stem):
        self.typ, self.stem = typ, stem
        self.keys = []          # (key, value) of own section
        self.late = []          # naming assignments (written after everything else; end to end they may sit in a drop-in file)
        self.use_dropin = False
        self.service_name = None
        self.refs = []          # (kind, target file name, extra)

    @property
    def fname(self):
        return "%s.%s" % (self.stem, self.typ)

    def user_unit(self):
        return "".join("[Unit]\n%s=%s\n" % kv for kv in getattr(self, "unit_lines", []))

    def text(self, split=False):
        """the unit as one file; with split=True the main file only (the naming assignments go to dropin_text())"""
        base = {"container": [], "volume": [], "network": [], "image": [("Image", "quay.io/img/%s" % self.stem)], "build": [("File", "/Containerfile")],
                "pod": [], "kube": [("Yaml", "/y.yml")]}[self.typ]
        ks = base + self.keys + ([] if split else self.named())
        return self.user_unit() + "[%s]\n%s" % (SECTION[self.typ], "".join("%s=%s\n" % kv for kv in ks))

    def named(self):
        return self.late + ([("ServiceName", self.service_name)] if self.service_name else [])

    def dropin_text(self):
        return "[%s]\n%s" % (SECTION[self.typ], "".join("%s=%s\n" % kv for kv in self.named()))

    def tree(self, prefix):
        """files of this unit below prefix, the naming assignments in a drop-in when use_dropin"""
        if self.use_dropin and self.named():
            return {prefix + self.fname: self.text(split=True), prefix + self.fname + ".d/50-names.conf": self.dropin_text()}
        return {prefix + self.fname: self.text()}

    def effective(self, key):
        """values assigned to key after the last empty assignment (C15), over the main keys and the naming assignments"""
        vs = [v for k, v in self.keys + self.late if k == key]
        while "" in vs:
            vs = vs[vs.index("") + 1:]
        return vs

    def get(self, key):
        vs = self.effective(key)
        return vs[-1] if vs else None

    # independent reading of the property
    def service_file(self):
        return (self.service_name or (self.stem + SUFFIX[self.typ])) + ".service"

    def object_name(self):
        if self.typ == "volume":
            return self.get("VolumeName") or "systemd-" + self.stem
        if self.typ == "network":
            return self.get("NetworkName") or "systemd-" + self.stem
        if self.typ == "image":
            return self.get("ImageTag") or "quay.io/img/%s" % self.stem
        if self.typ == "build":
            vs = self.effective("ImageTag")         # several tags: the image is known by the first
            return vs[0] if vs else None
        if self.typ == "container":
            return self.get("ContainerName") or "systemd-" + (self.service_name or self.stem)
        return None


def name_it(rng, u, key, value):
    """an explicit object name, in a third of the cases as the end of a history: a stale name, the empty reset, then the name
    (for ImageTag of a .build also a second tag after it)"""
    if rng.random() < 0.33:
        u.late += [(key, "stale-" + value.replace("/", "-")), (key, "")]
    u.late.append((key, value))
    if key == "ImageTag" and u.typ == "build" and rng.random() < 0.3:
        u.late.append((key, value + "-second"))
    u.use_dropin = rng.random() < 0.4


def gen_set(rng):
    units = []
    stems = {"network": ["net", "backend"], "volume": ["data", "cache"], "image": ["base"], "build": ["app"], "container": ["web", "db", "side"], "pod": ["pd"], "kube": ["kb"]}
    for typ in ("network", "volume", "image", "build"):
        for stem in stems[typ]:
            if rng.random() < 0.7:
                u = U(typ, stem)
                if typ == "volume" and rng.random() < 0.5:
                    name_it(rng, u, "VolumeName", "vol-" + stem)
                if typ == "network" and rng.random() < 0.5:
                    name_it(rng, u, "NetworkName", "nw-" + stem)
                if typ == "image" and rng.random() < 0.5:
                    name_it(rng, u, "ImageTag", "localhost/tag-" + stem)
                if typ == "build":
                    name_it(rng, u, "ImageTag", "localhost/built-" + stem)
                if rng.random() < 0.3:
                    u.service_name = "svc-" + stem
                    u.use_dropin = u.use_dropin or rng.random() < 0.4
                units.append(u)
    present = {u.fname: u for u in units}
    def target(typ):
        have = sorted(f for f in present if f.endswith("." + typ))
        if have and rng.random() < 0.9:
            return rng.choice(have)
        return rng.choice(["%s.%s" % (s, typ) for s in stems[typ]] + ["missing.%s" % typ])
    referrers = []
    for stem in stems["container"]:
        if rng.random() < 0.8:
            c = U("container", stem)
            if rng.random() < 0.3:
                name_it(rng, c, "ContainerName", "ctr-" + stem)
            if rng.random() < 0.3:
                c.service_name = "csvc-" + stem
                c.use_dropin = c.use_dropin or rng.random() < 0.4
            img = target(rng.choice(["image", "build"])) if rng.random() < 0.5 else "plain/img"
            c.keys.append(("Image", img))
            if img.endswith((".image", ".build")):
                c.refs.append(("image", img, None))
            for _ in range(rng.randint(0, 2)):
                kind = rng.choice(["network", "volume", "mountvol", "mountimg"])
                if kind == "network":
                    t = target("network"); opt = rng.choice(["", ":ip=10.0.0.5", ":mac=92:d0:c6:0a:29:33", ":ip6=fd00:1::17,alias=web", ":alias=a"])       # options may contain ':' themselves
                    c.keys.append(("Network", t + opt)); c.refs.append(("network", t, opt))
                elif kind == "volume":
                    t = target("volume"); c.keys.append(("Volume", t + ":/dst:ro")); c.refs.append(("volume", t, ":/dst:ro"))
                elif kind == "mountvol":
                    t = target("volume"); c.keys.append(("Mount", "type=volume,source=%s,destination=/m" % t)); c.refs.append(("mountvol", t, None))
                else:
                    t = target("image"); c.keys.append(("Mount", "type=image,source=%s,destination=/i" % t)); c.refs.append(("mountimg", t, None))
            referrers.append(c)
    # container-to-container network reuse
    if len(referrers) >= 2 and rng.random() < 0.5:
        a, b = referrers[0], referrers[1]
        a.keys.append(("Network", b.fname)); a.refs.append(("ctrnet", b.fname, None))
    if rng.random() < 0.5:
        v = U("volume", "imgvol")
        t = target(rng.choice(["image", "build"]))
        v.keys += [("Driver", "image"), ("Image", t)]
        v.refs.append(("volimage", t, None))
        referrers.append(v)
    if rng.random() < 0.4:
        p = U("pod", "pd")
        t = target("network"); p.keys.append(("Network", t)); p.refs.append(("network", t, ""))
        t2 = target("volume"); p.keys.append(("Volume", t2 + ":/pv")); p.refs.append(("volume", t2, ":/pv"))
        referrers.append(p)
    if rng.random() < 0.4:
        k = U("kube", "kb")
        t = target("network"); k.keys.append(("Network", t)); k.refs.append(("network", t, ""))
        referrers.append(k)
    if rng.random() < 0.4:
        b = U("build", "refb")
        b.keys.append(("ImageTag", "localhost/refb"))
        t = target("volume"); b.keys.append(("Volume", t + ":/bv")); b.refs.append(("volume", t, ":/bv"))
        referrers.append(b)
    allu = units + referrers
    # the user may already have written one half of the dependency on a referenced unit's service (Requires= without After=, or After=
    # alone, or on another service): the generator still adds BOTH for every reference
    by = {u.fname: u for u in allu}
    for r in referrers:
        if r.refs and rng.random() < 0.3:
            t = by.get(rng.choice(r.refs)[1])
            svc = t.service_file() if t else "other.service"
            r.unit_lines = rng.choice([[("Requires", svc)], [("After", svc)], [("Requires", "other.service")], [("Requires", svc), ("After", "other.service")]])
    rng.shuffle(allu)
    return allu


def check_set(ctx, allu, recs, label):
    by = {u.fname: u for u in allu}
    res = {os.path.basename(r["path"].decode()): r for r in recs if "path" in r}
    for u in allu:
        if not u.refs:
            continue
        r = res.get(u.fname)
        if r is None:
            ctx.failures.append({"op": label, "what": "no result for %s" % u.fname, "set": [(x.fname, x.text()) for x in allu], "class": None}); continue
        missing = [t for _, t, _ in u.refs if t not in by]
        dead = [t for _, t, _ in u.refs if t in by and not res.get(t, {}).get("ok")]
        ctx.count("refs:%s" % ("missing" if missing else ("target_failed" if dead else "resolvable")))
        if missing:
            if r.get("ok"):
                ctx.failures.append({"op": label, "what": "%s refers to missing %s but converts" % (u.fname, missing), "set": [(x.fname, x.text()) for x in allu], "class": None})
            elif not any(m in r.get("msg", "") for m in missing):
                ctx.failures.append({"op": label, "what": "%s: error does not name the missing file %s: %s %s" % (u.fname, missing, r.get("err"), r.get("msg")), "set": [(x.fname, x.text()) for x in allu], "class": None})
            continue
        if dead:
            continue       # target exists but fails conversion: outside the statement
        if not r.get("ok"):
            # only acceptable reason: a template-like / unresolvable container name used as network
            ctx.failures.append({"op": label, "what": "%s with all references present fails: %s %s" % (u.fname, r.get("err"), r.get("msg")), "set": [(x.fname, x.text()) for x in allu], "class": None})
            continue
        ek = "ExecStartPre" if u.typ == "pod" else "ExecStart"
        argv = vlib.sd_split_many([vlib.entries(r, "Service", ek)[0].encode()])[0]
        req, aft = vlib.entries(r, "Unit", "Requires"), vlib.entries(r, "Unit", "After")
        for kind, t, extra in u.refs:
            tu = by[t]
            name, svc = tu.object_name(), tu.service_file()
            bad = None
            if kind == "network" and not any(argv[i] == "--network" and argv[i + 1] == name + extra for i in range(len(argv) - 1)):
                bad = "--network %s%s expected" % (name, extra)
            if kind == "ctrnet" and not any(argv[i] == "--network" and argv[i + 1] == "container:" + name for i in range(len(argv) - 1)):
                bad = "--network container:%s expected" % name
            if kind == "volume" and not any(argv[i] == "-v" and argv[i + 1] == name + extra for i in range(len(argv) - 1)):
                bad = "-v %s%s expected" % (name, extra)
            if kind == "mountvol" and not any(argv[i] == "--mount" and argv[i + 1] == "type=volume,source=%s,destination=/m" % name for i in range(len(argv) - 1)):
                bad = "--mount type=volume,source=%s,... expected" % name
            if kind == "mountimg" and not any(argv[i] == "--mount" and argv[i + 1] == "type=image,source=%s,destination=/i" % name for i in range(len(argv) - 1)):
                bad = "--mount type=image,source=%s,... expected" % name
            if kind == "image" and name not in argv:
                bad = "image %s expected as argument" % name
            if kind == "volimage" and not any(argv[i] == "--opt" and argv[i + 1] == "image=" + name for i in range(len(argv) - 1)):
                bad = "--opt image=%s expected" % name
            ul = getattr(u, "unit_lines", [])
            if not bad and (req.count(svc) <= sum(1 for k, v in ul if k == "Requires" and v == svc) or aft.count(svc) <= sum(1 for k, v in ul if k == "After" and v == svc)):
                bad = "Requires=/After=%s expected in addition to the user's own [Unit] lines %s, got Requires=%s After=%s" % (svc, ul, req, aft)
            if bad:
                ctx.failures.append({"op": label, "what": "%s -> %s (%s): %s; argv=%s" % (u.fname, t, kind, bad, argv), "set": [(x.fname, x.text()) for x in allu], "class": None})


def run(ctx):
    ctx.rule = ("sets of units of all 7 types with random file stems, optional explicit ServiceName / VolumeName / NetworkName / ImageTag / ContainerName, and reference graphs: containers -> "
                "networks (with and without options), other containers' network, volumes (Volume= and Mount=), images and builds (Image= and Mount=), volumes -> images/builds (Driver=image), pods/kube/build -> "
                "networks/volumes; about 10%% of targets missing; files in random order; in-process and end to end; non-trivial = set has at least one reference; distinct = distinct sets")
    rng = ctx.rng
    sets = [gen_set(rng) for _ in range(ctx.volume(1500, 20000))]
    cases = [case_line("convert", "0", *[x for u in s for x in ("/d/" + u.fname, u.text())]) for s in sets]
    outs = vlib.run_impl(cases)
    model = vlib.run_model(cases) if ctx.model_ok else outs
    ci = vlib.canon_records(outs)
    cm = vlib.canon_records([m if m not in ("SKIP", "PANIC") else "OK" for m in model])
    mism = 0
    for i, s in enumerate(sets):
        ctx.evaluations += 1
        if any(u.refs for u in s):
            ctx.nontrivial.add(cases[i])
        key = lambda r: r["path"]
        if model[i] not in ("SKIP",) and sorted(ci[i], key=key) != sorted(cm[i], key=key):
            mism += 1
            if mism <= 3:
                ctx.broken.append("correspondence process/convert: set=%s" % [(u.fname, u.text()) for u in s])
        check_set(ctx, s, vlib.parse_convert(outs[i]), "convert")
    ctx.oblig("correspondence: Process/Convert model = implementation on every generated unit set (all services, all errors)", mism == 0, "%d mismatches" % mism)
    # end to end sample: the real process() with discovery and sorting
    sample = sets[: ctx.volume(24, 400)]
    tree_mism = []
    with e2e.Box() as box:
        for i, s in enumerate(sample):
            root = box.path(str(i))
            files = {}
            for u in s:
                files.update(u.tree("u/"))
            ctx.count("e2e_units_named_in_dropin", sum(1 for u in s if u.use_dropin and u.named()))
            e2e.make_tree(root, files)
            rc, out, err = e2e.run_quadlet([os.path.join(root, "u")], os.path.join(root, "out"), dry_run=True)
            svcs = e2e.parse_dry_run(out)
            recs = []
            errt = err.decode("utf-8", "replace")
            for u in s:
                p = os.path.join(root, "out", u.service_file())
                if p in svcs:
                    secs, cur = [], None
                    for ln in svcs[p].split("\n"):
                        if ln.startswith("[") and ln.endswith("]"):
                            cur = (ln[1:-1], []); secs.append(cur)
                        elif "=" in ln and cur:
                            k, v = ln.split("=", 1); cur[1].append((k, v))
                    recs.append({"path": ("/d/" + u.fname).encode(), "ok": True, "sections": secs})
                else:
                    msg = " ".join(l for l in errt.split("\n") if u.fname in l)
                    other = [os.path.basename(k) for k, v in svcs.items() if ("SourcePath=" + os.path.join(root, "u", u.fname) + "\n") in v]
                    if other:
                        msg = "generated as %s, expected %s (its ServiceName=%s%s); " % (other, u.service_file(), u.service_name, " is set in a drop-in" if u.use_dropin else "") + msg
                    recs.append({"path": ("/d/" + u.fname).encode(), "ok": False, "err": "?", "msg": msg})
            ctx.evaluations += 1
            ctx.count("e2e_sets")
            check_set(ctx, s, recs, "e2e")
            # correspondence of the whole pipeline with drop-ins: Model/ProcessD.v (load, merge drop-ins, THEN names, sort, convert) against
            # the real process() -- same service file names, same Exec lines, same Requires=/After=
            if ctx.model_ok:
                fields = ["1"]
                for u in s:
                    split = u.use_dropin and bool(u.named())
                    fields += [os.path.join(root, "u", u.fname), u.text(split=split), "1" if split else "0"] + ([u.dropin_text()] if split else [])
                mo = vlib.run_model([case_line("convert_tree", *fields)])[0]
                if mo not in ("SKIP",):
                    mview = {}
                    for r in vlib.canon_records([mo])[0]:
                        if r.get("ok"):
                            mview[r["svc"].decode() if isinstance(r["svc"], bytes) else r["svc"]] = (
                                sorted((k, tuple(v)) for n, es in r["sections"] if n == "Service" for k, v in es if k.startswith("Exec")),
                                [v for n, es in r["sections"] if n == "Unit" for k, v in es if k in ("Requires", "After")])
                    iview = {}
                    for pth, text in svcs.items():
                        lines = text.split("\n")
                        ex = [l for l in lines if l.startswith("Exec")]
                        argvs = vlib.sd_split_many([l.split("=", 1)[1].encode() for l in ex]) if ex else []
                        sec, deps = None, []
                        for l in lines:
                            if l.startswith("["):
                                sec = l
                            elif sec == "[Unit]" and l.split("=", 1)[0] in ("Requires", "After"):
                                deps.append(l.split("=", 1)[1])
                        iview[os.path.basename(pth)] = (sorted((l.split("=", 1)[0], tuple(vlib.canon_argv(a) or [])) for l, a in zip(ex, argvs)), deps)
                    ctx.count("e2e_tree_correspondence")
                    if mview != iview:
                        tree_mism.append((sorted(set(mview) ^ set(iview)) or [k for k in mview if mview[k] != iview.get(k)][:2], [(u.fname, u.text(), u.use_dropin) for u in s]))
        # the same with the referring files in an earlier search directory than the files they refer to (and the other way round)
        import e2e_refs
        for b in e2e_refs.failures(e2e_refs.run(box, "c08")):
            ctx.failures.append({"set": sorted({**e2e_refs.REFERRERS, **e2e_refs.REFERENCED}.items()), "what": b, "class": None})
        ctx.evaluations += 2
        ctx.count("e2e_reference_orders", 2)
    for d, st in tree_mism[:3]:
        ctx.broken.append("correspondence process with drop-ins (Model/ProcessD.v vs the real run): differs at %s; set=%s" % (d, st))
    ctx.oblig("correspondence: the run over unit files with drop-ins (names derived after merging, Model/ProcessD.v) = the real binary on every end-to-end tree (service file names, Exec lines, Requires=/After=)",
              not tree_mism, "%d mismatches" % len(tree_mism))
    ctx.samples = [{"set": [(u.fname, u.text()) for u in s]} for s in sets[:2]]
    ctx.oblig("direct oracle: every reference to an existing, converting unit uses its actual object name and adds Requires=/After= on its actual service; a missing target fails only the referrer, naming the file",
              not ctx.failures, "%d failures" % len(ctx.failures))


def replay(ctx, obj):
    f = obj.get("failure") or {}
    print("replay: set %s\n%s" % (f.get("set"), f.get("what")))
    return 1
