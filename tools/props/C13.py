"""C13 -- search order picks among same-named files; drop-ins come from every search dir."""
import os
import vlib, e2e
from vlib import hx, unhx, case_line, show

THEOREMS = ["C13_first_wins", "C13_dropin_shadowing", "C13_dropin_dirs", "C13_pinned_refuted"]


def gen_layout(rng):
    """search dirs d0..dk (each may have a subdirectory 'sub'); units and drop-ins assigned to them by name"""
    ndirs = rng.choice([1, 2, 3])
    dirs = []
    for i in range(ndirs):
        dirs.append("d%d" % i)
    subdirs = {d: (["sub"] if rng.random() < 0.5 else []) for d in dirs}
    order = []                     # search order: each top dir, then its subdirectories (pre-order)
    for d in dirs:
        order.append(d)
        for s in subdirs[d]:
            order.append(d + "/" + s)
    units = {}
    for name in rng.sample(["a.container", "b.container", "t@.container", "t@one.container", "v.volume", "t@blue@eu.container", "u@x.y.volume", "web@eb.container", "app@app.container"], rng.randint(1, 5)):
        locs = rng.sample(order, rng.randint(1, min(2, len(order))))
        # conflicts only between different top-level dirs or parent/child (sibling order is unspecified)
        units[name] = sorted(set(locs), key=order.index)
    dropins = {}
    for name in units:
        dd = []
        dnames = [name + ".d"]
        if "@" in name and not name.startswith("t@."):
            dnames.append(name.split("@")[0] + "@." + name.split(".")[-1] + ".d")
        for dn in dnames:
            for loc in rng.sample(order, rng.randint(0, len(order))):
                for conf in rng.sample(["10-a.conf", "20-b.conf", "05-c.conf", "x.txt"], rng.randint(1, 3)):
                    dd.append((loc, dn, conf))
        dropins[name] = dd
    return dirs, order, units, dropins


def expected(order, units, dropins):
    """independent reading of the property: name -> (origin dir, [drop-in markers in merge order])"""
    res = {}
    for name, locs in units.items():
        origin = min(locs, key=order.index)
        dnames = [name + ".d"]
        if "@" in name and name.split("@")[1].split(".")[0] != "":
            dnames.append(name.split("@")[0] + "@." + name.split(".")[-1] + ".d")
        chosen = {}
        everything = sorted({x for v in dropins.values() for x in v})
        for dn in dnames:
            for loc in order:
                for (l, d, conf) in everything:
                    if l == loc and d == dn and conf.endswith(".conf") and conf not in chosen:
                        chosen[conf] = "%s|%s|%s" % (l, d, conf)
        res[name] = (origin, [chosen[c] for c in sorted(chosen)])
    return res


def run(ctx):
    ctx.rule = ("layouts of 1-3 search directories (QUADLET_UNIT_DIRS), each optionally with a subdirectory, in 30% of the layouts one of them a symbolic link (absolute or relative target, directly or through a second link) to the directory holding the files, in some a subdirectory that is a symbolic link to a directory elsewhere; 1-5 unit names (plain, template, template instance, an instance whose instance name contains @ or a dot, volume) each placed in 1-2 "
                "directories; drop-in files (*.conf and a non-conf decoy) placed in <unit>.d and <base>@.<type>.d directories of arbitrary search directories; every file carries a marker (a label, and a PodmanArgs tag that shows the merge order); "
                "run end to end with --dry-run; plus one unit with 42 / 60 drop-in files (the same names in three search directories); non-trivial = a name occurs twice or a drop-in lives in another search dir than its unit; distinct = distinct layouts")
    rng = ctx.rng
    n = ctx.volume(150, 2000)
    mism = 0
    with e2e.Box() as box:
        for i in range(n):
            dirs, order, units, dropins = gen_layout(rng)
            root = box.path(str(i))
            files = {}
            for name, locs in units.items():
                sec = "Volume" if name.endswith(".volume") else "Container"
                for loc in locs:
                    base = "Image=img\n" if sec == "Container" else ""
                    files["%s/%s" % (loc, name)] = "[%s]\n%sLabel=origin=%s\nPodmanArgs=--tag=main\n" % (sec, base, loc.replace("/", "_"))
                for (loc, dn, conf) in dropins[name]:
                    mark = ("%s|%s|%s" % (loc, dn, conf)).replace("/", "_")
                    files["%s/%s/%s" % (loc, dn, conf)] = "[%s]\nLabel=m%s=%s\nPodmanArgs=--tag=%s\n" % (sec, conf[:2], mark, mark)
            for d in order:
                files.setdefault(d + "/.keep", "")
            e2e.make_tree(root, files)
            link = None
            if rng.random() < 0.3:
                # one configured search directory is a symbolic link to the directory that holds the files (absolute or relative target)
                dk = rng.choice(dirs); link = rng.choice(["absolute", "relative"])
                os.rename(os.path.join(root, dk), os.path.join(root, "real_" + dk))
                if rng.random() < 0.4:
                    # ... through a chain of two links
                    os.symlink(os.path.join(root, "real_" + dk) if link == "absolute" else "real_" + dk, os.path.join(root, "hop_" + dk))
                    os.symlink(os.path.join(root, "hop_" + dk) if link == "absolute" else "hop_" + dk, os.path.join(root, dk))
                    link += " chain of two"
                else:
                    os.symlink(os.path.join(root, "real_" + dk) if link == "absolute" else "real_" + dk, os.path.join(root, dk))
                ctx.count("symlinked_search_dir:" + link)
            subs = [d for d in order if d.endswith("/sub")]
            if subs and rng.random() < 0.3:
                # a SUBDIRECTORY of a search directory is a symbolic link to a directory elsewhere: it is a subdirectory all the same
                sd = rng.choice(subs); top = sd.split("/")[0]
                real_top = os.path.realpath(os.path.join(root, top))
                os.rename(os.path.join(real_top, "sub"), os.path.join(root, "elsewhere_" + top))
                os.symlink(rng.choice([os.path.join(root, "elsewhere_" + top), os.path.relpath(os.path.join(root, "elsewhere_" + top), real_top)]), os.path.join(real_top, "sub"))
                link = (link or "") + " + symlinked subdirectory"
                ctx.count("symlinked_subdirectory")
            rc, out, err = e2e.run_quadlet([os.path.join(root, d) for d in dirs], os.path.join(root, "out"), dry_run=True)
            svcs = e2e.parse_dry_run(out)
            exp = expected(order, units, dropins)
            ctx.evaluations += 1
            if any(len(l) > 1 for l in units.values()) or any(loc not in units[nm] for nm in units for (loc, _, _) in dropins[nm]):
                ctx.nontrivial.add(str((order, units, dropins)))
            # one service per unit name
            names = [os.path.basename(p) for p in svcs]
            if len(names) != len(set(names)) or len(names) != len(units):
                ctx.failures.append({"op": "e2e", "layout": [order, units], "what": "services %s for unit names %s%s" % (sorted(names), sorted(units), " (a search directory is a %s symbolic link)" % link if link else ""), "class": None})
                continue
            for name, (origin, marks) in exp.items():
                stem = name.rsplit(".", 1)[0]
                svc = stem + ("-volume" if name.endswith(".volume") else "") + ".service"
                text = svcs.get(os.path.join(root, "out", svc))
                if text is None:
                    ctx.failures.append({"op": "e2e", "layout": [order, units], "what": "no service for %s" % name, "class": None})
                    continue
                labels, tags = {}, []
                for ln in text.split("\n"):
                    if ln.startswith("ExecStart="):
                        argv = vlib.sd_split_many([ln[len("ExecStart="):].encode()])[0] or []
                        tags = [a[len("--tag="):] for a in argv if a.startswith("--tag=")]
                        for j in range(len(argv) - 1):
                            if argv[j] == "--label":
                                k, _, v = argv[j + 1].partition("=")
                                labels[k] = v
                got_origin = labels.get("origin")
                got_marks = sorted(v for k, v in labels.items() if k.startswith("m"))
                want_marks = sorted(m.replace("/", "_") for m in marks)
                bad = None
                if got_origin != origin.replace("/", "_"):
                    bad = "%s taken from %s, first in search order is %s" % (name, got_origin, origin)
                elif got_marks != want_marks:
                    bad = "%s: drop-ins applied %s, expected %s" % (name, got_marks, want_marks)
                elif tags != ["main"] + [m.replace("/", "_") for m in marks]:
                    bad = "%s: merge order %s, expected the main file and then the drop-ins by file name: %s" % (name, tags, ["main"] + [m.replace("/", "_") for m in marks])
                if bad:
                    missing_elsewhere = all(m in want_marks for m in got_marks)
                    ctx.failures.append({"op": "e2e", "layout": [order, units, {k: v for k, v in dropins.items()}], "what": bad,
                                         "class": "DropinsOnlyBesideUnit" if (got_origin == origin.replace("/", "_") and missing_elsewhere) else None})
        # many drop-ins of one unit: the same 14 / 20 names in each of three search directories (42 / 60 files): each name comes from the first
        # directory, whatever the number of files (sorting must not reorder same-named entries)
        for per_dir in (14, 20):
            root = box.path("many%d" % per_dir)
            files = {"d2/web.container": "[Container]\nImage=img\nPodmanArgs=--tag=main\n"}
            for d in ("d0", "d1", "d2"):
                for j in range(per_dir):
                    files["%s/web.container.d/%02d-x.conf" % (d, j)] = "[Container]\nPodmanArgs=--tag=%s_%02d\n" % (d, j)
            e2e.make_tree(root, files)
            rc, out, err = e2e.run_quadlet([os.path.join(root, d) for d in ("d0", "d1", "d2")], os.path.join(root, "out"), dry_run=True)
            text = e2e.parse_dry_run(out).get(os.path.join(root, "out", "web.service"), "")
            tags = []
            for ln in text.split("\n"):
                if ln.startswith("ExecStart="):
                    argv = vlib.sd_split_many([ln[len("ExecStart="):].encode()])[0] or []
                    tags = [a[len("--tag="):] for a in argv if a.startswith("--tag=")]
            ctx.evaluations += 1
            ctx.count("many_dropins=%d" % (3 * per_dir))
            ctx.nontrivial.add(("many", per_dir))
            want = ["main"] + ["d0_%02d" % j for j in range(per_dir)]
            if tags != want:
                wrong = [t for t in tags if not t.startswith(("d0_", "main"))][:4]
                ctx.failures.append({"op": "e2e", "layout": ["3 search directories x %d same-named drop-ins of web.container" % per_dir],
                                     "what": "with %d drop-in files the survivors are not those of the first search directory in name order: %s ... (from later directories: %s)" % (3 * per_dir, tags[:6], wrong), "class": None})
    ctx.samples = [{"search_order": o, "units": u} for _, o, u, _ in [gen_layout(rng) for _ in range(3)]]
    unknown = [f for f in ctx.failures if f["class"] is None]
    ctx.oblig("direct oracle: exactly one service per file name, taken from the first directory in search order; drop-ins from <name>.d (and <base>@.<type>.d) of every search dir, earlier dir hides later of the same name; merged after the main file in the order of their file names",
              not ctx.failures, "%d failures (%d outside known classes)" % (len(ctx.failures), len(unknown)))


def replay(ctx, obj):
    print("replay: re-run ./check C13 (layouts are regenerated from the seed): %s" % ((obj.get("failure") or {}).get("what")))
    return 1
