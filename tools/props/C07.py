"""C07 -- user sections pass through unchanged; the Quadlet section is kept as X-<name>."""
import vlib, gen_conv, gen_units, docs
from vlib import hx, unhx, case_line, show

THEOREMS = ["C07_conversion_passes_through", "C07_other_sections_exact", "C07_parsed_units_have_distinct_sections",
            "C07_every_generated_service_passes_through", "C07_killmode_kept", "C07_syslog_identifier_kept", "C07_remain_after_exit_kept",
            "C07_container_oneshot_kept", "C07_oneshot_type_kept", "C07_kube_oneshot_kept", "C07_kube_workdir_kept", "C07_build_workdir_kept",
            "C07_tables", "C07_example",
            "C07_add_keeps_order", "C07_set_keeps_others", "C07_set_replaces_last", "C07_pinned_refuted", "C07_every_generated_service_passes_through_with_dropins"]

# keys the generator itself writes: user values must still appear contiguously, in order; the generator's come before (Unit After/Wants defaults) or after
GEN_UNIT_POST = {"Requires", "After", "BindsTo", "Before", "Wants", "RequiresMountsFor", "SourcePath"}
GEN_UNIT_PRE = {"After", "Wants"}
GEN_SERVICE_POST = {"Environment", "Delegate", "Type", "NotifyAccess", "ExecStart", "ExecStartPre", "ExecStop", "ExecStopPost", "WorkingDirectory", "Restart", "PIDFile"}
MANAGED = {"KillMode", "Type", "NotifyAccess", "SyslogIdentifier", "RemainAfterExit", "WorkingDirectory"}     # written with set(): only when the user made no (non-empty) choice


SECTION_CONST = {"UNIT_SECTION": "Unit", "SERVICE_SECTION": "Service", "INSTALL_SECTION": "Install", "QUADLET_SECTION": "Quadlet"}
CONVERTERS = {"container": "from_container_unit", "kube": "from_kube_unit", "pod": "from_pod_unit", "build": "from_build_unit",
              "image": "from_image_unit", "network": "from_network_unit", "volume": "from_volume_unit"}


def store_sites():
    """store sites of convert.rs per function: {(method, section, key)}, and the call graph among its functions"""
    import gen_tables
    toks = gen_tables.nontest_tokens("src/quadlet/convert.rs")
    spans = list(gen_tables.fn_spans(toks))
    names = {n for n, _, _ in spans}
    sites, calls = {}, {}
    for name, a, b in spans:
        st, cl = set(), set()
        for k in range(a, b):
            t = toks[k]
            if t[0] != "id":
                continue
            if t[1] in ("add", "add_raw", "set", "set_raw", "prepend") and toks[k - 1] == ("p", ".") and toks[k + 1] == ("p", "(") \
                    and toks[k - 2][1] in ("service", "service_unit_file"):
                j = k + 2
                while toks[j][0] != "id":
                    j += 1
                sec = SECTION_CONST.get(toks[j][1], toks[j][1])
                while toks[j][0] != "str" and toks[j] != ("p", ";"):
                    j += 1
                st.add((t[1], sec, toks[j][1] if toks[j][0] == "str" else "<computed>"))
            elif t[1] in names and t[1] != name and toks[k + 1] == ("p", "(") and toks[k - 1] != ("id", "fn"):
                cl.add(t[1])
        sites[name] = sites.get(name, set()) | st
        calls[name] = calls.get(name, set()) | cl
    return sites, calls


def inventory(ctx):
    """every store into the service unit reachable from a converter is one the theorems allow for that unit type:
    add/add_raw only to the pairs of A_of t (Coq list, read back through the extracted model), set only of the MANAGED keys of
    [Service], prepend only of [Unit] After/Wants"""
    sites, calls = store_sites()
    if not ctx.model_ok:
        return
    managed = [vlib.unhx(x).decode() for x in vlib.run_model([vlib.case_line("c07_lists", "managed")])[0].split("\t")[1:]]
    problems, seen = [], 0
    for typ, fn in CONVERTERS.items():
        out = vlib.run_model([vlib.case_line("c07_lists", typ)])[0].split("\t")[1:]
        allowed = {(vlib.unhx(out[i]).decode(), vlib.unhx(out[i + 1]).decode()) for i in range(0, len(out), 2)}
        reach, todo = set(), [fn]
        while todo:
            f = todo.pop()
            if f in reach:
                continue
            reach.add(f)
            todo += list(calls.get(f, ()))
        if fn not in sites:
            problems.append("%s not found" % fn)
            continue
        used = set()
        for f in reach:
            for (m, sec, key) in sites.get(f, ()):
                seen += 1
                if m in ("add", "add_raw"):
                    used.add((sec, key))
                    if (sec, key) not in allowed:
                        problems.append("%s (via %s): %s(%s, %s) is not in A_of %s" % (fn, f, m, sec, key, typ))
                elif m == "set":
                    if sec != "Service" or key not in managed:
                        problems.append("%s (via %s): set(%s, %s) is not a managed [Service] setting" % (fn, f, sec, key))
                elif m == "prepend":
                    if (sec, key) not in (("Unit", "After"), ("Unit", "Wants")):
                        problems.append("%s (via %s): prepend(%s, %s)" % (fn, f, sec, key))
                else:
                    problems.append("%s (via %s): %s(%s, %s)" % (fn, f, m, sec, key))
        base = {("Unit", k) for k in ("Requires", "After", "BindsTo", "RequiresMountsFor", "SourcePath")}
        stale = allowed - used - base
        if stale:
            problems.append("A_of %s lists %s, which %s never appends" % (typ, sorted(stale), fn))
    ctx.oblig("store-site inventory: every add/add_raw/set/prepend on the service unit reachable from each of the 7 converters (%d sites) is allowed by A_of <type> / MANAGED / the default-dependency prepend of the theorems, and no listed pair is stale" % seen,
              not problems, "; ".join(problems[:6]))


def values(sections, sec, key):
    return [v for n, es in sections if n == sec for k, v in es if k == key]


def find_sub(hay, needle):
    if not needle:
        return 0
    for i in range(len(hay) - len(needle) + 1):
        if hay[i:i + len(needle)] == needle:
            return i
    return -1


def permitted_choice(typ, key, vals):
    """did the user make a permitted choice for a generator-managed [Service] setting?"""
    if not vals or vals[-1] == "":
        return False
    last = vals[-1]
    if key == "KillMode":
        return typ in ("container", "kube") and last in ("mixed", "control-group")
    if key == "Type":
        return typ in ("container", "kube") and last == "oneshot"
    if key in ("SyslogIdentifier", "RemainAfterExit", "WorkingDirectory"):
        return True          # any non-empty value
    return False


def check_one(typ, inp, svc):
    """inp: sections of the input as the implementation parsed it; svc: sections of the generated service.  Returns list of complaints."""
    own = docs.TYPES[typ][0]
    bad = []
    seen = set()
    dd = values(inp, "Quadlet", "DefaultDependencies")
    defaults_on = (not dd) or dd[-1] == "" or dd[-1].strip() in ("1", "yes", "true", "on")
    for sec, es in inp:
        if sec in (own, "Quadlet", "X-" + own, "X-Quadlet"):
            continue  # the own sections are covered by the X-<name> clause below
        for key in dict.fromkeys(k for k, _ in es):
            if (sec, key) in seen:
                continue
            seen.add((sec, key))
            uv, sv = values(inp, sec, key), values(svc, sec, key)
            pos = find_sub(sv, uv)
            if sec == "Service" and key in MANAGED:
                if key == "NotifyAccess" and typ == "container" and (values(inp, "Service", "Type") or [""])[-1] != "oneshot":
                    continue  # the one entry the generator may replace
                if permitted_choice(typ, key, uv):
                    if sv != uv:
                        bad.append(("ManagedOverwritten:" + key if key == "KillMode" else None, "[Service] %s: user %s, generated %s" % (key, uv, sv)))
                    continue
                if uv and uv[-1] == "":
                    continue  # an empty last assignment is no choice (C15): the generator's default may take its place
            if pos < 0:
                bad.append((None, "[%s] %s: user values %s are not kept in order in %s" % (sec, key, uv, sv)))
                continue
            pre, post = sv[:pos], sv[pos + len(uv):]
            if sec == "Unit" and key in GEN_UNIT_PRE and defaults_on and "network-online.target" not in uv:
                # the default dependency comes BEFORE the user's entries, so that the user keeps the last word
                if pre != ["network-online.target"] or "network-online.target" in post:
                    bad.append((None, "[Unit] %s: the default network-online.target must precede the user's %s, generated %s" % (key, uv, sv)))
                    continue
            allowed_pre = sec == "Unit" and key in GEN_UNIT_PRE
            allowed_post = (sec == "Unit" and key in GEN_UNIT_POST) or (sec == "Service" and (key in GEN_SERVICE_POST or key in MANAGED))
            if pre and not (allowed_pre and pre == ["network-online.target"]):
                bad.append((None, "[%s] %s: generated %s placed before the user's %s" % (sec, key, pre, uv)))
            if post and not allowed_post:
                bad.append((None, "[%s] %s: unexpected values %s after the user's %s" % (sec, key, post, uv)))
    for src, dst in ((own, "X-" + own), ("Quadlet", "X-Quadlet")):
        ue = [e for n, es in inp if n == src for e in es]
        xe = [e for n, es in svc if n == dst for e in es]
        pre_x = [e for n, es in inp if n == dst for e in es]
        if xe != pre_x + ue:
            bad.append((None, "[%s] is not kept verbatim as [%s]: %s vs %s" % (src, dst, ue, xe)))
        if any(n == src for n, _ in svc):
            bad.append((None, "[%s] still present in the service" % src))
    return bad


def run(ctx):
    ctx.rule = ("units of all 7 types (adversarial key/value mixes from the documented tables) with extra [Unit]/[Service]/[Install]/custom sections, repeated keys, empty "
                "assignments, every allowed and some disallowed values of generator-managed settings (KillMode, Type, SyslogIdentifier, RemainAfterExit, WorkingDirectory, NotifyAccess), "
                "user X-<Type> sections and DefaultDependencies on/off; non-trivial = the unit has at least one user entry outside its own section; distinct = distinct unit texts")
    rng = ctx.rng
    work = []
    extras = ["[Unit]\nAfter=a.service\nAfter=\nAfter=b.service c.service\nWants=w.target\nDescription=x y\n", "[Unit]\nRequires=r.service\nBefore=b.target\nWants=\n",
              "[Install]\nWantedBy=default.target\nAlias=al.service\n", "[X-Custom]\nFoo=bar\nFoo=baz\n", "[Service]\nEnvironment=A=1\nEnvironment=B=2\nExecStartPre=/bin/a\nExecStartPre=/bin/b\nRestart=always\n",
              "[Service]\nKillMode=control-group\n", "[Service]\nKillMode=mixed\nKillMode=control-group\n", "[Service]\nType=oneshot\nRemainAfterExit=no\n", "[Service]\nSyslogIdentifier=mine\nNotifyAccess=main\n",
              "[Service]\nType=notify\nNotifyAccess=exec\n", "[Service]\nWorkingDirectory=/my/wd\n", "[Service]\nWorkingDirectory=~\n", "[Service]\nWorkingDirectory=-/srv/app\n", "[Service]\nWorkingDirectory=-~\n", "[Service]\nType=\n", "[Timer]\nOnCalendar=daily\n"]
    for _ in range(ctx.volume(3000, 50000)):
        typ = rng.choice(list(docs.TYPES))
        text = gen_conv.gen_wild_unit(rng, typ) if rng.random() < 0.5 else gen_conv.gen_unit(rng, typ, 0.3)[0]
        for e in rng.sample(extras, rng.choice([0, 1, 2, 3])):
            text += e
        if rng.random() < 0.1:
            text += "[X-%s]\nUser=entry\n" % docs.TYPES[typ][0]
        if typ == "kube" and rng.random() < 0.3:
            text = text.replace("[Kube]\n", "[Kube]\nSetWorkingDirectory=%s\n" % rng.choice(["yaml", "unit"]), 1)
        if typ == "build" and rng.random() < 0.4:
            text = text.replace("[Build]\n", "[Build]\nSetWorkingDirectory=%s\n" % rng.choice(["file", "unit", "./ctx", "ctx/sub", "/abs/ctx", "https://example.com/r.git"]), 1)
        work.append((typ, "/d/u.%s" % typ, text))
    conv_cases = [case_line("convert", "0", p, t) for _, p, t in work]
    outs = vlib.run_impl(conv_cases)
    parsed = vlib.run_impl([case_line("parse", t) for _, _, t in work])
    model = vlib.run_model(conv_cases) if ctx.model_ok else outs
    ci, cm = vlib.canon_records(outs), vlib.canon_records([m if m not in ("SKIP", "PANIC") else "OK" for m in model])
    mism = 0
    for i, ((typ, path, text), o, pi) in enumerate(zip(work, outs, parsed)):
        ctx.evaluations += 1
        rec = vlib.parse_convert(o)[0]
        ctx.count("%s:%s" % (typ, "converted" if rec.get("ok") else "err"))
        if model[i] != "SKIP" and ci[i] != cm[i] and not (model[i] == "PANIC" and o.startswith("PANIC")):
            mism += 1
            if mism <= 3:
                ctx.broken.append("correspondence convert: unit=%s" % show(text))
        if not rec.get("ok"):
            continue
        t = pi.split("\t")
        inp = vlib.parse_unit_tokens(t, 1)[0]
        if any(sec not in (docs.TYPES[typ][0], "Quadlet") for sec, _ in inp):
            ctx.nontrivial.add(text)
        for cls, msg in check_one(typ, inp, rec["sections"]):
            ctx.failures.append({"op": "convert", "type": typ, "unit": show(text), "case_hex": conv_cases[i], "what": msg, "class": cls})
    ctx.oblig("correspondence: model converters = implementation on every generated unit (whole service)", mism == 0, "%d mismatches" % mism)
    ctx.samples = [{"type": t, "unit": show(x)} for t, _, x in work[:4]]
    unknown = [f for f in ctx.failures if f["class"] is None]
    ctx.oblig("direct oracle: user entries outside the unit's own and [Quadlet] sections keep value and per-key order; defaults come first in [Unit]; own section kept as X-<name>; permitted managed choices are not overwritten",
              not ctx.failures, "%d failures (%d outside known classes)" % (len(ctx.failures), len(unknown)))


def replay(ctx, obj):
    f = obj.get("failure")
    if not f or "case_hex" not in f:
        print("replay: %s" % (obj.get("broken") or f)); return 1
    o = vlib.run_impl([f["case_hex"]])[0]
    rec = vlib.parse_convert(o)[0]
    text = unhx(f["case_hex"].split("\t")[3]).decode()
    inp = vlib.parse_unit_tokens(vlib.run_impl([case_line("parse", text)])[0].split("\t"), 1)[0]
    bad = check_one(f["type"], inp, rec["sections"]) if rec.get("ok") else []
    print("replay: %s" % ("still failing: %s" % bad[0][1] if bad else "passes now"))
    return 1 if bad else 0
