"""C02 -- each supported key adds exactly its documented podman option, value intact."""
import os
import vlib, gen_conv, docs, sdref
from vlib import hx, unhx, case_line, show

THEOREMS = ["C02_tables", "C02_strings_frame", "C02_bools_frame", "C02_all_strings_frame", "C02_pinned_refuted", "C02_volume_pinned_refuted",
            "C02_container_string_key_frame", "C02_container_list_key_frame", "C02_container_bool_key_frame", "C02_frame_example",
            "C02_image_string_key_frame", "C02_image_bool_key_frame", "C02_network_string_key_frame", "C02_network_bool_key_frame",
            "C02_network_list_key_frame", "C02_pod_string_key_frame", "C02_pod_list_key_frame", "C02_pod_frame_example", "C02_network_frame_example", "C02_priority_table", "C02_container_command_shape", "C02_image_command_shape", "C02_network_command_shape", "C02_pod_command_shape", "C02_kube_command_shape", "C02_build_command_shape", "C02_volume_command_shape", "C02_run_services_are_conversions", "C02_every_container_service_of_the_run"]

VALUES = ["v", "a b", "x=y", "p:q", "c,d", "%n", "é", "it's", 'say "hi"', "back\\slash", "tab\there", "-dash", "$X", "a  b", "\U0001F600", "UPPER", "[br]", "#h"]
SUBCOMMAND = {"container": ["run"], "pod": ["pod", "create"], "volume": ["volume", "create"], "network": ["network", "create"], "kube": ["kube", "play"],
              "image": ["image", "pull"], "build": ["build"]}
EXEC_KEY = {"pod": "ExecStartPre"}


def inventory(ctx):
    T = ctx.tables
    if not T:
        return
    # every (key, option) pair of the regenerated lookup tables is the documented pair of that kind
    checks = [("container", "str", "from_container_unit__string_keys"), ("container", "all", "from_container_unit__all_string_keys"),
              ("container", "bool", "from_container_unit__bool_keys"), ("container", "all", "handle_publish_ports__inline0"),
              ("build", "str", "from_build_unit__string_keys"), ("build", "bool", "from_build_unit__bool_keys"), ("build", "all", "from_build_unit__all_string_keys"),
              ("image", "str", "from_image_unit__string_keys"), ("image", "bool", "from_image_unit__bool_keys"),
              ("network", "bool", "from_network_unit__bool_keys"), ("network", "str", "from_network_unit__string_keys"), ("network", "all", "from_network_unit__inline0"),
              ("pod", "str", "from_pod_unit__string_keys"), ("pod", "all", "from_pod_unit__all_string_keys"), ("container", "all", "get_base_podman_command__inline0")]
    bad = []
    for typ, kind, tname in checks:
        for k, opt in T["pair_tables"][tname]:
            d = docs.kind_of(typ, k)
            if d is None or d[0] != kind or d[1] != opt:
                bad.append("%s %s: source (%s,%s) documented %s" % (typ, tname, k, opt, d))
    for k, suffix in T["pair_tables"]["handle_health__key_arg_map"]:
        d = docs.kind_of("container", k)
        if d is None or d != ("str", "--health-" + suffix):
            bad.append("health %s" % k)
    ctx.oblig("regenerated (key, option) tables of convert.rs = documented options (tools/docs.py)", not bad, "; ".join(bad))
    # read-site inventory: every key the Rust converters look up by a literal name is a key literal of the converter model
    import gen_tables, re
    reads = set()
    for path in ("src/quadlet/convert.rs", "src/quadlet/mod.rs"):
        toks = gen_tables.nontest_tokens(path)
        for k, t in enumerate(toks):
            if t[0] == "id" and (t[1].startswith("lookup") or t[1] == "has_key") and toks[k + 1] == ("p", "("):
                j, depth, key = k + 2, 1, None
                while depth and j < len(toks):
                    if toks[j] == ("p", "("):
                        depth += 1
                    elif toks[j] == ("p", ")"):
                        depth -= 1
                    elif depth == 1 and toks[j][0] == "str" and key is None:
                        key = toks[j][1]
                    j += 1
                if key:
                    reads.add(key)
    msrc = "".join(open(os.path.join(vlib.COQ, "Model", f)).read() for f in ("Convert.v", "Names.v", "Links.v"))
    mkeys = set(re.findall(r'\((?:L|s2l) "([A-Za-z0-9]+)"\)', msrc))
    table_keys = {k for tn, pairs in T["pair_tables"].items() for k, _ in pairs}
    missing = sorted(reads - mkeys - table_keys)
    ctx.oblig("read-site inventory: the %d keys that convert.rs / mod.rs look up by a literal name are all read by the converter model" % len(reads),
              not missing and len(reads) > 60, "looked up in the source, absent from the model: %s" % missing)


def spell_whole(rng, v):
    return gen_conv.spell(rng, v)


def gen_key_case(rng, typ, key):
    """returns (lines for the key, expected option group as list of argv words, position class) or None for special keys not covered here"""
    kind, opt = docs.kind_of(typ, key)[:2]
    if kind == "str":
        v = rng.choice(VALUES)
        return ["%s=%s" % (key, spell_whole(rng, v))], [opt, v]
    if kind == "streq":
        v = rng.choice(VALUES)
        return ["%s=%s" % (key, spell_whole(rng, v))], [opt + "=" + v]
    if kind == "bool":
        b = rng.choice(gen_conv.BOOLS)
        return ["%s=%s" % (key, b)], [opt] if b in ("yes", "true", "1", "on") else [opt + "=false"]
    if kind == "all":
        vs = [rng.choice(VALUES) for _ in range(rng.randint(1, 3))]
        return ["%s=%s" % (key, spell_whole(rng, v)) for v in vs], [x for v in vs for x in (opt, v)]
    if kind == "strv":
        ws = [rng.choice(["w1", "k=v", "a:b", "é", "x y", "UP", "p=/var/log/a\\tb", "t=a\\\\b", "n\\x41"]) for _ in range(rng.randint(1, 3))]      # plain lists keep backslashes literally
        return ["%s=%s" % (key, " ".join('"%s"' % w if " " in w else w for w in ws))], [x for w in ws for x in (opt, w)]
    if kind == "args":
        ws = [rng.choice(VALUES) for _ in range(rng.randint(1, 3))]
        return ["%s=%s" % (key, " ".join(gen_conv.word(rng, w) for w in ws))], [x for w in ws for x in (opt, w)]
    if kind == "kv":
        names = rng.sample(["A", "B", "k.x", "N"], rng.randint(1, 3))
        ws = [(n, rng.choice(VALUES)) for n in names]
        return ["%s=%s" % (key, " ".join(gen_conv.word(rng, "%s=%s" % w) for w in ws))], [x for nv in sorted("%s=%s" % w for w in ws) for x in (opt, nv)]
    # special keys with a simple documented rule
    if key == "Volume" and typ in ("container", "pod", "build"):
        # one to three assignments, each standing for itself: what one entry carries (options!) must not reach the next one
        vs = [rng.choice(["/src:/dst", "/a:/b:ro", "/a:/b:ro,z", "/a:/b:ro:z", "named:/c", "/only", "named:/c:U:extra", "/c:/d", "anon:/e"]) for _ in range(rng.choice([1, 2, 2, 3]))]
        return ["Volume=%s" % v for v in vs], [x for v in vs for x in ("-v", v)]
    if key == "Mount":
        vs = [rng.choice(["type=tmpfs,tmpfs-size=512M,destination=/t", "type=bind,source=/x,target=/y", "type=volume,source=named,destination=/z,ro", "type=bind,src=/x,dst=/y,relabel=shared"]) for _ in range(rng.choice([1, 1, 2]))]
        return ["Mount=%s" % v for v in vs], [x for v in vs for x in ("--mount", v.replace("src=", "source="))]
    if key == "Network" and typ != "volume":
        vs = [rng.choice(["host", "bridge", "mynet:ip=10.0.0.2", "none", "other"]) for _ in range(rng.choice([1, 1, 2, 3]))]
        return ["Network=%s" % v for v in vs], [x for v in vs for x in ("--network", v)]
    if key in ("AddCapability", "DropCapability"):
        ws = [rng.choice(["CAP_NET_ADMIN", "cap_sys_time", "ALL"]) for _ in range(rng.randint(1, 2))]
        return ["%s=%s" % (key, " ".join(ws))], [x for w in ws for x in (opt, w.lower())]
    if key == "AddDevice":
        # a leading '-' makes the device optional: passed (without the '-') iff the host path before the first ':' exists
        v = rng.choice(["/dev/null:/dev/x:rw", "/dev/null", "/dev/zero:/dev/z", "-/dev/null", "-/dev/null:/dev/x", "-/dev/null:/dev/x:rwm", "-/dev/zero:/dev/a:r",
                        "-/dev/does-not-exist", "-/dev/does-not-exist:/dev/x:rwm", "/dev/does-not-exist:/dev/x:rwm"])
        if v.startswith("-"):
            return ["AddDevice=%s" % v], (["--device", v[1:]] if os.path.exists(v[1:].split(":")[0]) else [])
        return ["AddDevice=%s" % v], ["--device", v]
    if key in ("Mask", "Unmask"):
        return ["%s=/proc/a:/proc/b" % key], ["--security-opt", "%s=/proc/a:/proc/b" % key.lower()]
    if key == "ExposeHostPort":
        return ["ExposeHostPort=8000-9000/tcp"], ["--expose", "8000-9000/tcp"]
    if key == "SeccompProfile":
        return ["SeccompProfile=/p.json"], ["--security-opt", "seccomp=/p.json"]
    if key in ("SecurityLabelType", "SecurityLabelFileType", "SecurityLabelLevel"):
        tag = {"SecurityLabelType": "type", "SecurityLabelFileType": "filetype", "SecurityLabelLevel": "level"}[key]
        return ["%s=s0:c1,c2" % key], ["--security-opt", "label=%s:s0:c1,c2" % tag]
    if key == "AutoUpdate" and typ == "container":
        return ["AutoUpdate=registry"], ["--label", "io.containers.autoupdate=registry"]
    if key == "EnvironmentFile":
        return ["EnvironmentFile=/etc/e1 /etc/e2"], ["--env-file", "/etc/e1", "--env-file", "/etc/e2"]
    if key == "KubeDownForce":
        # a boolean like the others, but its option belongs to the `podman kube down` command (ExecStopPost=)
        b = rng.choice(gen_conv.BOOLS)
        return ["KubeDownForce=%s" % b], (["--force"] if b in ("yes", "true", "1", "on") else ["--force=false"])
    if key == "Rootfs":
        return None
    return None


def find_group(argv, group, kv):
    """index of the option group in argv (kv: group is a sorted multiset of option pairs that must appear contiguously in any order)"""
    n = len(group)
    for i in range(len(argv) - n + 1):
        w = argv[i:i + n]
        if w == group:
            return i
        if kv:
            pairs = sorted(x for j in range(0, n, 2) for x in (w[j], w[j + 1])) if n % 2 == 0 else None
            if n % 2 == 0 and sorted([tuple(w[j:j + 2]) for j in range(0, n, 2)]) == sorted([tuple(group[j:j + 2]) for j in range(0, n, 2)]):
                return i
    return -1


def run(ctx):
    ctx.rule = ("for every unit type and every documented key with a simple documented rule: a base unit with 0-3 other independent keys, with and without the key; values from 18 "
                "adversarial texts in documented quoting; the decoded Exec line must contain exactly the documented option group and, with the group removed, equal the command without the key; "
                "plus the positional clause (GlobalArgs before the sub-command, PodmanArgs after all key options, image/object then Exec last); non-trivial = value needs quoting or key is list-valued; "
                "distinct = distinct (type, key, value lines)")
    rng = ctx.rng
    work = []
    for _ in range(ctx.volume(5000, 80000)):
        typ = rng.choice(list(docs.TYPES))
        sec = docs.TYPES[typ][0]
        keys = docs.documented_keys(typ)
        key = rng.choice(keys)
        gc = gen_key_case(rng, typ, key) if key not in ("GlobalArgs", "PodmanArgs", "ServiceName", "ContainersConfModule") else None
        if gc is None:
            continue
        lines, group = gc
        # other, independent keys of simple kinds
        others = []
        for ok in rng.sample(keys, rng.choice([0, 1, 2, 3])):
            if ok == key or docs.kind_of(typ, ok)[0] not in ("str", "bool", "all", "kv") or ok in ("UserNS", "SubUIDMap", "SubGIDMap", "Driver", "LogDriver", "Pull"):
                continue
            oc = gen_key_case(rng, typ, ok)
            if oc:
                others += oc[0]
        if key in ("Volume",) and typ == "build":
            pass
        base_lines = others
        with_lines = list(others)
        pos = rng.randint(0, len(with_lines))
        with_lines[pos:pos] = lines
        pargs = rng.choice([None, "--pa1 \"p a 2\""])
        gargs = rng.choice([None, "--ga1"])
        extra = ("PodmanArgs=%s\n" % pargs if pargs else "") + ("GlobalArgs=%s\n" % gargs if gargs else "")
        exe = "Exec=run \"it now\"\n" if typ == "container" and rng.random() < 0.5 else ""
        t_with = "[%s]\n%s%s\n%s%s" % (sec, docs.MINIMAL[typ], "\n".join(with_lines), extra, exe)
        t_without = "[%s]\n%s%s\n%s%s" % (sec, docs.MINIMAL[typ], "\n".join(base_lines), extra, exe)
        work.append((typ, key, lines, group, t_with, t_without, bool(pargs), bool(gargs), bool(exe)))
    cases = []
    for w in work:
        cases.append(case_line("convert", "0", "/d/u.%s" % w[0], w[4]))
        cases.append(case_line("convert", "0", "/d/u.%s" % w[0], w[5]))
    outs = vlib.run_impl(cases)
    model = vlib.run_model(cases) if ctx.model_ok else outs
    ci = vlib.canon_records(outs)
    cm = vlib.canon_records([m if m not in ("SKIP", "PANIC") else "OK" for m in model])
    mism = 0
    for i, w in enumerate(work):
        typ, key, lines, group, t_with, t_without, has_pa, has_ga, has_exec = w
        ctx.evaluations += 1
        kind = docs.kind_of(typ, key)[0]
        ctx.count("%s:%s" % (typ, kind))
        if kind in ("all", "strv", "args", "kv") or any(ch in "".join(lines) for ch in "\"\\'"):
            ctx.nontrivial.add((typ, key, tuple(lines)))
        for j in (2 * i, 2 * i + 1):
            if model[j] != "SKIP" and ci[j] != cm[j]:
                mism += 1
                if mism <= 3:
                    ctx.broken.append("correspondence convert: unit=%s" % show(unhx(cases[j].split("\t")[3]).decode()))
        ra, rb = ci[2 * i][0], ci[2 * i + 1][0]
        if not ra["ok"] or not rb["ok"]:
            ctx.failures.append({"op": "convert", "type": typ, "key": key, "case_hex": cases[2 * i], "what": "unit with documented key %s=%s does not convert: %s" % (key, lines, ra.get("err") or rb.get("err")), "class": None})
            continue
        ek = "ExecStopPost" if key == "KubeDownForce" else EXEC_KEY.get(typ, "ExecStart")
        a = [v for n, es in ra["sections"] if n == "Service" for k, v in es if k == ek][0]
        b = [v for n, es in rb["sections"] if n == "Service" for k, v in es if k == ek][0]
        if a is None or b is None:
            ctx.failures.append({"op": "convert", "type": typ, "key": key, "case_hex": cases[2 * i], "what": "Exec line does not split by systemd's rules", "class": None})
            continue
        is_kv = kind == "kv"
        idx = find_group(a, group, is_kv)
        cls = None
        if key == "Volume" and any(l.count(":") >= 3 for l in lines):
            cls = "VolumeOptionsTruncated"
        if key == "Mount":
            cls = "MountTrailingNewline"
        if idx < 0:
            ctx.failures.append({"op": "convert", "type": typ, "key": key, "case_hex": cases[2 * i],
                                 "what": "%s in a .%s unit: documented option group %s not found in %s" % (lines, typ, group, a), "class": cls})
            continue
        rest = a[:idx] + a[idx + len(group):]
        if vlib.canon_argv(rest) != vlib.canon_argv(b):
            ctx.failures.append({"op": "convert", "type": typ, "key": key, "case_hex": cases[2 * i],
                                 "what": "adding %s changed more than its own option group: without the group %s, without the key %s" % (lines, rest, b), "class": None})
            continue
        if key == "KubeDownForce":
            continue          # the positional clause below is about the main command
        # positional clause
        sub = SUBCOMMAND[typ]
        try:
            si = next(k for k in range(len(a)) if a[k:k + len(sub)] == sub)
        except StopIteration:
            si = -1
        bad = None
        if si < 0:
            bad = "sub-command %s not found" % sub
        elif has_ga and not ("--ga1" in a[:si]):
            bad = "GlobalArgs not before the sub-command"
        elif idx < si + len(sub) and docs.kind_of(typ, key)[0] != "special":
            bad = "key option before the sub-command"
        if not bad and has_pa:
            try:
                pi = a.index("--pa1")
            except ValueError:
                pi = -1
            tail = {"container": 1, "volume": 1, "network": 1, "image": 1, "kube": 1, "pod": 0, "build": 0}[typ] + (2 if has_exec else 0)
            if pi < 0 or a[pi:pi + 2] != ["--pa1", "p a 2"] or pi < idx + len(group) or pi + 2 != len(a) - tail:
                bad = "PodmanArgs not directly before the object name / after the key options: %s" % a
        if not bad and has_exec and a[-2:] != ["run", "it now"]:
            bad = "Exec arguments not last"
        if bad:
            ctx.failures.append({"op": "convert", "type": typ, "key": key, "case_hex": cases[2 * i], "what": bad, "class": None})
    ctx.oblig("correspondence: model converters = implementation on every generated unit", mism == 0, "%d mismatches" % mism)
    # end to end: Volume=/Network=/Image= naming another unit carry that unit's object name also when the referring file is discovered first
    import e2e, e2e_refs
    with e2e.Box() as box:
        for b in e2e_refs.failures(e2e_refs.run(box, "c02")):
            ctx.failures.append({"op": "e2e-refs", "files": {**e2e_refs.REFERRERS, **e2e_refs.REFERENCED}, "what": b, "class": None})
        ctx.evaluations += 2
        ctx.count("e2e_reference_orders", 2)
    ctx.samples = [{"type": w[0], "key": w[1], "lines": w[2], "documented_group": w[3]} for w in work[:8]]
    unknown = [f for f in ctx.failures if f["class"] is None]
    ctx.oblig("direct oracle: the documented option group is present with the exact value, nothing else in the command changes, positions are as documented",
              not ctx.failures, "%d failures (%d outside known classes)" % (len(ctx.failures), len(unknown)))


def replay(ctx, obj):
    f = obj.get("failure")
    if not f or "case_hex" not in f:
        print("replay: %s" % (obj.get("broken") or f)); return 1
    o = vlib.run_impl([f["case_hex"]])[0]
    rec = vlib.canon_records([o])[0][0]
    print("unit:", show(unhx(f["case_hex"].split("\t")[3]).decode()))
    print("impl:", [v for n, es in rec.get("sections", []) if n == "Service" for k, v in es if k.startswith("ExecStart")])
    print("was :", f["what"])
    return 1
