"""C06 -- generated unit files read back exactly as generated; values cannot forge lines."""
import os
import vlib, gen_conv, gen_units, docs
from vlib import hx, unhx, case_line, show

THEOREMS = ["C06_roundtrip", "C06_lines", "C06_quote_value_safe", "C06_write_calls", "C06_generated_services_have_no_newline", "C06_generated_services_line_count", "C06_conversion_keeps_the_shape", "C06_parsed_units_are_shaped", "C06_generated_services_are_shaped", "C06_generated_services_read_back", "C06_generated_services_are_validated", "C06_every_generated_service_reads_back", "C06_read_back_example", "C06_every_generated_service_reads_back_with_dropins"]


def inventory(ctx):
    """store-site inventory of convert.rs: every store into the service unit is add/set/prepend (value passes quote_value) or
    add_raw/set_raw (value validated by unquote_value); the only add_raw sites are the Exec* lines (quote_words output)."""
    import gen_tables
    toks = gen_tables.nontest_tokens("src/quadlet/convert.rs")
    counts = {}
    raw_keys = set()
    for k, t in enumerate(toks):
        if t[0] == "id" and t[1] in ("add", "add_raw", "set", "set_raw", "prepend") and toks[k - 1] == ("p", ".") and toks[k + 1] == ("p", "("):
            recv = toks[k - 2][1]
            if recv in ("service", "service_unit_file"):
                counts[t[1]] = counts.get(t[1], 0) + 1
                if t[1] in ("add_raw", "set_raw"):
                    # key literal is the second argument
                    j = k + 2
                    while toks[j][0] != "str":
                        j += 1
                    raw_keys.add(toks[j][1])
    ctx.oblig("store-site inventory: service entries are stored only through add/set/prepend (%d/%d/%d sites, value = quote_value(..)) or add_raw (%d sites, keys %s)" % (
        counts.get("add", 0), counts.get("set", 0), counts.get("prepend", 0), counts.get("add_raw", 0), sorted(raw_keys)),
        raw_keys == {"ExecStart", "ExecStartPre", "ExecStop", "ExecStopPost"} and counts.get("set_raw", 0) == 0 and counts.get("add", 0) >= 30,
        "raw store sites changed: %s %s" % (sorted(raw_keys), counts))


def line_reader(text):
    """the harness's own reader of a generated file, independent of the repository's parser: one physical line per header / entry"""
    secs, garbage = [], []
    for ln in text.split("\n"):
        if ln.strip() == "":
            continue
        if ln.startswith("[") and ln.endswith("]"):
            secs.append((ln[1:-1], []))
        elif "=" in ln and secs and not ln.startswith("["):
            k, v = ln.split("=", 1)
            secs[-1][1].append((k, v))
        else:
            garbage.append(ln)
    return secs, garbage


def to_text(sections):
    return "".join("[%s]\n%s\n" % (n, "".join("%s=%s\n" % (k, v) for k, v in es)) for n, es in sections)


def classify(sections, back):
    """known class: the only difference is an entry whose value starts with a blank or ends in white space"""
    if back is None or [n for n, _ in sections] != [n for n, _ in back]:
        return None
    for (n, es), (_, bs) in zip(sections, back):
        if len(es) != len(bs):
            return None
        for (k, v), (bk, bv) in zip(es, bs):
            if (k, v) != (bk, bv):
                if k == bk and (v.strip(" \t") == bv or v.strip() == bv) and (v[:1] in " \t" or v != v.rstrip()):
                    continue
                return None
    return "BlankAtValueEdge"


def unit_ops(ctx):
    rng = ctx.rng
    cases = []
    secs, keys = ["Unit", "Service", "X", "Install"], ["A", "B", "KillMode", "After"]
    vals = ["v", "a b", "", "x\ny", "\"q\"", "it's", "é", "a\\b", " lead", "trail "]
    raws = ["v", "a b", "", "\"q r\"", "\\x41", "\\q", "a\\"]
    for _ in range(ctx.volume(4000, 60000)):
        f = []
        for _ in range(rng.randint(1, 8)):
            op = rng.choice(["add", "add", "add_raw", "set", "set", "prepend", "rename", "merge"])
            if op in ("add", "set", "prepend"):
                f += [op, rng.choice(secs), rng.choice(keys), rng.choice(vals)]
            elif op == "add_raw":
                f += [op, rng.choice(secs), rng.choice(keys), rng.choice(raws)]
            elif op == "rename":
                f += [op, rng.choice(secs), rng.choice(secs + ["X-Y"])]
            else:
                f += [op, "[%s]\n%s=%s\n[%s]\nZ=1\n" % (rng.choice(secs), rng.choice(keys), rng.choice(raws), rng.choice(secs))]
        cases.append(case_line("unit_ops", *f))
    impl = vlib.run_impl(cases)
    model = vlib.run_model(cases) if ctx.model_ok else impl
    mism = 0
    for c, a, b in zip(cases, impl, model):
        ctx.evaluations += 1
        ctx.count("unit_ops")
        if a != b:
            mism += 1
            if mism <= 3:
                ctx.broken.append("correspondence unit_ops: ops=%s impl=%s model=%s" % ([show(unhx(x)) for x in c.split("\t")[1:]], a[:300], b[:300]))
    ctx.oblig("correspondence: model multimap operations (add, add_raw, set, prepend, rename_section, merge_from, to_string) = implementation on random operation sequences", mism == 0, "%d mismatches" % mism)


def stale_level(ctx):
    """the FILE that is written: a real run into an output directory that already holds older, longer files under the same names
    (what a regeneration after a unit was shortened meets) must leave exactly the generated text -- read back, nothing of the old file remains"""
    import e2e
    rng = ctx.rng
    with e2e.Box() as box:
        for i in range(ctx.volume(6, 60)):
            files = {}
            for j in range(rng.randint(2, 5)):
                typ = rng.choice(list(docs.TYPES))
                files["u/s%d.%s" % (j, typ)] = gen_conv.gen_unit(rng, typ, 0.3)[0]
            root = box.path("st%d" % i)
            e2e.make_tree(root, files)
            rc, out, err = e2e.run_quadlet([os.path.join(root, "u")], os.path.join(root, "fresh"))
            fresh = {k: v for k, v in e2e.snapshot(os.path.join(root, "fresh")).items() if v[0] == "f"}
            os.makedirs(os.path.join(root, "reused"))
            for name, v in fresh.items():
                pth = os.path.join(root, "reused", name)
                os.makedirs(os.path.dirname(pth), exist_ok=True)
                with open(pth, "wb") as f:
                    f.write(v[1] + b"[Install]\nWantedBy=stale.target\n" + b"# an older, longer version of this file\n" * rng.randint(1, 400))
            rc2, out2, err2 = e2e.run_quadlet([os.path.join(root, "u")], os.path.join(root, "reused"))
            reused = {k: v for k, v in e2e.snapshot(os.path.join(root, "reused")).items() if v[0] == "f"}
            ctx.evaluations += 1
            ctx.count("stale_output_dirs")
            ctx.nontrivial.add(("stale", i))
            for name, v in fresh.items():
                # the two runs are separate processes: name=value option runs may come out in a different order (HashMap), nothing else may differ
                same = name in reused and len(reused[name][1]) == len(v[1]) and sorted(reused[name][1].split()) == sorted(v[1].split())
                if not same:
                    got = reused.get(name, ("f", b""))[1]
                    ctx.failures.append({"op": "e2e_stale", "files": files, "what": "%s written over an older, longer file reads back with %d bytes instead of the %d generated: stray tail %r" % (name, len(got), len(v[1]), got[len(v[1]):][:80]), "class": None})
                    break


def run(ctx):
    ctx.rule = ("units of all 7 types built from the documented key tables with injection payloads as values (escaped newlines followed by forged entries/sections, "
                "brackets, '#', ';', '=', backslashes, controls, blanks at the edges), unusual file names (newline, '[', '=', '#', blanks), payloads in the directory part of Yaml= / File= / SetWorkingDirectory= and of the unit's own directory (the paths the generator derives and stores as WorkingDirectory=, --configmap), in absolute Volume= / Mount= sources alone and next to a blank, a quote or a backslash (stored as RequiresMountsFor=), and extra user sections; each converted, plus real runs into an output directory that already holds older, longer files of the same names (the written file must be exactly the generated text); "
                "the service serialised as to_string does and read back by the implementation's parser; plus random multimap operation sequences model-vs-implementation; "
                "non-trivial = unit carries at least one payload value or unusual name; distinct = distinct unit texts")
    rng = ctx.rng
    unit_ops(ctx)
    names = ["a", "web app", "x[y]", "k=v", "#h", "n\nl", "é", "t@", "semi;colon", " lead", "q\"uote"]
    work = []
    for _ in range(ctx.volume(2500, 40000)):
        typ = rng.choice(list(docs.TYPES))
        text, used = gen_conv.gen_unit(rng, typ, 0.6)
        if rng.random() < 0.5:
            extra = gen_units.gen_model(rng, 1)
            ok = [(s, [(k, v) for k, v in es if "\n" not in v]) for s, es in extra if s not in ("Container", "Quadlet", docs.TYPES[typ][0])]
            text += gen_units.render(rng, ok, False) if ok else ""
        if rng.random() < 0.05:
            text += "[Service]\nExecStartPre=\\\n  /bin/true\n"      # a user value that starts with blanks (via a continuation)
        if rng.random() < 0.08:
            # a value whose last line ends in a backslash, followed by an empty (or blank) line and then another entry or header: the value ends there
            text += rng.choice(["[Service]\nExecStartPre=/bin/true \\\n\nExecStartPost=/bin/false\n", "[Service]\nExecStartPre=/bin/true \\\n\n[X-Next]\nK=v\n",
                                "[X-A]\nK=a \\\n# c\n\nL=b\n", "[Service]\nExecStartPre=/bin/true \\\n \nExecStartPost=/bin/false\n"])
        if rng.random() < 0.08:
            # a value that ends in a backslash once the white space after it is trimmed (TAB, CR, FF after the backslash): it must not be
            # stored as a value that ends in a lone backslash (which would swallow the next generated line), quoted or not
            text += rng.choice(['[Service]\nExecStartPre="starting\\\t\nRestart=always\n', "[Service]\nEnvironment='it\\\r\nRestart=on-failure\n",
                                '[Service]\nExecStartPre=/bin/true \\\t\nRestart=always\n', '[X-A]\nK="open\\\x0c\nL=next\n'])
        if rng.random() < 0.05:
            # header left unclosed on its line, closed later: must not become a section name that spans lines
            text += rng.choice(["[X-Meta\nExecStartPre=/bin/evil\n]\nK=v\n", "[Service\nExecStart=/bin/evil\nX=]\n", "[A\n]\n"])
        path = "/d/%s.%s" % (rng.choice(names), typ)
        work.append((typ, path, text, used))
    # the paths the generator derives and stores itself (WorkingDirectory= from Yaml= / File= / the unit's directory / a relative
    # SetWorkingDirectory=): payloads in the DIRECTORY part
    for pay in gen_conv.TEXT:
        d = gen_conv.dq("/srv/" + pay + "/x")
        work.append(("kube", "/d/k.kube", "[Kube]\nYaml=%s\nSetWorkingDirectory=yaml\n" % d, [("Yaml", pay)]))
        work.append(("build", "/d/b.build", "[Build]\nImageTag=localhost/t\nFile=%s\nSetWorkingDirectory=file\n" % d, [("File", pay)]))
        work.append(("build", "/d/b.build", "[Build]\nImageTag=localhost/t\nSetWorkingDirectory=%s\n" % gen_conv.dq("sub/" + pay), [("SetWorkingDirectory", pay)]))
        work.append(("kube", "/d/%s/k.kube" % pay.replace("/", "_"), "[Kube]\nYaml=p.yaml\nSetWorkingDirectory=unit\n", [("dir", pay)]))
        work.append(("kube", "/d/%s/k.kube" % pay.replace("/", "_"), "[Kube]\nYaml=sub/p.yaml\nConfigMap=cm.yaml\n", [("dir", pay)]))
    # host paths the generator copies into [Unit] RequiresMountsFor= (absolute Volume= / Mount= sources): payloads alone and combined with a blank,
    # a quote and a backslash (a path that "needs quoting" must not open a second way into the file)
    for pay in gen_conv.TEXT:
        for deco in ("%s", "%s x", "a b/%s", "q\"/%s y", "b\\/%s z"):
            src = "/srv/" + deco % pay
            if ":" in src or "," in src:
                continue
            work.append(("container", "/d/c.container", "[Container]\nImage=img\nVolume=%s\n" % gen_conv.dq(src + ":/dst"), [("Volume", pay)]))
            work.append(("pod", "/d/p.pod", "[Pod]\nVolume=%s\n" % gen_conv.dq(src + ":/dst:ro"), [("Volume", pay)]))
            work.append(("build", "/d/b.build", "[Build]\nImageTag=localhost/t\nFile=/Containerfile\nVolume=%s\n" % gen_conv.dq(src + ":/dst"), [("Volume", pay)]))
            if '"' not in src and "\n" not in src and "\r" not in src:
                work.append(("container", "/d/c.container", "[Container]\nImage=img\nMount=%s\n" % gen_conv.dq("type=bind,source=%s,destination=/m" % src), [("Mount", pay)]))
    outs = vlib.run_impl([case_line("convert", "0", p, t) for _, p, t, _ in work])
    back_cases, idx = [], []
    for i, o in enumerate(outs):
        rec = vlib.parse_convert(o)[0]
        ctx.evaluations += 1
        typ, path, text, used = work[i]
        ctx.count("%s:%s" % (typ, "converted" if rec.get("ok") else "err:%s" % rec.get("err")))
        if any(isinstance(v, str) and v in gen_conv.TEXT for _, v in used) or not path.split("/")[-1][0].isalnum():
            ctx.nontrivial.add(text + path)
        if rec.get("panic"):
            continue  # C11's subject
        if rec.get("ok"):
            back_cases.append(case_line("parse", to_text(rec["sections"]))); idx.append((i, rec))
    backs = vlib.run_impl(back_cases)
    for (i, rec), b in zip(idx, backs):
        t = b.split("\t")
        back = vlib.parse_unit_tokens(t, 1)[0] if t[0] == "OK" else None
        # independent line reader: every section header and every entry is exactly one physical line, nothing else is in the file
        lsecs, garbage = line_reader(to_text(rec["sections"]))
        want = [(n, [(k, v.strip(" \t")) for k, v in es]) for n, es in rec["sections"]]
        got = [(n, [(k, v.strip(" \t")) for k, v in es]) for n, es in lsecs]
        if garbage or got != want:
            typ, path, text, used = work[i]
            ctx.failures.append({"op": "convert+linereader", "unit": show(text), "path": show(path), "case_hex": case_line("convert", "0", path, text),
                                 "what": "read line by line, the generated service is not what was generated: stray lines %s; sections %s vs generated %s" % (garbage[:3], [n for n, _ in got], [n for n, _ in want]),
                                 "class": None})
            continue
        if back != rec["sections"]:
            typ, path, text, used = work[i]
            diff = None
            if back is not None:
                for (n, es), (bn, bs) in zip(rec["sections"], back):
                    for e, be in zip(es, bs):
                        if e != be:
                            diff = (n, e, be); break
                    if diff:
                        break
            ctx.failures.append({"op": "convert+readback", "unit": show(text), "path": show(path), "case_hex": case_line("convert", "0", path, text),
                                 "what": "generated service does not read back as generated; first difference %s" % (diff,),
                                 "class": classify(rec["sections"], back)})
    stale_level(ctx)
    ctx.samples = [{"path": show(p), "unit": show(t)} for _, p, t, _ in work[:4]]
    unknown = [f for f in ctx.failures if f["class"] is None]
    ctx.oblig("direct oracle: every generated service, serialised and read back by the implementation's parser, has exactly the generated sections and entries",
              not unknown, "%d failures" % len(unknown))


def replay(ctx, obj):
    f = obj.get("failure")
    if not f:
        print("replay: broken-tie record: %s" % obj.get("broken"))
        return 1
    o = vlib.run_impl([f["case_hex"]])[0]
    rec = vlib.parse_convert(o)[0]
    if not rec.get("ok"):
        print("replay: unit no longer converts: %s" % rec.get("err")); return 0
    b = vlib.run_impl([case_line("parse", to_text(rec["sections"]))])[0].split("\t")
    back = vlib.parse_unit_tokens(b, 1)[0] if b[0] == "OK" else None
    print("replay: %s" % ("passes now" if back == rec["sections"] else "still failing"))
    return 0 if back == rec["sections"] else 1
