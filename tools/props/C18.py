"""C18 -- failures to write output are reported, never silently ignored."""
import os, re, resource, shutil, signal, subprocess
import vlib, e2e
from vlib import show

THEOREMS = ["C18_reported", "C18_pinned_refuted"]


def inventory(ctx):
    import gen_tables
    toks = gen_tables.nontest_tokens("src/main.rs")
    for name, a, b in gen_tables.fn_spans(toks):
        if name == "generate_service_file":
            txt = " ".join(t[1] for t in toks[a:b])
            ctx.oblig("write-site inventory: generate_service_file propagates File::create, the header writeln!, write_to and an explicit flush() with '?'",
                      "File :: create ( out_filename ) ?" in txt and "write_to ( & mut writer ) ?" in txt and "writer . flush ( ) ?" in txt, txt[:400])
        if name == "process":
            txt = " ".join(t[1] for t in toks[a:b])
            ctx.oblig("write-site inventory: process records create_dir_all and generate_service_file errors and enables only after a successful write",
                      "if let Err ( e ) = fs :: create_dir_all" in txt and "if let Err ( e ) = generate_service_file ( & mut service )" in txt
                      and txt.index("generate_service_file ( & mut service )") < txt.index("enable_service_file ( & cfg . output_path"), "process changed")


def unit_text(big):
    n = {False: 0, True: 200, "medium": 40}[big]          # medium: ~3 KiB of service text, below the 8 KiB buffer of the writer
    env = "".join("Environment=K%d=%s\n" % (i, "v" * 60) for i in range(n))
    return "[Container]\nImage=img\n%s[Install]\nWantedBy=default.target\n" % env


def run_case(box, idx, fault, pos, big):
    """three units a,b,c; the fault hits the unit at position pos (sorted order = discovery-independent: we only look at that unit's name)"""
    root = box.path("c%d" % idx)
    names = ["a", "b", "c"]
    files = {"u/%s.container" % n: unit_text(big if n == names[pos] else False) for n in names}
    e2e.make_tree(root, files)
    out = os.path.join(root, "out")
    target = names[pos]
    cmd_prefix = []
    if fault == "outdir_is_file":
        open(out, "w").write("x")
    elif fault.startswith("fsize="):
        os.makedirs(out)
    elif fault == "outdir_parent_is_file":
        open(os.path.join(root, "blk"), "w").write("x")
        out = os.path.join(root, "blk", "out")
    else:
        os.makedirs(out)
        if fault == "dir_in_the_way":
            os.makedirs(os.path.join(out, target + ".service"))
        elif fault == "dev_full":
            os.symlink("/dev/full", os.path.join(out, target + ".service"))
        elif fault == "readonly_file":
            p = os.path.join(out, target + ".service")
            open(p, "w").write("old")
            os.chmod(p, 0o444)
            os.chmod(root, 0o755)
            for d in (root, os.path.join(root, "u"), out):
                os.chmod(d, 0o777)
            for f in os.listdir(os.path.join(root, "u")):
                os.chmod(os.path.join(root, "u", f), 0o644)
            cmd_prefix = ["setpriv", "--reuid=12345", "--regid=12345", "--clear-groups"]
    env = dict(os.environ)
    env.update({"QUADLET_UNIT_DIRS": os.path.join(root, "u"), "PODMAN": "/usr/bin/podman"})
    env.pop("QUADLET_VERIF", None)
    pre = None
    if fault.startswith("fsize="):
        lim = int(fault.split("=")[1])
        def pre():
            # no file may grow beyond lim bytes; the write that would cross the limit fails with EFBIG (SIGXFSZ ignored): a fault in the middle of the content
            signal.signal(signal.SIGXFSZ, signal.SIG_IGN)
            resource.setrlimit(resource.RLIMIT_FSIZE, (lim, lim))
    p = subprocess.run(cmd_prefix + [vlib.IMPL_BIN, "--no-kmsg-log", out], env=env, stdout=subprocess.PIPE, stderr=subprocess.PIPE, timeout=60, preexec_fn=pre)
    return root, out, target, names, p.returncode, p.stderr.decode("utf-8", "replace")


def run(ctx):
    ctx.rule = ("3-unit runs (each unit with [Install] WantedBy) with one injected failure: output directory path occupied by a file, its parent occupied by a file, the service path occupied "
                "by a directory, the service path a symlink to /dev/full (small unit: failure only at the final flush; unit > 8 KiB: failure during write), an existing read-only service file as an "
                "unprivileged user; a file-size limit (RLIMIT_FSIZE, SIGXFSZ ignored) that makes the write fail at byte 1000 / 2500 of a 3 KiB unit and at byte 1000 / 9000 of a 14 KiB unit; at each of the 3 positions; plus runs in which 256 / 512 service paths are occupied by directories (the exit status must not wrap); non-trivial = every case; distinct = distinct (fault, position, size)")
    cases = []
    for fault in ("dir_in_the_way", "dev_full", "readonly_file"):
        for pos in range(3):
            for big in ((False, True) if fault == "dev_full" else (False,)):
                cases.append((fault, pos, big))
    # write faults at a byte offset: inside the content of a unit smaller than the writer's buffer (reported only by the final flush), and in the second buffer of a large one
    for pos in range(3):
        cases += [("fsize=1000", pos, "medium"), ("fsize=2500", pos, "medium"), ("fsize=9000", pos, True), ("fsize=1000", pos, True)]
    cases += [("outdir_is_file", 0, False), ("outdir_parent_is_file", 0, False)]
    have_setpriv = shutil.which("setpriv") and os.geteuid() == 0
    with e2e.Box() as box:
        os.chmod(box.root, 0o755)
        for idx, (fault, pos, big) in enumerate(cases):
            if fault == "readonly_file" and not have_setpriv:
                continue
            root, out, target, names, rc, err = run_case(box, idx, fault, pos, big)
            ctx.evaluations += 1
            ctx.nontrivial.add((fault, pos, big))
            ctx.count("fault:" + fault)
            bad = None
            if rc == 0 or rc in (101, 134, "timeout"):
                bad = "exit status %s" % rc
            elif fault.startswith("outdir"):
                if out not in err:
                    bad = "no error naming the output directory: %s" % err[-300:]
            else:
                svc = os.path.join(out, target + ".service")
                if svc not in err:
                    bad = "no error naming %s: %s" % (svc, err[-300:])
                elif fault.startswith("fsize=") and os.path.getsize(svc) > int(fault.split("=")[1]):
                    bad = "fault injection did not take effect"
                elif os.path.lexists(os.path.join(out, "default.target.wants", target + ".service")):
                    bad = "service that could not be written was enabled"
                else:
                    for n in names:
                        if n != target:
                            p = os.path.join(out, n + ".service")
                            if not os.path.isfile(p) or "ExecStart=" not in open(p).read() or not os.path.lexists(os.path.join(out, "default.target.wants", n + ".service")):
                                bad = "remaining service %s was not written and enabled" % n
            if bad:
                ctx.failures.append({"op": "e2e", "fault": fault, "position": pos, "big": big, "what": "%s at unit %d (%s unit): %s" % (fault, pos, {True: "large", False: "small", "medium": "medium"}[big], bad),
                                     "class": "FlushErrorLost" if (fault == "dev_full" and not big) else None})
        # many write failures in one run: the exit status is a yes/no answer (256 failures must not wrap to "all fine")
        for nbad in (256, 512):
            root = box.path("many%d" % nbad)
            files = {"u/ok.container": unit_text(False)}
            for j in range(nbad):
                files["u/w%03d.container" % j] = "[Container]\nImage=img\n"
            e2e.make_tree(root, files)
            out = os.path.join(root, "out")
            for j in range(nbad):
                os.makedirs(os.path.join(out, "w%03d.service" % j))          # the service path is occupied by a directory
            rc, so, se = e2e.run_quadlet([os.path.join(root, "u")], out, timeout=120)
            ctx.evaluations += 1
            ctx.nontrivial.add(("many", nbad))
            ctx.count("fault:many_dirs_in_the_way")
            errt = se.decode("utf-8", "replace")
            bad = None
            if rc == 0 or rc in (101, 134, "timeout"):
                bad = "exit status %s" % rc
            elif sum(1 for j in range(nbad) if os.path.join(out, "w%03d.service" % j) in errt) != nbad:
                bad = "not every failed file is named in an error"
            elif not os.path.isfile(os.path.join(out, "ok.service")):
                bad = "the remaining service was not written"
            if bad:
                ctx.failures.append({"op": "e2e", "fault": "dir_in_the_way x %d" % nbad, "what": "%d service paths occupied by directories: %s" % (nbad, bad), "class": None})
    ctx.samples = [{"fault": f, "position": p, "large_unit": b} for f, p, b in cases[:6]]
    unknown = [f for f in ctx.failures if f["class"] is None]
    ctx.oblig("direct oracle: every injected write failure gives a non-zero exit status (no crash), an error naming the file, no enablement of that service, and the remaining services written and enabled",
              not ctx.failures, "%d failures (%d outside known classes)" % (len(ctx.failures), len(unknown)))


def replay(ctx, obj):
    print("replay: re-run ./check C18 (deterministic cases): %s" % ((obj.get("failure") or {}).get("what")))
    return 1
