"""C20 -- ExposeHostPort accepts exactly port[-port][/tcp|/udp]."""
import itertools, re
import vlib
from vlib import hx, unhx, case_line, show

THEOREMS = ["C20_exact", "C20_pinned_refuted", "C20_callsite_accepts", "C20_callsite_rejects", "C20_every_container_service_of_the_run"]
ALPHA = ["0", "9", "-", "/", "t", "c", "p", "u", "d", "x"]
RE = re.compile(r"[0-9]+(-[0-9]+)?(/tcp|/udp)?\Z")


def classify(v):
    if re.match(r"-[0-9]*(/tcp|/udp)?\Z", v) or re.match(r"(/tcp|/udp)\Z", v) or re.match(r"[0-9]*-(/tcp|/udp)\Z", v) or re.match(r"[0-9]+-?/?(tcp|udp)?\Z", v):
        if not re.search(r"[0-9]", v.split("-")[0].split("/")[0]) or (("-" in v) and not re.search(r"[0-9]", v.split("-", 1)[1].split("/")[0])):
            return "MissingDigits"
    return None


def unit_for(v, spelled=None):
    return "[Container]\nImage=img\nExposeHostPort=%s\n" % (spelled if spelled is not None else v)


def check(ctx, values):
    """values: list of (logical value after unquoting, spelling in the file)"""
    cases = [case_line("convert", "0", "/u/p.container", unit_for(v, sp)) for v, sp in values]
    outs = vlib.run_impl(cases)
    trimmed = [v.strip() for v, _ in values]
    model = vlib.run_model([case_line("port", t) for t in trimmed]) if ctx.model_ok else None
    mism = 0
    for i, (v, sp) in enumerate(values):
        ctx.evaluations += 1
        t = trimmed[i]
        want = bool(RE.match(t))
        ctx.count("in_language" if want else "not_in_language")
        if want or any(ch.isdigit() for ch in t):
            ctx.nontrivial.add(v)
        recs = vlib.parse_convert(outs[i])
        r = recs[0] if recs else {"panic": True}
        if r.get("panic") or r.get("stage") == "load":
            ctx.failures.append({"value": show(v), "case_hex": cases[i], "what": "unexpected driver result %s" % outs[i][:200], "class": None})
            continue
        got = r["ok"]
        if model is not None:
            m = model[i] == "OK\tTRUE"
            if m != got:
                mism += 1
                if mism <= 3:
                    ctx.broken.append("correspondence is_port_range: value=%s impl=%s model=%s" % (show(t), got, m))
        bad = None
        if got != want:
            bad = "value %s: implementation %s it, the language %s it" % (show(t), "accepts" if got else "rejects", "contains" if want else "does not contain")
        elif got:
            ex = vlib.entries(r, "Service", "ExecStart")
            argv = vlib.sd_split_many([ex[0].encode()])[0] if ex and ctx.model_ok else None
            if argv is not None and not any(argv[j] == "--expose" and argv[j + 1] == t for j in range(len(argv) - 1)):
                bad = "accepted value not passed unchanged after --expose: argv=%s" % argv
        else:
            if r["err"] != "InvalidPortFormat" or repr_rust(t) not in r["msg"]:
                bad = "rejected, but the error does not quote the value: %s %s" % (r["err"], show(r["msg"]))
        if bad:
            ctx.failures.append({"value": show(v), "case_hex": cases[i], "what": bad, "class": classify(t) if got and not want else None})
    return mism


def repr_rust(s):
    # {:?} of a str for the characters we generate
    return '"' + s.replace("\\", "\\\\").replace('"', '\\"') + '"'


def run(ctx):
    ctx.rule = ("strings over {0,9,-,/,t,c,p,u,d,x}: exhaustive up to length 4 (quick) / 6 (thorough), plus random longer strings, "
                "plus every 1-4 letter word over {t,c,p,u,d} as protocol suffix of valid port parts, single-symbol edits of valid values, plus quoted spellings with surrounding blanks, plus values that are empty once unquoted ("" and '' alone and next to valid ports); each converted through a [Container] unit; "
                "non-trivial = in the language or containing a digit; distinct = distinct strings")
    vals = []
    L = 6 if ctx.tier == "thorough" else 4
    for k in range(1, L + 1):
        for p in itertools.product(ALPHA, repeat=k):
            s = "".join(p)
            vals.append((s, s))
    rng = ctx.rng
    for _ in range(ctx.volume(3000, 50000)):
        n = rng.randint(5, 14)
        s = "".join(rng.choice(["0", "9", "1", "-", "/", "tcp", "udp", "t", "c", "p", "u", "d", "x", "/tcp", "/udp"]) for _ in range(n))
        vals.append((s, s))
    # near misses of the protocol suffix: every word of 1-4 letters over {t,c,p,u,d} (and a few foreign letters) after a valid port part
    for head in ["9", "80-90", "0-0"]:
        for k in range(1, 5):
            for p in itertools.product("tcpud", repeat=k):
                vals.append((head + "/" + "".join(p),) * 2)
        for w in ["TCP", "Udp", "tcpp", "tcp/", "tcp/udp", "udptcp", "sctp", "tc", "tcq", " tcp", "tcp "]:
            vals.append((head + "/" + w,) * 2)
    # ... and of the digit parts: one symbol of a valid value replaced, doubled or dropped
    for base in ["80", "80-90", "80/tcp", "1-2/udp", "65535-65536/tcp"]:
        for i in range(len(base) + 1):
            for c in ["", "-", "/", "0", "x", " ", "+", "\u0661"]:
                vals.append((base[:i] + c + base[i:],) * 2)
                if i < len(base):
                    vals.append((base[:i] + c + base[i + 1:],) * 2)
    vals = [(v, sp) for v, sp in vals if v.strip() == v and v and v[0] not in "#;[" and not v.endswith("\\")] + [x for x in vals if False]
    for s in ["80", "80-90", "80/tcp", "1-2/udp", "-80", "/tcp", "1-/udp", "80/", "x"]:
        for pre, post in [(" ", ""), ("", " "), (" \t", "  "), (" ", " ")]:
            v = pre + s + post
            vals.append((v, '"' + v.replace("\t", "\\t") + '"'))
    # a value that is empty once unquoted is not a port either (an unquoted empty assignment is the reset of C15, not a value)
    for sp in ['""', "''", '"" ', '" "', "'\\t'", '80\nExposeHostPort=""', '""\nExposeHostPort=80', "80\nExposeHostPort=''\nExposeHostPort=90/tcp", '"" ""']:
        vals.append(("", sp))
    mism = 0
    for i in range(0, len(vals), 100000):
        mism += check(ctx, vals[i:i + 100000])
    ctx.exhaustive = True
    ctx.samples = [{"value": show(v)} for v, _ in vals[200:206]] + [{"value": show(v)} for v, _ in vals[-4:]]
    ctx.oblig("correspondence: model is_port_range = implementation accept/reject on every generated string", mism == 0, "%d mismatches" % mism)
    ctx.oblig("direct oracle: accept <=> ^[0-9]+(-[0-9]+)?(/tcp|/udp)?$ ; accepted => '--expose <trimmed value>' in the decoded ExecStart; rejected => InvalidPortFormat quoting the value",
              not [f for f in ctx.failures if f["class"] is None] and not ctx.failures, "%d failures" % len(ctx.failures))


def replay(ctx, obj):
    f = obj.get("failure")
    if not f:
        print("replay: broken-tie record: %s" % obj.get("broken"))
        return 1
    line = f["case_hex"]
    unit = unhx(line.split("\t")[3]).decode()
    sp = unit.split("ExposeHostPort=", 1)[1].rstrip("\n")
    out = vlib.run_impl([line])[0]
    print("unit:", show(unit)); print("impl:", out[:300])
    v = vlib.run_impl([case_line("unquote", sp)])[0]
    v = unhx(v.split("\t")[1]).decode() if v.startswith("OK") and "\t" in v else ""
    check(ctx, [(v, sp)])
    print("replay: %s" % ("still failing: %s" % ctx.failures[0]["what"] if ctx.failures else "passes now"))
    return 1 if ctx.failures else 0
