"""C01 -- quoted podman command lines split back into exactly the intended arguments."""
import itertools, os, sys
import vlib, sdref
from vlib import hx, unhx, case_line, show

THEOREMS = ["C01_exec_roundtrip", "C01_pinned_refuted"]

ALPHA10 = ["a", " ", '"', "'", "\\", "\n", "\x7f", "-", "é", "\t"]


def nontrivial(args):
    return any((w == "") or any((ord(c) <= 128 and (ord(c) < 33 or ord(c) == 127 or c in "\"'\\")) for c in w) for w in args)


def inventory(ctx):
    """store-site inventory: every Exec* entry of a generated service is stored raw from PodmanCommand::to_escaped_string(),
    and to_escaped_string renders with quote_words."""
    import gen_tables
    toks = gen_tables.nontest_tokens("src/quadlet/convert.rs")
    sites, bad = 0, []
    for k, t in enumerate(toks):
        if t[0] == "str" and t[1].startswith("Exec") and toks[k - 1] == ("p", ",") and toks[k - 2] == ("id", "SERVICE_SECTION"):
            # walk back to the method name
            j = k - 3
            if toks[j] != ("p", "("):
                continue
            meth = toks[j - 1][1]
            if meth not in ("add", "add_raw", "set", "set_raw", "prepend"):
                continue
            sites += 1
            # value expression: tokens up to the closing paren
            depth, e, expr = 1, k + 1, []
            while depth:
                if toks[e] == ("p", "("):
                    depth += 1
                elif toks[e] == ("p", ")"):
                    depth -= 1
                if depth:
                    expr.append(toks[e][1])
                e += 1
            text = "".join(expr)
            if not (meth == "add_raw" and "to_escaped_string()" in text):
                bad.append("%s(SERVICE_SECTION, %r, %s)" % (meth, t[1], text))
    ctx.oblig("store-site inventory: all %d Exec* store sites in convert.rs are add_raw(.., podman.to_escaped_string())" % sites,
              sites >= 13 and not bad, "; ".join(bad) or "only %d sites found" % sites)
    pc = gen_tables.nontest_tokens("src/quadlet/podman_command.rs")
    txt = " ".join(t[1] for t in pc)
    ctx.oblig("PodmanCommand::to_escaped_string renders self.args with quote_words",
              "fn to_escaped_string ( & self ) -> String { quote_words ( self . args . iter ( ) . map ( | s | s . as_str ( ) ) ) }" in txt, "body changed")


def gen_vectors(ctx):
    rng = ctx.rng
    vecs = [[], [""], ["", ""], ["a", "", "b"], ["a b"], ['"'], ["'"], ["\\"], ["a\\"], ["\n"], ["\x7f"], ["-x"], [" "],
            ["\t", "\r"], ["é", "\U0001F600"], ["a'b\"c"], ["x", 'sh -c "echo \'hi\'"', ""], ["\x80"], ["\x01\x1f"], [";"], ["%n", "$FOO"]]
    n = ctx.volume(4000, 200000)
    for _ in range(n):
        k = rng.choice([0, 1, 1, 2, 2, 3, 3, 4, 5, 6])
        vecs.append([vlib.adv_string(rng, 6) for _ in range(k)])
    return vecs


def exhaustive(ctx):
    words = [""] + ALPHA10 + ["".join(p) for p in itertools.product(ALPHA10, repeat=2)]
    for k in range(0, 4):
        for v in itertools.product(words, repeat=k):
            yield list(v)


def check_vectors(ctx, vecs, use_libsd):
    lines = [case_line("quote_words", *v) for v in vecs]
    impl = vlib.run_impl(lines)
    model = vlib.run_model(lines) if ctx.model_ok else None
    olines = []
    for v, o in zip(vecs, impl):
        parts = o.split("\t")
        olines.append(case_line("sd_split", "exec", unhx(parts[1]) if parts[0] == "OK" and len(parts) > 1 else b""))
    oracle = vlib.run_model(olines) if ctx.model_ok else [None] * len(vecs)
    mism = 0
    for i, v in enumerate(vecs):
        ctx.evaluations += 1
        if nontrivial(v):
            ctx.nontrivial.add(tuple(v))
        ctx.count("words=%d" % min(len(v), 6))
        if any(w == "" for w in v):
            ctx.count("has_empty_word")
        o = impl[i]
        if not o.startswith("OK"):
            ctx.failures.append({"op": "quote_words", "args": [show(w) for w in v], "args_hex": [hx(w) for w in v], "impl": o,
                                 "what": "implementation did not return a line", "class": None})
            continue
        line = unhx(o.split("\t")[1]) if len(o.split("\t")) > 1 else b""
        if model is not None and model[i] != o:
            mism += 1
            if mism <= 3:
                ctx.broken.append("correspondence quote_words: args=%s impl=%s model=%s" % ([show(w) for w in v], show(line), model[i]))
        want = "\t".join(["OK"] + [hx(w) for w in v])
        bad = None
        if oracle[i] is not None and oracle[i] != want:
            bad = "Spec.sd_split fl_exec (impl line) = %s, intended %s" % (oracle[i], want)
        if bad is None and use_libsd and b"\0" not in line:
            r = sdref.split(line, "exec")
            if r is None or r != [w.encode() for w in v]:
                bad = "libsystemd extract_first_word gives %r" % (r,)
        if bad:
            ctx.failures.append({"op": "quote_words", "args": [show(w) for w in v], "args_hex": [hx(w) for w in v],
                                 "impl_line": show(line), "what": bad,
                                 "class": "EmptyWordDropped" if any(w == "" for w in v) else None})
    if mism:
        ctx.oblig("correspondence: model quote_words = implementation quote_words on every generated vector", False, "%d mismatches" % mism)
    return mism


def run(ctx):
    ctx.rule = ("argument vectors of 0-6 words over an adversarial alphabet (blank, tab, NL, CR, both quotes, backslash, DEL, controls, "
                "U+0080, non-ASCII, leading dash, %, $); corpus first; thorough adds all vectors of <=3 words of <=2 symbols over 10 symbols; "
                "non-trivial = contains an empty word or a character that needs escaping; distinct = distinct vectors")
    use_libsd = sdref.available()
    ctx.notes.append("libsystemd extract_first_word second oracle: %s" % ("used" if use_libsd else "unavailable"))
    vecs = gen_vectors(ctx)
    check_vectors(ctx, vecs, use_libsd)
    ctx.samples = [{"args": [show(w) for w in v]} for v in vecs[3:9]]
    if ctx.tier == "thorough":
        batch, total = [], 0
        for v in exhaustive(ctx):
            batch.append(v)
            if len(batch) >= 200000:
                check_vectors(ctx, batch, False)
                total += len(batch); batch = []
        if batch:
            check_vectors(ctx, batch, False)
        ctx.exhaustive = True
        ctx.notes.append("bounded-exhaustive sweep complete over words of <=2 symbols, vectors of <=3 words")
    if not any(o[0].startswith("correspondence") for o in ctx.obligations):
        ctx.oblig("correspondence: model quote_words = implementation quote_words on every generated vector", True)
    ctx.oblig("direct oracle: Spec.sd_split fl_exec (implementation line) = intended vector on every generated vector",
              not [f for f in ctx.failures if f.get("class") is None], "%d failures" % len(ctx.failures))
    end_to_end(ctx)
    all_exec_lines(ctx)
    # the podman executable itself comes from the environment (PODMAN) and is the first word of every Exec line: it is quoted like any other
    for odd in ("/opt/container tools/bin/podman", "/opt/it's/pod\"man", "/opt/\u00e9 \\bin/podman"):
        all_exec_lines(ctx, podman=odd, volume=40 if ctx.tier != "thorough" else 400)


def dq(s):
    """documented double-quoted spelling of a value"""
    out = ['"']
    for c in s:
        if c == '"':
            out.append('\\"')
        elif c == "\\":
            out.append("\\\\")
        elif c == "\n":
            out.append("\\n")
        elif c == "\r":
            out.append("\\r")
        elif c == "\t":
            out.append("\\t")
        elif ord(c) < 32 or ord(c) == 127:
            out.append("\\x%02x" % ord(c))
        else:
            out.append(c)
    out.append('"')
    return "".join(out)


def end_to_end(ctx):
    """generator clause: Exec* lines of converted units split (by the spec) into the intended argv"""
    rng = ctx.rng
    cases, meta = [], []
    n = ctx.volume(300, 5000)
    for i in range(n):
        name = vlib.adv_string(rng, 5).replace("\0", "")
        if name == "" or name.strip(" \t\n\r") != name:
            name = "n" + name + "x"
        img = "img" + vlib.adv_string(rng, 3).replace("\n", "").replace("\r", "").strip() + "z"
        unit = "[Container]\nImage=%s\nContainerName=%s\n" % (dq(img), dq(name))
        cases.append(case_line("convert", "0", "/u/t%d.container" % i, unit))
        meta.append((name, img))
    outs = vlib.run_impl(cases)
    # what the generator intends is its own reading of the two values (reading is C04's subject, not C01's)
    rd = vlib.run_impl([case_line("unquote", dq(x)) for m in meta for x in m])
    rd = [unhx(r.split("\t")[1]).decode() if r.startswith("OK") and len(r.split("\t")) > 1 else "" for r in rd]
    meta = [(rd[2 * i], rd[2 * i + 1]) for i in range(len(meta))]
    olines, idx = [], []
    for i, o in enumerate(outs):
        toks = o.split("\t")
        if "ERR" in toks[:6] or toks[0] != "OK":
            continue
        # find ExecStart entry
        for k in range(len(toks) - 2):
            if toks[k] == "E" and toks[k + 1] == hx("ExecStart"):
                olines.append(case_line("sd_split", "exec", unhx(toks[k + 2])))
                idx.append(i)
    res = vlib.run_model(olines) if ctx.model_ok else []
    okc = 0
    for i, r in zip(idx, res):
        name, img = meta[i]
        want = ["/usr/bin/podman", "run", "--name", name, "--cidfile=%t/%N.cid", "--replace", "--rm", "--cgroups", "split", "--sdnotify=conmon", "-d", img]
        ctx.evaluations += 1
        ctx.count("e2e_container_units")
        if r != "\t".join(["OK"] + [hx(w) for w in want]):
            ctx.failures.append({"op": "convert", "unit": show(unhx(cases[i].split("\t")[3])), "case_hex": cases[i],
                                 "what": "ExecStart does not split into the intended argv: got %s" % [show(unhx(x)) for x in r.split("\t")[1:]],
                                 "intended": [show(w) for w in want], "class": None})
        else:
            okc += 1
    ctx.oblig("direct oracle (generator clause): ExecStart of %d converted container units splits into the intended argv" % len(idx),
              okc == len(idx) and len(idx) > 0, "%d of %d" % (okc, len(idx)))


def all_exec_lines(ctx, podman="/usr/bin/podman", volume=None):
    """generator clause, every Exec* line of kube / container / pod units: each splits (by the spec) into the intended argv"""
    rng = ctx.rng
    def word():
        w = vlib.adv_string(rng, 4).replace("\0", "")
        return w if w and w.strip(" \t\n\r") == w and not w.startswith("-") else "g" + w.strip() + "x"
    cases, meta = [], []
    for i in range(volume or ctx.volume(300, 4000)):
        gargs = [word() for _ in range(rng.randint(0, 2))]
        if rng.random() < 0.2:
            gargs = rng.choice([["--root", ""], ["", "--x"], ["--a", "", "--b"], [""]])       # an EMPTY argument among plain ones (nothing else in the command needs quoting)
        gline = ("GlobalArgs=%s\n" % " ".join(dq(g) for g in gargs)) if gargs else ""
        kind = rng.choice(["kube", "container", "pod"])
        if kind == "kube":
            y = "/" + word().replace("/", "_").replace(".", "_") + ".yml"
            force = rng.choice([None, "yes", "no"])
            unit = "[Kube]\nYaml=%s\n%s%s" % (dq(y), gline, ("KubeDownForce=%s\n" % force) if force else "")
            meta.append((kind, gargs, y, force))
        elif kind == "container":
            unit = "[Container]\nImage=img\n%s" % gline
            meta.append((kind, gargs, None, None))
        else:
            nm = word()
            unit = "[Pod]\nPodName=%s\n%s" % (dq(nm), gline)
            meta.append((kind, gargs, nm, None))
        cases.append(case_line("convert", "0", "/u/e%d.%s" % (i, kind), unit))
    outs = vlib.run_impl(cases, extra_env={"PODMAN": podman})
    lines, where = [], []
    recs = [vlib.parse_convert(o) for o in outs]
    for i, rs in enumerate(recs):
        r = rs[0] if rs else {}
        if not r.get("ok"):
            continue
        for k in ("ExecStart", "ExecStartPre", "ExecStop", "ExecStopPost"):
            for v in vlib.entries(r, "Service", k):
                lines.append(v.encode()); where.append((i, k))
    argvs = vlib.sd_split_many(lines) if lines else []
    per = {}
    for (i, k), a in zip(where, argvs):
        per.setdefault(i, {}).setdefault(k, []).append(a)
    bad_n = 0
    for i, d in per.items():
        kind, gargs, x, force = meta[i]
        base = [podman] + gargs
        ctx.evaluations += 1
        ctx.count("e2e_exec_lines:" + kind + ("" if podman == "/usr/bin/podman" else ":odd-PODMAN"))
        ctx.nontrivial.add(cases[i])
        bad = None
        get = lambda k: (d.get(k) or [None])[-1]
        if any(a is None for v in d.values() for a in v):
            bad = "an Exec line does not split by systemd's rules: %s" % {k: v for k, v in d.items()}
        elif kind == "kube":
            want_start_tail, stop = [x], base + ["kube", "down"] + ({"yes": ["--force"], "no": ["--force=false"], None: []}[force]) + [x]
            if get("ExecStart")[:len(base) + 2] != base + ["kube", "play"] or get("ExecStart")[-1:] != want_start_tail:
                bad = "ExecStart %s: expected %s ... %s" % (get("ExecStart"), base + ["kube", "play"], x)
            elif get("ExecStopPost") != stop:
                bad = "ExecStopPost splits into %s, intended %s" % (get("ExecStopPost"), stop)
        elif kind == "container":
            stop = base + ["rm", "-v", "-f", "-i", "--cidfile=%t/%N.cid"]
            if get("ExecStart")[:len(base) + 1] != base + ["run"]:
                bad = "ExecStart %s does not begin with %s" % (get("ExecStart"), base + ["run"])
            elif get("ExecStop") != stop or get("ExecStopPost") != ["-" + stop[0]] + stop[1:]:
                bad = "ExecStop/ExecStopPost split into %s / %s, intended %s" % (get("ExecStop"), get("ExecStopPost"), stop)
        else:
            if get("ExecStart") != base + ["pod", "start", "--pod-id-file=%t/%N.pod-id"] or get("ExecStop")[:len(base) + 2] != base + ["pod", "stop"] \
                    or get("ExecStopPost")[:len(base) + 2] != base + ["pod", "rm"]:
                bad = "pod ExecStart/ExecStop/ExecStopPost: %s" % d
            elif get("ExecStartPre")[:len(base) + 2] != base + ["pod", "create"] or get("ExecStartPre")[-4:] != ["--infra-name", x + "-infra", "--name", x]:
                bad = "ExecStartPre %s: expected ... --infra-name %s-infra --name %s" % (get("ExecStartPre"), x, x)
        if bad:
            bad_n += 1
            ctx.failures.append({"op": "convert", "unit": show(unhx(cases[i].split("\t")[3])), "case_hex": cases[i], "what": bad, "class": None})
    ctx.oblig("direct oracle (generator clause): every Exec* line of %d converted kube / container / pod units splits into the intended argv" % len(per),
              bad_n == 0 and len(per) > 0, "%d of %d" % (bad_n, len(per)))


def replay(ctx, obj):
    f = obj.get("failure")
    if not f:
        print("replay: broken-tie record, nothing to execute: %s" % obj.get("broken"))
        return 1
    if f["op"] == "quote_words":
        args = [unhx(h).decode() for h in f["args_hex"]]
        check_vectors(ctx, [args], sdref.available())
    else:
        out = vlib.run_impl([f["case_hex"]])
        print(out[0][:300])
    print("replay: %s" % ("still failing: %s" % ctx.failures[0]["what"] if ctx.failures else "passes now"))
    return 1 if ctx.failures else 0
