"""C11 -- the generator never panics, aborts or hangs, whatever the input files contain."""
import json, os, re
import vlib, e2e, gen_conv, gen_units, docs
from vlib import hx, unhx, case_line, show

THEOREMS = ["C11_run_never_panics", "C11_convert_never_panics", "C11_load_never_panics", "C11_stored_values_readable", "C11_parsed_units_validated", "C11_merged_units_validated", "C11_lookups_do_not_panic", "C11_values_have_no_nul", "C11_total_functions", "C11_pinned_refuted", "C11_run_with_dropins_never_panics"]
SITES_FILE = os.path.join(vlib.VERIF, "tools", "panic_sites.json")


def scan_sites():
    """panic-capable sites of the non-test code: unwrap(), expect(, panic!, unreachable!, assert!, todo!, unimplemented!, and [index] on a non-literal"""
    import gen_tables
    sites = {}
    for path in ("src/main.rs", "src/quadlet/mod.rs", "src/quadlet/convert.rs", "src/quadlet/iterators.rs", "src/quadlet/podman_command.rs", "src/quadlet/logger.rs",
                 "src/systemd_unit/mod.rs", "src/systemd_unit/parser.rs", "src/systemd_unit/path_buf_ext.rs", "src/systemd_unit/quoted.rs", "src/systemd_unit/split.rs",
                 "src/systemd_unit/unit.rs", "src/systemd_unit/unit_file.rs", "src/systemd_unit/value.rs"):
        toks = gen_tables.nontest_tokens(path)
        spans = list(gen_tables.fn_spans(toks))
        def fn_at(k):
            best = None
            for name, a, b in spans:
                if a <= k <= b and (best is None or a > best[1]):
                    best = (name, a)
            return best[0] if best else "<top>"
        for k, t in enumerate(toks):
            kind = None
            if t[0] == "id" and t[1] in ("unwrap", "expect") and toks[k - 1] == ("p", ".") and toks[k + 1] == ("p", "("):
                kind = t[1]
            elif t[0] == "id" and t[1] in ("panic", "unreachable", "assert", "todo", "unimplemented", "assert_eq") and toks[k + 1] == ("p", "!"):
                kind = t[1] + "!"
            elif t == ("p", "[") and k > 0 and toks[k - 1][0] == "id" and toks[k - 1][1] not in ("vec",) and toks[k + 1][0] in ("id", "num") and toks[k + 2] == ("p", "]") \
                    and toks[k - 2] != ("p", "#") and toks[k - 1][1] not in ("let", "in", "return", "mut"):
                kind = "index"
            if kind:
                key = "%s::%s::%s" % (path, fn_at(k), kind)
                sites[key] = sites.get(key, 0) + 1
    return sites


def inventory(ctx):
    sites = scan_sites()
    if not os.path.exists(SITES_FILE):
        ctx.oblig("panic-site inventory file present", False, "tools/panic_sites.json missing")
        return
    known = json.load(open(SITES_FILE))["sites"]
    new = {k: v for k, v in sites.items() if v > known.get(k, {}).get("count", 0)}
    ctx.oblig("panic-site inventory: every unwrap/expect/panic!/assert!/index site of the non-test code (%d sites in %d functions) is listed with its status in tools/panic_sites.json" % (
        sum(sites.values()), len(sites)), not new, "new or additional sites: %s" % new)


def run(ctx):
    ctx.rule = ("(a) in-process conversion of wild units of all 7 types (all keys x adversarial values, references, templates) and unit sets, and every single-separator damage (dropped, doubled, replaced, text beside it cut) of well-formed structured values of 60 keys; (b) byte-level mutations of the repository's example "
                "files (tests/cases); (c) the real binary on trees with adversarial file names (non-UTF-8, leading '@', no stem, 255 bytes, newline) and non-UTF-8 directory names, directories named like units, invalid UTF-8 contents, "
                "NUL bytes, [Install] sections with odd aliases; (d) the enablement step alone on [Install] sections of every kind (words that normalise to nothing, climb out, are absolute, end in a separator; templates with and without DefaultInstance); a panic is a PANIC line of the driver, exit status 101/134, a signal, or a timeout; non-trivial = every case; distinct = distinct inputs")
    rng = ctx.rng
    # (a) + (b) in-process
    cases, meta = [], []
    for _ in range(ctx.volume(6000, 100000)):
        files = gen_conv.gen_unit_set(rng)
        if rng.random() < 0.3:
            files = [(p, gen_units.mutate(rng, t)) for p, t in files]
        if rng.random() < 0.1:
            files = [(p, t.replace("=", "=\0", 1) if rng.random() < 0.5 else t + "[Service]\nWorkingDirectory=\0\n") for p, t in files]
        cases.append(case_line("convert", "0", *[x for f in files for x in f])); meta.append(files)
    # corpus: the inputs of past findings always run
    for files in ([("/d/b.build", "[Build]\nImageTag=t\nFile=/a\0b/Containerfile\nSetWorkingDirectory=file\n")],
                  [("/d/k.kube", "[Kube]\nYaml=/\nSetWorkingDirectory=yaml\n")],
                  [("/d/b.build", "[Build]\nImageTag=t\nFile=\\x01\nSetWorkingDirectory=file\n")],
                  [("/d/c.container", "[Container]\nImage=img\nVolume=/a\0b:/c\n[Service]\nWorkingDirectory=\0\n")],
                  [("/d/@.container", "[Container]\nImage=img\n")], [("/d/.container", "[Container]\nImage=img\n")]):
        cases.append(case_line("convert", "0", *[x for f in files for x in f])); meta.append(files)
    # field-splitter stress: every single-separator damage of well-formed structured values, with the referenced units present
    companions = [("/d/n.network", "[Network]\n"), ("/d/v.volume", "[Volume]\n"), ("/d/i.image", "[Image]\nImage=quay.io/x/y\n"),
                  ("/d/b.build", "[Build]\nImageTag=localhost/t\nFile=/Containerfile\n"), ("/d/c.container", "[Container]\nImage=img\n"), ("/d/p.pod", "[Pod]\n")]
    for typ in docs.TYPES:
        for text in gen_conv.gen_splitter_stress(typ, wide=(ctx.tier == "thorough")):
            files = [("/d/x.%s" % typ, text)] + companions
            cases.append(case_line("convert", "0", *[x for f in files for x in f])); meta.append(files)
            ctx.count("splitter_stress")
    exdir = os.path.join(vlib.REPO, "tests", "cases")
    examples = sorted(f for f in os.listdir(exdir) if os.path.isfile(os.path.join(exdir, f)) and "." in f and f.rsplit(".", 1)[1] in docs.TYPES) if os.path.isdir(exdir) else []
    for _ in range(ctx.volume(3000, 40000)):
        if not examples:
            break
        f = rng.choice(examples)
        try:
            t = open(os.path.join(exdir, f), encoding="utf-8").read()
        except UnicodeDecodeError:
            continue
        t = gen_units.mutate(rng, t) if rng.random() < 0.8 else t
        cases.append(case_line("convert", "0", "/ex/" + f, t)); meta.append([("/ex/" + f, t)])
    outs = vlib.run_impl(cases)
    model = vlib.run_model(cases) if ctx.model_ok else outs
    mism = 0
    for files, c, o, m in zip(meta, cases, outs, model):
        ctx.evaluations += 1
        ctx.nontrivial.add(c)
        ip = o.startswith("PANIC") or o.startswith("DIED") or o == "SKIPPED"
        ctx.count("inproc:" + ("panic" if ip else "ok"))
        if ip:
            msg = show(unhx(o.split("\t")[1])) if o.startswith("PANIC") and "\t" in o else o
            ctx.failures.append({"op": "convert", "case_hex": c, "files": [(show(p), show(t)) for p, t in files], "what": "panic: %s" % msg, "class": classify(files, msg)})
        mp = m == "PANIC"
        if m not in ("SKIP",) and mp != ip:
            mism += 1
            if mism <= 3:
                ctx.broken.append("correspondence panics: files=%s impl=%s model=%s" % ([(show(p), show(t)) for p, t in files], o[:80], m[:80]))
    ctx.oblig("correspondence: the model's Panic outcomes coincide with the implementation's panics on every in-process case", mism == 0, "%d mismatches" % mism)
    # (c) end to end with adversarial names and contents
    names = [b"sub\xff/in-bad-dir.container", b"d\xc3/deep/x.volume", b"a\xff.container", b"@.container", b".container", b"x" * 245 + b".container", b"n\nl.container", b"t@.container", b"t@i.container", b"sp ace.volume",
             b"-dash.network", b"a.b.c.kube", b"dir.container/", b"\xe2\x82.pod", b"q\"uote.image", b"b s\\.build", b"%n.container", b"$HOME.container"]
    contents = ["[Container]\nImage=img\n", "[Container]\nImage=img\n[Install]\nAlias=/\nAlias=..\nWantedBy=a/b\n", b"[Container]\nImage=\xff\xfe\n", "[Container]\nImage=i\0mg\n",
                "[Kube]\nYaml=/\nSetWorkingDirectory=yaml\n", "[Build]\nImageTag=t\nFile=\\x01\nSetWorkingDirectory=file\n", "[Volume]\n", "[Pod]\n", "[Container]\nImage=x.image\n",
                "[Container]\nImage=img\nPod=@.pod\n", "", "[", "[Container]\nImage=img\nMount=type=bind,\"src=/a\",dst=/b\n", "[Container]\nImage=img\nMount=\"type=bind,source=/a\nb,dst=/b\"\n"]
    n = ctx.volume(60, 600)
    from props import C12 as c12
    for _ in range(6):
        contents.append("[Container]\nImage=img\n[Install]\n" + "".join("%s=%s\n" % e for e in c12.gen_install(rng)))
    contents += ["[Container]\nImage=img\n[Install]\nAlias=.\n", "[Container]\nImage=img\n[Install]\nAlias=a/..\nWantedBy=x.target\n", "[Volume]\n[Install]\nAlias=\"\"\n"]
    with e2e.Box() as box:
        # the enablement step alone: [Install] sections with every kind of word (C12's generator), real enable_service_file under catch_unwind
        ecases, emeta = [], []
        for i in range(ctx.volume(400, 5000)):
            inst = c12.gen_install(rng)
            svcfile = rng.choice(["web.service", "tpl@.service", "tpl@one.service", "a b.service", "x@@y.service"])
            d = box.path("en%d" % i)
            os.makedirs(os.path.join(d, "out"))
            open(os.path.join(d, "out", svcfile), "w").write("[Service]\n")
            text = "[Install]\n" + "".join("%s=%s\n" % e for e in inst)
            ecases.append(case_line("enable", os.path.join(d, "out"), svcfile, text)); emeta.append((svcfile, inst))
        for (svcfile, inst), o in zip(emeta, vlib.run_impl(ecases)):
            ctx.evaluations += 1
            ctx.nontrivial.add(("enable", svcfile, str(inst)))
            ctx.count("enable:" + ("panic" if o.startswith("PANIC") else "ok"))
            if o.startswith("PANIC") or o.startswith("DIED"):
                ctx.failures.append({"op": "enable", "svc": svcfile, "install": inst, "what": "enable_service_file panics on [Install] %s of %s: %s" % (inst, svcfile, show(unhx(o.split("\t")[1])) if "\t" in o else o), "class": None})
        for i in range(n):
            root = os.fsencode(box.path(str(i)))
            os.makedirs(os.path.join(root, b"u"))
            chosen = []
            for nm in rng.sample(names, rng.randint(1, 5)):
                p = os.path.join(root, b"u", nm.rstrip(b"/"))
                try:
                    if b"/" in nm.rstrip(b"/"):
                        os.makedirs(os.path.dirname(p), exist_ok=True)
                    if nm.endswith(b"/"):
                        os.makedirs(p)
                    else:
                        c = rng.choice(contents)
                        ext = nm.rsplit(b".", 1)[-1].decode()
                        if isinstance(c, str) and c.startswith("[Container]") and ext in docs.TYPES and ext != "container" and rng.random() < 0.5:
                            c = "[%s]\n%s" % (docs.TYPES[ext][0], docs.MINIMAL[ext])
                        with open(p, "wb") as f:
                            f.write(c.encode() if isinstance(c, str) else c)
                    chosen.append(nm)
                except OSError:
                    pass
            for dry in (True, False):
                rc, out, err = e2e.run_quadlet([os.path.join(root, b"u").decode("utf-8", "surrogateescape")], os.path.join(root, b"out").decode(), dry_run=dry, timeout=20)
                ctx.evaluations += 1
                ctx.nontrivial.add((i, dry))
                ctx.count("e2e:rc=%s" % rc)
                if rc not in (0, 1):
                    m = re.search(r"panicked at ([^\n]*)\n?([^\n]*)", err.decode("utf-8", "replace"))
                    ctx.failures.append({"op": "e2e", "names": [show(x) for x in chosen], "dry_run": dry,
                                         "what": "exit status %s: %s" % (rc, (m.group(0) if m else err.decode("utf-8", "replace")[-300:])),
                                         "class": classify_e2e(chosen, err.decode("utf-8", "replace"))})
    ctx.samples = [{"files": [(show(p), show(t)) for p, t in meta[0]]}, {"names": [show(x) for x in names[:6]]}]
    unknown = [f for f in ctx.failures if f["class"] is None]
    ctx.oblig("direct oracle: no panic, abort, signal or timeout on any generated input (in-process under catch_unwind, and the real binary)", not ctx.failures,
              "%d failures (%d outside known classes)" % (len(ctx.failures), len(unknown)))


def classify(files, msg):
    if "parsing error" in msg and any("\0" in t for _, t in files):
        return "NulInValuePanics"
    if "should have a parent directory" in msg:
        return "WorkingDirOfRootPanics"
    return None


def classify_e2e(names, err):
    if "path is not a valid UTF-8 string" in err:
        return "NonUtf8DirPanics" if any(b"/" in n.rstrip(b"/") for n in names) else "NonUtf8NamePanics"
    if "parsing error" in err:
        return "NulInValuePanics"
    if "should have a parent directory" in err:
        return "WorkingDirOfRootPanics"
    return None


def replay(ctx, obj):
    f = obj.get("failure") or {}
    if "case_hex" in f:
        o = vlib.run_impl([f["case_hex"]])[0]
        print("impl:", o[:200])
        still = o.startswith("PANIC")
        print("replay: %s" % ("still panics" if still else "passes now"))
        return 1 if still else 0
    print("replay: re-run ./check C11: %s" % f.get("what"))
    return 1
