"""C17 -- relative paths resolve against the unit file's directory and are normalised."""
import itertools, os, tempfile, shutil
import vlib
from vlib import hx, unhx, case_line, show

THEOREMS = ["C17_abs", "C17_normal", "C17_result_absolute", "C17_specifier"]
PARTS = ["a", "b", ".", "..", "c.d", "é", "x y", "%t", "%h", "%%", "%", "..."]


def segs(p):
    return [s for s in p.split("/") if s]


def walk(ss):
    pos = []
    for s in ss:
        if s == ".":
            continue
        if s == "..":
            if pos:
                pos.pop()
        else:
            pos.append(s)
    return pos


def is_spec(p):
    if len(p.encode()) <= 1 or not p.startswith("%") or p.startswith("%%"):
        return False
    first = p.split("/")[0] if not p.startswith("/") else "/"
    return len(first.encode()) == 2


def expected(p, D):
    """independent reading of the property for absolute D; None when the specifier rule applies"""
    if is_spec(p):
        return None
    ss = segs(p) if p.startswith("/") else segs(D) + segs(p)
    return "/" + "/".join(walk(ss))


def gen_path(rng, rel_bias=0.7):
    n = rng.randint(0, 5)
    s = "/".join(rng.choice(PARTS) for _ in range(n))
    if rng.random() < 0.25:
        s = s.replace("/", rng.choice(["//", "/./", "///"]), 1)
    if rng.random() > rel_bias:
        s = "/" + s
    if rng.random() < 0.2:
        s += "/"
    return s


def gen_dir(rng):
    return "/" + "/".join(rng.choice(["etc", "containers", "systemd", "u s", "é", "d.e"]) for _ in range(rng.randint(0, 4)))


def run(ctx):
    ctx.rule = ("path strings of 0-5 components from {names, '.', '..', names with dots/blanks/non-ASCII, %t, %h, %%, %}, with repeated and trailing separators, "
                "relative and absolute, against absolute unit directories of depth 0-4; plus all strings of length <=5 over {a,/,.,%}; "
                "call sites Yaml, ConfigMap, EnvironmentFile, Volume, Mount, SetWorkingDirectory through the converters, from two different working directories; "
                "non-trivial = contains '.', '..', '//' or a trailing '/' or a specifier; distinct = distinct (path, dir)")
    rng = ctx.rng
    pairs = [(gen_path(rng), gen_dir(rng)) for _ in range(ctx.volume(20000, 300000))]
    L = 6 if ctx.tier == "thorough" else 5
    for k in range(0, L + 1):
        for t in itertools.product(["a", "/", ".", "%"], repeat=k):
            pairs.append(("".join(t), "/r/s"))
    cases = [case_line("absolute_from", p, D) for p, D in pairs]
    impl = vlib.run_impl(cases)
    model = vlib.run_model(cases) if ctx.model_ok else impl
    mism = 0
    for (p, D), a, b in zip(pairs, impl, model):
        ctx.evaluations += 1
        if "." in p or "//" in p or p.endswith("/") or "%" in p:
            ctx.nontrivial.add((p, D))
        ctx.count("specifier" if is_spec(p) else ("absolute" if p.startswith("/") else "relative"))
        if a != b:
            mism += 1
            if mism <= 3:
                ctx.broken.append("correspondence absolute_from: path=%s dir=%s impl=%s model=%s" % (show(p), show(D), a, b))
        want = expected(p, D)
        if want is not None:
            got = unhx(a.split("\t")[1]).decode() if a.startswith("OK") and "\t" in a else a
            if got != want:
                ctx.failures.append({"op": "absolute_from", "path": show(p), "dir": show(D), "case_hex": case_line("absolute_from", p, D),
                                     "what": "%s against %s resolves to %s, expected %s" % (show(p), show(D), show(got), show(want)), "class": None})
    # other path helpers: model agreement
    others = []
    for p, D in pairs[: ctx.volume(8000, 100000)]:
        others += [case_line("cleaned", p), case_line("specifier", p), case_line("template_parts", p), case_line("absolute_from_unit", p, D + "/u.container")]
    oi = vlib.run_impl(others)
    om = vlib.run_model(others) if ctx.model_ok else oi
    for c, a, b in zip(others, oi, om):
        ctx.evaluations += 1
        if a != b and b != "CWD":
            mism += 1
            if mism <= 6:
                ctx.broken.append("correspondence %s: impl=%s model=%s" % ([show(unhx(x)) for x in c.split("\t")[1:]], a, b))
    ctx.oblig("correspondence: model path functions (absolute_from, absolute_from_unit, cleaned, specifier test, template parts) = implementation", mism == 0, "%d mismatches" % mism)
    call_sites(ctx)
    ctx.samples = [{"path": show(p), "dir": show(D), "expected": expected(p, D)} for p, D in pairs[:8]]
    ctx.oblig("direct oracle: absolute_from and every call site give the lexically walked absolute path (specifier paths excepted), independent of the working directory",
              not ctx.failures, "%d failures" % len(ctx.failures))


def call_sites(ctx):
    rng = ctx.rng
    work = []
    safe = lambda p: p and not any(ch in p for ch in " \t%") and "é" not in p
    for _ in range(ctx.volume(600, 8000)):
        D = gen_dir(rng)
        p = gen_path(rng, 0.8)
        while not p or " " in p or p.startswith("%") or p.rstrip("/") == "":
            p = gen_path(rng, 0.8)
        site = rng.choice(["Yaml", "ConfigMap", "EnvironmentFile", "Volume", "Mount", "WorkDirYaml"])
        if site in ("Volume", "Mount"):
            # "a source that starts with '.'": ./x, ../x, .hidden/x, .. -- all of them are relative paths
            p = rng.choice(["./", "./", "../", ".h/", "../../", "./../"]) + p.lstrip("/") if rng.random() < 0.9 else rng.choice(["..", ".", "../..", ".h"])
        work.append((site, D, p))
    cases = []
    for site, D, p in work:
        if site == "Yaml":
            cases.append(case_line("convert", "0", D + "/k.kube", "[Kube]\nYaml=%s\n" % p))
        elif site == "ConfigMap":
            cases.append(case_line("convert", "0", D + "/k.kube", "[Kube]\nYaml=/y.yml\nConfigMap=%s\n" % p))
        elif site == "WorkDirYaml":
            cases.append(case_line("convert", "0", D + "/k.kube", "[Kube]\nYaml=%s\nSetWorkingDirectory=yaml\n" % p))
        elif site == "EnvironmentFile":
            cases.append(case_line("convert", "0", D + "/c.container", "[Container]\nImage=i\nEnvironmentFile=%s\n" % p))
        elif site == "Volume":
            cases.append(case_line("convert", "0", D + "/c.container", "[Container]\nImage=i\nVolume=%s:/dst\n" % p))
        else:
            cases.append(case_line("convert", "0", D + "/c.container", "[Container]\nImage=i\nMount=type=bind,source=%s,target=/dst\n" % p))
    d1 = tempfile.mkdtemp(prefix="qv-cwd-")
    try:
        o1 = vlib.run_impl(cases, {"VERIF_CWD": "/"})
        o2 = vlib.run_impl(cases, {"VERIF_CWD": d1})
    finally:
        shutil.rmtree(d1, ignore_errors=True)
    for (site, D, p), c, a, b in zip(work, cases, o1, o2):
        ctx.evaluations += 1
        ctx.count("callsite:" + site)
        if a != b:
            ctx.failures.append({"op": "convert", "site": site, "case_hex": c, "what": "result depends on the working directory", "class": None})
            continue
        rec = vlib.parse_convert(a)[0]
        if not rec.get("ok"):
            # WorkDirYaml with Yaml resolving to "/" has no parent directory: reported under C11
            ctx.count("callsite_not_converted")
            continue
        argv = vlib.sd_split_many([vlib.entries(rec, "Service", "ExecStart")[0].encode()])[0]
        pp = p
        want = expected(pp, D)
        bad = None
        if site == "Yaml" and argv[-1] != want:
            bad = "Yaml=%s -> %s" % (p, argv[-1])
        if site == "ConfigMap" and not any(argv[i] == "--configmap" and argv[i + 1] == want for i in range(len(argv) - 1)):
            bad = "ConfigMap=%s -> %s" % (p, argv)
        if site == "EnvironmentFile" and not any(argv[i] == "--env-file" and argv[i + 1] == want for i in range(len(argv) - 1)):
            bad = "EnvironmentFile=%s -> %s" % (p, argv)
        if site == "Volume" and not any(argv[i] == "-v" and argv[i + 1] == want + ":/dst" for i in range(len(argv) - 1)):
            bad = "Volume=%s:/dst -> %s" % (pp, argv)
        if site == "Mount" and not any(argv[i] == "--mount" and argv[i + 1].rstrip("\n") == "type=bind,source=%s,target=/dst" % want for i in range(len(argv) - 1)):
            bad = "Mount source=%s -> %s" % (pp, argv)
        if site == "WorkDirYaml":
            wd = vlib.entries(rec, "Service", "WorkingDirectory")
            wdu = vlib.run_impl([case_line("unquote", wd[0])])[0] if wd else ""
            wdu = unhx(wdu.split("\t")[1]).decode() if wdu.startswith("OK") and "\t" in wdu else None
            exp = "/" + "/".join(walk(segs(want))[:-1])
            if wdu != exp:
                bad = "SetWorkingDirectory=yaml with Yaml=%s -> WorkingDirectory=%s, expected %s" % (p, wd, exp)
        if bad:
            ctx.failures.append({"op": "convert", "site": site, "case_hex": c, "what": bad + " (expected %s)" % want, "class": None})


def replay(ctx, obj):
    f = obj.get("failure")
    if not f:
        print("replay: broken-tie record: %s" % obj.get("broken"))
        return 1
    out = vlib.run_impl([f["case_hex"]])[0]
    print("case:", [show(unhx(x)) for x in f["case_hex"].split("\t")[1:]]); print("impl:", out[:400])
    if f["op"] == "absolute_from":
        p, D = [unhx(x).decode() for x in f["case_hex"].split("\t")[1:3]]
        got = unhx(out.split("\t")[1]).decode() if out.startswith("OK") and "\t" in out else out
        ok = got == expected(p, D)
        print("replay: %s" % ("passes now" if ok else "still failing: expected %s" % expected(p, D)))
        return 0 if ok else 1
    return 1
