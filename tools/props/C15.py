"""C15 -- repeated assignments: last wins, lists accumulate, empty assignment resets."""
import os
import vlib, e2e
from vlib import hx, unhx, case_line, show

THEOREMS = ["C15_list", "C15_effective_is_suffix", "C15_last", "C15_kv", "C15_dropins", "C15_pinned_refuted", "C15_merged_history", "C15_rules_with_dropins"]

# key -> (kind, candidate values)
KEYS = {
    "ContainerName": ("single", ["n1", "n2", "my name"]),
    "Timezone": ("single", ["UTC", "local"]),
    "HostName": ("single", ["h1", "h2"]),
    "LogDriver": ("single", ["journald", "k8s-file"]),
    "CgroupsMode": ("single", ["enabled", "no-conmon"]),
    "SeccompProfile": ("single", ["/p1.json", "/p2.json"]),
    "HealthCmd": ("single", ["true", "\"sh -c 'exit 1'\""]),
    "Pull": ("single", ["never", "always"]),
    "ReadOnly": ("bool", ["yes", "no", "true", "0"]),
    "RunInit": ("bool", ["yes", "no"]),
    "NoNewPrivileges": ("bool", ["yes", "no"]),
    "DNS": ("list", ["1.1.1.1", "8.8.8.8", "9.9.9.9"]),
    "PublishPort": ("list", ["80:80", "443", "53/udp"]),
    "Network": ("list", ["host", "bridge"]),
    "AddCapability": ("words", ["CAP_A", "CAP_B CAP_C", "\"CAP_D\""]),
    "Sysctl": ("words", ["a=1", "b=2 c=3"]),
    "PodmanArgs": ("words", ["--foo", "--bar \"b z\"", "-x"]),
    "Environment": ("kv", ["A=1", "B=2", "A=3 C=4", "\"D=x y\"", "A=u=1", "A=v=2", "E=", "E==x"]),
    "Label": ("kv", ["l=1", "m=2", "l=3", "l=a=b", "l=c=d", "io.containers.autoupdate=local", "io.containers.autoupdate=image"]),
    "Exec": ("single", ["sleep 1", "echo \"a b\""]),
}


# keys of the other unit types: key -> (unit type, kind, candidate values); the base of the unit is docs.MINIMAL[type]
OTHER = {
    "volume:User": ("single", ["5", "1000", "x"]), "volume:Group": ("single", ["7", "100"]), "volume:Device": ("single", ["/dev/sda1", "tmpfs"]),
    "volume:Driver": ("single", ["local", "nfs"]), "volume:Copy": ("bool", ["yes", "no"]), "volume:Label": ("kv", ["l=1", "m=2", "l=3", "l=a=b", "l=c=d"]),
    "volume:VolumeName": ("single", ["v1", "v2"]),
    "network:Subnet": ("list", ["10.0.0.0/24", "10.1.0.0/24"]), "network:Driver": ("single", ["bridge", "macvlan"]), "network:Internal": ("bool", ["yes", "no"]),
    "network:Label": ("kv", ["l=1", "m=2", "l=3"]), "network:Options": ("kv", ["mtu=1500", "x=y", "mtu=9000", "x=p=1", "x=q=2"]), "network:DNS": ("list", ["1.1.1.1", "8.8.8.8"]),
    "pod:PodName": ("single", ["p1", "p2"]), "pod:PublishPort": ("list", ["80:80", "443"]), "pod:Network": ("list", ["host", "bridge"]), "pod:DNS": ("list", ["1.1.1.1", "8.8.8.8"]),
    "kube:ConfigMap": ("words", ["/a.yml", "/b.yml /c.yml"]), "kube:PublishPort": ("list", ["80:80", "443"]), "kube:LogDriver": ("single", ["journald", "none"]),
    "kube:ExitCodePropagation": ("single", ["all", "any"]), "kube:KubeDownForce": ("bool", ["yes", "no"]),
    "image:Arch": ("single", ["amd64", "arm64"]), "image:AllTags": ("bool", ["yes", "no"]), "image:ImageTag": ("single", ["localhost/a", "localhost/b"]),
    "build:Target": ("single", ["s1", "s2"]), "build:Label": ("kv", ["l=1", "m=2", "l=3"]), "build:Pull": ("single", ["never", "always"]), "build:Secret": ("words", ["id=a", "id=b id=c"]),
}
for _k, _v in OTHER.items():
    KEYS[_k] = _v
# keys whose being SET changes how OTHER keys are treated (UserNS switches the Remap* keys off): their history runs beside those keys
COMPANIONS = {
    "UserNS": "RemapUsers=keep-id\n", "pod:UserNS": "RemapUsers=auto\nRemapUidSize=4096\n", "kube:UserNS": "RemapUsers=auto\n",
    "User": "Group=7\n", "volume:Device": "Type=ext4\nOptions=rw\n", "volume:Driver": "Image=quay.io/x/y\n",
    "network:Subnet": "Gateway=10.0.0.1\n", "ReadOnly": "VolatileTmp=yes\n", "Notify": "", "Label": "AutoUpdate=registry\n",
}
KEYS["UserNS"] = ("single", ["host", "keep-id"])
KEYS["pod:UserNS"] = ("single", ["host", "keep-id"])
KEYS["kube:UserNS"] = ("single", ["host", "auto"])
KEYS["User"] = ("single", ["5", "root"])
KEYS["ReadOnly"] = ("bool", ["yes", "no"])


def unit_of(key):
    """(file extension, section header, base text, bare key)"""
    import docs
    comp = COMPANIONS.get(key, "")
    if ":" in key:
        typ, k = key.split(":", 1)
        return typ, docs.TYPES[typ][0], docs.MINIMAL[typ] + comp, k
    return "container", "Container", "Image=img\n" + comp, key


def py_effective(hist):
    out = []
    for v in hist:
        if v == "":
            out = []
        else:
            out.append(v)
    return out


def effective_history(kind, hist):
    """the shortest history with the same effective value, per the rule set of the property"""
    if kind in ("single", "bool"):
        return [hist[-1]] if hist and hist[-1] != "" else []
    return py_effective(hist)


def gen_history(rng, key):
    kind, vals = KEYS[key]
    n = rng.choice([1, 2, 2, 3, 4, 5])
    return [rng.choice(vals + ["", ""]) for _ in range(n)]


def spread(rng, key, hist):
    """distribute a history over the main file (repeated sections) and 0-3 drop-ins: returns (main_text, [dropin texts])"""
    parts = rng.choice([1, 1, 2, 3, 4])
    cuts = sorted(rng.randint(0, len(hist)) for _ in range(parts - 1))
    chunks, prev = [], 0
    for c in cuts + [len(hist)]:
        chunks.append(hist[prev:c]); prev = c
    nmain = rng.randint(1, len(chunks))
    typ, sec, base, k = unit_of(key)
    main = "[%s]\n%s" % (sec, base)
    for ch in chunks[:nmain]:
        main += "".join("%s=%s\n" % (k, v) for v in ch)
        main += rng.choice(["", "[Service]\nRestart=no\n[%s]\n" % sec, "[%s]\n" % sec])
    drops = ["[%s]\n" % sec + "".join("%s=%s\n" % (k, v) for v in ch) for ch in chunks[nmain:]]
    return main, drops


def canon_exec(line):
    argv = vlib.sd_split_many([line.encode()])[0]
    if argv is None:
        return None
    # canonicalise name=value option runs (HashMap order is unspecified)
    out, i, run_ = [], 0, []
    while i < len(argv):
        if argv[i] in ("--env", "--label", "--annotation", "--opt") and i + 1 < len(argv) and "=" in argv[i + 1] and not argv[i + 1].startswith("o="):
            run_.append((argv[i], argv[i + 1])); i += 2
            continue
        if run_:
            out += [x for p in sorted(run_) for x in p]; run_ = []
        out.append(argv[i]); i += 1
    if run_:
        out += [x for p in sorted(run_) for x in p]
    # object names derived from the file stem differ between the two files that are compared (h<j> / r<j>)
    import re
    # (a template instance's default container name is systemd-%p_%i where a plain unit's is systemd-%N)
    return [re.sub(r"^systemd-[hr](\d*)(@i)?(-infra)?$", r"systemd-<stem>\3", "systemd-%N" if a == "systemd-%p_%i" else a) for a in out]


def lookup_level(ctx):
    rng = ctx.rng
    cases, hists = [], []
    for _ in range(ctx.volume(4000, 60000)):
        vals = ["a", "b c", "\"q r\"", "k=v", "k=w x=y", "", "", "yes", "no", "1", "k=a=1", "k=b=2 x==", "=v", "k="]
        hist = [rng.choice(vals) for _ in range(rng.randint(0, 6))]
        other = [("Other", rng.choice(vals)) for _ in range(rng.randint(0, 2))]
        lines, text = [("K", v) for v in hist], ""
        ents = lines + other
        rng.shuffle(other)
        # keep K order, interleave others
        seq = []
        oi = 0
        for e in lines:
            if oi < len(other) and rng.random() < 0.3:
                seq.append(other[oi]); oi += 1
            seq.append(e)
        seq += other[oi:]
        text = "[S]\n"
        for k, v in seq:
            text += "%s=%s\n" % (k, v)
            if rng.random() < 0.2:
                text += "[T]\nZ=1\n[S]\n"
        kind = rng.choice(["all_raw", "last_raw", "all", "args", "strv", "keyval", "bool", "has_key", "last"])
        cases.append(case_line("lookup", text, "S", "K", kind)); hists.append((hist, kind, text))
    impl = vlib.run_impl(cases)
    model = vlib.run_model(cases) if ctx.model_ok else impl
    mism = 0
    for (hist, kind, text), a, b in zip(hists, impl, model):
        ctx.evaluations += 1
        ctx.count("lookup:" + kind)
        if len(hist) > 1 and "" in hist:
            ctx.nontrivial.add((tuple(hist), kind))
        if a != b:
            mism += 1
            if mism <= 3:
                ctx.broken.append("correspondence lookup %s: history=%s impl=%s model=%s" % (kind, hist, a, b))
        if kind == "all_raw":
            want = "\t".join(["OK"] + [hx(v) for v in py_effective(hist)])
            if a != want:
                ctx.failures.append({"op": "lookup", "history": hist, "text_hex": hx(text), "what": "lookup_all_values %s, rule says %s" % (a, py_effective(hist)), "class": None})
        if kind == "last_raw":
            want = "OK\tSOME\t" + hx(hist[-1]) if hist and hist[-1] != "" else "OK\tNONE"
            if a != want:
                ctx.failures.append({"op": "lookup", "history": hist, "text_hex": hx(text), "what": "lookup_last_value %s, last assignment %r" % (a, hist[-1:]), "class": None})
    # name=value keys: the last value per name, the name ending at the FIRST '=' of the word (independent reading; words by Spec.sd_split)
    kvs = [(hist, text, a) for (hist, kind, text), a in zip(hists, impl) if kind == "keyval"]
    flat = [v for hist, _, _ in kvs for v in py_effective(hist)]
    split = dict(zip(flat, vlib.sd_split_many([v.encode() for v in flat]))) if flat else {}
    for hist, text, a in kvs:
        d = {}
        ok = True
        for v in py_effective(hist):
            ws = split.get(v)
            if ws is None:
                ok = False; break
            for w in ws:
                if "=" in w:
                    n, _, val = w.partition("=")
                    d[n] = val
        if not ok:
            continue
        want = "\t".join(["OK"] + [x for n in sorted(d) for x in (hx(n), hx(d[n]))])
        if a != want:
            ctx.failures.append({"op": "lookup", "history": hist, "text_hex": hx(text), "what": "lookup_all_key_val %s, rule (last value per name) says %s" % (a, sorted(d.items())), "class": None})
    ctx.oblig("correspondence: model look-ups (all kinds) = implementation on every generated history", mism == 0, "%d mismatches" % mism)


def classify(key, hist):
    kind = KEYS[key][0]
    if kind in ("single", "bool") and hist and hist[-1] == "":
        return "EmptyLastAssignment:" + key
    return None


def command_level(ctx):
    """metamorphic oracle on the implementation: the command for a history equals the command for its effective history"""
    rng = ctx.rng
    work = []
    for _ in range(ctx.volume(1500, 20000)):
        key = rng.choice(list(KEYS))
        hist = gen_history(rng, key)
        main, drops = spread(rng, key, hist)
        eff = effective_history(KEYS[key][0], hist)
        if KEYS[key][0] == "kv" and eff:
            # name=value keys keep the last value per name: the reference unit spells exactly those words, one assignment each
            d = {}
            for ws in vlib.sd_split_many([v.encode() for v in eff]):
                for w in ws or []:
                    if "=" in w:
                        d[w.partition("=")[0]] = w
            eff = ['"%s"' % w if (" " in w or w.endswith("=")) else w for w in d.values()]
        typ, sec, base, k = unit_of(key)
        ref = "[%s]\n%s" % (sec, base) + "".join("%s=%s\n" % (k, v) for v in eff)
        work.append((key, hist, main, drops, ref))
    # in-process: drop-ins appended as further sections (C15_dropins: merging appends)
    cases = []
    for key, hist, main, drops, ref in work:
        cases.append(case_line("convert", "0", "/u/h.%s" % unit_of(key)[0], main + "".join(drops)))
        cases.append(case_line("convert", "0", "/u/h.%s" % unit_of(key)[0], ref))
    outs = vlib.run_impl(cases)
    for i, (key, hist, main, drops, ref) in enumerate(work):
        ctx.evaluations += 1
        ctx.count("command:" + KEYS[key][0])
        if len(hist) > 1:
            ctx.nontrivial.add((key, tuple(hist)))
        a, b = vlib.parse_convert(outs[2 * i])[0], vlib.parse_convert(outs[2 * i + 1])[0]
        ea = canon_exec(vlib.entries(a, "Service", "ExecStart")[0]) if a.get("ok") else ("ERR", a.get("err"))
        eb = canon_exec(vlib.entries(b, "Service", "ExecStart")[0]) if b.get("ok") else ("ERR", b.get("err"))
        # name=value keys, directly: the command carries "<option> name=value" for the LAST value of every name of the effective history
        # (another key that happens to produce the same option -- AutoUpdate= and its label -- does not replace the user's own)
        if KEYS[key][0] == "kv" and a.get("ok") and isinstance(ea, list):
            opt = {"Environment": "--env", "Label": "--label", "Annotation": "--annotation", "Options": "--opt"}[unit_of(key)[3]]
            d = {}
            for ws in vlib.sd_split_many([v.encode() for v in effective_history("kv", hist)]) if effective_history("kv", hist) else []:
                for w in ws or []:
                    if "=" in w:
                        d[w.partition("=")[0]] = w
            missing = [w for w in d.values() if not any(ea[j] == opt and ea[j + 1] == w for j in range(len(ea) - 1))]
            if missing:
                ctx.failures.append({"op": "convert", "key": key, "history": hist, "case_hex": cases[2 * i], "ref_hex": cases[2 * i + 1],
                                     "what": "history %s of %s: the command lacks %s %s (the last value of that name): %s" % (hist, key, opt, missing, ea), "class": None})
                continue
        if ea != eb:
            ctx.failures.append({"op": "convert", "key": key, "history": hist, "case_hex": cases[2 * i], "ref_hex": cases[2 * i + 1],
                                 "what": "history %s of %s gives %s but its effective value %s gives %s" % (hist, key, ea, effective_history(KEYS[key][0], hist), eb),
                                 "class": classify(key, hist)})
    # end to end with real drop-in files (beside the unit), a sample
    sample = [w for w in work if w[3]][: ctx.volume(60, 600)]
    with e2e.Box() as box:
        files, links = {}, []
        for j, (key, hist, main, drops, ref) in enumerate(sample):
            typ = unit_of(key)[0]
            # every fourth unit is a template INSTANCE whose drop-ins live only in the template's directory (h<j>@.<type>.d)
            inst = "@i" if j % 4 == 1 else ""
            ddir = "h%d@.%s.d" % (j, typ) if inst else "h%d.%s.d" % (j, typ)
            files["units/h%d%s.%s" % (j, inst, typ)] = main
            for d, txt in enumerate(drops):
                if (j + d) % 3 == 0:
                    # the drop-in is a symbolic link to a file kept elsewhere (a common way to share one drop-in between units)
                    files["shared/h%d-%02d.conf" % (j, d)] = txt
                    links.append(("units/%s/%02d-x.conf" % (ddir, d), "../../shared/h%d-%02d.conf" % (j, d)))
                else:
                    files["units/%s/%02d-x.conf" % (ddir, d)] = txt
            files["units/r%d.%s" % (j, typ)] = ref
        e2e.make_tree(box.root, files)
        for lp, target in links:
            os.makedirs(os.path.dirname(box.path(lp)), exist_ok=True)
            os.symlink(target, box.path(lp))
        ctx.count("e2e_symlinked_dropins", len(links))
        rc, out, err = e2e.run_quadlet([box.path("units")], box.path("out"), dry_run=True)
        svcs = e2e.parse_dry_run(out)
        for j, (key, hist, main, drops, ref) in enumerate(sample):
            ctx.evaluations += 1
            ctx.count("e2e_dropins")
            suf = {"container": "", "kube": "", "volume": "-volume", "network": "-network", "pod": "-pod", "image": "-image", "build": "-build"}[unit_of(key)[0]]
            ta, tb = svcs.get(box.path("out", "h%d%s%s.service" % (j, "@i" if j % 4 == 1 else "", suf))), svcs.get(box.path("out", "r%d%s.service" % (j, suf)))
            def ex(t):
                if t is None:
                    return None
                for ln in t.split("\n"):
                    if ln.startswith("ExecStart="):
                        return canon_exec(ln[len("ExecStart="):])
            if ex(ta) != ex(tb):
                ctx.failures.append({"op": "e2e", "key": key, "history": hist, "main": main, "dropins": drops,
                                     "what": "with drop-in files: history %s of %s gives %s, effective value gives %s" % (hist, key, ex(ta), ex(tb)),
                                     "class": classify(key, hist)})


# naming keys: their effective value shows in the service file name and in the commands of the units that REFER to the unit
# (target type, key, kind, values, how a container refers to the target)
NAMING = [
    ("container", "ContainerName", "single", ["c-one", "c-two"], "Network=t.container"),
    ("container", "ServiceName", "single", ["svc-one", "svc-two"], "Network=t.container"),
    ("volume", "VolumeName", "single", ["v-one", "v-two"], "Volume=t.volume:/data"),
    ("volume", "ServiceName", "single", ["vsvc-one", "vsvc-two"], "Volume=t.volume:/data"),
    ("network", "NetworkName", "single", ["n-one", "n-two"], "Network=t.network"),
    ("network", "ServiceName", "single", ["nsvc-one", "nsvc-two"], "Network=t.network"),
    ("image", "ImageTag", "single", ["localhost/i-one", "localhost/i-two"], "Image=t.image"),
    ("image", "ServiceName", "single", ["isvc-one", "isvc-two"], "Image=t.image"),
    ("build", "ImageTag", "list", ["localhost/b-one", "localhost/b-two", "localhost/b-three"], "Image=t.build"),
    ("build", "ServiceName", "single", ["bsvc-one", "bsvc-two"], "Image=t.build"),
    ("pod", "PodName", "single", ["p-one", "p-two"], "Pod=t.pod"),
    ("pod", "ServiceName", "single", ["psvc-one", "psvc-two"], "Pod=t.pod"),
]


def names_view(recs):
    """what the naming keys decide: per file the service file name, every Exec* argv and the [Unit] dependencies"""
    view = []
    for r in sorted(recs, key=lambda r: r.get("path", b"")):
        if not r.get("ok"):
            view.append((r.get("path"), "ERR", r.get("err"))); continue
        ex = [(k, tuple(canon_exec(v) or ["<unsplittable>"])) for name, es in r["sections"] if name == "Service" for k, v in es if k.startswith("Exec")]
        dep = [(k, v) for name, es in r["sections"] if name == "Unit" for k, v in es if k in ("Requires", "After", "BindsTo", "Wants", "Before")]
        view.append((r.get("path"), r.get("svc"), tuple(ex), tuple(dep)))
    return view


def names_level(ctx):
    """metamorphic oracle for the naming keys: a history and its effective history give the same service file names, the same
    commands in the referring unit and the same dependencies -- in-process, and end to end with the history spread over drop-ins"""
    import docs
    rng = ctx.rng
    work = []
    for _ in range(ctx.volume(300, 4000)):
        typ, key, kind, vals, ref_line = rng.choice(NAMING)
        n = rng.choice([1, 2, 3, 3, 4])
        hist = [rng.choice(vals + [""]) for _ in range(n)]
        eff = effective_history(kind, hist)
        sec, base = docs.TYPES[typ][0], docs.MINIMAL[typ]
        if typ == "build" and key == "ImageTag":
            base = "File=/Containerfile\n"          # the history is the unit's only ImageTag
        parts = rng.choice([1, 2, 3])
        cuts = sorted(rng.randint(0, len(hist)) for _ in range(parts - 1))
        chunks, prev = [], 0
        for c in cuts + [len(hist)]:
            chunks.append(hist[prev:c]); prev = c
        main = "[%s]\n%s" % (sec, base) + "".join("%s=%s\n" % (key, v) for v in chunks[0])
        drops = ["[%s]\n" % sec + "".join("%s=%s\n" % (key, v) for v in ch) for ch in chunks[1:]]
        ref = "[%s]\n%s" % (sec, base) + "".join("%s=%s\n" % (key, v) for v in eff)
        referrer = "[Container]\n" + ("" if ref_line.startswith("Image=") else "Image=img\n") + ref_line + "\n"
        work.append((typ, key, hist, main, drops, ref, referrer))
    cases = []
    for typ, key, hist, main, drops, ref, referrer in work:
        cases.append(case_line("convert", "0", "/u/t.%s" % typ, main + "".join(drops), "/u/user.container", referrer))
        cases.append(case_line("convert", "0", "/u/t.%s" % typ, ref, "/u/user.container", referrer))
    outs = vlib.run_impl(cases)
    for i, (typ, key, hist, main, drops, ref, referrer) in enumerate(work):
        ctx.evaluations += 1
        ctx.count("names:%s:%s" % (typ, key))
        if len(hist) > 1:
            ctx.nontrivial.add(("name", typ, key, tuple(hist)))
        va, vb = names_view(vlib.parse_convert(outs[2 * i])), names_view(vlib.parse_convert(outs[2 * i + 1]))
        if va != vb:
            diff = [(a, b) for a, b in zip(va, vb) if a != b][:1]
            ctx.failures.append({"op": "names", "key": "%s:%s" % (typ, key), "history": hist, "case_hex": cases[2 * i], "ref_hex": cases[2 * i + 1],
                                 "what": "naming history %s of [%s] %s and its effective value differ in names or in the referring unit: %s" % (hist, typ, key, diff),
                                 "class": None})
    # end to end: the history spread over the main file and real drop-in files
    sample = work[: ctx.volume(24, 600)]
    with e2e.Box() as box:
        for j, (typ, key, hist, main, drops, ref, referrer) in enumerate(sample):
            views = []
            for variant, (mtext, dtexts) in (("h", (main, drops)), ("r", (ref, []))):
                root = box.path("n%d%s" % (j, variant))
                files = {"u/t.%s" % typ: mtext, "u/user.container": referrer}
                for d, txt in enumerate(dtexts):
                    files["u/t.%s.d/%02d-x.conf" % (typ, d)] = txt
                e2e.make_tree(root, files)
                rc, out, err = e2e.run_quadlet([os.path.join(root, "u")], os.path.join(root, "out"), dry_run=True)
                svcs = e2e.parse_dry_run(out)
                v = []
                for pth in sorted(svcs):
                    lines = svcs[pth].split("\n")
                    ex = [(l.split("=", 1)[0], tuple(canon_exec(l.split("=", 1)[1]) or [])) for l in lines if l.startswith("Exec")]
                    dep = [l for l in lines if l.split("=", 1)[0] in ("Requires", "After", "BindsTo", "Wants", "Before")]
                    v.append((os.path.basename(pth), tuple(ex), tuple(dep)))
                views.append((rc, v))
            ctx.evaluations += 1
            ctx.count("e2e_names")
            if views[0] != views[1]:
                diff = [(a, b) for a, b in zip(views[0][1], views[1][1]) if a != b][:1] or [(views[0][0], [x[0] for x in views[0][1]], views[1][0], [x[0] for x in views[1][1]])]
                ctx.failures.append({"op": "e2e_names", "key": "%s:%s" % (typ, key), "history": hist, "main": main, "dropins": drops,
                                     "what": "with drop-in files: naming history %s of [%s] %s (main %r, drop-ins %r) and its effective value differ: %s" % (hist, typ, key, main, drops, diff),
                                     "class": None})


def run(ctx):
    ctx.rule = ("assignment histories (1-6 assignments incl. empty ones) of 20 container keys and 27 keys of the other six unit types, of all kinds (single, bool, list, word list, name=value), "
                "spread over the main file, repeated sections and 0-3 drop-ins; look-up level compared with the model and with the rule; command level by the metamorphic "
                "oracle 'history == its effective history' on the implementation, in-process and end to end with real drop-in files; the naming keys (ContainerName, VolumeName, NetworkName, ImageTag, PodName, ServiceName of six types) are judged by the service file names and by the command and dependencies of a unit that refers to the named one; "
                "non-trivial = history of >1 assignment (look-ups: containing an empty one); distinct = distinct (key, history)")
    lookup_level(ctx)
    command_level(ctx)
    names_level(ctx)
    ctx.samples = [{"key": f.get("key"), "history": f.get("history")} for f in ctx.failures[:3]] + [{"example_history": ["a", "", "b c"], "effective": ["b c"]}]
    ctx.oblig("direct oracle: look-ups follow the rule set; the command for a history equals the command for its effective history",
              not ctx.failures, "%d failures" % len(ctx.failures))


def replay(ctx, obj):
    f = obj.get("failure")
    if not f:
        print("replay: broken-tie record: %s" % obj.get("broken"))
        return 1
    if f["op"] == "convert":
        outs = vlib.run_impl([f["case_hex"], f["ref_hex"]])
        a, b = vlib.parse_convert(outs[0])[0], vlib.parse_convert(outs[1])[0]
        ea = canon_exec(vlib.entries(a, "Service", "ExecStart")[0]) if a.get("ok") else ("ERR", a.get("err"))
        eb = canon_exec(vlib.entries(b, "Service", "ExecStart")[0]) if b.get("ok") else ("ERR", b.get("err"))
        print("history:", ea); print("effective:", eb)
        print("replay: %s" % ("still failing" if ea != eb else "passes now"))
        return 1 if ea != eb else 0
    print("replay: re-run ./check C15 for this record kind")
    return 1
