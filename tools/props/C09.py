"""C09 -- pod membership is wired symmetrically between pods and their containers."""
import os
import vlib, e2e
from vlib import hx, unhx, case_line, show

THEOREMS = ["C09_pods_want_exactly_their_members", "C09_run_position", "C09_members_spec", "C09_registered_spec", "C09_members_are_bound_to_their_pod",
            "C09_table_along_the_run", "C09_member", "C09_errors", "C09_members_wired", "C09_slash_refuted", "C09_pods_want_exactly_their_members_with_dropins", "C09_members_are_bound_to_their_pod_with_dropins", "C09_run_with_dropins_is", "C09_dropin_membership_example"]


def gen_set(rng):
    pods = []
    for stem in rng.sample(["pd", "app pod", "p-2", "x"], rng.randint(0, 3)):
        sn = rng.choice([None, None, "podsvc-" + stem.replace(" ", ""), "with space", stem.replace(" ", "") + ".service", "x.service.service", stem.replace(" ", "") + "-pod", "a.pod"]) if rng.random() < 0.5 else None
        if rng.random() < 0.04:
            sn = "nested/name"
        if sn is not None and sn in [q["service_name"] for q in pods]:
            sn = None                  # two units with one service name share a service file: outside the property
        pods.append({"stem": stem, "service_name": sn, "podname": rng.choice([None, "my" + stem.replace(" ", "")])})
    ctrs = []
    # members may be template instances (app@one.container) or bare templates
    for stem in rng.sample(["c1", "c2", "web", "db", "side car", "z", "app@one", "app@two", "t@"], rng.randint(0, 6)):
        r = rng.random()
        if r < 0.65 and pods:
            pod = rng.choice(pods)["stem"] + ".pod"
        elif r < 0.75:
            pod = "ghost.pod"
        elif r < 0.82:
            pod = rng.choice(["notapod", "c1.container", "web.container", "z.container", "data.volume"])      # not a .pod, even if such a unit exists in the run
        else:
            pod = None
        ctrs.append({"stem": stem, "pod": pod, "start": rng.choice([None, None, "yes", "no", "false", "true"]),
                     "service_name": rng.choice([None, None, "csvc-" + stem.replace(" ", ""), stem.replace(" ", "") + ".service"]),
                     "broken": rng.choice(BROKEN_KINDS) if rng.random() < 0.16 else None})
    return pods, ctrs


# a member that fails conversion -- at the first check, or late (after every other handler has run) -- is not a member of anything
BROKEN_KINDS = ["Rootfs=/also\n", "Volume=ghost.volume:/data\n", "ExposeHostPort=http\n", "Group=g\n", "RemapUsers=bogus\n", "Mount=type=volume,source=ghost.volume,destination=/x\n", "Volume=./rel.volume:/x:bad\n",
                "Network=ghost.network\n", "HealthCmd=\\q\n", "PodmanArgs=\\q\n", "[Service]\nKillMode=process\n", "[Service]\nType=forking\n"]


def pod_text(p):
    return "[Pod]\n" + ("ServiceName=%s\n" % p["service_name"] if p["service_name"] else "") + ("PodName=%s\n" % p["podname"] if p["podname"] else "")


def ctr_text(c):
    t = "[Container]\nImage=img\n"
    if c["pod"]:
        t += "Pod=%s\n" % c["pod"]
    if c["start"]:
        t += "StartWithPod=%s\n" % c["start"]
    if c["service_name"]:
        t += "ServiceName=%s\n" % c["service_name"]
    if c["broken"]:
        t += c["broken"]
    return t


def pod_service(p):
    return (p["service_name"] or p["stem"] + "-pod")


def check(ctx, pods, ctrs, recs, label):
    res = {os.path.basename(r["path"].decode()): r for r in recs if "path" in r}
    setdesc = [("%s.pod" % p["stem"], pod_text(p)) for p in pods] + [("%s.container" % c["stem"], ctr_text(c)) for c in ctrs]
    byname = {p["stem"] + ".pod": p for p in pods}
    for c in ctrs:
        r = res.get(c["stem"] + ".container")
        if r is None:
            continue
        if c["broken"]:
            continue
        if c["pod"] is None:
            if not r.get("ok"):
                ctx.failures.append({"op": label, "what": "container %s without Pod= fails: %s" % (c["stem"], r.get("msg")), "set": setdesc, "class": None})
            continue
        if not c["pod"].endswith(".pod") or c["pod"] not in byname:
            if r.get("ok") or c["pod"] not in r.get("msg", ""):
                ctx.failures.append({"op": label, "what": "container %s with Pod=%s: expected a failure naming it, got %s %s" % (c["stem"], c["pod"], r.get("ok"), r.get("msg")), "set": setdesc, "class": None})
            continue
        p = byname[c["pod"]]
        cls = "SlashInServiceName" if "/" in (p["service_name"] or "") else None
        if not r.get("ok"):
            ctx.failures.append({"op": label, "what": "member container %s fails: %s" % (c["stem"], r.get("msg")), "set": setdesc, "class": cls}); continue
        argv = vlib.sd_split_many([vlib.entries(r, "Service", "ExecStart")[0].encode()])[0]
        psvc = pod_service(p)
        pfile = os.path.basename(psvc + ".service")
        want_id = "%%t/%s.pod-id" % pfile[:-len(".service")]
        if not any(argv[i] == "--pod-id-file" and argv[i + 1] == want_id for i in range(len(argv) - 1)):
            ctx.failures.append({"op": label, "what": "container %s: expected --pod-id-file %s (the file pod %s's service writes), argv=%s" % (c["stem"], want_id, p["stem"], argv), "set": setdesc, "class": cls})
        if pfile not in vlib.entries(r, "Unit", "BindsTo") or pfile not in vlib.entries(r, "Unit", "After"):
            ctx.failures.append({"op": label, "what": "container %s: BindsTo=/After=%s expected" % (c["stem"], pfile), "set": setdesc, "class": cls})
    for p in pods:
        r = res.get(p["stem"] + ".pod")
        if r is None or not r.get("ok"):
            if r is not None and "/" not in (p["service_name"] or ""):
                ctx.failures.append({"op": label, "what": "pod %s fails: %s" % (p["stem"], r.get("msg")), "set": setdesc, "class": None})
            continue
        members = set()
        for c in ctrs:
            cr = res.get(c["stem"] + ".container")
            if c["pod"] == p["stem"] + ".pod" and cr is not None and cr.get("ok") and c["start"] not in ("no", "false"):
                members.add((c["service_name"] or c["stem"]) + ".service")
        wants, before = vlib.entries(r, "Unit", "Wants"), vlib.entries(r, "Unit", "Before")
        wants = [w for w in wants if w != "network-online.target"]
        if set(wants) != members or set(before) != members or len(wants) != len(members) or len(before) != len(members):
            ctx.failures.append({"op": label, "what": "pod %s: Wants=%s Before=%s, its starting members are %s" % (p["stem"], wants, before, sorted(members)), "set": setdesc, "class": None})
        pre = vlib.sd_split_many([vlib.entries(r, "Service", "ExecStartPre")[0].encode()])[0]
        if "--pod-id-file=%t/%N.pod-id" not in pre:
            ctx.failures.append({"op": label, "what": "pod %s does not write %%t/%%N.pod-id" % p["stem"], "set": setdesc, "class": None})


def ctr_split(c):
    # the same unit with its Pod=/StartWithPod= lines moved to a drop-in (the run merges drop-ins before the name table is built)
    main = "[Container]\nImage=img\n" + ("ServiceName=%s\n" % c["service_name"] if c["service_name"] else "") + (c["broken"] or "")
    drop = "[Container]\n" + ("Pod=%s\n" % c["pod"] if c["pod"] else "") + ("StartWithPod=%s\n" % c["start"] if c["start"] else "")
    return main, drop


def run(ctx):
    ctx.rule = ("sets of 0-3 pods (file stems with blanks and dashes, optional ServiceName incl. one with '/' and ones ending in .service / -pod / .pod, optional PodName) and 0-6 containers, each naming one of the pods, a missing pod, "
                "a non-.pod name or none, with StartWithPod yes/no/true/false/absent, optional ServiceName, some containers failing conversion early or late (dangling volume/network, bad port, bad group, bad mount, bad escape, bad KillMode/Type); random file order; in-process and end to end; "
                "end to end, a third of the members get Pod=/StartWithPod= from a DROP-IN and a third of the named pods their ServiceName= (the run merges drop-ins before the name table is built, C09_*_with_dropins); non-trivial = at least one pod with a member; distinct = distinct sets")
    rng = ctx.rng
    sets = [gen_set(rng) for _ in range(ctx.volume(1500, 20000))]
    cases = []
    for pods, ctrs in sets:
        files = [("/d/%s.pod" % p["stem"], pod_text(p)) for p in pods] + [("/d/%s.container" % c["stem"], ctr_text(c)) for c in ctrs]
        rng.shuffle(files)
        cases.append(case_line("convert", "0", *[x for f in files for x in f]))
    outs = vlib.run_impl(cases)
    model = vlib.run_model(cases) if ctx.model_ok else outs
    ci = vlib.canon_records(outs)
    cm = vlib.canon_records([m if m not in ("SKIP", "PANIC") else "OK" for m in model])
    mism = 0
    for i, (pods, ctrs) in enumerate(sets):
        ctx.evaluations += 1
        if any(c["pod"] and c["pod"][:-4] in [p["stem"] for p in pods] for c in ctrs):
            ctx.nontrivial.add(cases[i])
        ctx.count("pods=%d" % len(pods)); ctx.count("containers=%d" % len(ctrs))
        key = lambda r: r["path"]
        if model[i] != "SKIP" and sorted(ci[i], key=key) != sorted(cm[i], key=key):
            mism += 1
            if mism <= 3:
                ctx.broken.append("correspondence process/convert (pods): case=%s" % [show(unhx(x)) for x in cases[i].split("\t")[2:]])
        check(ctx, pods, ctrs, vlib.parse_convert(outs[i]), "convert")
    ctx.oblig("correspondence: Process/Convert model = implementation on every generated pod/container set", mism == 0, "%d mismatches" % mism)
    with e2e.Box() as box:
        for i, (pods, ctrs) in enumerate(sets[: ctx.volume(40, 400)]):
            root = box.path(str(i))
            files = {"u/%s.pod" % p["stem"]: pod_text(p) for p in pods}
            for c in ctrs:
                if (c["pod"] or c["start"]) and rng.random() < 0.35:
                    main, drop = ctr_split(c)
                    files["u/%s.container" % c["stem"]] = main
                    files["u/%s.container.d/10-pod.conf" % c["stem"]] = drop
                    ctx.count("e2e_membership_in_dropin")
                else:
                    files["u/%s.container" % c["stem"]] = ctr_text(c)
            for p_ in pods:
                if p_["service_name"] and rng.random() < 0.35:
                    files["u/%s.pod" % p_["stem"]] = "[Pod]\n" + ("PodName=%s\n" % p_["podname"] if p_["podname"] else "")
                    files["u/%s.pod.d/name.conf" % p_["stem"]] = "[Pod]\nServiceName=%s\n" % p_["service_name"]
                    ctx.count("e2e_pod_service_name_in_dropin")
            files.setdefault("u/.keep", "")
            e2e.make_tree(root, files)
            rc, out, err = e2e.run_quadlet([os.path.join(root, "u")], os.path.join(root, "out"), dry_run=True)
            svcs = {os.path.basename(k): v for k, v in e2e.parse_dry_run(out).items()}
            errt = err.decode("utf-8", "replace")
            recs = []
            for kind, items in (("pod", pods), ("container", ctrs)):
                for it in items:
                    fname = "%s.%s" % (it["stem"], kind)
                    svcname = os.path.basename(((it["service_name"] or (it["stem"] + ("-pod" if kind == "pod" else ""))) + ".service"))
                    if svcname in svcs:
                        secs, cur = [], None
                        for ln in svcs[svcname].split("\n"):
                            if ln.startswith("[") and ln.endswith("]"):
                                cur = (ln[1:-1], []); secs.append(cur)
                            elif "=" in ln and cur:
                                k, v = ln.split("=", 1); cur[1].append((k, v))
                        recs.append({"path": ("/d/" + fname).encode(), "ok": True, "sections": secs})
                    else:
                        recs.append({"path": ("/d/" + fname).encode(), "ok": False, "msg": " ".join(l for l in errt.split("\n") if fname in l)})
            ctx.evaluations += 1
            ctx.count("e2e_sets")
            check(ctx, pods, ctrs, recs, "e2e")
    ctx.samples = [{"pods": p, "containers": c} for p, c in sets[:2]]
    unknown = [f for f in ctx.failures if f["class"] is None]
    ctx.oblig("direct oracle: members get the pod's own pod-id file and BindsTo=/After= its service; each pod wants and precedes exactly its starting members; bad Pod= values fail that container only",
              not ctx.failures, "%d failures (%d outside known classes)" % (len(ctx.failures), len(unknown)))


def replay(ctx, obj):
    f = obj.get("failure") or {}
    print("replay: set %s\n%s" % (f.get("set"), f.get("what")))
    return 1
