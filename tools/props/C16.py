"""C16 -- undocumented keys are rejected, documented keys are accepted."""
import vlib, gen_conv, docs, e2e
from vlib import hx, unhx, case_line, show

THEOREMS = ["C16_tables", "C16_reject", "C16_reject_quadlet", "C16_error_names_key", "C16_accept", "C16_reject_in_the_run_with_dropins", "C16_dropin_unknown_key_example"]


def inventory(ctx):
    """guard-call inventory: every from_*_unit checks its own section against its own allow-list and [Quadlet] against the Quadlet list"""
    import gen_tables
    toks = gen_tables.nontest_tokens("src/quadlet/convert.rs")
    want = {"from_build_unit": ("BUILD_SECTION", "SUPPORTED_BUILD_KEYS"), "from_container_unit": ("CONTAINER_SECTION", "SUPPORTED_CONTAINER_KEYS"),
            "from_image_unit": ("IMAGE_SECTION", "SUPPORTED_IMAGE_KEYS"), "from_kube_unit": ("KUBE_SECTION", "SUPPORTED_KUBE_KEYS"),
            "from_network_unit": ("NETWORK_SECTION", "SUPPORTED_NETWORK_KEYS"), "from_pod_unit": ("POD_SECTION", "SUPPORTED_POD_KEYS"),
            "from_volume_unit": ("VOLUME_SECTION", "SUPPORTED_VOLUME_KEYS")}
    bad = []
    for name, a, b in gen_tables.fn_spans(toks):
        if name in want:
            calls = []
            for k in range(a, b):
                if toks[k] == ("id", "check_for_unknown_keys") and toks[k + 1] == ("p", "("):
                    args = [t[1] for t in toks[k + 2:k + 10] if t[0] == "id"]
                    calls.append(tuple(args[1:3]))
            if want[name] not in calls or ("QUADLET_SECTION", "SUPPORTED_QUADLET_KEYS") not in calls:
                bad.append("%s: %s" % (name, calls))
            want[name] = None
    missing = [n for n, v in want.items() if v is not None]
    ctx.oblig("guard-call inventory: each of the 7 converters calls check_for_unknown_keys(own section, own list)? and (QUADLET_SECTION, SUPPORTED_QUADLET_KEYS)?",
              not bad and not missing, "; ".join(bad + ["not found: " + m for m in missing]))
    # the key tables of tools/docs.py (documentation transcript) against the regenerated allow-lists
    T = ctx.tables
    if T:
        names = {"container": "SUPPORTED_CONTAINER_KEYS", "pod": "SUPPORTED_POD_KEYS", "volume": "SUPPORTED_VOLUME_KEYS", "network": "SUPPORTED_NETWORK_KEYS",
                 "kube": "SUPPORTED_KUBE_KEYS", "image": "SUPPORTED_IMAGE_KEYS", "build": "SUPPORTED_BUILD_KEYS"}
        diffs = {t: sorted(set(docs.documented_keys(t)) ^ set(T["str_arrays"][n])) for t, n in names.items()}
        ctx.oblig("documented key sets (tools/docs.py) = allow-lists regenerated from the source", not any(diffs.values()), str({t: d for t, d in diffs.items() if d}))


def near_misses(rng, typ, key):
    out = {key.lower(), key.upper(), key[0].lower() + key[1:], key + "s", key[:-1], key[1:], key.replace("e", "E", 1), key + " x".strip(), "X" + key, key[:len(key) // 2] + "-" + key[len(key) // 2:]}
    if len(key) > 2:
        i = rng.randrange(len(key) - 1)
        out.add(key[:i] + key[i + 1] + key[i] + key[i + 2:])
        out.add(key[:i] + key[i + 1:])
        out.add(key[:i] + rng.choice("abXY09") + key[i:])
    out.add(key.replace("a", "а"))  # Cyrillic a
    doc = set(docs.documented_keys(typ))
    return [k for k in out if k and k not in doc and all(ch.isalnum() or ch == "-" for ch in k)]


def dropin_level(ctx):
    """undocumented keys and drop-ins: a key stays visible to the check whatever a drop-in assigns to it (also the empty reset), a key that
    only a drop-in holds is rejected too, and merging a drop-in appends its entries to the main file's (nothing is dropped)"""
    rng = ctx.rng
    # (a) merge_from itself: entries of the merged unit = entries of the main file followed by the drop-in's, section by section
    cases, exp = [], []
    for _ in range(ctx.volume(150, 2000)):
        typ = rng.choice(list(docs.TYPES)); sec = docs.TYPES[typ][0]
        keys = [rng.choice(["Image", "Netwrok", "Lable", "Label", "Exec", "Bogus"]) for _ in range(rng.randint(1, 3))]
        vals = lambda: rng.choice(["v", "", "", '""', "a b"])
        m = [(sec, k, vals()) for k in keys] + [("Service", "Restart", rng.choice(["no", ""]))]
        d = [(rng.choice([sec, sec, "Service", "Unit"]), rng.choice(keys + ["Restart", "Other"]), vals()) for _ in range(rng.randint(1, 4))]
        def text(es):
            out, cur = "", None
            for s_, k, v in es:
                if s_ != cur:
                    out += "[%s]\n" % s_; cur = s_
                out += "%s=%s\n" % (k, v)
            return out
        cases.append(case_line("unit_ops", "merge", text(m), "merge", text(d)))
        want = {}
        for s_, k, v in m + d:
            want.setdefault(s_, []).append((k, v))
        exp.append((want, text(m), text(d)))
    outs = vlib.run_impl(cases)
    for o, (want, tm, td) in zip(outs, exp):
        ctx.evaluations += 1
        ctx.count("merge")
        toks = o.split("\t")
        got = {}
        if toks[0] == "OK":
            for name, es in vlib.parse_unit_tokens(toks, 2)[0]:
                got.setdefault(name, []).extend(es)
        if got != want:
            ctx.failures.append({"op": "merge", "main": tm, "dropin": td, "what": "merging drop-in %r into %r gives entries %s, expected the main file's followed by the drop-in's: %s" % (td, tm, got, want), "class": None})
    # (b) end to end with real drop-in files
    files, expect = {}, {}
    n = 0
    for typ in docs.TYPES:
        sec, base, suf = docs.TYPES[typ][0], docs.MINIMAL[typ], docs.SUFFIX[typ]
        doc = docs.documented_keys(typ)
        bad = rng.choice(near_misses(rng, typ, rng.choice(doc)) or ["Bogus"])
        good = rng.choice([k for k in ("Label", "PodmanArgs", "GlobalArgs") if k in doc] or ["PodmanArgs"])
        for kind in ("main_then_reset", "main_then_set", "dropin_only", "dropin_only_empty", "template_dropin", "documented_in_dropin", "two_dropins_reset"):
            stem = "u%d" % n; n += 1
            name = "%s.%s" % (stem, typ)
            if kind == "main_then_reset":
                files["u/" + name] = "[%s]\n%s%s=x\n" % (sec, base, bad); files["u/%s.d/10-r.conf" % name] = "[%s]\n%s=\n" % (sec, bad)
            elif kind == "main_then_set":
                files["u/" + name] = "[%s]\n%s%s=x\n" % (sec, base, bad); files["u/%s.d/10-r.conf" % name] = "[%s]\n%s=y\n" % (sec, bad)
            elif kind == "dropin_only":
                files["u/" + name] = "[%s]\n%s" % (sec, base); files["u/%s.d/10-r.conf" % name] = "[%s]\n%s=y\n" % (sec, bad)
            elif kind == "dropin_only_empty":
                files["u/" + name] = "[%s]\n%s" % (sec, base); files["u/%s.d/10-r.conf" % name] = "[%s]\n%s=\n" % (sec, bad)
            elif kind == "template_dropin":
                name = "%s@one.%s" % (stem, typ)
                files["u/" + name] = "[%s]\n%s%s=x\n" % (sec, base, bad); files["u/%s@.%s.d/10-r.conf" % (stem, typ)] = "[%s]\n%s=\n" % (sec, bad)
            elif kind == "two_dropins_reset":
                files["u/" + name] = "[%s]\n%s" % (sec, base); files["u/%s.d/10-a.conf" % name] = "[%s]\n%s=y\n" % (sec, bad); files["u/%s.d/20-b.conf" % name] = "[%s]\n%s=\n" % (sec, bad)
            else:
                files["u/" + name] = "[%s]\n%s" % (sec, base); files["u/%s.d/10-r.conf" % name] = "[%s]\n%s=\n%s=--x\n" % (sec, good, good)
            svc = name.rsplit(".", 1)[0] + suf + ".service"
            expect[name] = (svc, kind != "documented_in_dropin", bad, kind)
    with e2e.Box() as box:
        e2e.make_tree(box.root, files)
        rc, out, err = e2e.run_quadlet([box.path("u")], box.path("out"))
        snap = e2e.snapshot(box.path("out"))
        errt = err.decode("utf-8", "replace")
        for name, (svc, rejected, bad, kind) in expect.items():
            ctx.evaluations += 1
            ctx.count("e2e_dropin:" + kind)
            ctx.nontrivial.add(("dropin", name, kind))
            lines = [l for l in errt.split("\n") if name in l and "ERROR" in l.upper()]
            if rejected and (svc in snap or not any(("'%s'" % bad) in l for l in lines)):
                ctx.failures.append({"op": "e2e_dropin", "files": {k: v for k, v in files.items() if name.split(".")[0].split("@")[0] + "." in k or name.split("@")[0] + "@" in k},
                                     "what": "%s (%s): undocumented key %s %s; service %s; error lines: %s" % (name, kind, bad, "must be rejected", "written" if svc in snap else "not written", lines[:2]), "class": None})
            if not rejected and svc not in snap:
                ctx.failures.append({"op": "e2e_dropin", "what": "%s (%s): documented keys only, but no service: %s" % (name, kind, lines[:2]), "class": None})
        if rc != 1:
            ctx.failures.append({"op": "e2e_dropin", "what": "exit status %s with rejected units" % rc, "class": None})


def run(ctx):
    ctx.rule = ("for each of the 7 unit types and each documented key: near-miss names (case changes, one-character insertions/deletions/transpositions, prefixes/suffixes, a Cyrillic "
                "look-alike) and keys documented only for other types, each added with a plain, empty, empty-quoted or other value, last, first or twice, to a minimal unit of that type (also inside [Quadlet]); conversely random units built from documented "
                "keys only; undocumented keys combined with drop-ins (reset or set in a drop-in, only in a drop-in, in a template's drop-in directory) end to end, and merge_from checked to append; non-trivial = the near miss differs from a documented key by one edit or is documented for another type; distinct = distinct (type, key)")
    rng = ctx.rng
    cases, meta = [], []
    allkeys = sorted({k for t in docs.TYPES for k in docs.documented_keys(t)})
    for typ in docs.TYPES:
        sec = docs.TYPES[typ][0]
        doc = docs.documented_keys(typ)
        cand = []
        for k in doc:
            cand += near_misses(rng, typ, k)
        cand += [k for k in allkeys if k not in doc]
        if ctx.tier != "thorough":
            rng.shuffle(cand)
            cand = cand[: 260]
        # the value written for the undocumented key must not matter: plain, empty, empty-quoted, blank-only, reset-then-set, and the key placed first
        for n, k in enumerate(sorted(set(cand))):
            for val in (["v", "", '""'] if (ctx.tier == "thorough" or n % 2 == 0) else [rng.choice(["v", "", '""', "' '", "yes", "a b", "%t/x"])]):
                if n % 5 == 4:
                    text = "[%s]\n%s=%s\n%s" % (sec, k, val, docs.MINIMAL[typ])
                elif n % 7 == 6:
                    text = "[%s]\n%s%s=x\n%s=%s\n" % (sec, docs.MINIMAL[typ], k, k, val)
                else:
                    text = "[%s]\n%s%s=%s\n" % (sec, docs.MINIMAL[typ], k, val)
                path = "/d/u%d.%s" % (len(cases), typ)
                cases.append(case_line("convert", "0", path, text)); meta.append((typ, k, path, "own"))
        for k in ["defaultdependencies", "DefaultDependency", "Bogus", "Image", "ServiceName", "PodmanArgs", "GlobalArgs", "ContainersConfModule"] + rng.sample(doc, 3):      # keys of the unit's OWN section are not keys of [Quadlet]
            for val in ["no", "", '""']:
                text = "[%s]\n%s[Quadlet]\n%s=%s\n" % (sec, docs.MINIMAL[typ], k, val)
                path = "/d/q%d.%s" % (len(cases), typ)
                cases.append(case_line("convert", "0", path, text)); meta.append((typ, k, path, "quadlet"))
            # next to the documented [Quadlet] key, whatever its value (the check must not depend on what DefaultDependencies says)
            for dd in ["no", "false", "0", "off", "yes", ""]:
                for text in ("[%s]\n%s[Quadlet]\nDefaultDependencies=%s\n%s=x\n" % (sec, docs.MINIMAL[typ], dd, k),
                             "[Quadlet]\n%s=x\nDefaultDependencies=%s\n[%s]\n%s" % (k, dd, sec, docs.MINIMAL[typ])):
                    path = "/d/q%d.%s" % (len(cases), typ)
                    cases.append(case_line("convert", "0", path, text)); meta.append((typ, k, path, "quadlet"))
    impl = vlib.run_impl(cases)
    model = vlib.run_model(cases) if ctx.model_ok else None
    mism = 0
    for i, ((typ, k, path, where), o) in enumerate(zip(meta, impl)):
        ctx.evaluations += 1
        ctx.nontrivial.add((typ, k, where, cases[i]))
        ctx.count("reject:%s" % typ)
        rec = vlib.parse_convert(o)[0]
        if model is not None:
            mrec = vlib.parse_convert(model[i])[0] if model[i] not in ("PANIC", "SKIP") else {"panic": True}
            if (rec.get("ok"), rec.get("err")) != (mrec.get("ok"), mrec.get("err")):
                mism += 1
                if mism <= 3:
                    ctx.broken.append("correspondence convert: %s key %s impl=%s model=%s" % (typ, k, (rec.get("ok"), rec.get("err")), (mrec.get("ok"), mrec.get("err"))))
        bad = None
        if rec.get("ok") or rec.get("panic"):
            bad = "undocumented key %s in a .%s unit (%s section) is accepted" % (k, typ, where)
        elif rec.get("stage") == "load":
            continue  # key with characters the parser rejects: no service either
        elif rec["err"] != "UnknownKey" or ("'%s'" % k) not in rec["msg"] or path not in rec["msg"]:
            bad = "error does not name key and file: %s: %s" % (rec["err"], rec["msg"])
        if bad:
            ctx.failures.append({"op": "convert", "type": typ, "key": k, "case_hex": cases[i], "what": bad, "class": None})
    # conversely: documented keys with valid values
    work = [(t, gen_conv.gen_unit(rng, t, 0.3)[0]) for t in rng.choices(list(docs.TYPES), k=ctx.volume(2000, 30000))]
    c2 = [case_line("convert", "0", "/d/ok.%s" % t, text) for t, text in work]
    o2 = vlib.run_impl(c2)
    m2 = vlib.run_model(c2) if ctx.model_ok else o2
    co2, cm2 = vlib.canon_records(o2), vlib.canon_records([m if m not in ("SKIP", "PANIC") else "OK" for m in m2])
    for j, ((t, text), c, o, m) in enumerate(zip(work, c2, o2, m2)):
        ctx.evaluations += 1
        ctx.count("accept:%s" % t)
        rec = vlib.parse_convert(o)[0]
        if not rec.get("ok"):
            ctx.failures.append({"op": "convert", "type": t, "case_hex": c, "what": "a unit with documented keys and valid values is rejected: %s %s\n%s" % (rec.get("err"), rec.get("msg"), text), "class": None})
        if m not in ("SKIP",) and co2[j] != cm2[j]:
            mism += 1
            if mism <= 6:
                ctx.broken.append("correspondence convert (documented keys): unit=%s" % show(text))
    ctx.oblig("correspondence: model converters = implementation (accept/reject and error class; full service on accepted units)", mism == 0, "%d mismatches" % mism)
    # end to end: no service file, exit status 1, error line with path and key
    with e2e.Box() as box:
        e2e.make_tree(box.root, {"u/good.container": "[Container]\nImage=img\n", "u/bad.container": "[Container]\nImage=img\nimage=x\n", "u/bad2.volume": "[Volume]\nImage=x\nYaml=y\n"})
        rc, out, err = e2e.run_quadlet([box.path("u")], box.path("out"))
        snap = e2e.snapshot(box.path("out"))
        ctx.evaluations += 1
        errt = err.decode("utf-8", "replace")
        if not (rc == 1 and "good.service" in snap and "bad.service" not in snap and "bad2-volume.service" not in snap
                and "'image'" in errt and "bad.container" in errt and "'Yaml'" in errt and "bad2.volume" in errt):
            ctx.failures.append({"op": "e2e", "what": "end to end: rc=%s files=%s stderr=%s" % (rc, sorted(snap), errt[-400:]), "class": None})
    dropin_level(ctx)
    ctx.samples = [{"type": t, "key": k, "where": w} for t, k, _, w in meta[:10]]
    ctx.oblig("direct oracle: every near-miss key fails conversion with UnknownKey naming key and file; documented-only units convert; end to end no service is written and exit status is 1",
              not ctx.failures, "%d failures" % len(ctx.failures))


def replay(ctx, obj):
    f = obj.get("failure")
    if not f or "case_hex" not in f:
        print("replay: %s" % (obj.get("broken") or f)); return 1
    rec = vlib.parse_convert(vlib.run_impl([f["case_hex"]])[0])[0]
    print("impl:", rec.get("ok"), rec.get("err"), rec.get("msg"))
    still = bool(rec.get("ok")) if "key" in f else not rec.get("ok")
    print("replay: %s" % ("still failing" if still else "passes now"))
    return 1 if still else 0
