"""C12 -- writes stay inside the output directory; enablement links reach the service."""
import os
import vlib, e2e
from vlib import hx, unhx, case_line, show

THEOREMS = ["C12_inside", "C12_resolves", "C12_accepted_alias_is_plain", "C12_pinned_refuted"]

WORDS = ["default.target", "multi-user.target", "a.service", "sub/x.target", "/abs.target", "..", ".", "w x", "é.target", "t@.service", "../up.target", "a/../b.target", "x", "nested/", "dir//", "deps/.", "./dot.target"]
ALIASES = ["al.service", "sub/dir/al.service", "./a/./b.service", "a/../c.service", "../escape.service", "a/../../escape2.service", "/ABS/victim", "/ABS/sub/new.service",
           "..", ".", "x/..", "d/", "é.service", "al ias.service", "/", "//ABS//victim", "../../OUTSIDE/victim"]


def clean_rel(p):
    """lexical normal form of a relative path; None if it is absolute or climbs out"""
    if p.startswith("/"):
        return None
    out = []
    for s in p.split("/"):
        if s in ("", "."):
            continue
        if s == "..":
            if not out:
                return None
            out.pop()
        else:
            out.append(s)
    return "/".join(out)


def expected_links(install, svcfile):
    """independent reading of the property: {relative link path}"""
    def words(key):
        vals = [v for k, v in install if k == key]
        eff = []
        for v in vals:
            eff = [] if v == "" else eff + [v]
        res = vlib.sd_split_many([v.encode() for v in eff], "strv") if eff else []
        return [w for ws in res for w in (ws or [])]
    name = svcfile
    stem = svcfile[: svcfile.rfind(".")]
    if "@" in stem and stem.split("@", 1)[0] and stem.split("@", 1)[1] == "":
        di = [v for k, v in install if k == "DefaultInstance"]
        name = "%s@%s.service" % (stem.split("@", 1)[0], di[-1]) if di and di[-1] != "" and "/" not in di[-1] else None
    links = set()
    for a in words("Alias"):
        c = clean_rel(a)
        if c:
            links.add(c)
    if name:
        for w in words("WantedBy"):
            if "/" not in w:
                links.add("%s.wants/%s" % (w, name))
        for w in words("RequiredBy"):
            if "/" not in w:
                links.add("%s.requires/%s" % (w, name))
    return links


def gen_install(rng):
    es = []
    for key in ("WantedBy", "RequiredBy"):
        for _ in range(rng.choice([0, 1, 1, 2])):
            ws = [rng.choice(WORDS) for _ in range(rng.randint(0, 3))]
            es.append((key, " ".join('"%s"' % w if " " in w else w for w in ws)))
    for _ in range(rng.choice([0, 1, 1, 2])):
        ws = [rng.choice(ALIASES) for _ in range(rng.randint(1, 3))]
        es.append(("Alias", " ".join('"%s"' % w if " " in w else w for w in ws)))
    if rng.random() < 0.4:
        es.append(("DefaultInstance", rng.choice(["inst", "a-b", "", "/../../../OUTSIDE/x", "sub/i", "inst/", "i/."])))
    rng.shuffle(es)
    return es


def classify(install):
    al = " ".join(v for k, v in install if k == "Alias")
    for w in al.replace('"', " ").split():
        if clean_rel(w.replace("ABS", "x").replace("OUTSIDE", "x")) is None:
            return "AliasOutsideOutputDir"
    return None


def run(ctx):
    ctx.rule = ("[Install] sections with 0-2 WantedBy/RequiredBy assignments of 0-3 words (plain names, names with '/' anywhere including a trailing separator or '/.', '..', blanks, non-ASCII) and 0-2 Alias assignments (plain, nested, "
                "with '.'/'..', climbing out, absolute paths pointing at decoy files outside the output directory, '/', '..'), with and without template names (also instance names that begin with or contain '@') and DefaultInstance; in 30% of the cases left-overs of an earlier run (links to another service, dangling links, plain files) sit at the link paths; each run "
                "through the real enable_service_file in a scratch tree with decoys; non-trivial = at least one Alias or a word with '/' or '..'; distinct = distinct (service name, section)")
    rng = ctx.rng
    n = ctx.volume(400, 5000)
    work = []
    with e2e.Box() as box:
        root = box.root
        cases = []
        for i in range(n):
            inst = gen_install(rng)
            svcfile = rng.choice(["web.service", "web.service", "tpl@.service", "tpl@.service", "tpl@one.service", "a b.service", "web@@home.service", "u@a@b.service", "@x.service"])
            if svcfile == "tpl@.service" and rng.random() < 0.6:
                # a template without instance: its WantedBy / RequiredBy links carry the DefaultInstance name (both kinds of link, the same name)
                inst = [e for e in inst if e[0] != "DefaultInstance"] + [("DefaultInstance", rng.choice(["main", "inst", "a-b"]))]
                if not any(k == "RequiredBy" for k, _ in inst):
                    inst.append(("RequiredBy", rng.choice(["frontend.target", "x.service multi-user.target"])))
                if not any(k == "WantedBy" for k, _ in inst) and rng.random() < 0.5:
                    inst.append(("WantedBy", "default.target"))
            d = os.path.join(root, str(i))
            os.makedirs(os.path.join(d, "out"))
            os.makedirs(os.path.join(d, "ABS", "sub"))
            os.makedirs(os.path.join(d, "OUTSIDE"))
            for decoy in ("ABS/victim", "OUTSIDE/victim", "escape.service"):
                open(os.path.join(d, decoy), "w").write("decoy")
            open(os.path.join(d, "out", svcfile), "w").write("[Service]\n")
            inst_abs = [(k, v.replace("/ABS", d + "/ABS").replace("//ABS", d + "//ABS").replace("OUTSIDE", "OUTSIDE")) for k, v in inst]
            text = "[Install]\n" + "".join("%s=%s\n" % e for e in inst_abs)
            # left-overs of an earlier run at some of the link paths (a link to another service, a dangling link, a plain file): the
            # generator REPLACES what is there -- afterwards the path must be the link this run asks for
            if rng.random() < 0.3:
                open(os.path.join(d, "out", "old.service"), "w").write("[Service]\n")
                for rel in sorted(expected_links(inst, svcfile)):
                    if rng.random() < 0.6 and rel != svcfile:
                        lp = os.path.join(d, "out", rel)
                        try:
                            os.makedirs(os.path.dirname(lp), exist_ok=True)
                            kind = rng.choice(["other", "dangling", "file"])
                            if kind == "file":
                                open(lp, "w").write("stale")
                            else:
                                os.symlink(os.path.relpath(os.path.join(d, "out", "old.service" if kind == "other" else "gone.service"), os.path.dirname(lp)), lp)
                            ctx.count("preexisting:" + kind)
                        except OSError:
                            pass
            cases.append(case_line("enable", os.path.join(d, "out"), svcfile, text))
            work.append((d, svcfile, inst_abs, text))
        before = [e2e.snapshot(w[0]) for w in work]
        outs = vlib.run_impl(cases)
        mcases = [case_line("links", os.path.join(w[0], "out"), w[1], w[3]) for w in work]
        mouts = vlib.run_model(mcases) if ctx.model_ok else [None] * n
        mism = 0
        for i, (d, svcfile, inst, text) in enumerate(work):
            ctx.evaluations += 1
            after = e2e.snapshot(d)
            if any(k == "Alias" for k, _ in inst) or any(("/" in v or ".." in v) for _, v in inst):
                ctx.nontrivial.add((svcfile, text))
            ctx.count("svc:" + svcfile)
            cls = classify([(k, v.replace(d, "")) for k, v in inst])
            if outs[i].startswith("PANIC"):
                ctx.failures.append({"op": "enable", "install": inst, "svc": svcfile, "what": "enable_service_file panicked: %s" % show(unhx(outs[i].split("\t")[1])), "class": cls})
                continue
            changed = {p for p in set(before[i]) | set(after) if before[i].get(p) != after.get(p)}
            outside = sorted(p for p in changed if not p.startswith("out/") and p != "out")
            made = {p[len("out/"):]: after[p] for p in changed if p.startswith("out/") and after.get(p, ("x",))[0] == "l"}
            exp = expected_links([(k, v.replace(d, "")) for k, v in inst], svcfile)
            bad = None
            if outside:
                bad = "touched outside the output directory: %s" % [(p, before[i].get(p), after.get(p)) for p in outside]
            elif set(made) != exp:
                bad = "links created %s, expected %s" % (sorted(made), sorted(exp))
            else:
                for rel, (_, target) in made.items():
                    lp = os.path.join(d, "out", rel)
                    if target.startswith("/") or os.path.realpath(lp) != os.path.realpath(os.path.join(d, "out", svcfile)):
                        bad = "link %s -> %s does not resolve to the service file" % (rel, target)
            if bad:
                ctx.failures.append({"op": "enable", "install": inst, "svc": svcfile, "what": bad, "class": cls})
            # correspondence with the Links model: same set of (path, target)
            if mouts[i] is not None and mouts[i] not in ("SKIP",):
                mt = mouts[i].split("\t")
                mset = {(unhx(mt[j]).decode(), unhx(mt[j + 1]).decode()) for j in range(1, len(mt) - 1, 2)} if mt[0] == "OK" else None
                iset = {(os.path.join(d, "out", rel) if True else rel, t[1]) for rel, t in made.items()}
                if mset is None:
                    if not outs[i].startswith("PANIC") and mouts[i] == "PANIC":
                        mism += 1
                else:
                    # the model lists intended links; the file system shows the created ones (a later link can replace an earlier one)
                    mnorm = {(os.path.normpath(p), t) for p, t in mset if os.path.normpath(p).startswith(os.path.join(d, "out") + "/")}
                    inorm = {(os.path.normpath(p), t) for p, t in iset}
                    if not inorm <= mnorm or {p for p, _ in mnorm} != {p for p, _ in inorm}:
                        # links the implementation could not create (e.g. a directory in the way) are tolerated only if the model lists them
                        if {p for p, _ in inorm} - {p for p, _ in mnorm}:
                            mism += 1
                            if mism <= 3:
                                ctx.broken.append("correspondence links: install=%s svc=%s impl=%s model=%s" % (inst, svcfile, sorted(inorm), sorted(mnorm)))
        ctx.oblig("correspondence: every link created by the implementation is planned by the Links model with the same target", mism == 0, "%d mismatches" % mism)
    ctx.samples = [{"svc": w[1], "install": [(k, v.replace(w[0], "")) for k, v in w[2]]} for w in work[:6]]
    unknown = [f for f in ctx.failures if f["class"] is None]
    ctx.oblig("direct oracle: nothing outside the output directory changes; the created links are exactly the requested ones; each is relative and resolves to the service file",
              not ctx.failures, "%d failures (%d outside known classes)" % (len(ctx.failures), len(unknown)))


def replay(ctx, obj):
    print("replay: re-run ./check C12 (the scratch tree of the failing case is recreated from the seed): %s" % ((obj.get("failure") or {}).get("what")))
    return 1
