#!/usr/bin/env python3
"""Translator: literal tables of /repo/src/**.rs  ->  coq/Generated/Tables.v (+ tables.json).

A small Rust lexer (strings, raw strings, chars, comments, lifetimes) and pattern matchers over the token
stream.  Whitespace, comments and rustfmt reflow are harmless by construction.  DESIGN.md §6.1.
Exit status 0 and the file is (re)written only when its content changed; a table that cannot be located
raises TableError (the caller treats this as a broken tie).
"""
import json, os, re, sys

REPO = os.environ.get("VERIF_REPO", "/repo")


class TableError(Exception):
    pass


# ---------------------------------------------------------------- lexer
def lex(src):
    toks = []  # (kind, value) kinds: id, str, chr, num, p
    i, n = 0, len(src)
    while i < n:
        c = src[i]
        if c.isspace():
            i += 1
            continue
        if src.startswith("//", i):
            j = src.find("\n", i)
            i = n if j < 0 else j
            continue
        if src.startswith("/*", i):
            depth, i = 1, i + 2
            while i < n and depth:
                if src.startswith("/*", i):
                    depth += 1; i += 2
                elif src.startswith("*/", i):
                    depth -= 1; i += 2
                else:
                    i += 1
            continue
        m = re.match(r'b?r(#*)"', src[i:])
        if m:
            hashes = m.group(1)
            start = i + m.end()
            end = src.find('"' + hashes, start)
            toks.append(("str", src[start:end]))
            i = end + 1 + len(hashes)
            continue
        if c == '"' or (c == 'b' and i + 1 < n and src[i + 1] == '"'):
            if c == 'b':
                i += 1
            i += 1
            out = []
            while src[i] != '"':
                if src[i] == '\\':
                    ch, i = unescape(src, i)
                    if ch is not None:
                        out.append(ch)
                else:
                    out.append(src[i]); i += 1
            i += 1
            toks.append(("str", "".join(out)))
            continue
        if c == "'":
            # char literal or lifetime
            if src[i + 1] == '\\':
                ch, j = unescape(src, i + 1)
                if src[j] == "'":
                    toks.append(("chr", ch)); i = j + 1
                    continue
            elif i + 2 < n and src[i + 2] == "'":
                toks.append(("chr", src[i + 1])); i += 3
                continue
            # lifetime
            m = re.match(r"'[A-Za-z_][A-Za-z0-9_]*", src[i:])
            if m:
                toks.append(("life", m.group(0))); i += m.end()
                continue
            raise TableError("lexer: stray quote at %d" % i)
        m = re.match(r"[A-Za-z_][A-Za-z0-9_]*", src[i:])
        if m:
            toks.append(("id", m.group(0))); i += m.end()
            continue
        m = re.match(r"[0-9][0-9A-Za-z_]*", src[i:])
        if m:
            toks.append(("num", m.group(0))); i += m.end()
            continue
        for p in ("..=", "=>", "::", "->", "&&", "||", "==", "!=", "<=", ">=", "+=", "-=", ".."):
            if src.startswith(p, i):
                toks.append(("p", p)); i += len(p)
                break
        else:
            toks.append(("p", c)); i += 1
    return toks


def unescape(src, i):
    """src[i] == '\\' ; returns (char or None for line-continuation, next index)"""
    e = src[i + 1]
    simple = {"n": "\n", "r": "\r", "t": "\t", "\\": "\\", "0": "\0", '"': '"', "'": "'"}
    if e in simple:
        return simple[e], i + 2
    if e == "x":
        return chr(int(src[i + 2:i + 4], 16)), i + 4
    if e == "u":
        j = src.index("}", i)
        return chr(int(src[i + 3:j].replace("_", ""), 16)), j + 1
    if e == "\n":
        j = i + 2
        while src[j].isspace():
            j += 1
        return None, j
    raise TableError("lexer: unknown escape \\%s" % e)


def nontest_tokens(path):
    src = open(os.path.join(REPO, path), encoding="utf-8").read()
    toks = lex(src)
    # cut at `#[cfg(test)] mod tests`
    for k in range(len(toks) - 1):
        if toks[k] == ("id", "mod") and toks[k + 1] == ("id", "tests"):
            # walk back over the attribute
            return toks[:k]
    return toks


def fn_spans(toks):
    """yield (fn_name, start, end) for every `fn name ... { ... }` (outermost brace matching)"""
    k = 0
    while k < len(toks) - 1:
        if toks[k] == ("id", "fn") and toks[k + 1][0] == "id":
            name = toks[k + 1][1]
            j = k + 2
            # find opening brace of the body (skip generics/where; stop at ';' for trait decls)
            depth_paren = 0
            while j < len(toks) and not (toks[j] == ("p", "{") and depth_paren == 0):
                if toks[j] in (("p", "("), ("p", "[")):
                    depth_paren += 1
                elif toks[j] in (("p", ")"), ("p", "]")):
                    depth_paren -= 1
                elif toks[j] == ("p", ";") and depth_paren == 0:
                    break
                j += 1
            if j >= len(toks) or toks[j] != ("p", "{"):
                k = j
                continue
            depth, e = 0, j
            while e < len(toks):
                if toks[e] == ("p", "{"):
                    depth += 1
                elif toks[e] == ("p", "}"):
                    depth -= 1
                    if depth == 0:
                        break
                e += 1
            yield name, j, e
            k = j + 1  # allow nested fns
        else:
            k += 1


# ---------------------------------------------------------------- table extraction
def str_array_at(toks, k):
    """toks[k] == '[' ; parse [ "a", "b", ... ] -> list of str, or None"""
    if toks[k] != ("p", "["):
        return None
    out, k = [], k + 1
    while toks[k] != ("p", "]"):
        if toks[k][0] == "str":
            out.append(toks[k][1])
        elif toks[k] == ("p", ","):
            pass
        else:
            return None
        k += 1
    return out


def pair_array_at(toks, k):
    """[ ("K","--opt"), ... ] or [ ["K","arg"], ... ] -> list of pairs, next index; or None"""
    if toks[k] != ("p", "["):
        return None
    out, k = [], k + 1
    while toks[k] != ("p", "]"):
        if toks[k] in (("p", "("), ("p", "[")):
            close = ")" if toks[k][1] == "(" else "]"
            if toks[k + 1][0] == "str" and toks[k + 2] == ("p", ",") and toks[k + 3][0] == "str":
                j = k + 4
                if toks[j] == ("p", ","):
                    j += 1
                if toks[j] != ("p", close):
                    return None
                out.append((toks[k + 1][1], toks[k + 3][1]))
                k = j + 1
                continue
            return None
        elif toks[k] == ("p", ","):
            k += 1
        else:
            return None
    return out if out else None


def extract_all():
    T = {"consts": {}, "str_arrays": {}, "pair_tables": {}, "char_maps": {}, "char_arrays": {}, "priority": {}}

    # 1. constants.rs files: const NAME: &str = "..."; static NAME: [&str; n] = [...]
    for path in ("src/quadlet/constants.rs", "src/systemd_unit/constants.rs", "src/systemd_unit/parser.rs",
                 "src/systemd_unit/split.rs"):
        toks = nontest_tokens(path)
        for k in range(len(toks) - 4):
            if toks[k][1] in ("const", "static") and toks[k][0] == "id" and toks[k + 1][0] == "id" and toks[k + 2] == ("p", ":"):
                name = toks[k + 1][1]
                j = k + 3
                dep = 0
                while not (dep == 0 and toks[j] in (("p", "="), ("p", ";"))):
                    if toks[j] == ("p", "["):
                        dep += 1
                    elif toks[j] == ("p", "]"):
                        dep -= 1
                    j += 1
                if toks[j] != ("p", "="):
                    continue
                v = toks[j + 1]
                if v[0] == "str":
                    T["consts"][name] = v[1]
                elif v == ("p", "["):
                    arr = str_array_at(toks, j + 1)
                    if arr is not None:
                        T["str_arrays"][name] = arr
                    else:
                        # char array?
                        chars, q = [], j + 2
                        okc = True
                        while toks[q] != ("p", "]"):
                            if toks[q][0] == "chr":
                                chars.append(ord(toks[q][1]))
                            elif toks[q] != ("p", ","):
                                okc = False
                                break
                            q += 1
                        if okc and chars:
                            T["char_arrays"][name] = chars

    # 2. pair tables in convert.rs, keyed by enclosing fn + ordinal
    toks = nontest_tokens("src/quadlet/convert.rs")
    for name, a, b in fn_spans(toks):
        ordinal = 0
        k = a
        while k < b:
            if toks[k] == ("p", "["):
                pa = pair_array_at(toks, k)
                if pa:
                    # label: `let IDENT =` / `let IDENT : type =` directly before, else positional
                    label = None
                    q = k - 1
                    if toks[q] == ("p", "&"):
                        q -= 1
                    if toks[q] == ("p", "="):
                        r = q - 1
                        while r > a and r > q - 14 and toks[r] != ("id", "let"):
                            r -= 1
                        if toks[r] == ("id", "let"):
                            label = toks[r + 1][1] if toks[r + 1] != ("id", "mut") else toks[r + 2][1]
                    key = "%s__%s" % (name, label if label else "inline%d" % ordinal)
                    if label is None:
                        ordinal += 1
                    T["pair_tables"][key] = pa
                    # skip past this array
                    depth = 0
                    while True:
                        if toks[k] == ("p", "["):
                            depth += 1
                        elif toks[k] == ("p", "]"):
                            depth -= 1
                            if depth == 0:
                                break
                        k += 1
            k += 1

    # 3. char match arms: 'x' => "str"  /  'x' => 'y'   in named fns
    for path, fns in (("src/systemd_unit/quoted.rs", ("quote_value", "parse_escape_sequence")),
                      ("src/systemd_unit/split.rs", ("parse_escape_sequence",))):
        toks = nontest_tokens(path)
        for name, a, b in fn_spans(toks):
            if name not in fns:
                continue
            arms = []
            k = a
            while k < b - 2:
                if toks[k][0] == "chr" and toks[k + 1] == ("p", "=>"):
                    rhs = toks[k + 2]
                    if rhs[0] == "chr":
                        arms.append((ord(toks[k][1]), [ord(rhs[1])]))
                    elif rhs[0] == "id" and toks[k + 3] == ("p", ".") and toks[k + 4] == ("id", "push_str") and toks[k + 6][0] == "str":
                        arms.append((ord(toks[k][1]), [ord(x) for x in toks[k + 6][1]]))
                k += 1
            T["char_maps"]["%s__%s" % (os.path.basename(path)[:-3], name)] = arms

    # 4. sorting priority in main.rs: (QuadletType::X, n)
    toks = nontest_tokens("src/main.rs")
    for k in range(len(toks) - 5):
        if toks[k] == ("p", "(") and toks[k + 1] == ("id", "QuadletType") and toks[k + 2] == ("p", "::") and toks[k + 4] == ("p", ",") and toks[k + 5][0] == "num":
            T["priority"][toks[k + 3][1]] = int(toks[k + 5][1])
    return T


REQUIRED = {
    "consts": ["DEFAULT_PODMAN_BINARY", "UNIT_DIR_ADMIN", "UNIT_DIR_DISTRO", "UNIT_DIR_TEMP", "CONTAINER_SECTION",
               "QUADLET_SECTION", "X_CONTAINER_SECTION", "X_QUADLET_SECTION", "AUTO_UPDATE_LABEL",
               "LINE_CONTINUATION_REPLACEMENT", "INSTALL_SECTION", "SERVICE_SECTION", "UNIT_SECTION"],
    "str_arrays": ["SUPPORTED_EXTENSIONS", "SUPPORTED_BUILD_KEYS", "SUPPORTED_CONTAINER_KEYS", "SUPPORTED_IMAGE_KEYS",
                   "SUPPORTED_KUBE_KEYS", "SUPPORTED_NETWORK_KEYS", "SUPPORTED_POD_KEYS", "SUPPORTED_QUADLET_KEYS",
                   "SUPPORTED_VOLUME_KEYS"],
    "char_arrays": ["WHITESPACE"],
    "char_maps": ["quoted__quote_value", "quoted__parse_escape_sequence", "split__parse_escape_sequence"],
    "pair_tables": ["from_container_unit__string_keys", "from_container_unit__all_string_keys",
                    "from_container_unit__bool_keys", "handle_health__key_arg_map",
                    "get_base_podman_command__inline0", "handle_publish_ports__inline0",
                    "from_build_unit__string_keys", "from_build_unit__bool_keys", "from_build_unit__all_string_keys",
                    "from_image_unit__string_keys", "from_image_unit__bool_keys",
                    "from_network_unit__bool_keys", "from_network_unit__string_keys", "from_network_unit__inline0",
                    "from_pod_unit__string_keys", "from_pod_unit__all_string_keys"],
}


def coq_str(s):
    if all(32 <= ord(c) < 127 for c in s):
        return 's2l "%s"' % s.replace('"', '""')
    return "[" + "; ".join(str(ord(c)) for c in s) + "]%N"


def coq_codes(cs):
    if cs and all(32 <= c < 127 for c in cs):
        return 's2l "%s"' % "".join(chr(c) for c in cs).replace('"', '""')
    return "[" + "; ".join(str(c) for c in cs) + "]%N"


def render(T):
    L = ["(* GENERATED by /verif/tools/gen_tables.py from /repo/src -- do not edit *)",
         "From QV Require Import Model.Base.", "Open Scope N_scope.", ""]
    for k in sorted(T["consts"]):
        L.append("Definition c_%s : str := %s." % (k, coq_str(T["consts"][k])))
    L.append("")
    for k in sorted(T["str_arrays"]):
        L.append("Definition a_%s : list str :=\n  [%s]." % (k, ";\n   ".join(coq_str(s) for s in T["str_arrays"][k])))
    L.append("")
    for k in sorted(T["char_arrays"]):
        L.append("Definition ca_%s : list N := [%s]%%N." % (k, "; ".join(str(c) for c in T["char_arrays"][k])))
    L.append("")
    for k in sorted(T["char_maps"]):
        L.append("Definition cm_%s : list (N * str) :=\n  [%s]." % (
            k.replace("__", "_"), ";\n   ".join("(%d, %s)" % (c, coq_codes(v)) for c, v in T["char_maps"][k])))
    L.append("")
    for k in sorted(T["pair_tables"]):
        L.append("Definition pt_%s : list (str * str) :=\n  [%s]." % (
            k.replace("__", "_"), ";\n   ".join("(%s, %s)" % (coq_str(a), coq_str(b)) for a, b in T["pair_tables"][k])))
    L.append("")
    L.append("Definition priority_table : list (str * N) :=\n  [%s]." % ";\n   ".join(
        "(%s, %d)" % (coq_str(k), v) for k, v in sorted(T["priority"].items())))
    L.append("")
    return "\n".join(L)


def main(outdir):
    T = extract_all()
    missing = []
    for kind, names in REQUIRED.items():
        for nm in names:
            if nm not in T[kind]:
                missing.append("%s:%s" % (kind, nm))
    if len(T["priority"]) != 7:
        missing.append("priority (found %d entries)" % len(T["priority"]))
    if missing:
        raise TableError("tables not found in source: " + ", ".join(missing))
    text = render(T)
    os.makedirs(outdir, exist_ok=True)
    vpath = os.path.join(outdir, "Tables.v")
    jpath = os.path.join(outdir, "tables.json")
    old = open(vpath).read() if os.path.exists(vpath) else None
    changed = old != text
    if changed:
        open(vpath, "w").write(text)
    jt = json.dumps(T, indent=1, sort_keys=True)
    if not os.path.exists(jpath) or open(jpath).read() != jt:
        open(jpath, "w").write(jt)
    return changed, T


if __name__ == "__main__":
    try:
        ch, T = main(sys.argv[1] if len(sys.argv) > 1 else "/verif/coq/Generated")
        print("tables: %s (%d pair tables, %d arrays)" % ("rewritten" if ch else "unchanged", len(T["pair_tables"]), len(T["str_arrays"])))
    except TableError as e:
        print("TABLE-ERROR: %s" % e)
        sys.exit(2)
