"""Generator of convertible Quadlet units of all seven types from the documented tables (tools/docs.py)."""
import docs

TEXT = ["a", "b c", "x=y", "p:q", "c,d", "%n", "/d/e", "é", "it's", 'say "hi"', "back\\slash", "tab\there", "new\nline", "[Service]", "#hash", ";semi",
        "\nExecStart=/bin/evil\n", "\n[Install]\nWantedBy=evil.target\n", "a\\", "$HOME", "\x1b[0m", "--flag", "-", "v w  x", "\U0001F600", "trail ", " lead"]
BOOLS = ["yes", "no", "true", "false", "1", "0", "on", "off"]


def dq(s):
    """documented double-quoted spelling; newline and controls as escapes so that the value fits on one line"""
    out = ['"']
    for c in s:
        o = ord(c)
        if c == '"':
            out.append('\\"')
        elif c == "\\":
            out.append("\\\\")
        elif c == "\n":
            out.append("\\n")
        elif c == "\t":
            out.append("\\t")
        elif o < 32 or o == 127:
            out.append("\\x%02x" % o)
        else:
            out.append(c)
    out.append('"')
    return "".join(out)


def spell(rng, s):
    """a documented spelling of string s for a single-valued / whole-value key"""
    plain_ok = s and all(c not in "\"'\\\n\t\r" and ord(c) >= 32 and ord(c) != 127 for c in s) and s.strip() == s
    if plain_ok and rng.random() < 0.5:
        return s
    return dq(s)


def word(rng, s):
    """spell s as ONE word of a list-valued key"""
    if s and all(c.isalnum() or c in "=:,/.-_%@+" for c in s) and rng.random() < 0.6:
        return s
    return dq(s)


SPECIAL_VALUES = {
    "Notify": ["yes", "no", "healthy"], "Pod": [""], "StartWithPod": BOOLS, "AutoUpdate": ["registry", "local"], "Network": ["host", "bridge", "none", "mynet:ip=10.0.0.2"],
    "Volume": ["/src:/dst", "/a:/b:ro", "named:/c", "/only", "/foo :/bar", "\"/sp ace:/x\""], "ExposeHostPort": ["80", "8000-9000", "53/udp"], "Mount": ["type=tmpfs,tmpfs-size=512M,destination=/t", "type=bind,source=/x,target=/y"],
    "User": ["1000", "user"], "Group": ["1000"], "RemapUsers": ["auto", "keep-id", "manual"], "RemapUid": ["0:100:10"], "RemapGid": ["0:200:10"], "RemapUidSize": ["65536"],
    "AddDevice": ["/dev/null", "/dev/zero:/dev/z:rw"], "AddCapability": ["CAP_NET_ADMIN", "cap_sys_time"], "DropCapability": ["ALL"],
    "Mask": ["/proc/a:/proc/b"], "Unmask": ["ALL"], "EnvironmentFile": ["/etc/env", "rel.env"], "Exec": ["sleep 10", "sh -c \"echo hi\""],
    "Image": ["img", "quay.io/a/b:1"], "Rootfs": ["/var/rootfs"], "SeccompProfile": ["/p.json"], "SecurityLabelType": ["spc_t"], "SecurityLabelFileType": ["usr_t"],
    "SecurityLabelLevel": ["s0:c1,c2"], "NoNewPrivileges": BOOLS, "SecurityLabelDisable": BOOLS, "SecurityLabelNested": BOOLS, "VolatileTmp": BOOLS,
    "ContainerName": ["cname", "my ctr"], "CgroupsMode": ["enabled", "no-conmon"], "PodName": ["mypod"], "VolumeName": ["myvol"], "NetworkName": ["mynet"],
    "Device": ["/dev/sda1", "tmpfs"], "Type": ["ext4"], "Options": ["ro,noexec"], "Copy": BOOLS, "Subnet": ["10.0.0.0/24"], "Gateway": ["10.0.0.1"], "IPRange": ["10.0.0.0/28"],
    "Yaml": ["/y.yml", "rel.yml"], "SetWorkingDirectory": ["unit", "yaml"], "KubeDownForce": BOOLS, "ConfigMap": ["/cm.yml"], "ImageTag": ["localhost/t:1"], "File": ["/Containerfile"],
    "ServiceName": ["custom-svc", "\" lead\"", "with space"], "GlobalArgs": ["--log-level=debug", "--root /r"], "PodmanArgs": ["--foo", "--bar \"b z\""],
}


def gen_unit(rng, typ, payload_rate=0.4, nkeys=None):
    """returns (text, [(key, logical value)]) for a unit of the given type that is meant to convert"""
    sec, table = docs.TYPES[typ]
    keys = list(table) + ["ContainersConfModule", "GlobalArgs", "PodmanArgs", "ServiceName"]
    lines, used = [], []
    base = docs.MINIMAL[typ]
    chosen = rng.sample(keys, min(len(keys), nkeys if nkeys is not None else rng.choice([0, 1, 2, 3, 5, 8])))
    skip = {"container": {"Image", "Rootfs", "Pod", "RemapUsers", "RemapUid", "RemapGid", "RemapUidSize", "Group", "UserNS", "UIDMap", "GIDMap", "SubUIDMap", "SubGIDMap"},
            "pod": {"RemapUsers", "RemapUid", "RemapGid", "RemapUidSize", "UserNS", "UIDMap", "GIDMap", "SubUIDMap", "SubGIDMap"},
            "kube": {"Yaml", "RemapUsers", "RemapUid", "RemapGid", "RemapUidSize", "SetWorkingDirectory", "UserNS"},
            "volume": {"Type", "Options", "Image", "Driver"}, "network": {"Gateway", "IPRange"}, "image": {"Image"},
            "build": {"File", "ImageTag", "SetWorkingDirectory"}}[typ]
    for k in chosen:
        if k in skip:
            continue
        kind = docs.kind_of(typ, k)[0]
        if kind in ("str", "streq", "all"):
            v = rng.choice(TEXT) if rng.random() < payload_rate else rng.choice(["v1", "v2", "w x"])
            lines.append("%s=%s" % (k, spell(rng, v))); used.append((k, v))
        elif kind == "bool":
            v = rng.choice(BOOLS); lines.append("%s=%s" % (k, v)); used.append((k, v))
        elif kind in ("strv", "args", "argsraw"):
            ws = [rng.choice(TEXT) if rng.random() < payload_rate else rng.choice(["w1", "k=v", "--o"]) for _ in range(rng.randint(1, 3))]
            if kind == "strv":
                ws = [w for w in ws if "\\" not in w and "\n" not in w and "\t" not in w and "\x1b" not in w] or ["w1"]
                lines.append("%s=%s" % (k, " ".join(w if (w and all(ch not in w for ch in " \"'")) else '"' + w.replace('"', "") + '"' for w in ws)))
            else:
                lines.append("%s=%s" % (k, " ".join(word(rng, w) for w in ws)))
            used.append((k, ws))
        elif kind == "kv":
            ws = ["%s=%s" % (rng.choice(["A", "B", "k.x"]), rng.choice(TEXT) if rng.random() < payload_rate else "val") for _ in range(rng.randint(1, 3))]
            lines.append("%s=%s" % (k, " ".join(word(rng, w) for w in ws))); used.append((k, ws))
        else:
            vals = SPECIAL_VALUES.get(k)
            if vals:
                v = rng.choice(vals)
                lines.append("%s=%s" % (k, v)); used.append((k, v))
    rng.shuffle(lines)
    text = "[%s]\n%s%s\n" % (sec, base, "\n".join(lines))
    return text, used


# ---------------------------------------------------------------- adversarial units and unit sets
WILD = ["", "x", "a b", "yes", "no", "0", "1", "auto", "keep-id", "manual", "bogus", "/abs/p", "rel/p", "./dot", "../up", "%t/x", "a:b", "a:b:c", "a:b:c:d", ":x", "x:",
        "n.network", "v.volume", "i.image", "b.build", "c.container", "p.pod", "missing.volume", "missing.network", "missing.image", "missing.pod", "other.pod",
        "type=bind,source=./s,target=/t", "type=volume,source=v.volume,destination=/t", "type=image,source=i.image,dst=/t", "type=tmpfs,destination=/t", "source=/x", "type=bind,src=",
        "type=a=b,x", "type=glob,source=/g*,target=/t", "http://u/x", "git://r", "github.com/o/r", "file", "unit", "yaml", "healthy", "oneshot", "notify", "simple", "mixed",
        "control-group", "process", "65536", "-5", "99999999999", "1000", "80", "80-90/tcp", "bad port", '"q s"', "it's", "\\x41", "é", "UPPER", "k=v", "k=v w=x", "a/b", "registry", "local/x"]

EXTRA_SERVICE = ["KillMode=mixed", "KillMode=control-group", "KillMode=process", "Type=oneshot", "Type=notify", "Type=simple", "SyslogIdentifier=me", "RemainAfterExit=no",
                 "WorkingDirectory=/wd", "WorkingDirectory=", "Restart=always", "NotifyAccess=main", "Environment=X=1", "ExecStartPre=/bin/true", "KillMode="]


SEPS = "=,:/-@.%"


def degrade(rng, v):
    """structure-aware damage of a value: the field splitters of the converters (csv fields, name=value, a:b:c, port ranges, unit references) are where
    unwrap/expect/index sites sit, so one separator is dropped, doubled, replaced, or the text next to it is cut away"""
    pos = [i for i, ch in enumerate(v) if ch in SEPS]
    if not pos:
        return v
    i = rng.choice(pos)
    nxt = min([j for j in pos if j > i] + [len(v)])
    op = rng.randrange(7)
    if op == 0:
        return v[:i] + v[i + 1:]                       # separator dropped
    if op == 1:
        return v[:i] + v[nxt:]                         # separator and the text up to the next one dropped ("type=bind,x" -> "type,x")
    if op == 2:
        return v[:i + 1]                               # cut after the separator
    if op == 3:
        return v[:i]                                   # cut before it
    if op == 4:
        return v[:i] + v[i] + v[i:]                    # doubled
    if op == 5:
        return v[:i] + rng.choice(SEPS) + v[i + 1:]    # replaced by another separator
    return v[i:]                                       # everything before it dropped


def all_degradations(v, wide=False):
    """every single-separator damage of v (deterministic enumeration of degrade())"""
    out = []
    pos = [i for i, ch in enumerate(v) if ch in SEPS]
    for i in pos:
        nxt = min([j for j in pos if j > i] + [len(v)])
        out += [v[:i] + v[i + 1:], v[:i] + v[nxt:], v[:i + 1], v[:i], v[:i] + v[i] + v[i:], v[i:]]
        for c in (SEPS if wide else "=,:"):
            if c != v[i]:
                out.append(v[:i] + c + v[i + 1:])
    return sorted(set(out))


# well-formed values of the keys whose values the converters take apart
STRUCTURED = {
    "container": {
        "Mount": ["type=bind,source=/x,target=/y", "type=volume,source=v.volume,destination=/t,ro", "type=image,source=i.image,dst=/t", "type=tmpfs,tmpfs-size=512M,destination=/t",
                  "type=bind,src=./rel,dst=/d", "type=glob,source=/g*,target=/t", "type=devpts,destination=/dev/pts"],
        "Volume": ["/src:/dst", "/a:/b:ro,z", "v.volume:/c", "./rel:/d:Z", "named:/c"], "Network": ["n.network:ip=10.0.0.2", "c.container", "host", "n.network"],
        "ExposeHostPort": ["80", "8000-9000/tcp"], "PublishPort": ["8080:80", "127.0.0.1:53:53/udp", "[::1]:80:80"], "AddDevice": ["/dev/zero:/dev/z:rw", "-/dev/maybe"],
        "Label": ["k=v w=x"], "Environment": ["A=1 B=2"], "Annotation": ["a.b/c=d"], "Secret": ["sec,type=env,target=T"], "Tmpfs": ["/t:rw,size=1M"],
        "RemapUid": ["0:100:10"], "RemapGid": ["0:200:10"], "UIDMap": ["0:1000:1"], "Pod": ["p.pod"], "Image": ["i.image", "b.build", "quay.io/a/b:1"], "Rootfs": ["/r:O"],
        "EnvironmentFile": ["./rel.env", "%t/x.env"], "Timezone": ["Europe/Berlin"], "IP": ["10.0.0.5"], "IP6": ["fd00::5"], "User": ["1000:1000"], "HealthCmd": ["/bin/check --x=1"],
        "Ulimit": ["nofile=1000:2000"], "Sysctl": ["net.a.b=1"], "LogOpt": ["path=/x"], "DNS": ["1.1.1.1"], "AddHost": ["h:10.0.0.1"], "Exec": ["sh -c 'a=b'"],
    },
    "pod": {"Volume": ["/src:/dst:ro", "v.volume:/c"], "Network": ["n.network:alias=a"], "PublishPort": ["8080:80/tcp"], "RemapUid": ["0:100:10"], "UIDMap": ["0:1000:1"], "AddHost": ["h:10.0.0.1"]},
    "kube": {"Yaml": ["./rel/y.yml", "/abs/y.yml"], "ConfigMap": ["./cm.yml"], "Network": ["n.network:ip=10.0.0.2"], "PublishPort": ["8080:80"], "SetWorkingDirectory": ["yaml", "unit"],
             "RemapUid": ["0:100:10"], "AutoUpdate": ["registry", "ctr/local"]},
    "volume": {"Device": ["/dev/sda1", "tmpfs"], "Options": ["ro,uid=1000"], "Image": ["i.image"], "Label": ["k=v"], "Driver": ["image"]},
    "network": {"Subnet": ["10.0.0.0/24"], "Gateway": ["10.0.0.1"], "IPRange": ["10.0.0.0/28"], "Label": ["k=v"], "Options": ["mtu=1500,x=y"], "DNS": ["1.1.1.1"]},
    "image": {"Image": ["quay.io/a/b:1", "docker://x/y@sha256:ab"], "ImageTag": ["localhost/t:1"], "Creds": ["u:p"], "AuthFile": ["./auth.json"]},
    "build": {"File": ["./Containerfile", "http://u/x", "git://r/x.git"], "ImageTag": ["localhost/t:1"], "SetWorkingDirectory": ["file", "unit", "./ctx", "http://u/x"], "Volume": ["/a:/b:ro", "v.volume:/c"],
              "Network": ["n.network:ip=1"], "Secret": ["id=s,src=./f"], "Label": ["k=v"], "Environment": ["A=1"], "Target": ["stage-1"]},
}


def gen_splitter_stress(typ, wide=False):
    """units of one type, each with one structured value damaged at one separator (plus the intact value)"""
    sec = docs.TYPES[typ][0]
    ok = set(supported_keys(typ))
    out = []
    for k, vals in STRUCTURED[typ].items():
        if k not in ok:
            continue
        for v in vals:
            for d in [v] + all_degradations(v, wide):
                base = docs.MINIMAL[typ]
                if k in ("Image", "Rootfs", "Yaml", "File", "ImageTag") and (k + "=") in base:
                    base = "\n".join(l for l in base.split("\n") if not l.startswith(k + "=")) + ("\n" if not base.endswith("\n") else "")
                    base = base.lstrip("\n")
                out.append("[%s]\n%s%s=%s\n" % (sec, base, k, d))
    return out


def supported_keys(typ):
    sec, table = docs.TYPES[typ]
    return list(table) + ["ContainersConfModule", "GlobalArgs", "PodmanArgs", "ServiceName"]


def gen_wild_unit(rng, typ, with_base=True):
    sec = docs.TYPES[typ][0]
    keys = supported_keys(typ)
    lines = []
    for _ in range(rng.choice([0, 1, 2, 3, 4, 6, 9])):
        k = rng.choice(keys)
        if rng.random() < 0.03:
            k = rng.choice([k.lower(), k + "x", "Bogus", rng.choice(supported_keys(rng.choice(list(docs.TYPES))))])
        vals = SPECIAL_VALUES.get(k, []) + WILD
        v = rng.choice(vals)
        if rng.random() < 0.3:
            v = degrade(rng, v)
        lines.append("%s=%s" % (k, v))
    text = "[%s]\n%s%s\n" % (sec, docs.MINIMAL[typ] if (with_base and rng.random() < 0.9) else "", "\n".join(lines))
    if rng.random() < 0.5:
        text += "[Service]\n" + "\n".join(rng.sample(EXTRA_SERVICE, rng.randint(1, 3))) + "\n"
    if rng.random() < 0.3:
        text += "[Unit]\nAfter=foo.service\nDescription=d\n"
    if rng.random() < 0.2:
        text += "[Quadlet]\nDefaultDependencies=%s\n" % rng.choice(["no", "yes", "false", "", "maybe"])
    if rng.random() < 0.2:
        text += "[Install]\nWantedBy=default.target\n"
    return text


STEMS = {"network": ["n"], "volume": ["v"], "image": ["i"], "build": ["b"], "container": ["c", "web", "tpl@", "inst@1"], "pod": ["p", "other"], "kube": ["k"]}


def gen_unit_set(rng):
    """a set of files (path, text) with references among them; file names unique"""
    files = []
    used = set()
    for _ in range(rng.choice([1, 2, 3, 4, 6])):
        typ = rng.choice(list(docs.TYPES))
        stem = rng.choice(STEMS[typ])
        name = "%s.%s" % (stem, typ)
        if name in used:
            continue
        used.add(name)
        files.append(("/d/" + name, gen_wild_unit(rng, typ)))
    rng.shuffle(files)
    return files
