#!/bin/sh
# (re)generate coq/_CoqProject and coq/Makefile from the .v files present
set -e
cd /verif/coq
{
  echo "-Q . QV"
  echo "-arg -w -arg -notation-overridden,-deprecated-hint-without-locality,-deprecated-instance-without-locality"
  find . -name '*.v' ! -path './scratch/*' | sed 's|^\./||' | LC_ALL=C sort
} > _CoqProject.new
if ! cmp -s _CoqProject.new _CoqProject 2>/dev/null || [ ! -f Makefile ]; then
  mv _CoqProject.new _CoqProject
  coq_makefile -f _CoqProject -o Makefile >/dev/null
else
  rm -f _CoqProject.new
fi
