#!/bin/sh
# process_seed.sh Cnn x : confirm the seeded change delivered in /tmp/seed-x-Cnn, copy it to seeded/Cnn-x, run the property's check on it
# (and the checks given as further arguments).  Serialised by a lock: only one patched /repo at a time.
P=$1; R=$2; shift 2
SRC=/tmp/seed-$R-$P; DST=/verif/seeded/$P-$R
exec 9>/tmp/process_seed.lock; flock 9
mkdir -p $DST
sh /verif/tools/confirm_seed.sh $SRC > $DST/confirm.log 2>&1
cat $DST/confirm.log
cp $SRC/patch.diff $SRC/notes.md $DST/ 2>/dev/null
[ -f $SRC/demo.sh ] && cp $SRC/demo.sh $DST/
[ -f $SRC/demo_test.patch ] && cp $SRC/demo_test.patch $DST/
[ -f $DST/meta.json ] || printf '{\n "property": "%s",\n "round": 4\n}\n' $P > $DST/meta.json
cd /verif && python3 tools/run_seeded.py seeded/$P-$R $P "$@"
