#!/bin/bash
# run every quick check on the current tree under several seeds; print only alarms (used to flush out seed-dependent false alarms)
# usage: seed_sweep.sh 1 2 3 ...
cd /verif
for s in "$@"; do
  for i in $(seq -w 1 20); do
    out=$(VERIF_SEED=$s VERIF_TIER=quick ./check C$i 2>&1); rc=$?
    if [ $rc -ne 0 ] || echo "$out" | grep -q '^VIOLATION'; then echo "seed=$s C$i rc=$rc"; echo "$out" | grep -E '^VIOLATION|what' | head -3; cp replays/C$i-seed$s-quick.json /verif/.build/sweep-C$i-seed$s.json 2>/dev/null; fi
  done
  echo "seed $s done"
done
