"""Shared machinery for ./check: builds (tables, Coq cone, extraction, OCaml driver, Rust driver), running the
two drivers, verdict logic, evidence and replay files.  DESIGN.md §2, §6, §11."""
import concurrent.futures, fcntl, hashlib, json, os, random, re, shutil, subprocess, sys, tempfile, time

VERIF = "/verif"
REPO = os.environ.get("VERIF_REPO", "/repo")
BUILD = os.path.join(VERIF, ".build")
COQ = os.path.join(VERIF, "coq")
IMPL_BIN = os.path.join(BUILD, "target", "debug", "quadlet-rs")
MODEL_BIN = os.path.join(BUILD, "ocaml", "modelrun")
NPROC = 16

ALLOWED_AXIOMS = set()  # the development is expected to be closed under the global context

TRUSTED_BASE = [
    "Coq 8.16.1 kernel (coqc); vm_compute used for finite enumerations and witnesses; no native_compute",
    "axioms: none (Print Assumptions = 'Closed under the global context' for every pinned theorem)",
    "specifications in coq/Spec/*.v as the meaning of the property",
    "extraction: ExtrOcamlBasic only (bool, option, unit, list, prod, sumbool, sumor -> OCaml natives; andb/orb inlined); no Extract Constant / Extract Inductive of ours; OCaml 4.13.1; ocaml/modelrun.ml",
    "tie to /repo: tools/gen_tables.py (table translator), harness/verif_driver.rs compiled into the crate under --cfg quadlet_rs_verif, generators and canonicalisers in tools/props/*.py (differential sampling, not proof)",
]


def hx(b):
    if isinstance(b, str):
        b = b.encode("utf-8", "surrogatepass")
    return b.hex() if b else "-"


def unhx(s):
    return b"" if s == "-" else bytes.fromhex(s)


def ustr(s):
    return unhx(s).decode("utf-8", "replace")


def case_line(op, *fields):
    return "\t".join([op] + [hx(f) for f in fields])


def sh(cmd, timeout=1800, cwd=None, env=None, input=None):
    e = dict(os.environ)
    e.update({"CARGO_NET_OFFLINE": "true"})
    if env:
        e.update(env)
    p = subprocess.run(cmd, shell=isinstance(cmd, str), cwd=cwd, env=e, input=input, stdout=subprocess.PIPE,
                       stderr=subprocess.STDOUT, timeout=timeout)
    return p.returncode, p.stdout.decode("utf-8", "replace")


class Lock:
    def __enter__(self):
        os.makedirs(BUILD, exist_ok=True)
        self.f = open(os.path.join(BUILD, "lock"), "w")
        fcntl.flock(self.f, fcntl.LOCK_EX)
        return self

    def __exit__(self, *a):
        fcntl.flock(self.f, fcntl.LOCK_UN)
        self.f.close()


class Ctx:
    def __init__(self, prop, tier, seed):
        self.prop, self.tier, self.seed = prop, tier, seed
        self.rng = random.Random("%s-%d" % (prop, seed))
        self.t0 = time.time()
        self.obligations = []      # (name, ok, detail)
        self.broken = []           # descriptions of broken ties (proof, table, inventory, correspondence)
        self.failures = []         # oracle failures on implementation output: dicts
        self.evaluations = 0
        self.nontrivial = set()
        self.samples = []
        self.dist = {}
        self.notes = []
        self.rule = ""
        self.exhaustive = False
        self.search_mode = False

    def oblig(self, name, ok, detail=""):
        self.obligations.append((name, bool(ok), detail))
        if not ok:
            self.broken.append("%s: %s" % (name, detail[:400]))

    def count(self, key, n=1):
        self.dist[key] = self.dist.get(key, 0) + n

    def volume(self, quick, thorough):
        v = thorough if self.tier == "thorough" else quick
        return v * 4 if self.search_mode and self.tier != "thorough" else v


# ------------------------------------------------------------------ builds
def step_tables(ctx):
    sys.path.insert(0, os.path.join(VERIF, "tools"))
    import gen_tables
    try:
        changed, T = gen_tables.main(os.path.join(COQ, "Generated"))
        ctx.oblig("tables: every literal table located in /repo/src and regenerated into Generated/Tables.v", True)
        return T
    except gen_tables.TableError as e:
        ctx.oblig("tables: every literal table located in /repo/src and regenerated into Generated/Tables.v", False, str(e))
        return None
    except Exception as e:  # lexer crash = broken tie as well
        ctx.oblig("tables: every literal table located in /repo/src and regenerated into Generated/Tables.v", False, repr(e))
        return None


FORBIDDEN = re.compile(r"\b(Admitted|admit|Axiom|Axioms|Parameter|Parameters|Conjecture|Conjectures)\b|Unset\s+Guard|bypass_check|type-in-type|impredicative-set|Admit\s+Obligations|Unset\s+Universe\s+Checking|Unset\s+Positivity")


def strip_coq_comments(src):
    out, depth, i = [], 0, 0
    while i < len(src):
        if src.startswith("(*", i):
            depth += 1; i += 2
        elif src.startswith("*)", i) and depth:
            depth -= 1; i += 2
        else:
            if depth == 0:
                out.append(src[i])
            i += 1
    return "".join(out)


def step_grep(ctx):
    bad = []
    for root, _, files in os.walk(COQ):
        for fn in files:
            if fn.endswith(".v"):
                p = os.path.join(root, fn)
                src = strip_coq_comments(open(p).read())
                # Variable / Hypothesis only allowed inside sections
                depth = 0
                for ln in src.split("\n"):
                    s = ln.strip()
                    if re.match(r"Section\s", s):
                        depth += 1
                    if re.match(r"End\s", s) and depth:
                        depth -= 1
                    m = FORBIDDEN.search(ln)
                    if m:
                        bad.append("%s: %s" % (os.path.relpath(p, COQ), m.group(0)))
                    if depth == 0 and re.match(r"(Variable|Variables|Hypothesis|Hypotheses|Context)\b", s):
                        bad.append("%s: %s outside a section" % (os.path.relpath(p, COQ), s.split()[0]))
    ctx.oblig("no Admitted/admit/Axiom/Parameter/Conjecture/guard switches anywhere in coq/", not bad, "; ".join(bad))


def step_coq(ctx, targets, theorems):
    rc, out = sh(os.path.join(VERIF, "tools", "mkcoq.sh"))
    if rc != 0:
        ctx.oblig("coq_makefile", False, out[-800:])
        return False
    tg = " ".join(targets)
    rc, out = sh("timeout 1500 make -j%d %s" % (NPROC, tg), cwd=COQ, timeout=1600)
    okb = rc == 0
    detail = ""
    if not okb:
        m = re.findall(r'File "([^"]+)", line (\d+)[^\n]*\n(?:[^\n]*\n){0,6}', out)
        detail = out[-1500:]
    ctx.oblig("make (full .vo build) of %s" % tg, okb, detail)
    if not okb:
        return False
    # Print Assumptions for every pinned theorem, in a fresh coqc run
    os.makedirs(os.path.join(BUILD, "assume"), exist_ok=True)
    src = "From QV Require Import Properties.%s.\n" % ctx.prop
    for t in theorems:
        src += 'Goal True. idtac "@@ %s". Abort.\nPrint Assumptions %s.\n' % (t, t)
    # NB: "Abort" here is in a scratch file outside coq/, not part of the development
    fn = os.path.join(BUILD, "assume", "A_%s.v" % ctx.prop)
    open(fn, "w").write(src)
    rc, out = sh("timeout 300 coqc -Q %s QV %s" % (COQ, fn), cwd=os.path.join(BUILD, "assume"))
    if rc != 0:
        for t in theorems:
            ctx.oblig("theorem %s checked; Print Assumptions" % t, False, out[-600:])
        return False
    chunks = out.split("@@ ")[1:]
    seen = {}
    for ch in chunks:
        name, _, rest = ch.partition("\n")
        seen[name.strip()] = rest.strip()
    for t in theorems:
        r = seen.get(t)
        if r is None:
            ctx.oblig("theorem %s checked; Print Assumptions" % t, False, "no output")
        elif r.startswith("Closed under the global context"):
            ctx.oblig("theorem %s checked by coqc; Print Assumptions: Closed under the global context" % t, True)
        else:
            axs = set(re.findall(r"^([A-Za-z_][\w.']*)\s*:", r, re.M))
            extra = axs - ALLOWED_AXIOMS
            ctx.oblig("theorem %s checked by coqc; Print Assumptions: %s" % (t, ", ".join(sorted(axs))), not extra,
                      "axioms not in allow-list: " + ", ".join(sorted(extra)))
    return True


def step_coqchk(ctx, modules):
    rc, out = sh("timeout 1500 coqchk -silent -o -Q %s QV %s" % (COQ, " ".join("QV." + m for m in modules)), cwd=COQ, timeout=1600)
    m = re.search(r"\* Axioms:\s*(.*?)\n\s*\n", out + "\n\n", re.S)
    ax = m.group(1).strip() if m else "?"
    ctx.oblig("coqchk re-check of %s; axioms: %s" % (",".join(modules), ax.replace("\n", " ")), rc == 0 and ax.startswith("<none>"), out[-600:])


def coq_str(s):
    """a Python str as a Coq term of type list N"""
    return "[" + "; ".join(str(ord(c)) for c in s) + "]"


def step_incoq(ctx):
    """extraction cross-check (thorough tier): a sample of inputs is evaluated INSIDE Coq with vm_compute and must equal what the
    extracted OCaml model printed for the same inputs (guards the extraction and the driver's encoding, both in the trusted base)"""
    import random
    sys.path.insert(0, os.path.join(VERIF, "tools"))
    import gen_conv, gen_units, docs
    rng = random.Random(1000 + ctx.seed)
    words = [[rng.choice(ADV) for _ in range(rng.randint(0, 5))] for _ in range(40)]
    words = [["".join(w)] + ["".join(rng.choice(ADV) for _ in range(rng.randint(0, 3))) for _ in range(rng.randint(0, 2))] for w in words]
    words = [[w for w in ws if "\0" not in w] for ws in words]
    raws = ["".join(rng.choice(ADV + ["\\", "x", "4", "1", "n", '"', "'"]) for _ in range(rng.randint(0, 7))) for _ in range(40)]
    texts = [gen_units.render(rng, gen_units.gen_model(rng)) for _ in range(25)] if hasattr(gen_units, "render") else []
    sets = []
    for _ in range(15):
        fs = gen_conv.gen_unit_set(rng)
        if all(ord(ch) < 0x110000 and "\0" not in t for _, t in fs for ch in t):
            sets.append(fs)
    cases = [case_line("quote_words_raw", *ws) for ws in words] + [case_line("unquote", r) for r in raws] + \
            [case_line("split_word", r) for r in raws] + [case_line("parse", t) for t in texts] + \
            [case_line("digest", *[x for f in fs for x in f]) for fs in sets]
    outs = run_model(cases)
    lines = ["From QV Require Import Model.Base Generated.Tables Model.Quote Model.Unquote Model.Split Model.Unit Model.Parser Model.Names Model.Convert Model.Process.",
             "Open Scope N_scope.",
             "Definition digest (files : list (str * str)) : list (N * str) :=",
             "  map (fun r => match snd r with ROk svc sp => (1, to_string svc ++ [0] ++ sp) | RErr _ => (2, []) | RPanic => (3, []) | RSkip => (4, []) end)",
             "      (snd (process_files %s (fun _ => false) true false files))." % coq_str("/usr/bin/podman"),
             "Definition dump (u : unit) : list (str * list (str * str)) := u."]
    n = 0
    def opt(o, conv):
        t = o.split("\t")
        return "Some (%s)" % conv(t[1:]) if t[0] == "OK" else "None"
    k = 0
    for ws in words:
        o = outs[k].split("\t"); k += 1
        lines.append("Goal quote_words [%s] = %s. Proof. vm_compute. reflexivity. Qed." % ("; ".join(coq_str(w) for w in ws), coq_str(unhx(o[1]).decode("utf-8", "surrogatepass")))); n += 1
    for r in raws:
        lines.append("Goal unquote_value %s = %s. Proof. vm_compute. reflexivity. Qed." % (coq_str(r), opt(outs[k], lambda f: coq_str(unhx(f[0]).decode("utf-8", "surrogatepass")) if f else "[]"))); k += 1; n += 1
    for r in raws:
        o = outs[k].split("\t"); k += 1
        if o[0] == "OK":
            lines.append("Goal split_word_all %s = [%s]. Proof. vm_compute. reflexivity. Qed." % (coq_str(r), "; ".join(coq_str(unhx(x).decode("utf-8", "surrogatepass")) for x in o[1:]))); n += 1
    for t in texts:
        o = outs[k]; k += 1
        if o.startswith("OK"):
            u = parse_unit_tokens(o.split("\t"), 1)[0]
            term = "[" + "; ".join("(%s, [%s])" % (coq_str(nm), "; ".join("(%s, %s)" % (coq_str(a), coq_str(b)) for a, b in es)) for nm, es in u) + "]"
            lines.append("Goal option_map dump (parse_unit %s) = Some %s. Proof. vm_compute. reflexivity. Qed." % (coq_str(t), term)); n += 1
        else:
            lines.append("Goal parse_unit %s = None. Proof. vm_compute. reflexivity. Qed." % coq_str(t)); n += 1
    for fs in sets:
        o = outs[k].split("\t"); k += 1
        if o[0] != "OK":
            continue
        items = ["(%s, %s)" % (o[i], coq_str(unhx(o[i + 1]).decode("utf-8", "surrogatepass"))) for i in range(1, len(o) - 1, 2)]
        lines.append("Goal digest [%s] = [%s]. Proof. vm_compute. reflexivity. Qed." % ("; ".join("(%s, %s)" % (coq_str(p), coq_str(t)) for p, t in fs), "; ".join(items))); n += 1
    d = os.path.join(BUILD, "incoq")
    os.makedirs(d, exist_ok=True)
    open(os.path.join(d, "Cases.v"), "w").write("\n".join(lines) + "\n")
    rc, out = sh("timeout 900 coqc -noglob -Q %s QV %s" % (COQ, os.path.join(d, "Cases.v")), cwd=d, timeout=1000)
    ctx.oblig("extraction cross-check: %d evaluations inside Coq (vm_compute: quote_words, unquote_value, split_word_all, parse_unit, whole runs of process_files) equal the extracted OCaml model's output" % n,
              rc == 0, out[-800:])


def file_hash(*paths):
    h = hashlib.sha256()
    for p in paths:
        h.update(open(p, "rb").read())
    return h.hexdigest()


def step_ocaml(ctx):
    src = [os.path.join(COQ, "Extract", "model.ml"), os.path.join(COQ, "Extract", "model.mli"), os.path.join(VERIF, "ocaml", "modelrun.ml")]
    if not all(os.path.exists(p) for p in src):
        ctx.oblig("extraction produced model.ml", False, "missing")
        return False
    hv = file_hash(*src)
    stamp = os.path.join(BUILD, "ocaml", "stamp")
    if os.path.exists(MODEL_BIN) and os.path.exists(stamp) and open(stamp).read() == hv:
        return True
    rc, out = sh(os.path.join(VERIF, "tools", "mkocaml.sh"), timeout=600)
    if rc != 0:
        ctx.oblig("build of extracted model driver (ocamlopt)", False, out[-800:])
        return False
    open(stamp, "w").write(hv)
    return True


def step_cargo(ctx):
    env = {"RUSTFLAGS": "--cfg quadlet_rs_verif", "CARGO_TARGET_DIR": os.path.join(BUILD, "target")}
    rc, out = sh("timeout 1200 cargo build --offline --quiet 2>&1 | grep -v '^warning\\|^ *|\\|^ *=\\|^ *-->\\|^$\\|^[0-9 ]*|' | tail -30", cwd=REPO, env=env, timeout=1300)
    ok = os.path.exists(IMPL_BIN) and "error" not in out.lower()
    # cargo's own status is lost in the pipe; re-run cheaply to get it
    rc2, out2 = sh("cargo build --offline --quiet", cwd=REPO, env=env, timeout=1300)
    ok = rc2 == 0 and os.path.exists(IMPL_BIN)
    if not ok:
        ctx.oblig("implementation built from /repo working tree with --cfg quadlet_rs_verif", False, out2[-1200:])
        # the driver (a child module of the crate) no longer compiles against the source, e.g. because a private function it calls changed its
        # signature.  That is a broken tie, not yet a failing input: build the PLAIN binary so that the end-to-end oracles can still look for one
        # (the in-process operations then answer NOHOOK and their comparisons are skipped or fail on their own).
        env2 = {"CARGO_TARGET_DIR": os.path.join(BUILD, "target")}
        rc3, out3 = sh("cargo build --offline --quiet", cwd=REPO, env=env2, timeout=1300)
        if rc3 == 0 and os.path.exists(IMPL_BIN):
            global HOOK_OK
            HOOK_OK = False
            return True
    return ok


# ------------------------------------------------------------------ running drivers
import shutil as _shutil
PRLIMIT = _shutil.which("prlimit")
def _run_chunk(args):
    cmd, env, lines = args
    e = dict(os.environ)
    e.update(env)
    cwd = e.pop("VERIF_CWD", None)
    # a runaway implementation (an endless loop that allocates) must not take the machine down: 6 GiB of address space, 15 CPU minutes
    # (through prlimit(1), not preexec_fn: the latter makes every spawn a full fork of this process)
    if cmd and cmd[0] == IMPL_BIN and PRLIMIT:
        cmd = [PRLIMIT, "--as=%d" % (6 << 30), "--cpu=900"] + list(cmd)
    try:
        p = subprocess.run(cmd, input=("\n".join(lines) + "\n").encode(), stdout=subprocess.PIPE, stderr=subprocess.PIPE, env=e, timeout=1200, cwd=cwd)
        stdout, rc = p.stdout, p.returncode
    except subprocess.TimeoutExpired as ex:
        stdout, rc = ex.stdout or b"", -9
    out = stdout.decode().split("\n")
    if out and out[-1] == "":
        out.pop()
    if len(out) != len(lines):
        # the process died mid-stream (abort/stack overflow): mark the first unanswered case
        out = out + ["DIED\t%d" % rc] + ["SKIPPED"] * (len(lines) - len(out) - 1)
    return out


def run_driver(cmd, env, lines):
    if not lines:
        return []
    n = min(NPROC, max(1, len(lines) // 200))
    size = (len(lines) + n - 1) // n
    chunks = [lines[i:i + size] for i in range(0, len(lines), size)]
    with concurrent.futures.ThreadPoolExecutor(max_workers=NPROC) as ex:
        outs = list(ex.map(_run_chunk, [(cmd, env, c) for c in chunks]))
    return [x for o in outs for x in o]


HOOK_OK = True


def run_impl(lines, extra_env=None):
    if not HOOK_OK:
        return ["NOHOOK"] * len(lines)
    env = {"QUADLET_VERIF": "1", "PODMAN": "/usr/bin/podman"}
    if extra_env:
        env.update(extra_env)
    return run_driver([IMPL_BIN], env, lines)


def run_model(lines):
    return run_driver([MODEL_BIN], {}, lines)


# ------------------------------------------------------------------ known findings, verdict, evidence
def load_known():
    p = os.path.join(VERIF, "known_findings.json")
    if not os.path.exists(p):
        return []
    return json.load(open(p))


def finish(ctx, level_text=""):
    known = [k for k in load_known() if k.get("property") == ctx.prop and k.get("status") == "known"]
    known_classes = {k["class"]: k for k in known}
    unknown, hit_known = [], {}
    for f in ctx.failures:
        c = f.get("class")
        if c and c in known_classes:
            hit_known.setdefault(c, f)
        else:
            unknown.append(f)
    for c, f in hit_known.items():
        print("KNOWN-FINDING: property=%s %s: %s" % (ctx.prop, c, known_classes[c].get("what", "")))
    os.makedirs(os.path.join(VERIF, "evidence"), exist_ok=True)
    rc = 0
    replay = None
    if unknown:
        replay = write_replay(ctx, {"kind": "failing-input", "failure": unknown[0], "more": unknown[1:5], "broken": ctx.broken})
        print("VIOLATION property=%s replay=%s" % (ctx.prop, replay))
        rc = 1
    elif ctx.broken:
        replay = write_replay(ctx, {"kind": "broken-tie", "broken": ctx.broken,
                                     "note": "a proof obligation, table, inventory or the model/implementation correspondence no longer checks; the search over the generators found no input on which the property itself fails"})
        print("VIOLATION property=%s replay=%s no-failing-input-found" % (ctx.prop, replay))
        rc = 1
    if rc == 0:
        stale = os.path.join(VERIF, "replays", "%s-seed%d-%s.json" % (ctx.prop, ctx.seed, ctx.tier))
        if os.path.exists(stale):
            os.remove(stale)
    obligations = len(ctx.obligations)
    discharged = sum(1 for o in ctx.obligations if o[1])
    ev = {
        "property_id": ctx.prop, "tier": ctx.tier, "seed": ctx.seed, "level": "proof",
        "coverage": {
            "obligations": obligations, "discharged": discharged,
            "checker_cmd": "cd /verif/coq && make -j16 Properties/%s.vo  (coqc 8.16.1, full .vo) + coqc Print Assumptions per theorem; thorough adds coqchk -o" % ctx.prop,
            "trusted_base": TRUSTED_BASE,
            "obligation_list": [{"name": n, "ok": ok, **({"detail": d} if d and not ok else {})} for n, ok, d in ctx.obligations],
            "evaluations": ctx.evaluations,
            "distinct_nontrivial": len(ctx.nontrivial),
            "rule": ctx.rule,
            "samples": ctx.samples[:12],
            "distribution": ctx.dist,
            "exhaustive": ctx.exhaustive,
            "known_findings_hit": sorted(hit_known),
            "notes": ctx.notes,
        },
        "assumptions": TRUSTED_BASE,
        "wall_s": round(time.time() - ctx.t0, 2),
        "violations": len(unknown) + (1 if (ctx.broken and not unknown) else 0),
    }
    with open(os.path.join(VERIF, "evidence", "%s.json" % ctx.prop), "w") as f:
        json.dump(ev, f, indent=1, ensure_ascii=True, default=str)
    print("%s %s: obligations %d/%d, cases %d (%d distinct non-trivial), oracle failures %d (known classes: %s), broken ties %d, %.1fs" % (
        ctx.prop, ctx.tier, discharged, obligations, ctx.evaluations, len(ctx.nontrivial), len(unknown), ",".join(sorted(hit_known)) or "-", len(ctx.broken), time.time() - ctx.t0))
    return rc


def write_replay(ctx, obj):
    d = os.path.join(VERIF, "replays")
    os.makedirs(d, exist_ok=True)
    obj = dict(obj)
    obj.update({"property": ctx.prop, "seed": ctx.seed, "tier": ctx.tier})
    p = os.path.join(d, "%s-seed%d-%s.json" % (ctx.prop, ctx.seed, ctx.tier))
    with open(p, "w") as f:
        json.dump(obj, f, indent=1, default=str)
    return p


def show(b):
    """printable form of bytes/str for replay files and samples"""
    if isinstance(b, bytes):
        b = b.decode("utf-8", "backslashreplace")
    return json.dumps(b, ensure_ascii=True)[1:-1]


# ------------------------------------------------------------------ generators shared by properties
ADV = [" ", "\t", "\n", "\r", '"', "'", "\\", "a", "b", "-", "=", ":", ",", "%", "/", ".", "@", "[", "]", "#", ";",
       "\x7f", "\x01", "\x0b", "\x0c", "é", " ", " ", "\U0001F600", "$", "x", "n", "1", "\x80", "\x1b"]


def adv_string(rng, maxlen=6, alphabet=None):
    alphabet = alphabet or ADV
    n = rng.choice([0, 1, 1, 2, 2, 3, 3, 4, 5, maxlen])
    return "".join(rng.choice(alphabet) for _ in range(n))


# ------------------------------------------------------------------ parsing driver output
def parse_unit_tokens(toks, k):
    """tokens from index k: (S name (E key val)*)* '.'  -> (sections, next index)"""
    secs = []
    while toks[k] != ".":
        if toks[k] == "S":
            secs.append((unhx(toks[k + 1]).decode("utf-8", "replace"), []))
            k += 2
        elif toks[k] == "E":
            secs[-1][1].append((unhx(toks[k + 1]).decode("utf-8", "replace"), unhx(toks[k + 2]).decode("utf-8", "replace")))
            k += 3
        else:
            raise ValueError("bad unit token %r" % toks[k])
    return secs, k + 1


def parse_convert(out):
    """output line of op convert -> list of per-file records"""
    toks = out.split("\t")
    if toks[0] != "OK":
        return [{"panic": True, "raw": out}]
    recs, k = [], 1
    while k < len(toks):
        tag = toks[k]
        path = unhx(toks[k + 1])
        if toks[k + 2] == "ERR":
            recs.append({"stage": "load" if tag == "L" else "convert", "path": path, "ok": False, "err": toks[k + 3],
                         "msg": unhx(toks[k + 4]).decode("utf-8", "replace")})
            k += 5
        else:
            svc = unhx(toks[k + 3])
            secs, k2 = parse_unit_tokens(toks, k + 4)
            recs.append({"stage": "convert", "path": path, "ok": True, "svc": svc, "sections": secs})
            k = k2
    return recs


def entries(rec, section, key=None):
    out = []
    for name, es in rec.get("sections", []):
        if name == section:
            out.extend(v for k, v in es if key is None or k == key)
    return out


def sd_split_many(lines_bytes, mode="exec"):
    """Spec.sd_split through the extracted model; returns list of (list of str) or None"""
    res = run_model([case_line("sd_split", mode, b) for b in lines_bytes])
    out = []
    for r in res:
        t = r.split("\t")
        out.append([unhx(x).decode("utf-8", "replace") for x in t[1:]] if t[0] == "OK" else None)
    return out


def failure_classes(ctx):
    import collections
    c = collections.Counter(f.get("class") for f in ctx.failures)
    return dict(c)


KV_OPTS = ("--env", "--label", "--annotation", "--opt")


def canon_argv(argv):
    """sort each contiguous run of name=value options (HashMap iteration order is unspecified; C10/C19 exempt it)"""
    if argv is None:
        return None
    out, i, run_ = [], 0, []
    while i < len(argv):
        if argv[i] in KV_OPTS and i + 1 < len(argv) and "=" in argv[i + 1]:
            run_.append((argv[i], argv[i + 1])); i += 2
            continue
        if run_:
            out += [x for p in sorted(run_) for x in p]; run_ = []
        out.append(argv[i]); i += 1
    if run_:
        out += [x for p in sorted(run_) for x in p]
    return out


def canon_records(outs):
    """convert-op output lines -> canonical comparable structure (Exec* lines decoded with the spec splitter and kv runs sorted)"""
    recs_all = [parse_convert(o) for o in outs]
    lines, where = [], []
    for i, recs in enumerate(recs_all):
        for j, r in enumerate(recs):
            for si, (name, es) in enumerate(r.get("sections", [])):
                for ei, (k, v) in enumerate(es):
                    if name == "Service" and k.startswith("Exec"):
                        lines.append(v.encode()); where.append((i, j, si, ei))
    argvs = sd_split_many(lines) if lines else []
    res = []
    for recs in recs_all:
        res.append([{"path": r.get("path"), "ok": r.get("ok"), "err": r.get("err"), "svc": r.get("svc"),
                     "sections": [(n, [list(e) for e in es]) for n, es in r.get("sections", [])]} for r in recs])
    for (i, j, si, ei), a in zip(where, argvs):
        res[i][j]["sections"][si][1][ei][1] = canon_argv(a)
    return res
