"""End-to-end runner: the real binary (built from /repo's working tree) in throw-away trees outside /repo and /verif."""
import os, shutil, subprocess, tempfile, stat
import vlib


def make_tree(root, files):
    """files: dict relative path (str or bytes) -> bytes/str content, or None for a directory"""
    for rel, content in files.items():
        p = os.path.join(os.fsencode(root), os.fsencode(rel) if isinstance(rel, str) else rel)
        if content is None:
            os.makedirs(p, exist_ok=True)
            continue
        os.makedirs(os.path.dirname(p), exist_ok=True)
        with open(p, "wb") as f:
            f.write(content.encode("utf-8", "surrogateescape") if isinstance(content, str) else content)


def snapshot(root):
    """{relative path: ('d',) | ('l', target) | ('f', content)}"""
    snap = {}
    rootb = os.fsencode(root)
    for d, dirs, files in os.walk(rootb):
        for n in dirs + files:
            p = os.path.join(d, n)
            rel = os.path.relpath(p, rootb).decode("utf-8", "surrogateescape")
            st = os.lstat(p)
            if stat.S_ISLNK(st.st_mode):
                snap[rel] = ("l", os.readlink(p).decode("utf-8", "surrogateescape"))
            elif stat.S_ISDIR(st.st_mode):
                snap[rel] = ("d",)
            else:
                try:
                    snap[rel] = ("f", open(p, "rb").read())
                except OSError:
                    snap[rel] = ("f?",)
    return snap


def run_quadlet(unit_dirs, out_dir, dry_run=False, user=False, extra_env=None, argv0=None, timeout=60, extra_args=None):
    env = {k: v for k, v in os.environ.items() if k not in ("QUADLET_VERIF",)}
    env.update({"QUADLET_UNIT_DIRS": ":".join(unit_dirs), "PODMAN": "/usr/bin/podman"})
    if extra_env:
        env.update(extra_env)
    args = [vlib.IMPL_BIN]
    if dry_run:
        args.append("--dry-run")
    if user:
        args.append("--user")
    args.append("--no-kmsg-log")
    if extra_args:
        args += extra_args
    args.append(out_dir)
    try:
        if vlib.PRLIMIT:
            args = [vlib.PRLIMIT, "--as=%d" % (6 << 30)] + args          # a runaway generator must not take the machine down
        p = subprocess.run(args, env=env, stdout=subprocess.PIPE, stderr=subprocess.PIPE, timeout=timeout)
        return p.returncode, p.stdout, p.stderr
    except subprocess.TimeoutExpired as e:
        return "timeout", e.stdout or b"", e.stderr or b""


def parse_dry_run(stdout):
    """stdout of --dry-run -> {service path: text}"""
    out, cur, buf = {}, None, []
    for line in stdout.decode("utf-8", "surrogateescape").split("\n"):
        if line.startswith('---"') and line.endswith('"---'):
            if cur is not None:
                out[cur] = "\n".join(buf)
            cur, buf = line[4:-4], []
        elif cur is not None:
            buf.append(line)
    if cur is not None:
        out[cur] = "\n".join(buf)
    return out


class Box:
    """a scratch directory removed on exit"""
    def __enter__(self):
        self.root = tempfile.mkdtemp(prefix="qv-")
        return self

    def __exit__(self, *a):
        subprocess.run(["chmod", "-R", "u+rwx", self.root], stderr=subprocess.DEVNULL)
        shutil.rmtree(self.root, ignore_errors=True)

    def path(self, *p):
        return os.path.join(self.root, *p)
