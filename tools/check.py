#!/usr/bin/env python3
"""./check <Cnn> [--tier quick|thorough] [--replay file]      (VERIF_SEED, VERIF_TIER honoured)"""
import argparse, importlib, json, os, sys, traceback

sys.path.insert(0, os.path.dirname(os.path.abspath(__file__)))
import vlib


def main():
    ap = argparse.ArgumentParser()
    ap.add_argument("prop")
    ap.add_argument("--tier", default=os.environ.get("VERIF_TIER", "quick"))
    ap.add_argument("--replay")
    a = ap.parse_args()
    tier = a.tier if a.tier in ("quick", "thorough") else "quick"
    seed = int(os.environ.get("VERIF_SEED", "0") or 0)
    ctx = vlib.Ctx(a.prop, tier, seed)
    mod = importlib.import_module("props.%s" % a.prop)
    with vlib.Lock():
        T = vlib.step_tables(ctx)
        ctx.tables = T
        vlib.step_grep(ctx)
        targets = ["Properties/%s.vo" % a.prop, "Extract/Extract.vo"]
        okc = vlib.step_coq(ctx, targets, mod.THEOREMS)
        if okc and tier == "thorough":
            vlib.step_coqchk(ctx, ["Properties.%s" % a.prop])
        oko = vlib.step_ocaml(ctx) if os.path.exists(os.path.join(vlib.COQ, "Extract", "model.ml")) else False
        okr = vlib.step_cargo(ctx)
    if not okr:
        # the implementation does not build: nothing can be run against it
        sys.exit(vlib.finish(ctx))
    ctx.model_ok = bool(oko)
    if oko and okc and tier == "thorough" and not a.replay:
        vlib.step_incoq(ctx)
    if a.replay:
        sys.exit(mod.replay(ctx, json.load(open(a.replay))))
    if hasattr(mod, "inventory"):
        mod.inventory(ctx)
    ctx.search_mode = bool(ctx.broken)
    try:
        mod.run(ctx)
    except Exception:
        ctx.oblig("check harness ran to completion", False, traceback.format_exc()[-1500:])
    if ctx.broken and not ctx.search_mode and not ctx.failures:
        # the correspondence broke during the run: search again with more volume before giving up
        ctx.search_mode = True
        ctx.seed_bump = 1
        try:
            mod.run(ctx)
        except Exception:
            pass
    sys.exit(vlib.finish(ctx))


if __name__ == "__main__":
    main()
