#!/usr/bin/env python3
"""Writes /verif/MANIFEST.json from the table below (one entry per claimed property)."""
import json, os, subprocess

CLAIMED = {
    "C01": {
        "text": "Rocq theorem C01_exec_roundtrip: for every argument vector (unbounded count and length, every code point except NUL) "
                "the model of quote_words followed by the reference model of systemd's extract_first_word(UNQUOTE|CUNESCAPE) is the identity; "
                "full for the quoting core. The model is tied to /repo by the regenerated escape table, a store-site inventory of all Exec* "
                "entries, differential runs model-vs-implementation, and a direct oracle (spec splitter and the real libsystemd on the implementation's output).",
        "note": "Trusted: Coq kernel; Spec/SdExtract.v as the meaning of 'systemd's quoting rules' (validated against libsystemd-shared-252 via ctypes); "
                "extraction (ExtrOcamlBasic); the driver and generators. systemd's ';' command separator, % and $ expansion are outside the statement.",
        "technique": "machine-checked proof in Rocq (Coq 8.16) over an executable Gallina model + differential correspondence check and table regeneration",
        "design": "DESIGN.md §7 C01",
    },
    "C02": {
        "text": "PARTIAL. Rocq theorems: C02_tables (every (key, option) pair of the look-up tables regenerated from convert.rs is the documented pair of the documented kind; finite), and frame theorems "
                "for the three table-driven handlers (C02_strings_frame, C02_bools_frame, C02_all_strings_frame: a first assignment of key K adds exactly [option; value] / the on-off form at K's slot and "
                "the groups of all other keys are unchanged; arbitrary tables, units and values), C02_container_string_key_frame / _list_key_frame / _bool_key_frame (in the WHOLE container command: adding a first assignment of any key of the three "
                "option tables -- 11 single-valued, 8 one-per-assignment, 3 boolean keys -- changes ExecStart= by exactly the insertion of [option; value], every argument before and after it is the same -- no other handler reads the key, every handler only "
                "appends, and what it appends does not depend on what is already there), the same whole-command frame for the table-driven keys of .image (C02_image_string_key_frame, _bool_key_frame), .network (C02_network_string_key_frame, "
                "_bool_key_frame, _list_key_frame) and .pod units (C02_pod_string_key_frame, _list_key_frame, on the `podman pod create` ExecStartPre= line), each with a non-vacuity example, plus kernel-checked witnesses of the two repaired defects over the full container converter. The special "
                "handlers, word-list and name=value kinds, and the whole-command clauses (nothing else changes, global options before the sub-command, PodmanArgs after the key options, object then Exec last) "
                "are decided by the direct metamorphic oracle on implementation output (with/without the key, all 7 types) plus whole-service correspondence with the converter model. "
                "Position clauses proved for EVERY successful conversion of ALL SEVEN unit types (C02_container_command_shape, C02_image_command_shape, C02_network_command_shape, C02_volume_command_shape, C02_kube_command_shape, C02_build_command_shape on ExecStart=, C02_pod_command_shape on ExecStartPre=: every handler only appends, so the command is "
                "[podman] ++ --module options ++ GlobalArgs ++ sub-command words ++ key options ++ PodmanArgs ++ object (image or --rootfs R / name) ++ Exec words -- global options before the sub-command, PodmanArgs after all key options, object then Exec last). RUN LEVEL: C02_run_services_are_conversions (every service of the whole run with drop-ins is one conversion of one input file merged with its drop-ins, so the converter-level theorems speak about every service of the run) and C02_every_container_service_of_the_run.",
        "note": "Trusted: Coq kernel; tools/docs.py / Spec/Docs.v as the documentation transcript; the converter model; extraction; driver; Mount= modelled only on the csv crate's quote-free domain.",
        "technique": "machine-checked proof in Rocq (Coq 8.16) of table equalities and handler frame theorems; metamorphic oracle and differential correspondence for the whole command",
        "design": "DESIGN.md §7 C02",
    },
    "C03": {
        "text": "Rocq theorem C03_parse_render over the one-character-per-step model of the whole parser: for every file model and EVERY rendering of it in the independent layout "
                "relation Renders (comment/blank lines anywhere, indentation, blanks around '=', trailing blanks, blanks after headers, any blank of a value written as a backslash-newline "
                "continuation with optional spaces and following comment lines, repeated headers) parse_unit returns exactly the merged sections; C03_final_newline_optional; "
                "C03_spelling_independent; unbounded in every dimension. One known class (a '[' directly after a continuation, pinned by the repo's own test) is excluded by the relation "
                "and carried as C03_bracket_refuted. Full for the parser; the 'identical services' consequence follows because conversion only sees the parse result (checked end to end by the oracle).",
        "note": "Trusted: Coq kernel; Spec/Layout.v as the meaning of 'rendering'; the approximation of char::is_alphanumeric beyond ASCII in Model/Lex.v (theorem keys are ASCII); extraction; driver; generators.",
        "technique": "machine-checked proof in Rocq (Coq 8.16): induction over the layout derivation, running a structurally recursive parser machine + differential correspondence check",
        "design": "DESIGN.md §7 C03",
    },
    "C04": {
        "text": "Rocq theorems C04_spellings_read_back (every raw text related to a string s by the independent spelling relation Spells -- quoted runs of either kind at "
                "the start or after whitespace, bare runs, literal whitespace, with every escape family -- is unquoted to exactly s), C04_every_string_spellable and "
                "C04_canonical_read_back (every string has a double- and a single-quoted spelling that reads back); unbounded in length, all code points; full. "
                "Tied to /repo by the regenerated escape table, differential runs (documented and malformed streams) and a direct oracle on unquote_value, lookup_last and the converted --health-cmd argument.",
        "note": "Trusted: Coq kernel; Spec/Spelling.v as the meaning of 'documented quoting'; extraction; driver; the Python generator that mirrors Spells.",
        "technique": "machine-checked proof in Rocq (Coq 8.16): induction over the spelling derivation with a machine-state invariant + differential correspondence check",
        "design": "DESIGN.md §7 C04",
    },
    "C05": {
        "text": "Rocq theorems C05_args_equiv / C05_strv_equiv: for every raw value on which the reference model of systemd's extract_first_word "
                "(UNQUOTE|CUNESCAPE|RELAX resp. UNQUOTE|RETAIN_ESCAPE) succeeds, the model of SplitWord resp. SplitStrv collects exactly systemd's word list "
                "(so no word after another word is dropped, and an explicitly quoted empty word is kept); proved by a simulation between one-character-per-step machines, "
                "unbounded in length. Full on systemd's domain (8-bit escapes and surrogate \\u escapes are mapped/rejected as documented). Tied to /repo by the regenerated "
                "escape tables and WHITESPACE, a splitter-call-site inventory (which key uses which splitter), differential runs, and direct oracles (extracted spec and the real libsystemd) on implementation output; "
                "the spec itself is validated against libsystemd on every run.",
        "note": "Trusted: Coq kernel; Spec/SdExtract.v (validated against libsystemd-shared via ctypes); extraction; driver; generators.",
        "technique": "machine-checked proof in Rocq (Coq 8.16): simulation of two state machines + differential correspondence check",
        "design": "DESIGN.md §7 C05",
    },
    "C06": {
        "text": "Rocq theorems C06_roundtrip (every well-formed unit -- distinct section names without ']'/newline, non-empty key-character keys, validated newline-free raw values "
                "without blanks at the edges -- is read back from to_string exactly), C06_lines (one physical line per entry, two per section), C06_quote_value_safe (add/set/prepend never "
                "store a raw control character), C06_write_calls (write_to = to_string). The generator clause (every stored value is of that form) is tied by a store-site inventory of convert.rs "
                "and decided by a direct oracle (convert, serialise, read back with the implementation's parser) over units of all 7 types with injection payloads: partial in that respect. "
                "Known finding BlankAtValueEdge. "
                "Generator clause, first half, proved over the WHOLE RUN on arbitrary file contents: C06_generated_services_have_no_newline / C06_generated_services_line_count (every service any of the seven converters produces has no newline in any section name, key or value -- user entries: the parser machine never lets one in (C06_parsed_units_have_no_newline); generated entries: quote_value / quote_words never emit a control character; keys and section names are literals -- hence exactly one physical line per entry and two per section in the written file: no value can add, split or swallow a line); C06_conversion_adds_no_newline for a single conversion. THE GENERATOR CLAUSE IN FULL, over the whole run: C06_generated_services_are_shaped (distinct section names, each non-empty without ']' and newline; keys of key characters only; no newline anywhere), C06_generated_services_are_validated (every value of every generated service passes the load-time validation: NUL-freeness is carried from the unit files through unquoting, word splitting, path resolution and the name table to every stored value) and C06_every_generated_service_reads_back (for arbitrary unit file contents every service the generator produces -- unless an entry has an empty key or a value with a blank at an edge, the known class -- is read back from the generator's own text as exactly itself), with a non-vacuity example; the same for the run over unit files with their drop-ins (C06_every_generated_service_reads_back_with_dropins, Model/ProcessD.v).",
        "note": "Trusted: Coq kernel; Spec/Layout.v; extraction; driver; generators; the documented key tables in tools/docs.py used to build convertible units.",
        "technique": "machine-checked proof in Rocq (Coq 8.16): serialiser/parser round trip as a corollary of the layout theorem + store-site inventory + differential correspondence check",
        "design": "DESIGN.md §7 C06",
    },
    "C07": {
        "text": "Rocq theorems over the converter model of all seven unit types: C07_conversion_passes_through -- for every successful conversion of every unit with distinct section names "
                "(C07_parsed_units_have_distinct_sections: every parsed unit), every (section, key) outside the own section, [Quadlet] and the five managed [Service] settings holds "
                "pre ++ the user's values in order ++ post, where pre is only the default dependency in [Unit] After/Wants and post is empty unless the pair is in the explicit per-type "
                "list (C07_tables); the own section and [Quadlet] are kept verbatim under X-<name>; C07_every_generated_service_passes_through states the same for the whole run "
                "(parse, name table, sort, convert) on arbitrary file contents; C07_killmode_kept, C07_syslog_identifier_kept, C07_remain_after_exit_kept, C07_container_oneshot_kept, "
                "C07_oneshot_type_kept: a managed setting the user chose is left exactly as written. Not proved (oracle only): non-empty WorkingDirectory in .kube/.build and Type=oneshot in .kube kept.",
        "note": "Trusted: Coq kernel; the converter model (tied to /repo by whole-service differential runs on generated units and regenerated tables); the oracle's reading of the property in "
                "tools/props/C07.py for the two clauses not proved; an empty last assignment of a managed setting counts as no choice (C15).",
        "technique": "machine-checked proof in Rocq (Coq 8.16): extension relation over the state-passing converter model, one lemma per handler, composed over all converters and the whole run; "
                     "direct oracle and differential correspondence on implementation output",
        "design": "DESIGN.md §7 C07",
    },
    "C08": {
        "text": "PARTIAL. Rocq theorems for every link of the resolution chain over the converter/process model: C08_storage_source, C08_image_source, C08_network (a reference to a unit in the name "
                "table uses the table's object name and adds Requires=/After= on the table's service file; a missing unit gives an error carrying its file name), C08_service_names (the stored "
                "service name is ServiceName or <stem><suffix>), C08_tables_set (a successful .volume/.network/.image conversion stores exactly the documented object name -- VolumeName/NetworkName or "
                "systemd-<stem>, ImageTag or Image -- under its file name), C08_sorted and C08_lower_priority_first (units are processed in a priority-sorted permutation, so referenced types come first), "
                "and over whole runs C08_names_along_the_run (once a volume/network/image unit has converted, every later conversion of the run sees under its file name exactly the object name its own "
                "conversion computed and the service file name its own conversion returned, given distinct file names), C08_volume_creates / C08_network_creates (that name is the one the unit's own ExecStart creates). "
                "The reading of a Volume=/Mount=/Network= value into a reference and 'fails only the referring unit' are decided by the direct oracle (in-process and end to end) and whole-set "
                "correspondence of the Process model.",
        "note": "Trusted: Coq kernel; Spec/Names.v; the converter/process model (differentially validated on unit sets with references); sort_unstable_by is modelled by a stable sort.",
        "technique": "machine-checked proof in Rocq (Coq 8.16) of the resolution lemmas over the converter model + direct oracle on reference graphs + differential correspondence",
        "design": "DESIGN.md §7 C08",
    },
    "C09": {
        "text": "Rocq theorems over the whole-run model (parse, name table, sort by type priority, convert with the table threaded through) for arbitrary file contents: "
                "C09_pods_want_exactly_their_members -- when a .pod unit is converted its service's Wants=/Before= are the user's own values followed by exactly the containers registered so far "
                "(C09_members_spec, C09_registered_spec: converted -- or failed only in the final ExecStart store -- containers whose Pod= names this pod's file and that did not opt out), every container "
                "precedes every pod in the run, and the service file name the pod's conversion returns is the one the table held from the start (C09_table_along_the_run: service names never change, container lists only "
                "grow by registrations); C09_members_are_bound_to_their_pod -- a converted container naming Pod=p.pod has BindsTo=/After= that same service file name, --pod-id-file %t/<that name without .service>.pod-id, "
                "and is registered unless StartWithPod is off; both also for the run over unit files merged with their drop-ins (C09_..._with_dropins over process_trees, C09_run_with_dropins_is; C09_dropin_membership_example: a container made a member by a drop-in is wanted by the pod); plus the handler-level facts C09_member, C09_errors, C09_members_wired and the repaired C09_slash_refuted.",
        "note": "Trusted: Coq kernel; the converter/process model, tied to /repo by whole-set differential runs on generated pod/container populations and the direct oracle on implementation output "
                "(in-process and end to end). A container whose final ExecStart store fails after the pod look-up stays recorded (possible only with a NUL in an argument; stated in C09_registered_spec).",
        "technique": "machine-checked proof in Rocq (Coq 8.16): table-effect lemmas for all seven converters (errors carry a table only from the two with_tbl sites), invariants of the table along the run, "
                     "composition over the sorted run + direct oracle on pod/container sets + differential correspondence",
        "design": "DESIGN.md §7 C09",
    },
    "C10": {
        "text": "Rocq theorems over the process/output model: INDEPENDENCE -- C10_added_files_change_nothing / C10_added_files_keep_results (for every set of files and every subset of it: if the files left out have other file names than "
                "the files kept and every non-pod unit of the subset converts, then every non-pod unit of the subset has exactly the same result -- service text and service file name -- in the run over the whole set; the added files may be valid, "
                "fail conversion, or not load at all), by C10_convert_one_monotone (a successful conversion is unchanged under any name table that has more entries or longer container lists), table-effect lemmas for all seven converters in every "
                "outcome, C10_sort_filter (the stable priority sort commutes with leaving units out) and C10_unloadable_files_change_nothing; C10_independence_example shows the premises are satisfiable; C10_added_files_change_nothing_pods extends the statement to pods (a pod keeps its service too unless one of the added units names it in Pod=; C10_pod_independence_example shows both sides); C10_priority_table ties the conversion order of the model to main.rs. Bookkeeping: C10_exit (exit status 1 exactly "
                "when the error list is non-empty, 0 exactly when it is empty), C10_one_result_per_file, C10_each_unit_converted_once. All of these also for the run over unit files merged with their drop-ins (process_trees: C10_*_with_dropins, where leaving a file out leaves its drop-ins out with it). DISCOVERY ORDER: C10_lone_unit_result_any_order (a unit that converts on its own has that same result in every run containing its file, under every permutation of the files, whatever the others are; C10_lone_unit_example) and C10_group_result_any_surroundings (a group of files whose non-pod units convert on their own: each has the same result in any two runs that contain the group in the same relative order, whatever the other files are and wherever they were discovered). PARTIAL beyond that: independence from "
                "placements over search directories and from creation order, and that every failure is logged with the file's path, are decided by the metamorphic "
                "end-to-end oracle (base set alone vs. base set + extras, service by service), together with the whole-set correspondence of the Process model used by C08/C09.",
        "note": "Trusted: Coq kernel; the process/output models; the logger (ERROR lines are matched by file name); a pod's service legitimately depends on member containers (excluded from the extras).",
        "technique": "machine-checked proof in Rocq (Coq 8.16) of independence (monotonicity in the name table along the whole run) and of the process bookkeeping + metamorphic end-to-end oracle",
        "design": "DESIGN.md §7 C10",
    },
    "C11": {
        "text": "Rocq theorems on the model, whose converters have an explicit Panic outcome at every input-dependent unwrap/expect/index site: C11_run_never_panics (for arbitrary file contents and "
                "ordinary paths -- no NUL, a file name -- the whole run: load, name table, all seven converters, never reaches a Panic outcome), C11_convert_never_panics, C11_load_never_panics, "
                "C11_stored_values_readable (whatever add()/set() store for a value without NUL reads back, so no look-up of the generator's own entries panics). PARTIAL by nature beyond the model. "
                "Also: C11_parsed_units_validated and C11_merged_units_validated (every unit the parser returns, and every merge of such units, holds only values that passed "
                "load-time validation -- an invariant over the one-character-per-step parser machine), C11_lookups_do_not_panic (on such units no look-up reaches unquote().expect()), "
                "C11_values_have_no_nul, C11_total_functions (the parser is a structurally recursive function: a result for every text, no fuel), C11_pinned_refuted. Every other panic-capable site "
                "(63 sites) is listed with its status in tools/panic_sites.json and re-scanned on every run; the model carries explicit Panic outcomes whose occurrences are compared with the implementation's "
                "panics. Fuzzing (in-process under catch_unwind: wild units, unit sets, mutated repository examples; the real binary: adversarial file names and contents) covers the rest by sampling only.",
        "note": "Trusted: Coq kernel; the panic-site scanner; panics inside csv/walkdir/std/logger, stack exhaustion and allocation failure are not expressible in the model.",
        "technique": "machine-checked proof in Rocq (Coq 8.16) of validation invariants over the parser machine + panic-site inventory + model-vs-implementation panic correspondence + fuzzing",
        "design": "DESIGN.md §7 C11",
    },
    "C12": {
        "text": "PARTIAL. Rocq theorems for the lexical core of enable_service_file over the std::path model: C12_inside (normalising any relative path yields k times '..' followed by plain "
                "names), C12_accepted_alias_is_plain (an Alias word passing the repaired filter normalises to plain names only -- never absolute, never climbing), C12_resolves (a link n "
                "components below the output directory with target (../)^(n-1) file resolves to <output dir>/file, for all depths and positions), and C12_pinned_refuted. That the real function creates "
                "exactly the requested links and creates, replaces or deletes nothing outside the output directory is decided by the direct oracle: the real enable_service_file run in scratch trees "
                "with decoy files outside (absolute, climbing, '/', '..' aliases, WantedBy/RequiredBy words with '/', templates with and without DefaultInstance), before/after snapshots, readlink resolution, "
                "and correspondence with the Links model.",
        "note": "Trusted: Coq kernel; Spec/CleanRef.v; Model/Path.v std::path semantics; the file-system effects themselves (mkdir -p, unlink, symlink) are observed, not modelled.",
        "technique": "machine-checked proof in Rocq (Coq 8.16) of the path-normalisation and link-resolution lemmas + direct file-system oracle and model correspondence",
        "design": "DESIGN.md §7 C12",
    },
    "C13": {
        "text": "PARTIAL. Rocq theorems on lists: C13_first_wins (among the files met in search order exactly the first loadable file of each name is used, no name twice -- an iff characterisation), "
                "C13_dropin_shadowing (a drop-in name is provided by the first drop-in directory containing it), C13_dropin_dirs (drop-in directories are <search dir>/<unit file name>.d for every search dir, "
                "then the template directories), C13_pinned_refuted. Directory traversal (read_dir/walkdir order, recursion into subdirectories), loading and merging are exercised end to end with "
                "QUADLET_UNIT_DIRS layouts in which every unit and drop-in carries a marker label.",
        "note": "Trusted: Coq kernel; the list models of Model/Dropins.v (tied only by the end-to-end oracle, not by a per-function differential run); sibling order inside one directory is unspecified and not constrained; symlinked directories not covered.",
        "technique": "machine-checked proof in Rocq (Coq 8.16) of the shadowing algorithms + end-to-end oracle with marker files",
        "design": "DESIGN.md §7 C13",
    },
    "C14": {
        "text": "PARTIAL by nature. Rocq theorems over the filter logic on path components: C14_root (no directory at or below users/ is kept by the system generator) and C14_user (the user "
                "generator keeps exactly users/, users/<non-numeric first component>/... and users/<own uid>/..., for every path and uid -- an equivalence with the independent Spec/Allowed.v), "
                "C14_pinned_refuted. The real traversal (walkdir, symlinks, permissions, the XDG and system-wide directories) is exercised end to end: random trees staged in a private mount namespace "
                "(tmpfs over /etc, /run, /usr/share), the real binary run as root and as several UIDs with --dry-run, marker units per directory; plus a site inventory of get_root_dirs/get_rootless_dirs.",
        "note": "Trusted: Coq kernel; Spec/Allowed.v; 'reads' is taken as 'uses as a search directory' (walkdir still lists users/ while walking); needs root + unshare + setpriv (the check reports unavailability as a broken tie).",
        "technique": "machine-checked proof in Rocq (Coq 8.16) of the directory filters + end-to-end oracle in a mount namespace + site inventory",
        "design": "DESIGN.md §7 C14",
    },
    "C15": {
        "text": "Rocq theorems over the unit model: C15_list (list look-up = history after its last empty assignment, with C15_effective_is_suffix characterising that suffix "
                "declaratively), C15_last (single-valued look-up = last effective assignment, none after an empty last one), C15_kv (name=value look-up = last value per name among the "
                "words of the effective assignments), C15_dropins (merging a drop-in appends its history); all for arbitrary unbounded histories. The command-level clause is decided by a "
                "metamorphic oracle on the implementation (command for a history == command for its effective history; in-process and end to end with real drop-in files), not yet by a theorem "
                "over a converter model: partial in that respect. WITH DROP-INS: C15_merged_history and C15_rules_with_dropins (on the unit the run converts -- main file merged with its drop-ins -- each of the three reading rules is applied to the history over the main file followed by the drop-ins in merge order).",
        "note": "Trusted: Coq kernel; Spec/Effective.v; extraction; driver; the model of ordered-multimap semantics in Model/Unit.v (validated by differential runs).",
        "technique": "machine-checked proof in Rocq (Coq 8.16) of the look-up folds + differential correspondence and metamorphic conversion oracle",
        "design": "DESIGN.md §7 C15",
    },
    "C16": {
        "text": "Rocq theorems over the model of all seven converters: C16_tables (the allow-lists regenerated from the source = the documented key sets; finite), C16_reject / "
                "C16_reject_quadlet (for every unit, path, name table and environment, an undocumented key in the unit's own section or in [Quadlet] means no service is generated), "
                "C16_error_names_key (the error is UnknownKey naming an undocumented key of the unit), C16_accept (documented keys only => never an UnknownKey error; by typing of the converter bodies "
                "plus the prologue), C16_reject_in_the_run_with_dropins (over the whole run with drop-ins, process_trees: an undocumented key in the own section or [Quadlet] of the main file OR OF ANY DROP-IN means the run has no service for that file, whatever the other files are; C16_dropin_unknown_key_example). Full over the model; the file name in the message and 'no service file, exit 1' are decided by the direct oracle (in-process and end to end).",
        "note": "Trusted: Coq kernel; tools/docs.py / Spec/Docs.v as the transcript of the documentation; the converter model (validated by differential runs on adversarial units of all types); extraction; driver.",
        "technique": "machine-checked proof in Rocq (Coq 8.16) over the converter model + regenerated tables + guard-call inventory + differential correspondence check",
        "design": "DESIGN.md §7 C16",
    },
    "C17": {
        "text": "Rocq theorems over the std::path/PathBufExt model: C17_abs (for every absolute base directory and every path not starting with a specifier, absolute_from "
                "returns the canonical spelling of the position reached by walking the segments from the root -- '.' stays, '..' goes up but never above '/', repeated and trailing "
                "separators vanish -- and consults no current directory), C17_normal (no '.', '..' or empty segment remains), C17_result_absolute, C17_specifier; unbounded. "
                "Call sites (Yaml, ConfigMap, EnvironmentFile, Volume/Mount sources, SetWorkingDirectory) are decided by a direct oracle on converter output run from two working directories, not yet by theorems.",
        "note": "Trusted: Coq kernel; Spec/CleanRef.v (walk); the std::path semantics written in Model/Path.v (validated by differential runs); extraction; driver.",
        "technique": "machine-checked proof in Rocq (Coq 8.16): push/pop normaliser = lexical walk + differential correspondence check",
        "design": "DESIGN.md §7 C17",
    },
    "C18": {
        "text": "PARTIAL by nature. Rocq theorem C18_reported over the output-phase model with a fault oracle (which of create / write / flush fails for which file): for every run of any number of "
                "services and every placement of faults, a faulty file is in the error list, the exit status is 1, that service is not enabled and every fault-free service is still written completely and enabled; "
                "C18_pinned_refuted (the dropped BufWriter lost the flush error). Which OS errors occur and when the buffer flushes is runtime behaviour: exercised end to end (directory in the way, "
                "/dev/full behind the service path with small and >8 KiB units, read-only file as an unprivileged user, output directory not creatable) at every position of a 3-unit run; plus a write-site inventory.",
        "note": "Trusted: Coq kernel; Model/Output.v as the reading of process/generate_service_file (tied by the site inventory and the end-to-end oracle); the kernel's error behaviour.",
        "technique": "machine-checked proof in Rocq (Coq 8.16) over a fault-oracle model + end-to-end fault injection + write-site inventory",
        "design": "DESIGN.md §7 C18",
    },
    "C19": {
        "text": "Rocq theorems C19_serialisers_agree (write_to, call by call, emits exactly the text of to_string, for every unit), C19_no_effects (a dry run has no file-system effect, only prints; same errors and "
                "exit status as accumulated before the output phase), C19_same_text (every printed block is the text a fault-free real run writes after the generated-by line). Over the output-phase model; "
                "the tie is end to end: random trees of valid, wild and broken units run twice (dry and real) with before/after snapshots, block-by-block text comparison, exact byte count of stdout, error lines and exit status.",
        "note": "Trusted: Coq kernel; Model/Output.v; the logger (only ERROR lines are compared, PID prefix stripped); name=value option runs compared sorted as the property allows.",
        "technique": "machine-checked proof in Rocq (Coq 8.16) of the serialiser equality and the dry-run model + end-to-end double-run oracle",
        "design": "DESIGN.md §7 C19",
    },
    "C20": {
        "text": "Rocq theorem C20_exact: for every code-point string s, the model of the hand-written recogniser accepts s iff s is in the language "
                "digits+ ('-' digits+)? ('/tcp'|'/udp')? stated declaratively (PortRe); full for the recogniser. Tied to /repo by differential runs "
                "through the real container converter (exhaustive over a 10-symbol alphabet to length 4/6) and a direct oracle on the implementation's "
                "output (accept <=> regex, '--expose <trimmed value>' present, rejection quotes the value). The call-site clause is checked by that oracle, not yet by a theorem. "
                "Call site proved over the whole container converter: C20_callsite_accepts (if a container converts, every effective ExposeHostPort= value, trimmed, is in the language and the command carries exactly --expose <trimmed value> for each of them, in order, as one consecutive run) and C20_callsite_rejects (a value outside the language makes the conversion of that container fail). RUN LEVEL: C20_every_container_service_of_the_run (every container service of the whole run with drop-ins: the effective ExposeHostPort= values of the merged unit are in the language and the command carries --expose for each).",
        "note": "Trusted: Coq kernel; Spec/PortRe.v; extraction; driver; the Python regex used as search oracle. Unicode trim at the call site is modelled (Model/PortRange.v trim) and compared, not proved.",
        "technique": "machine-checked proof in Rocq (Coq 8.16): recogniser = regular language, plus differential correspondence check",
        "design": "DESIGN.md §7 C20",
    },
}

ALL = ["C%02d" % i for i in range(1, 21)]


def main():
    hook_commits = subprocess.run("git -C /repo log --format=%h --grep='^verif hook'", shell=True, stdout=subprocess.PIPE).stdout.decode().split()
    checks = []
    for pid in ALL:
        if pid not in CLAIMED:
            continue
        c = CLAIMED[pid]
        checks.append({
            "property_id": pid,
            "quick_cmd": "./check %s --tier quick" % pid,
            "thorough_cmd": "./check %s --tier thorough" % pid,
            "evidence_file": "/verif/evidence/%s.json" % pid,
            "replay_cmd_template": "./check %s --replay {path}" % pid,
            "engine": "rocq-model-proof",
            "level_claimed": {"category": "proof", "text": c["text"], "design_ref": c["design"]},
            "level_note": c["note"],
            "technique": c["technique"],
        })
    m = {
        "version": 1,
        "setup_cmd": "./setup.sh",
        "hooks": {
            "guard": "--cfg quadlet_rs_verif (rustc cfg; Cargo.toml untouched)",
            "enable": "RUSTFLAGS='--cfg quadlet_rs_verif' CARGO_TARGET_DIR=/verif/.build/target cargo build --offline  (compiles /verif/harness/verif_driver.rs into the crate as mod verif_driver; run with QUADLET_VERIF=1)",
            "baseline_off_cmd": "cd /repo && cargo test --workspace --no-fail-fast --offline",
            "source_commits": hook_commits,
            "add_only": True,
        },
        "engines": [{
            "name": "rocq-model-proof", "path": "/verif/coq",
            "serves_properties": [c["property_id"] for c in checks],
            "kind_free_text": "hand-written executable Gallina model + independent specs + pinned theorems (Coq 8.16.1); tie to /repo by regenerated tables, site inventories and differential runs of the extracted model against the implementation compiled from the working tree",
        }],
        "checks": checks,
        "notes": "Entry point ./check <id> [--tier quick|thorough] [--replay file]; VERIF_SEED seeds the single PRNG. known_findings.json lists recorded and fixed findings. See DESIGN.md.",
        "not_applicable": [{"property_id": p, "reason": NA.get(p, "check not built yet in this session (planned, see DESIGN.md §7); not claimed until its theorem and correspondence check exist")}
                           for p in ALL if p not in CLAIMED],
    }
    json.dump(m, open("/verif/MANIFEST.json", "w"), indent=1)
    print("MANIFEST: %d checks, %d not_applicable" % (len(checks), len(m["not_applicable"])))


NA = {}

if __name__ == "__main__":
    main()
