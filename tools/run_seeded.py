#!/usr/bin/env python3
"""Apply a seeded change (seeded/<id>/patch.diff) to /repo, run checks, record which ones alarm, and undo the change.
usage: run_seeded.py seeded/<id> [Cnn ...]       (default: the property of meta.json first, then all others)"""
import json, os, subprocess, sys, time

VERIF = "/verif"
ALL = ["C%02d" % i for i in range(1, 21)]


def main():
    d = os.path.abspath(sys.argv[1])
    meta_p = os.path.join(d, "meta.json")
    meta = json.load(open(meta_p)) if os.path.exists(meta_p) else {}
    props = sys.argv[2:] or ([meta.get("property")] if meta.get("property") else []) + [p for p in ALL if p != meta.get("property")]
    st = subprocess.run("git -C /repo status --porcelain", shell=True, stdout=subprocess.PIPE).stdout.decode().strip()
    if st:
        print("refusing: /repo has uncommitted changes:\n" + st)
        return 2
    r = subprocess.run(["git", "-C", "/repo", "apply", os.path.join(d, "patch.diff")])
    if r.returncode != 0:
        print("patch does not apply")
        return 2
    results = {}
    try:
        for p in props:
            t0 = time.time()
            r = subprocess.run(["./check", p, "--tier", "quick"], cwd=VERIF, stdout=subprocess.PIPE, stderr=subprocess.STDOUT)
            out = r.stdout.decode("utf-8", "replace")
            viol = [l for l in out.split("\n") if l.startswith("VIOLATION")]
            detail = None
            if viol:
                rp = viol[0].split("replay=")[1].split()[0]
                try:
                    o = json.load(open(rp))
                    f = o.get("failure") or {}
                    detail = {"what": (f.get("what") or "")[:300], "broken": [b[:200] for b in o.get("broken", [])[:3]]}
                    # keep a copy of the replay next to the seeded change
                    if p == meta.get("property"):
                        json.dump(o, open(os.path.join(d, "replay_%s.json" % p), "w"), indent=1, default=str)
                except Exception as e:
                    detail = {"what": "replay unreadable: %s" % e}
            results[p] = {"exit": r.returncode, "violation": viol[0] if viol else None, "detail": detail, "wall_s": round(time.time() - t0, 1)}
            print(p, r.returncode, (viol[0] if viol else ""), (detail or {}).get("what", "")[:160])
    finally:
        subprocess.run("git -C /repo checkout -- . && git -C /repo clean -fdq -e target", shell=True)
    json.dump({"ran": props, "results": results}, open(os.path.join(d, "detection.json"), "w"), indent=1)
    # the evidence files must describe the unchanged tree: re-run what was run, now on the clean tree
    for p in props:
        r = subprocess.run(["./check", p, "--tier", "quick"], cwd=VERIF, stdout=subprocess.PIPE, stderr=subprocess.STDOUT)
        if r.returncode != 0:
            print("WARNING: %s does not pass on the clean tree after the run" % p)
    caught = [p for p, v in results.items() if v["exit"] != 0]
    print("caught by:", caught)
    return 0


if __name__ == "__main__":
    sys.exit(main())
