"""ctypes bridge to the real systemd extract_first_word (libsystemd-shared), used only to validate
coq/Spec/SdExtract.v and as a second oracle.  DESIGN.md §5."""
import ctypes, glob

RELAX, CUNESCAPE, UNESCAPE_RELAX, UNESCAPE_SEP, KEEP_QUOTE, UNQUOTE, DONT_COALESCE, RETAIN_ESCAPE, RETAIN_SEP = [1 << i for i in range(9)]
FLAGS = {"exec": UNQUOTE | CUNESCAPE, "args": UNQUOTE | CUNESCAPE | RELAX, "strv": UNQUOTE | RETAIN_ESCAPE}

_lib = None
_libc = None


def available():
    global _lib, _libc
    if _lib is not None:
        return True
    c = sorted(glob.glob("/usr/lib/x86_64-linux-gnu/systemd/libsystemd-shared-*.so")) + sorted(glob.glob("/usr/lib/*/systemd/libsystemd-shared-*.so"))
    for p in c:
        try:
            lib = ctypes.CDLL(p)
            lib.extract_first_word.argtypes = [ctypes.POINTER(ctypes.c_char_p), ctypes.POINTER(ctypes.c_void_p), ctypes.c_char_p, ctypes.c_int]
            lib.extract_first_word.restype = ctypes.c_int
            _lib = lib
            _libc = ctypes.CDLL(None)
            _libc.free.argtypes = [ctypes.c_void_p]
            return True
        except (OSError, AttributeError):
            continue
    return False


def split(s: bytes, mode: str):
    """returns list of bytes words, or None on error.  s must not contain NUL."""
    flags = FLAGS[mode]
    buf = ctypes.create_string_buffer(s)
    p = ctypes.c_char_p(ctypes.addressof(buf))
    out = []
    while True:
        ret = ctypes.c_void_p()
        r = _lib.extract_first_word(ctypes.byref(p), ctypes.byref(ret), None, flags)
        if r < 0:
            return None
        if r == 0:
            return out
        out.append(ctypes.string_at(ret.value))
        _libc.free(ret)
