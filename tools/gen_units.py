"""Generators of unit models, renderings (layouts) and mutated unit texts; shared by C03, C06, C07, C15, C11."""
import random

KEYCH = "ABCXYZabcxyz0189-"
VALCH = ["a", "b", "c", " ", " ", "=", ":", ",", "%", "/", ".", "@", "[", "]", "#", ";", '"', "'", "\\\\", "\\n", "\\t", "\\x41", "\\u00e9", "\\s",
         "é", "\U0001F600", "-", "1", "x", "\t", "\\\"", "\\'", "\\101", "$", "~"]
SECNAMES = ["Unit", "Service", "Install", "Container", "X-Foo", "Sec A", "s", "Quadlet", "a]b".replace("]", ""), "Z=9", "#s", "é"]


def gen_key(rng):
    return "".join(rng.choice(KEYCH) for _ in range(rng.randint(1, 6)))


def gen_value(rng, maxlen=8):
    """a raw value that the file format can carry: no raw NL, no leading blank, no trailing white space,
    escapes complete, and accepted by unquote_value (the harness filters with the implementation)"""
    n = rng.choice([0, 1, 2, 3, 4, 6, maxlen])
    v = "".join(rng.choice(VALCH) for _ in range(n))
    v = v.strip(" \t")
    return v


def gen_model(rng, nsec=None):
    """list of (section, [(key, value)]) in file order; sections may repeat"""
    out = []
    for _ in range(nsec if nsec is not None else rng.choice([1, 1, 2, 3, 4])):
        sec = rng.choice(SECNAMES)
        es = [(gen_key(rng), gen_value(rng)) for _ in range(rng.choice([0, 1, 2, 3, 5]))]
        out.append((sec, es))
    return out


def merged(model):
    """what reading must yield: repeated headers extend the same section, first-occurrence order"""
    order, d = [], {}
    for sec, es in model:
        if sec not in d:
            d[sec] = []
            order.append(sec)
        d[sec].extend(es)
    return [(s, d[s]) for s in order]


def comment_line(rng):
    body = "".join(rng.choice(["a", " ", "=", "[", "]", "\\", "#", ";", "x", '"']) for _ in range(rng.randint(0, 6)))
    # a comment ending in a backslash is still just a comment
    return rng.choice(["#", ";"]) + body + rng.choice(["", "", "\\"])


def render_value(rng, v, fancy):
    """spell raw value v: optionally break at single blanks with a continuation"""
    if not fancy or " " not in v:
        return v
    out, i = [], 0
    while i < len(v):
        c = v[i]
        # a single blank between two non-blank, non-backslash characters may be written as  \ NL
        # (Spec/Layout.v VSBreak: the character after the broken blank may itself be a blank -- the continued line then begins with blanks)
        if c == " " and 0 < i < len(v) - 1 and v[i - 1] not in " \\\t" and (v[i + 1] not in " \t" or (v[i + 1] == " " and v[i + 1:].strip(" ") != "")) and rng.random() < 0.5:
            nxt = v[i + 1]
            if nxt not in "#;[\n\\":
                out.append("\\" + rng.choice(["", "", " ", "  "]) + "\n")
                for _ in range(rng.choice([0, 0, 1, 2])):
                    out.append(comment_line(rng) + "\n")
                i += 1
                continue
        out.append(c)
        i += 1
    return "".join(out)


def render(rng, model, fancy=True):
    """a rendering of the model with random layout"""
    L = []
    for _ in range(rng.choice([0, 0, 1, 2]) if fancy else 0):
        L.append(rng.choice([comment_line(rng), "", "  ", "\t"]))
    lws = lambda: rng.choice(["", "", "", " ", "\t", "  ", "\t \t", "\x0c", " \r"]) if fancy else ""      # Spec/Layout.v LineWs: SP TAB FF CR
    for sec, es in model:
        # a header may be indented and followed by white space; junk lines (blank / comment) may be indented too (JunkLine, SCons)
        L.append(lws() + "[%s]" % sec + lws())
        for k, v in es:
            if fancy:
                for _ in range(rng.choice([0, 0, 0, 1, 2])):
                    L.append(rng.choice([lws() + comment_line(rng), comment_line(rng), "", " ", "\t \t"]))
            ind = rng.choice(["", "", " ", "\t", "  "]) if fancy else ""
            pre = rng.choice(["", "", " ", "\t", "  "]) if fancy else ""
            post = rng.choice(["", "", " ", "\t ", "  "]) if fancy else ""
            trail = rng.choice(["", "", " ", "\t", "  \t", "\r", " \r", "\x0c"]) if fancy else ""       # also CR LF line ends: trailing white space of every kind is dropped
            line = ind + k + pre + "=" + post + render_value(rng, v, fancy) + trail
            if fancy and rng.random() < 0.1:
                # the value's last line ends in a backslash and the next line is empty or blank (Spec/Layout.v, ELTrail)
                line += "\\" + rng.choice(["", "", " ", "  "]) + "\n"
                for _ in range(rng.choice([0, 0, 1])):
                    line += comment_line(rng) + "\n"
                line += rng.choice(["", "", "", " ", "\t "])
            L.append(line)
        if fancy and rng.random() < 0.3:
            L.append("")
    text = "\n".join(L)
    if not fancy or rng.random() < 0.8:
        text += "\n"
    return text


def mutate(rng, text):
    """byte-level-ish mutation of a unit text"""
    t = list(text)
    for _ in range(rng.choice([1, 1, 2, 3])):
        op = rng.choice(["del", "ins", "dup", "swap"])
        if not t:
            op = "ins"
        if op == "del":
            del t[rng.randrange(len(t))]
        elif op == "ins":
            t.insert(rng.randrange(len(t) + 1), rng.choice(["\n", "\\", "[", "]", "=", "#", ";", " ", "\t", '"', "'", "\r", "\x0c", "\x0b", "a", "\\x", "\\\n", " \\\n[", "é", "\0"]))
        elif op == "dup":
            i = rng.randrange(len(t)); t.insert(i, t[i])
        else:
            i, j = rng.randrange(len(t)), rng.randrange(len(t)); t[i], t[j] = t[j], t[i]
    return "".join(t)
