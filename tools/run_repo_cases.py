#!/usr/bin/env python3
"""dev aid: run /repo/tests/testcase-runner.py (needs Path.walk, python >= 3.12) under python 3.11 with a shim"""
import os, pathlib, runpy, sys
if not hasattr(pathlib.Path, "walk"):
    pathlib.Path.walk = lambda self: ((pathlib.Path(d), dn, fn) for d, dn, fn in os.walk(self))
sys.argv = ["testcase-runner.py", "/repo/tests/cases", sys.argv[1] if len(sys.argv) > 1 else "/repo/target/debug/quadlet-rs"]
runpy.run_path("/repo/tests/testcase-runner.py", run_name="__main__")
