"""A fixed end-to-end scenario shared by C02, C08 and C10: units that reference units of another type, with the referring file
discovered BEFORE the referenced one (it sits in an earlier search directory) and, for comparison, after it.  The conversion order
must not depend on the discovery order: process() sorts by type priority so that a referenced volume/network/image has stored its
object name before anything that refers to it is converted."""
import os, re
import vlib, e2e

REFERRERS = {
    "bld.build": "[Build]\nImageTag=localhost/bld\nFile=/Containerfile\nVolume=cache.volume:/var/cache/build:z\nNetwork=net.network\n",
    "imgvol.volume": "[Volume]\nDriver=image\nImage=base.image\n",
    "web.container": "[Container]\nImage=base.image\nVolume=cache.volume:/srv\nNetwork=net.network\n",
    "kb.kube": "[Kube]\nYaml=/k.yaml\nNetwork=net.network\n",
    "pd.pod": "[Pod]\nNetwork=net.network\nVolume=cache.volume:/pv\n",
}
REFERENCED = {
    "cache.volume": "[Volume]\n",
    "net.network": "[Network]\n",
    "base.image": "[Image]\nImage=quay.io/base:1\n",
}
# service file -> argument runs its podman command must contain
EXPECT = {
    "bld-build.service": [["-v", "systemd-cache:/var/cache/build:z"], ["--network", "systemd-net"]],
    "imgvol-volume.service": [["--opt", "image=quay.io/base:1"]],
    "web.service": [["-v", "systemd-cache:/srv"], ["--network", "systemd-net"], ["quay.io/base:1"]],
    "kb.service": [["--network", "systemd-net"]],
    "pd-pod.service": [["--network", "systemd-net"], ["-v", "systemd-cache:/pv"]],
}


def run(box, tag="refs"):
    """-> list of (label, {service file: [(key, argv)]}, rc, stderr text, raw services)"""
    res = []
    for label, order in (("referring files discovered first", ("a", "b")), ("referenced files discovered first", ("b", "a"))):
        root = box.path("%s_%s" % (tag, order[0]))
        e2e.make_tree(root, {"a/" + k: v for k, v in REFERRERS.items()})
        e2e.make_tree(root, {"b/" + k: v for k, v in REFERENCED.items()})
        rc, out, err = e2e.run_quadlet([os.path.join(root, d) for d in order], os.path.join(root, "out"), dry_run=True)
        svcs = {os.path.basename(k): v for k, v in e2e.parse_dry_run(out).items()}
        cmds = {}
        for name, text in svcs.items():
            ex = [l for l in text.split("\n") if re.match(r"Exec\w*=", l)]
            argvs = vlib.sd_split_many([l.split("=", 1)[1].encode() for l in ex]) if ex else []
            cmds[name] = [(l.split("=", 1)[0], [a.decode("utf-8", "replace") if isinstance(a, bytes) else a for a in argv]) for l, argv in zip(ex, argvs)]
        res.append((label, cmds, rc, err.decode("utf-8", "replace"), svcs))
    return res


def contains_run(argv, run_):
    n = len(run_)
    return any(argv[i:i + n] == run_ for i in range(len(argv) - n + 1))


def failures(res):
    """direct oracle: every expected argument run is present in some command of the service, in both discovery orders; and the two
    orders generate the same services"""
    bad = []
    for label, cmds, rc, err, svcs in res:
        if rc != 0:
            bad.append("%s: exit status %s: %s" % (label, rc, err[-300:]))
        for name, runs in EXPECT.items():
            if name not in cmds:
                bad.append("%s: %s is not generated (%s)" % (label, name, " | ".join(l for l in err.split("\n") if name.split(".")[0].split("-")[0] in l)[:300]))
                continue
            for r in runs:
                if not any(contains_run(argv, r) for _, argv in cmds[name]):
                    bad.append("%s: %s lacks %s: %s" % (label, name, r, [argv for k, argv in cmds[name] if k in ("ExecStart", "ExecStartPre")][:2]))
    if len(res) == 2 and not bad:
        a, b = res[0][4], res[1][4]
        strip = lambda t: "\n".join(l for l in t.split("\n") if not l.startswith("SourcePath="))
        for name in set(a) | set(b):
            if strip(a.get(name, "")) != strip(b.get(name, "")):
                bad.append("%s differs between the two discovery orders" % name)
    return bad
