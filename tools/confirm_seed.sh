#!/bin/sh
# confirm a seeded change delivered in $1 (patch.diff, demo.sh): compiles, suite unchanged, demo fails with / passes without.
# usage: confirm_seed.sh /tmp/seed-C04
set -u
SRC=$1
WT=/tmp/wt-confirm
[ -d $WT ] || git -C /repo worktree add -q $WT HEAD
git -C $WT checkout -q --detach $(git -C /repo rev-parse HEAD) 2>/dev/null
git -C $WT checkout -- . ; git -C $WT clean -fdq -e target
echo "== demo on clean tree"; bash $SRC/demo.sh $WT >/tmp/confirm_clean.log 2>&1; echo "exit=$?"
git -C $WT apply $SRC/patch.diff || { echo "PATCH DOES NOT APPLY"; exit 2; }
echo "== suite with patch"; (cd $WT && CARGO_TARGET_DIR=$WT/target cargo test --offline 2>&1 | grep "test result")
echo "== demo on patched tree"; bash $SRC/demo.sh $WT >/tmp/confirm_patched.log 2>&1; echo "exit=$?"
git -C $WT checkout -- . ; git -C $WT clean -fdq -e target
