// Verification driver for quadlet-rs.  Compiled INTO the repo crate (as `crate::verif_driver`) only under
// `--cfg quadlet_rs_verif`; see /verif/DESIGN.md §6.3.  Line protocol on stdin/stdout:
//   request : op TAB hexfield TAB hexfield ...        (hex of raw bytes; "-" encodes the empty field)
//   response: TAG TAB token ...                        (TAG in OK ERR PANIC; other tokens hex or bare tags)
// Every request is executed under catch_unwind, one response line per request line.
#![allow(dead_code, unused_imports, unexpected_cfgs)]

use std::ffi::OsString;
use std::io::{self, BufRead, Write};
use std::os::unix::ffi::{OsStrExt, OsStringExt};
use std::path::{Path, PathBuf};

use crate::quadlet::convert;
use crate::quadlet::*;
use crate::systemd_unit::*;

fn hex(b: &[u8]) -> String {
    if b.is_empty() {
        return "-".into();
    }
    let mut s = String::with_capacity(b.len() * 2);
    for x in b {
        s.push_str(&format!("{:02x}", x));
    }
    s
}

fn unhex(s: &str) -> Vec<u8> {
    if s == "-" {
        return vec![];
    }
    let b = s.as_bytes();
    let mut out = Vec::with_capacity(b.len() / 2);
    let v = |c: u8| -> u8 {
        match c {
            b'0'..=b'9' => c - b'0',
            b'a'..=b'f' => c - b'a' + 10,
            b'A'..=b'F' => c - b'A' + 10,
            _ => 0,
        }
    };
    let mut i = 0;
    while i + 1 < b.len() {
        out.push(v(b[i]) * 16 + v(b[i + 1]));
        i += 2;
    }
    out
}

fn s(f: &[u8]) -> String {
    String::from_utf8(f.to_vec()).expect("driver: field must be UTF-8")
}

fn dump_unit(u: &SystemdUnit, out: &mut Vec<String>) {
    for (name, entries) in u.sections.iter() {
        out.push("S".into());
        out.push(hex(name.as_bytes()));
        for (k, v) in entries.data.iter() {
            out.push("E".into());
            out.push(hex(k.as_bytes()));
            out.push(hex(v.raw().as_bytes()));
        }
    }
    out.push(".".into());
}

fn err_class<E: std::fmt::Debug>(e: &E) -> String {
    let d = format!("{:?}", e);
    d.split(|c: char| !(c.is_alphanumeric() || c == '_'))
        .next()
        .unwrap_or("")
        .to_string()
}

fn prio(t: &QuadletType) -> usize {
    // mirrors main.rs::process (checked against the source by tools/gen_tables.py: sorting_priority)
    match t {
        QuadletType::Image => 1,
        QuadletType::Network | QuadletType::Volume => 2,
        QuadletType::Build => 3,
        QuadletType::Container | QuadletType::Kube => 4,
        QuadletType::Pod => 5,
        #[allow(unreachable_patterns)]
        _ => usize::MAX,
    }
}

/// fields: is_user ("1"/"0" as text), then (path, text)*.  Mirrors the conversion loop of main.rs::process
/// (stable sort by priority), without touching the file system.
fn op_convert(f: &[Vec<u8>]) -> Vec<String> {
    let is_user = f[0] == b"1";
    let mut out = vec!["OK".to_string()];
    let mut units: Vec<QuadletUnitFile> = Vec::new();
    let mut i = 1;
    while i + 1 < f.len() {
        let path = PathBuf::from(OsString::from_vec(f[i].clone()));
        let text = &f[i + 1];
        i += 2;
        let text = match std::str::from_utf8(text) {
            Ok(t) => t,
            Err(_) => {
                out.push("L".into());
                out.push(hex(path.as_os_str().as_bytes()));
                out.push("ERR".into());
                out.push("Utf8".into());
                out.push("-".into());
                continue;
            }
        };
        match SystemdUnit::load_from_str(text) {
            Ok(u) => {
                let mut file = SystemdUnitFile::new();
                file.path = path.clone();
                *std::ops::DerefMut::deref_mut(&mut file) = u;
                match QuadletUnitFile::from_unit_file(file) {
                    Ok(q) => units.push(q),
                    Err(e) => {
                        out.push("L".into());
                        out.push(hex(path.as_os_str().as_bytes()));
                        out.push("ERR".into());
                        out.push(err_class(&e));
                        out.push(hex(e.to_string().as_bytes()));
                    }
                }
            }
            Err(e) => {
                out.push("L".into());
                out.push(hex(path.as_os_str().as_bytes()));
                out.push("ERR".into());
                out.push(err_class(&e));
                out.push(hex(e.to_string().as_bytes()));
            }
        }
    }
    units.sort_by_key(|q| prio(&q.quadlet_type));
    let mut map = UnitsInfoMap::from_quadlet_units(units.clone());
    for q in units {
        let unit = &q.unit_file;
        let r = match q.quadlet_type {
            QuadletType::Build => convert::from_build_unit(unit, &mut map, is_user),
            QuadletType::Container => convert::from_container_unit(unit, &mut map, is_user),
            QuadletType::Image => convert::from_image_unit(unit, &mut map, is_user),
            QuadletType::Kube => convert::from_kube_unit(unit, &mut map, is_user),
            QuadletType::Network => convert::from_network_unit(unit, &mut map, is_user),
            QuadletType::Pod => convert::from_pod_unit(unit, &mut map, is_user),
            QuadletType::Volume => convert::from_volume_unit(unit, &mut map, is_user),
            #[allow(unreachable_patterns)]
            _ => continue,
        };
        out.push("F".into());
        out.push(hex(unit.path().as_os_str().as_bytes()));
        match r {
            Ok(svc) => {
                out.push("OK".into());
                out.push(hex(svc.path().as_os_str().as_bytes()));
                dump_unit(&svc, &mut out);
            }
            Err(e) => {
                out.push("ERR".into());
                out.push(err_class(&e));
                out.push(hex(e.to_string().as_bytes()));
            }
        }
    }
    out
}

fn load_unit(text: &[u8]) -> Result<SystemdUnit, String> {
    let t = std::str::from_utf8(text).map_err(|_| "Utf8".to_string())?;
    SystemdUnit::load_from_str(t).map_err(|e| err_class(&e))
}

fn run_case(op: &str, f: &[Vec<u8>]) -> Vec<String> {
    let ok = |toks: Vec<String>| {
        let mut v = vec!["OK".to_string()];
        v.extend(toks);
        v
    };
    match op {
        "quote_words" => {
            let words: Vec<String> = f.iter().map(|w| s(w)).collect();
            ok(vec![hex(quote_words(words.iter().map(|w| w.as_str())).as_bytes())])
        }
        "quote_value" => ok(vec![hex(quote_value(&s(&f[0])).as_bytes())]),
        "unquote" => match unquote_value(&s(&f[0])) {
            Ok(r) => ok(vec![hex(r.as_bytes())]),
            Err(_) => vec!["ERR".into()],
        },
        "split_word" => {
            let raw = s(&f[0]);
            ok(SplitWord::new(&raw).map(|w| hex(w.as_bytes())).collect())
        }
        "split_strv" => {
            let raw = s(&f[0]);
            ok(SplitStrv::new(&raw).map(|w| hex(w.as_bytes())).collect())
        }
        "parse" => match load_unit(&f[0]) {
            Ok(u) => {
                let mut o = vec![];
                dump_unit(&u, &mut o);
                ok(o)
            }
            Err(c) => vec!["ERR".into(), c],
        },
        // render: text -> parse -> to_string and concatenated write_to output
        "render" => match load_unit(&f[0]) {
            Ok(u) => {
                let mut w: Vec<u8> = vec![];
                u.write_to(&mut w).unwrap();
                ok(vec![hex(u.to_string().as_bytes()), hex(&w)])
            }
            Err(c) => vec!["ERR".into(), c],
        },
        // build a unit by operations, then dump it and its to_string
        // fields: opname, args... ; ops: add sec key val | add_raw sec key raw | set sec key val | set_raw
        //         prepend sec key val | rename from to | merge text
        "unit_ops" => {
            let mut u = SystemdUnit::new();
            let mut i = 0;
            let mut errs = 0;
            while i < f.len() {
                let name = s(&f[i]);
                match name.as_str() {
                    "add" => { u.add(s(&f[i + 1]), s(&f[i + 2]), &s(&f[i + 3])); i += 4; }
                    "add_raw" => { if u.add_raw(s(&f[i + 1]), s(&f[i + 2]), &s(&f[i + 3])).is_err() { errs += 1; } i += 4; }
                    "set" => { u.set(s(&f[i + 1]), s(&f[i + 2]), &s(&f[i + 3])); i += 4; }
                    "set_raw" => { if u.set_raw(s(&f[i + 1]), s(&f[i + 2]), &s(&f[i + 3])).is_err() { errs += 1; } i += 4; }
                    "prepend" => { u.prepend(s(&f[i + 1]), s(&f[i + 2]), &s(&f[i + 3])); i += 4; }
                    "rename" => { u.rename_section(s(&f[i + 1]), s(&f[i + 2])); i += 3; }
                    "merge" => { if let Ok(o) = load_unit(&f[i + 1]) { u.merge_from(&o); } else { errs += 1; } i += 2; }
                    _ => panic!("driver: bad unit op"),
                }
            }
            let mut o = vec![format!("{}", errs)];
            dump_unit(&u, &mut o);
            o.push(hex(u.to_string().as_bytes()));
            ok(o)
        }
        // lookup: text, section, key, kind
        "lookup" => match load_unit(&f[0]) {
            Ok(u) => {
                let (sec, key, kind) = (s(&f[1]), s(&f[2]), s(&f[3]));
                match kind.as_str() {
                    "last" => match u.lookup_last(&sec, &key) { Some(v) => ok(vec!["SOME".into(), hex(v.as_bytes())]), None => ok(vec!["NONE".into()]) },
                    "last_raw" => match u.lookup_last_value(&sec, &key) { Some(v) => ok(vec!["SOME".into(), hex(v.raw().as_bytes())]), None => ok(vec!["NONE".into()]) },
                    "bool" => match u.lookup_bool(&sec, &key) { Some(true) => ok(vec!["TRUE".into()]), Some(false) => ok(vec!["FALSE".into()]), None => ok(vec!["NONE".into()]) },
                    "all" => ok(u.lookup_all(&sec, &key).iter().map(|v| hex(v.as_bytes())).collect()),
                    "all_raw" => ok(u.lookup_all_values(&sec, &key).iter().map(|v| hex(v.raw().as_bytes())).collect()),
                    "args" => ok(u.lookup_all_args(&sec, &key).iter().map(|v| hex(v.as_bytes())).collect()),
                    "strv" => ok(u.lookup_all_strv(&sec, &key).iter().map(|v| hex(v.as_bytes())).collect()),
                    "keyval" => {
                        let m = u.lookup_all_key_val(&sec, &key);
                        let mut kv: Vec<(String, String)> = m.into_iter().collect();
                        kv.sort();
                        ok(kv.iter().flat_map(|(k, v)| [hex(k.as_bytes()), hex(v.as_bytes())]).collect())
                    }
                    "has_key" => ok(vec![if u.has_key(&sec, &key) { "TRUE".into() } else { "FALSE".into() }]),
                    _ => panic!("driver: bad lookup kind"),
                }
            }
            Err(c) => vec!["ERR".into(), c],
        },
        "cleaned" => {
            let p = PathBuf::from(OsString::from_vec(f[0].clone()));
            ok(vec![hex(p.cleaned().as_os_str().as_bytes())])
        }
        "absolute_from" => {
            let p = PathBuf::from(OsString::from_vec(f[0].clone()));
            let root = PathBuf::from(OsString::from_vec(f[1].clone()));
            ok(vec![hex(p.absolute_from(&root).as_os_str().as_bytes())])
        }
        "absolute_from_unit" => {
            let p = PathBuf::from(OsString::from_vec(f[0].clone()));
            let mut file = SystemdUnitFile::new();
            file.path = PathBuf::from(OsString::from_vec(f[1].clone()));
            ok(vec![hex(p.absolute_from_unit(&file).as_os_str().as_bytes())])
        }
        "specifier" => {
            let p = PathBuf::from(OsString::from_vec(f[0].clone()));
            ok(vec![if p.starts_with_systemd_specifier() { "TRUE".into() } else { "FALSE".into() }])
        }
        "template_parts" => {
            let p = PathBuf::from(OsString::from_vec(f[0].clone()));
            let (a, b) = p.file_name_template_parts();
            let o = |x: Option<&str>| match x { Some(v) => format!("S{}", hex(v.as_bytes())), None => "N".to_string() };
            ok(vec![o(a), o(b)])
        }
        "parse_bool" => {
            let v = EntryValue::try_from_raw(s(&f[0]));
            match v {
                Ok(v) => match v.to_bool() { Ok(true) => ok(vec!["TRUE".into()]), Ok(false) => ok(vec!["FALSE".into()]), Err(_) => ok(vec!["INVALID".into()]) },
                Err(_) => vec!["ERR".into()],
            }
        }
        "convert" => op_convert(f),
        // enable: out dir, service file name, service unit text; performs real file-system effects below out dir
        "enable" => {
            let out = PathBuf::from(OsString::from_vec(f[0].clone()));
            match load_unit(&f[2]) {
                Ok(u) => {
                    let mut file = SystemdUnitFile::new();
                    file.path = out.join(PathBuf::from(OsString::from_vec(f[1].clone())));
                    *std::ops::DerefMut::deref_mut(&mut file) = u;
                    crate::enable_service_file(&out, &file);
                    ok(vec![])
                }
                Err(c) => vec!["ERR".into(), c],
            }
        }
        // genfile: full service path, service unit text; real effects
        "genfile" => match load_unit(&f[1]) {
            Ok(u) => {
                let mut file = SystemdUnitFile::new();
                file.path = PathBuf::from(OsString::from_vec(f[0].clone()));
                *std::ops::DerefMut::deref_mut(&mut file) = u;
                match crate::generate_service_file(&mut file) {
                    Ok(()) => ok(vec![]),
                    Err(e) => vec!["ERR".into(), format!("{:?}", e.kind())],
                }
            }
            Err(c) => vec!["ERR".into(), c],
        },
        _ => vec!["ERR".into(), "unknown-op".into()],
    }
}

pub(crate) fn maybe_run() -> bool {
    if std::env::var("QUADLET_VERIF").is_err() {
        return false;
    }
    std::panic::set_hook(Box::new(|_| {}));
    let stdin = io::stdin();
    let stdout = io::stdout();
    let mut out = io::BufWriter::new(stdout.lock());
    for line in stdin.lock().lines() {
        let line = line.unwrap();
        let mut it = line.split('\t');
        let op = it.next().unwrap_or("").to_string();
        let fields: Vec<Vec<u8>> = it.map(unhex).collect();
        let r = std::panic::catch_unwind(|| run_case(&op, &fields));
        match r {
            Ok(toks) => writeln!(out, "{}", toks.join("\t")).unwrap(),
            Err(p) => {
                let msg = if let Some(m) = p.downcast_ref::<String>() { m.clone() } else if let Some(m) = p.downcast_ref::<&str>() { m.to_string() } else { "?".into() };
                writeln!(out, "PANIC\t{}", hex(msg.as_bytes())).unwrap()
            }
        }
    }
    out.flush().unwrap();
    true
}
