#!/bin/sh
# MANIFEST.setup_cmd: build the whole framework offline from files on disk.
set -e
cd /verif
export CARGO_NET_OFFLINE=true
python3 tools/gen_tables.py
tools/mkcoq.sh
(cd coq && timeout 3000 make -j16 >/dev/null 2>&1 || (make -j16 2>&1 | tail -40; exit 1))
tools/mkocaml.sh
(cd /repo && RUSTFLAGS="--cfg quadlet_rs_verif" CARGO_TARGET_DIR=/verif/.build/target cargo build --offline --quiet 2>/dev/null || true)
echo "setup done"
