From QV Require Import Model.Base Generated.Tables Model.Quote Spec.Spelling Proofs.Util.
Open Scope N_scope.
Definition esc_check (c : N) (sp : str) : bool :=
  match sp with
  | [b; l] => (b =? cBS) && existsb (fun p => (fst p =? l) && (snd p =? c)) esc_table
  | [b; x; h1; h2] => (b =? cBS) && (x =? 120) &&
      match hexval h1, hexval h2 with Some d1, Some d2 => (hexfold [d1; d2] =? c) && negb (c =? 0) | _, _ => false end
  | _ => false
  end.
Eval vm_compute in filter (fun c => negb (negb (char_needs_escaping c) || (c =? 0) || esc_check c (esc_char c))) (upto 129).
Eval vm_compute in (esc_char 32, esc_char 34, esc_char 128).
