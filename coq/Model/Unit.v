(* Model of src/systemd_unit/unit.rs (SystemdUnit over ordered-multimap) and value.rs.
   A unit is an association list section name -> entries, names unique, in first-insertion order;
   entries are (key, raw value) pairs in insertion order (ListOrderedMultimap: append = snoc,
   get_all = filter, remove_all = partition, iter = global insertion order). *)
From QV Require Import Model.Base Model.Quote Model.Unquote Model.Split Model.PortRange.
Open Scope N_scope.

Definition entry := (str * str)%type.
Definition entries := list entry.
Definition unit := list (str * entries).

Definition section_entries (u : unit) (sec : str) : entries :=
  match assoc_str sec u with Some es => es | None => [] end.
Definition has_section (u : unit) (sec : str) : bool :=
  match assoc_str sec u with Some _ => true | None => false end.

(* add_entry_value: sections.entry(sec).or_insert_entry(default).data.append(key, value) *)
Fixpoint add_entry (u : unit) (sec key raw : str) : unit :=
  match u with
  | [] => [(sec, [(key, raw)])]
  | (n, es) :: r => if str_eqb sec n then (n, es ++ [(key, raw)]) :: r else (n, es) :: add_entry r sec key raw
  end.

Fixpoint ensure_section (u : unit) (sec : str) : unit :=
  match u with
  | [] => [(sec, [])]
  | (n, es) :: r => if str_eqb sec n then u else (n, es) :: ensure_section r sec
  end.

Fixpoint remove_section (u : unit) (sec : str) : unit :=
  match u with
  | [] => []
  | (n, es) :: r => if str_eqb sec n then r else (n, es) :: remove_section r sec
  end.

(* add(sec, key, value) stores EntryValue::new(value) = quote_value(value) *)
Definition unit_add (u : unit) (sec key value : str) : unit := add_entry u sec key (quote_value value).
(* add_raw validates with unquote_value first *)
Definition unit_add_raw (u : unit) (sec key raw : str) : option unit :=
  match unquote_value raw with Some _ => Some (add_entry u sec key raw) | None => None end.

Definition key_is (k : str) (e : entry) : bool := str_eqb (fst e) k.

(* lookup_all_values_raw *)
Definition values_raw (u : unit) (sec key : str) : list str :=
  map snd (filter (key_is key) (section_entries u sec)).

(* lookup_all_values: an empty raw value clears what was collected *)
Definition reset_fold (vs : list str) : list str :=
  fold_left (fun res v => match v with [] => [] | _ => res ++ [v] end) vs [].
Definition lookup_all_values (u : unit) (sec key : str) : list str := reset_fold (values_raw u sec key).

(* .last().filter(|v| !v.raw().is_empty()): an empty last assignment counts as "not set" *)
Definition lookup_last_value (u : unit) (sec key : str) : option str :=
  match last_opt (values_raw u sec key) with
  | Some [] => None
  | x => x
  end.
(* the pinned behaviour: the last assignment even if empty *)
Definition lookup_last_value_pinned (u : unit) (sec key : str) : option str := last_opt (values_raw u sec key).

(* v.unquote() = try_unquote().expect(..): a Panic when the stored raw value does not unquote *)
Inductive pres (A : Type) := POk (a : A) | PPanic.
Arguments POk {A} a.  Arguments PPanic {A}.

Definition unquote_or_panic (raw : str) : pres str :=
  match unquote_value raw with Some s => POk s | None => PPanic end.

Definition lookup_last (u : unit) (sec key : str) : option (pres str) :=
  option_map unquote_or_panic (lookup_last_value u sec key).

Fixpoint all_ok {A} (l : list (pres A)) : pres (list A) :=
  match l with
  | [] => POk []
  | POk a :: r => match all_ok r with POk l' => POk (a :: l') | PPanic => PPanic end
  | PPanic :: _ => PPanic
  end.

Definition lookup_all (u : unit) (sec key : str) : pres (list str) :=
  all_ok (map unquote_or_panic (lookup_all_values u sec key)).

Definition lookup_all_args (u : unit) (sec key : str) : list str :=
  flat_map split_word_all (lookup_all_values u sec key).
Definition lookup_all_strv (u : unit) (sec key : str) : list str :=
  flat_map split_strv_all (lookup_all_values u sec key).

(* split_once('=') *)
Fixpoint split_once (sep : N) (s : str) : option (str * str) :=
  match s with
  | [] => None
  | c :: r => if c =? sep then Some ([], r) else
              match split_once sep r with Some (a, b) => Some (c :: a, b) | None => None end
  end.

(* HashMap insert: override in place (iteration order of the real map is unspecified; compared sorted) *)
Fixpoint kv_insert (m : list (str * str)) (k v : str) : list (str * str) :=
  match m with
  | [] => [(k, v)]
  | (k', v') :: r => if str_eqb k k' then (k', v) :: r else (k', v') :: kv_insert r k v
  end.

Definition lookup_all_key_val (u : unit) (sec key : str) : list (str * str) :=
  fold_left (fun m w => match split_once cEQ w with Some (k, v) => kv_insert m k v | None => m end)
            (lookup_all_args u sec key) [].

(* parse_bool / EntryValue::to_bool *)
Definition parse_bool (s : str) : option bool :=
  if mem_str s [s2l "1"; s2l "yes"; s2l "true"; s2l "on"] then Some true else
  if mem_str s [s2l "0"; s2l "no"; s2l "false"; s2l "off"] then Some false else None.

Definition to_bool (raw : str) : option bool :=
  let t := trim raw in match t with [] => Some false | _ => parse_bool t end.

(* lookup_bool: last value, to_bool().unwrap_or(false) *)
Definition lookup_bool (u : unit) (sec key : str) : option bool :=
  option_map (fun raw => match to_bool raw with Some b => b | None => false end) (lookup_last_value u sec key).

Definition has_key (u : unit) (sec key : str) : bool :=
  existsb (key_is key) (section_entries u sec).

(* set_entry_value: remove all values of the key, drop the last, re-append, append the new one *)
Definition set_in (es : entries) (key raw : str) : entries :=
  filter (fun e => negb (key_is key e)) es ++ removelast (filter (key_is key) es) ++ [(key, raw)].

Fixpoint set_entry (u : unit) (sec key raw : str) : unit :=
  match u with
  | [] => [(sec, [(key, raw)])]
  | (n, es) :: r => if str_eqb sec n then (n, set_in es key raw) :: r else (n, es) :: set_entry r sec key raw
  end.
Definition unit_set (u : unit) (sec key value : str) : unit := set_entry u sec key (quote_value value).

(* prepend: the section is removed and re-created at the END of the section order, new entry first *)
Definition unit_prepend (u : unit) (sec key value : str) : unit :=
  remove_section u sec ++ [(sec, (key, quote_value value) :: section_entries u sec)].

Definition add_entries (u : unit) (sec : str) (es : entries) : unit :=
  fold_left (fun u e => add_entry u sec (fst e) (snd e)) es u.

Definition rename_section (u : unit) (from to : str) : unit :=
  if has_section u from then add_entries (remove_section u from) to (section_entries u from) else u.

Definition merge_from (u other : unit) : unit :=
  fold_left (fun u s => add_entries u (fst s) (snd s)) other u.

(* to_string / write_to *)
Definition render_entry (e : entry) : str := fst e ++ [cEQ] ++ snd e ++ [cNL].
Definition render_section (s : str * entries) : str :=
  [cLB] ++ fst s ++ [cRB; cNL] ++ flat_map render_entry (snd s) ++ [cNL].
Definition to_string (u : unit) : str := flat_map render_section u.

(* write_to as the list of write calls: writeln!(w, "[{}]", s), writeln!(w, "{}={}", k, v), writeln!(w) *)
Definition write_calls (u : unit) : list str :=
  flat_map (fun s => ([cLB] ++ fst s ++ [cRB; cNL]) :: map render_entry (snd s) ++ [[cNL]]) u.
