(* Model of src/systemd_unit/parser.rs (Parser::parse_unit and everything below it) as ONE one-character-per-step
   machine, so that the whole parser is structurally recursive on the input: no fuel, termination by construction.
   The states mirror the control flow of the recursive-descent code:
     PTop          parse_unit loop, outside any section
     PCommentTop   parse_comment called from parse_unit
     PHeader name  parse_section_header after '[' (name read so far)
     PBody         parse_section loop
     PCommentBody  parse_comment called from parse_section
     PKey key      parse_key (key read so far)
     PAfterKey     skip_chars before '='
     PAfterEq      skip_chars after '='
     PValue ...    parse_value (the value machine of Model/Lex.v)
   Entries are validated (add_raw -> unquote_value) and added as soon as their value ends; the Rust code adds them
   when the section ends.  Every error makes the whole parse fail in both, so the results coincide. *)
From QV Require Import Model.Base Generated.Tables Model.Quote Model.Unquote Model.PortRange Model.Unit Model.Lex.
Open Scope N_scope.

Inductive pstate :=
| PTop
| PCommentTop
| PHeader (name : str)
| PBody (sec : str)
| PCommentBody (sec : str)
| PKey (sec key : str)
| PAfterKey (sec key : str)
| PAfterEq (sec key : str)
| PValue (sec key : str) (m : vmode) (ign : nat) (acc : str).

(* result of a step: error, or next state and unit *)
Definition pres := option (pstate * unit).

Definition finish_entry (u : unit) (sec key acc : str) : option unit := unit_add_raw u sec key (trim_end acc).

(* parse_section loop looking at c *)
Definition body_step (sec : str) (u : unit) (c : N) : pres :=
  if is_comment_start c then Some (PCommentBody sec, u)
  else if c =? cLB then Some (PHeader [], u)
  else if is_ascii_whitespace c then Some (PBody sec, u)
  else if key_stop c then (if c =? cEQ then Some (PAfterEq sec [], u) else None)
  else if is_key_char c then Some (PKey sec [c], u) else None.

Definition value_start (sec key : str) (u : unit) (c : N) : pres :=
  match value_step VNormal O [] c with
  | Some (m, ign, acc) => Some (PValue sec key m ign acc, u)
  | None => match finish_entry u sec key [] with Some u' => body_step sec u' c | None => None end
  end.

Definition pstep (st : pstate) (u : unit) (c : N) : pres :=
  match st with
  | PTop =>
      if is_comment_start c then Some (PCommentTop, u)
      else if c =? cLB then Some (PHeader [], u)
      else if is_ascii_whitespace c then Some (PTop, u) else None
  | PCommentTop => if c =? cNL then Some (PTop, u) else Some (PCommentTop, u)
  | PHeader name =>
      if c =? cRB then match name with [] => None | _ => Some (PBody name, ensure_section u name) end
      else if c =? cNL then None else Some (PHeader (name ++ [c]), u)
  | PBody sec => body_step sec u c
  | PCommentBody sec => if c =? cNL then Some (PBody sec, u) else Some (PCommentBody sec, u)
  | PKey sec key =>
      if key_stop c then
        (if is_blank c then Some (PAfterKey sec key, u) else if c =? cEQ then Some (PAfterEq sec key, u) else None)
      else if is_key_char c then Some (PKey sec (key ++ [c]), u) else None
  | PAfterKey sec key =>
      if is_blank c then Some (PAfterKey sec key, u) else if c =? cEQ then Some (PAfterEq sec key, u) else None
  | PAfterEq sec key => if is_blank c then Some (PAfterEq sec key, u) else value_start sec key u c
  | PValue sec key m ign acc =>
      match value_step m ign acc c with
      | Some (m', ign', acc') => Some (PValue sec key m' ign' acc', u)
      | None => match finish_entry u sec key acc with Some u' => body_step sec u' c | None => None end
      end
  end.

Definition pfinish (st : pstate) (u : unit) : option unit :=
  match st with
  | PTop | PCommentTop | PBody _ | PCommentBody _ => Some u
  | PHeader _ | PKey _ _ | PAfterKey _ _ => None
  | PAfterEq sec key => finish_entry u sec key []
  | PValue sec key _ _ acc => finish_entry u sec key acc
  end.

Fixpoint prun (st : pstate) (u : unit) (cs : str) : option unit :=
  match cs with
  | [] => pfinish st u
  | c :: r => match pstep st u c with Some (st', u') => prun st' u' r | None => None end
  end.

Definition parse_unit (cs : str) : option unit := prun PTop [] cs.
