(* Model of src/systemd_unit/parser.rs.  The input is the list of remaining characters (head = self.cur).
   Line/column bookkeeping is not modelled (it only appears in error text). *)
From QV Require Import Model.Base Generated.Tables Model.Quote Model.Unquote Model.PortRange Model.Unit.
Open Scope N_scope.

(* parse_until_any_of *)
Fixpoint span_until (stop : N -> bool) (cs : str) : str * str :=
  match cs with
  | [] => ([], [])
  | c :: r => if stop c then ([], cs) else let (a, b) := span_until stop r in (c :: a, b)
  end.

Fixpoint skip_while (p : N -> bool) (cs : str) : str :=
  match cs with c :: r => if p c then skip_while p r else cs | [] => [] end.

Definition is_comment_start (c : N) : bool := (c =? cHASH) || (c =? cSEMI).
Definition is_blank (c : N) : bool := (c =? cSP) || (c =? cTAB).

(* char::is_alphanumeric: exact on ASCII; beyond ASCII only the Latin letters U+00C0..U+02AF (minus the two
   operators) are recognised -- an approximation recorded in DESIGN.md (keys in the theorems are ASCII) *)
Definition is_alnum (c : N) : bool :=
  ((48 <=? c) && (c <=? 57)) || ((65 <=? c) && (c <=? 90)) || ((97 <=? c) && (c <=? 122)) ||
  ((192 <=? c) && (c <=? 687) && negb (c =? 215) && negb (c =? 247)) || (c =? 170) || (c =? 181) || (c =? 186).
Definition is_key_char (c : N) : bool := is_alnum c || (c =? cDASH).
Definition key_stop (c : N) : bool := (c =? cEQ) || (c =? cSP) || (c =? cTAB) || (c =? cNL) || (c =? cCR).

(* parse_comment: skip to the next newline (not consumed) *)
Definition skip_comment (cs : str) : str := snd (span_until (fun c => c =? cNL) cs).

(* ---- parse_value as a machine ---- *)
Inductive vmode :=
| VNormal                 (* neither flag set *)
| VBackslash              (* backslash = true *)
| VCont                   (* line_continuation = true *)
| VComment.               (* inside an interspersed comment; then line_continuation again *)

(* one step; [ign] = line_continuation_ignored_spaces.  Result: None = stop BEFORE this character *)
Definition value_step (m : vmode) (ign : nat) (acc : str) (c : N) : option (vmode * nat * str) :=
  match m with
  | VBackslash =>
      if c =? cSP then Some (VBackslash, S ign, acc)
      else if c =? cNL then Some (VCont, ign, acc ++ c_LINE_CONTINUATION_REPLACEMENT)
      else Some (VNormal, ign, acc ++ [cBS] ++ repeat cSP ign ++ [c])
  | VCont =>
      if is_comment_start c then Some (VComment, O, acc)
      else if c =? cNL then None
      else if c =? cLB then None
      else if c =? cBS then Some (VBackslash, O, acc)
      else Some (VNormal, O, acc ++ [c])
  | VComment =>
      if c =? cNL then Some (VCont, ign, acc) else Some (VComment, ign, acc)
  | VNormal =>
      if c =? cBS then Some (VBackslash, ign, acc)
      else if c =? cNL then None
      else Some (VNormal, ign, acc ++ [c])
  end.

Fixpoint value_run (m : vmode) (ign : nat) (acc : str) (cs : str) : str * str :=
  match cs with
  | [] => (acc, [])
  | c :: r => match value_step m ign acc c with
              | None => (acc, cs)
              | Some (m', ign', acc') => value_run m' ign' acc' r
              end
  end.

Definition parse_value (cs : str) : str * str :=
  let (v, rest) := value_run VNormal O [] cs in (trim_end v, rest).

(* parse_entry: key, blanks, '=', blanks, value *)
Definition parse_entry (cs : str) : option (str * str * str) :=
  let (key, r1) := span_until key_stop cs in
  if negb (forallb is_key_char key) then None else
  match skip_while is_blank r1 with
  | c :: r2 => if c =? cEQ then
                 let (v, r3) := parse_value (skip_while is_blank r2) in Some (key, v, r3)
               else None
  | [] => None
  end.

(* parse_section_header *)
Definition parse_section_header (cs : str) : option (str * str) :=
  match cs with
  | c :: r =>
      if c =? cLB then
        let (name, r1) := span_until (fun c => (c =? cRB) || (c =? cNL)) r in
        match r1 with
        | c1 :: r2 => if (c1 =? cRB) then match name with [] => None | _ => Some (name, r2) end else None
        | [] => None
        end
      else None
  | [] => None
  end.

(* the entry loop of parse_section *)
Fixpoint section_body (fuel : nat) (cs : str) (acc : entries) : res (entries * str) :=
  match fuel with
  | O => OutOfFuel
  | S f =>
      match cs with
      | [] => Ok (acc, [])
      | c :: r =>
          if is_comment_start c then section_body f (skip_comment cs) acc
          else if c =? cLB then Ok (acc, cs)
          else if is_ascii_whitespace c then section_body f r acc
          else match parse_entry cs with
               | None => Err
               | Some (k, v, rest) => section_body f rest (acc ++ [(k, v)])
               end
      end
  end.

Fixpoint add_raw_all (u : unit) (sec : str) (es : entries) : option unit :=
  match es with
  | [] => Some u
  | (k, v) :: r => match unit_add_raw u sec k v with Some u' => add_raw_all u' sec r | None => None end
  end.

Fixpoint unit_loop (fuel : nat) (cs : str) (u : unit) : res unit :=
  match fuel with
  | O => OutOfFuel
  | S f =>
      match cs with
      | [] => Ok u
      | c :: r =>
          if is_comment_start c then unit_loop f (skip_comment cs) u
          else if c =? cLB then
            match parse_section_header cs with
            | None => Err
            | Some (name, r1) =>
                match section_body f r1 [] with
                | Ok (es, r2) =>
                    match add_raw_all (ensure_section u name) name es with
                    | Some u' => unit_loop f r2 u'
                    | None => Err
                    end
                | Err => Err
                | OutOfFuel => OutOfFuel
                end
            end
          else if is_ascii_whitespace c then unit_loop f r u
          else Err
      end
  end.

(* every iteration of either loop consumes at least one character, except that a comment at a newline
   leaves the newline for the next iteration: 2 * length + 2 always suffices (lemma in Proofs) *)
Definition parse_unit (cs : str) : res unit := unit_loop (2 * length cs + 2) cs [].
