(* Model of convert.rs::is_port_range (the hand-written recogniser) and of the ExposeHostPort call site's trim. *)
From QV Require Import Model.Base.
Open Scope N_scope.

(* third loop: "(/udp|/tcp)?" after the '/', with the two counters; then end of string *)
Fixpoint port_proto (tcp udp : nat) (cs : str) : bool :=
  match cs with
  | [] => false
  | c :: r =>
      if (c =? 116) && Nat.eqb tcp 0 && Nat.eqb udp 0 then port_proto 1 udp r else
      if (c =? 99) && Nat.eqb tcp 1 then port_proto 2 udp r else
      if (c =? 112) && Nat.eqb tcp 2 then match r with [] => true | _ => false end else
      if (c =? 117) && Nat.eqb udp 0 && Nat.eqb tcp 0 then port_proto tcp 1 r else
      if (c =? 100) && Nat.eqb udp 1 then port_proto tcp 2 r else
      if (c =? 112) && Nat.eqb udp 2 then match r with [] => true | _ => false end else
      false
  end.

(* second loop: digits after '-'.  [strict] = true: at least one digit is required before '/' (repaired);
   false = pinned *)
Fixpoint port_second (strict : bool) (seen : bool) (cs : str) : bool :=
  match cs with
  | [] => seen
  | c :: r =>
      if is_digit c then port_second strict true r else
      if c =? cSLASH then (negb strict || seen) && port_proto 0 0 r else false
  end.

Fixpoint port_first (strict : bool) (seen : bool) (cs : str) : bool :=
  match cs with
  | [] => seen
  | c :: r =>
      if is_digit c then port_first strict true r else
      if c =? cDASH then (negb strict || seen) && port_second strict false r else
      if c =? cSLASH then (negb strict || seen) && port_proto 0 0 r else false
  end.

Definition is_port_range (s : str) : bool :=
  match s with [] => false | _ => port_first true false s end.
Definition is_port_range_pinned (s : str) : bool :=
  match s with [] => false | _ => port_first false false s end.

(* char::is_whitespace (Unicode White_Space), used by str::trim / trim_end *)
Definition is_unicode_ws (c : N) : bool :=
  ((9 <=? c) && (c <=? 13)) || (c =? 32) || (c =? 133) || (c =? 160) || (c =? 5760) ||
  ((8192 <=? c) && (c <=? 8202)) || (c =? 8232) || (c =? 8233) || (c =? 8239) || (c =? 8287) || (c =? 12288).

Fixpoint trim_start (s : str) : str :=
  match s with c :: r => if is_unicode_ws c then trim_start r else s | [] => [] end.
Definition trim_end (s : str) : str := rev (trim_start (rev s)).
Definition trim (s : str) : str := trim_end (trim_start s).
