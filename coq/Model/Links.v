(* Model of src/main.rs::enable_service_file: which symlinks are created for a generated service.
   [skip_outside] = true models the repaired code (absolute and climbing Alias paths are skipped); false = pinned. *)
From QV Require Import Model.Base Generated.Tables Model.Quote Model.Unquote Model.Split Model.PortRange Model.Unit Model.Path Model.Names.
Open Scope N_scope.

Definition SEC_I := c_INSTALL_SECTION.

(* number of path components of a relative, cleaned path *)
Definition ncomp (p : str) : nat := length (components p).

Definition link_target (rel : str) (svc_file : str) : str :=
  join [cSLASH] (repeat dotdot (ncomp rel - 1) ++ [svc_file]).

(* the name carried by .wants/.requires links: the service file name, or <base>@<DefaultInstance>.service for a template
   without instance, or nothing *)
Definition has_slash (s : str) : bool := memN cSLASH s.

Definition install_name (skip_outside : bool) (svc : unit) (svc_file : str) : cres (option str) :=
  match template_parts svc_file with
  | (Some base, None) =>
      do di <- lk svc SEC_I (s2l "DefaultInstance");
      match di with
      | Some d => if skip_outside && has_slash d then COk None else
                  match extension svc_file with
                  | Some ext => COk (Some (base ++ [cAT] ++ d ++ [cDOT] ++ ext))
                  | None => CPanic
                  end
      | None => COk None
      end
  | _ => COk (Some svc_file)
  end.

Definition climbs (p : str) : bool := match components p with CParent :: _ => true | _ => false end.

(* stays_below_base: relative, and no prefix climbs above its base *)
Fixpoint stays_below_c (cs : list comp) (depth : nat) : bool :=
  match cs with
  | [] => true
  | CNormal _ :: r => stays_below_c r (S depth)
  | CCur :: r => stays_below_c r depth
  | CParent :: r => match depth with O => false | S d => stays_below_c r d end
  | CRoot :: _ => false
  end.
Definition stays_below (p : str) : bool := stays_below_c (components p) O.

(* the filter is applied to the raw Alias word, before it is cleaned *)
Definition alias_ok (skip_outside : bool) (a : str) : bool :=
  if skip_outside then stays_below a else true.

(* relative link paths, in creation order *)
Definition link_paths (skip_outside : bool) (svc : unit) (svc_file : str) : cres (list str) :=
  let aliases := map cleaned (filter (alias_ok skip_outside) (lookup_all_strv svc SEC_I (s2l "Alias"))) in
  do name <- install_name skip_outside svc svc_file;
  match name with
  | Some (c :: n) =>
      let nm := c :: n in
      let wanted := map (fun w => path_join (w ++ s2l ".wants/") nm) (filter (fun w => negb (has_slash w)) (lookup_all_strv svc SEC_I (s2l "WantedBy"))) in
      let required := map (fun w => path_join (w ++ s2l ".requires/") nm) (filter (fun w => negb (has_slash w)) (lookup_all_strv svc SEC_I (s2l "RequiredBy"))) in
      COk (aliases ++ wanted ++ required)
  | _ => COk aliases
  end.

(* (absolute link path, target); a link path without a parent directory is a panic (symlink_path.parent().unwrap()) *)
Definition plan_links (skip_outside : bool) (out : str) (svc : unit) (svc_file : str) : cres (list (str * str)) :=
  do rels <- link_paths skip_outside svc svc_file;
  (fix go (l : list str) : cres (list (str * str)) :=
     match l with
     | [] => COk []
     | rel :: r =>
         let p := path_join out rel in
         match parent p with
         | None => CPanic
         | Some _ => do rest <- go r; COk ((p, link_target rel svc_file) :: rest)
         end
     end) rels.
