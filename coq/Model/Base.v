(* Base definitions shared by Model and Spec: characters are Unicode code points (N), strings are lists. *)
From Coq Require Export List NArith Bool Lia.
From Coq Require Strings.String Strings.Ascii.
Export Coq.Strings.String.StringSyntax.
Export ListNotations.
Open Scope N_scope.
Open Scope list_scope.

Arguments N.add : simpl never.
Arguments N.sub : simpl never.
Arguments N.mul : simpl never.
Arguments N.eqb : simpl never.
Arguments N.ltb : simpl never.
Arguments N.leb : simpl never.
Arguments N.div : simpl never.
Arguments N.modulo : simpl never.

Notation str := (list N) (only parsing).

(* computable literal: s2l "--name" *)
Definition s2l (s : String.string) : str := List.map Ascii.N_of_ascii (String.list_ascii_of_string s).
Arguments s2l s%string_scope.

Fixpoint str_eqb (a b : str) : bool :=
  match a, b with
  | [], [] => true
  | x :: a', y :: b' => (x =? y) && str_eqb a' b'
  | _, _ => false
  end.

Lemma str_eqb_spec a b : reflect (a = b) (str_eqb a b).
Proof.
  revert b; induction a as [|x a IH]; intros [|y b]; cbn [str_eqb]; try (constructor; congruence).
  destruct (N.eqb_spec x y) as [->|Hne]; cbn [andb].
  - destruct (IH b) as [->|Hne]; constructor; congruence.
  - constructor; congruence.
Qed.

Lemma str_eqb_refl a : str_eqb a a = true.
Proof. destruct (str_eqb_spec a a); congruence. Qed.

Lemma str_eqb_eq a b : str_eqb a b = true <-> a = b.
Proof. destruct (str_eqb_spec a b); split; congruence. Qed.

Definition mem_str (x : str) (l : list str) : bool := existsb (str_eqb x) l.
Definition memN (x : N) (l : list N) : bool := existsb (N.eqb x) l.

Lemma memN_In x l : memN x l = true <-> In x l.
Proof.
  unfold memN. rewrite existsb_exists. split.
  - intros [y [Hy He]]. apply N.eqb_eq in He. subst. exact Hy.
  - intros H. exists x. split; [exact H|apply N.eqb_refl].
Qed.

Lemma mem_str_In x l : mem_str x l = true <-> In x l.
Proof.
  unfold mem_str. rewrite existsb_exists. split.
  - intros [y [Hy He]]. apply str_eqb_eq in He. subst. exact Hy.
  - intros H. exists x. split; [exact H|apply str_eqb_refl].
Qed.

(* association lists *)
Fixpoint assocN {A} (k : N) (l : list (N * A)) : option A :=
  match l with [] => None | (k', v) :: r => if k =? k' then Some v else assocN k r end.
Fixpoint assoc_str {A} (k : str) (l : list (str * A)) : option A :=
  match l with [] => None | (k', v) :: r => if str_eqb k k' then Some v else assoc_str k r end.

Fixpoint join (sep : str) (ws : list str) : str :=
  match ws with [] => [] | [w] => w | w :: r => w ++ sep ++ join sep r end.

(* character constants *)
Definition cSP : N := 32.  Definition cTAB : N := 9.  Definition cNL : N := 10.  Definition cCR : N := 13.
Definition cDQ : N := 34.  Definition cSQ : N := 39.  Definition cBS : N := 92.
Definition cHASH : N := 35. Definition cSEMI : N := 59. Definition cLB : N := 91. Definition cRB : N := 93.
Definition cEQ : N := 61.  Definition cSLASH : N := 47. Definition cDOT : N := 46. Definition cPCT : N := 37.
Definition cDASH : N := 45. Definition cAT : N := 64. Definition cCOLON : N := 58. Definition cCOMMA : N := 44.

Definition is_digit (c : N) : bool := (48 <=? c) && (c <=? 57).
Definition is_octdigit (c : N) : bool := (48 <=? c) && (c <=? 55).
Definition hexval (c : N) : option N :=
  if (48 <=? c) && (c <=? 57) then Some (c - 48) else
  if (97 <=? c) && (c <=? 102) then Some (c - 87) else
  if (65 <=? c) && (c <=? 70) then Some (c - 55) else None.

(* Rust char::try_from(u32): scalar values only *)
Definition is_scalar (u : N) : bool := ((u <? 55296) || (57343 <? u)) && (u <=? 1114111).

Definition ends_with_any (l : str) (cs : list N) : bool :=
  match rev l with [] => false | c :: _ => memN c cs end.

Fixpoint starts_with (p l : str) : bool :=
  match p, l with
  | [], _ => true
  | x :: p', y :: l' => (x =? y) && starts_with p' l'
  | _, [] => false
  end.
Definition ends_with (sfx l : str) : bool := starts_with (rev sfx) (rev l).

Fixpoint last_opt {A} (l : list A) : option A :=
  match l with [] => None | [x] => Some x | _ :: r => last_opt r end.

(* split at a separator; never the empty list: split_on sep [] = [[]] *)
Fixpoint split_on (sep : N) (s : str) : list str :=
  match s with
  | [] => [[]]
  | c :: r => if c =? sep then [] :: split_on sep r else
              match split_on sep r with
              | [] => [[c]]
              | w :: ws => (c :: w) :: ws
              end
  end.
Fixpoint split_once_at (sep : N) (s : str) : option (str * str) :=
  match s with
  | [] => None
  | c :: r => if c =? sep then Some ([], r) else
              match split_once_at sep r with Some (a, b) => Some (c :: a, b) | None => None end
  end.
Definition nonempty (s : str) : bool := match s with [] => false | _ => true end.
(* path segments: split at '/', empty segments dropped *)
Definition segs (p : str) : list str := filter nonempty (split_on 47 p).

(* fuelled iteration result *)
Inductive res (A : Type) := Ok (a : A) | Err | OutOfFuel.
Arguments Ok {A} a.  Arguments Err {A}.  Arguments OutOfFuel {A}.
