(* Model of the part of src/main.rs::process between loading a unit file and building the name table: the unit's drop-ins are merged
   into it (load_dropins_from: in the order given -- Model/Dropins.v decides which files and in which order --, stopping at the first
   drop-in that fails to load; the unit is still converted with what was merged so far), and ONLY THEN the service name and the
   prefilled object name are derived (repaired: the pinned code derived them from the main file alone, so a ServiceName=,
   ContainerName= or ImageTag= given in a drop-in was ignored by the name table).
   [names_after] = true: the repaired order; false: the pinned one, kept so that the refutation witness stays kernel-checked. *)
From QV Require Import Model.Base Generated.Tables Model.Quote Model.Unquote Model.Split Model.PortRange Model.Unit Model.Lex Model.Parser
  Model.Path Model.Names Model.Convert Model.Process.
Open Scope N_scope.

Section ProcessD.
Variable podman : str.
Variable exists_path : str -> bool.
Variable kill_fixed : bool.
Variable mount_nl : bool.
Variable names_after : bool.

(* (merged unit, all drop-ins loaded?) *)
Fixpoint merge_dropins (u : unit) (ds : list str) : unit * bool :=
  match ds with
  | [] => (u, true)
  | d :: r => match parse_unit d with
              | Some du => merge_dropins (merge_from u du) r
              | None => (u, false)
              end
  end.

Definition load_tree (path main : str) (ds : list str) : load_res :=
  match parse_unit main with
  | None => LParseErr
  | Some u =>
      let m := fst (merge_dropins u ds) in
      match unit_info (if names_after then m else u) path with
      | COk i => LOk m i
      | CErr _ _ => LTypeErr
      | CPanic => LPanic
      | CSkip => LPanic
      end
  end.

(* a file: (path, text of the main file, texts of its drop-ins in merge order) *)
Definition process_trees (files : list (str * str * list str)) : list (str * load_res) * list (str * conv_res) :=
  let loads := map (fun f => (fst (fst f), load_tree (fst (fst f)) (snd (fst f)) (snd f))) files in
  let units := flat_map (fun p => match snd p with LOk u i => [{| l_path := fst p; l_unit := u; l_info := i |}] | _ => [] end) loads in
  let sorted := sort_units units in
  (loads, convert_all podman exists_path kill_fixed mount_nl sorted (table_of sorted)).

End ProcessD.
