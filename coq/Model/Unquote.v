(* Model of src/systemd_unit/quoted.rs: unquote_value = Quoted::{parse_and_unquote, parse_escape_sequence,
   parse_unicode_escape}, as a one-character-per-step machine (structural recursion, no fuel).
   The simple-escape table is REGENERATED from the match arms of parse_escape_sequence. *)
From QV Require Import Model.Base Generated.Tables.
Open Scope N_scope.

Inductive umode :=
| UNorm
| UEsc
| UHex (left : nat) (acc : N)     (* left = digits still to read, >= 1 *)
| UOct (left : nat) (acc : N).

Definition is_quote_char (c : N) : bool := (c =? cDQ) || (c =? cSQ).

(* result.ends_with([' ', '\t', '\n']) || result.is_empty() *)
Definition at_item_start (res : str) : bool :=
  match res with [] => true | _ => ends_with_any res [32; 9; 10] end.

Definition simple_escape (c : N) : option N :=
  match assocN c cm_quoted_parse_escape_sequence with
  | Some [r] => Some r
  | _ => None
  end.

(* u32 -> char, after the ucp == 0 test *)
Definition code_to_char (u : N) : option N :=
  if u =? 0 then None else if is_scalar u then Some u else None.

(* [guarded] = true models the repaired guard (a quote opens only when none is open);
   [guarded] = false is the pinned behaviour. *)
Definition uq_step (guarded : bool) (q : option N) (m : umode) (res : str) (c : N)
  : option (option N * umode * str) :=
  match m with
  | UNorm =>
      if c =? 0 then None else                    (* a NUL character is rejected (repaired; the pinned code pushed it) *)
      if is_quote_char c && at_item_start res && (negb guarded || match q with None => true | Some _ => false end)
      then Some (Some c, UNorm, res)
      else if c =? cBS then Some (q, UEsc, res)
      else match q with
           | Some qc => if c =? qc then Some (None, UNorm, res) else Some (q, UNorm, res ++ [c])
           | None => Some (q, UNorm, res ++ [c])
           end
  | UEsc =>
      match simple_escape c with
      | Some r => Some (q, UNorm, res ++ [r])
      | None =>
          if c =? 120 then Some (q, UHex 2 0, res) else
          if c =? 117 then Some (q, UHex 4 0, res) else
          if c =? 85 then Some (q, UHex 8 0, res) else
          if is_octdigit c then Some (q, UOct 2 (c - 48), res) else None
      end
  | UHex n a =>
      match hexval c with
      | None => None
      | Some d =>
          let a' := a * 16 + d in
          match n with
          | O => None
          | 1%nat => match code_to_char a' with Some r => Some (q, UNorm, res ++ [r]) | None => None end
          | S n' => Some (q, UHex n' a', res)
          end
      end
  | UOct n a =>
      if is_octdigit c then
        let a' := a * 8 + (c - 48) in
        match n with
        | O => None
        | 1%nat => match code_to_char a' with Some r => Some (q, UNorm, res ++ [r]) | None => None end
        | S n' => Some (q, UOct n' a', res)
        end
      else None
  end.

Fixpoint uq_run (guarded : bool) (q : option N) (m : umode) (res : str) (cs : str) : option str :=
  match cs with
  | [] => match m with UNorm => Some res | _ => None end
  | c :: r => match uq_step guarded q m res c with
              | None => None
              | Some (q', m', res') => uq_run guarded q' m' res' r
              end
  end.

Definition unquote_value (raw : str) : option str := uq_run true None UNorm [] raw.
Definition unquote_value_pinned (raw : str) : option str := uq_run false None UNorm [] raw.
