(* Model of src/quadlet/iterators.rs: which directories below the administrator's tree /etc/containers/systemd become
   search directories.  A directory is given by its components relative to /etc/containers/systemd.
   WalkDir enumerates every existing directory of a subtree; the filter closures decide which are kept. *)
From QV Require Import Model.Base.
Open Scope N_scope.

Definition users : str := s2l "users".
Definition all_digits (s : str) : bool := forallb is_digit s.

(* get_user_level_filter_func: below users/ only for the user generator *)
Definition user_level_filter (rootless : bool) (p : list str) : bool :=
  match p with
  | c :: _ => if str_eqb c users then rootless else true
  | [] => true
  end.

(* get_non_numeric_filter_func.  [first] = true (repaired): the FIRST component below users/ decides;
   false (pinned): the LAST component of the path decides *)
Definition non_numeric_filter (first : bool) (p : list str) : bool :=
  match p with
  | c :: rest =>
      if str_eqb c users then
        match rest with
        | [] => false                                   (* users/ itself: count == level *)
        | c1 :: _ => negb (all_digits (if first then c1 else last rest []))
        end
      else true
  | [] => true
  end.

(* is directory p (relative to the admin dir) a search directory of the SYSTEM generator? *)
Definition root_includes (p : list str) : bool := user_level_filter false p.

(* ... of the USER generator running as uid (decimal string)?  From the admin tree it walks users/ with the
   non-numeric filter, users/<uid> entirely, and adds users/ itself. *)
Definition rootless_includes (first : bool) (uid : str) (p : list str) : bool :=
  match p with
  | c :: rest =>
      if str_eqb c users then
        match rest with
        | [] => true
        | c1 :: _ => non_numeric_filter first p || str_eqb c1 uid
        end
      else false                                        (* nothing else of the admin tree *)
  | [] => false
  end.
