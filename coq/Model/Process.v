(* Model of the conversion loop of src/main.rs::process (and of the in-process driver op "convert"):
   load every file, build the name table, sort by type priority (stable here; sort_unstable_by in the code --
   units of equal priority do not depend on each other's table entries except through prefilled names), convert. *)
From QV Require Import Model.Base Generated.Tables Model.Quote Model.Unquote Model.Split Model.PortRange Model.Unit Model.Lex Model.Parser
  Model.Path Model.Names Model.Convert.
Open Scope N_scope.

Section Process.
Variable podman : str.
Variable exists_path : str -> bool.
Variable kill_fixed : bool.
Variable mount_nl : bool.

Inductive load_res :=
| LOk (u : unit) (i : info)
| LParseErr
| LTypeErr
| LPanic.

Definition load_one (path text : str) : load_res :=
  match parse_unit text with
  | None => LParseErr
  | Some u => match unit_info u path with
              | COk i => LOk u i
              | CErr _ _ => LTypeErr
              | CPanic => LPanic
              | CSkip => LPanic
              end
  end.

Record loaded := { l_path : str; l_unit : unit; l_info : info }.

Fixpoint insert_sorted (x : loaded) (l : list loaded) : list loaded :=
  match l with
  | [] => [x]
  | y :: r => if type_priority (i_type (l_info x)) <? type_priority (i_type (l_info y)) then x :: l else y :: insert_sorted x r
  end.
Definition sort_units (l : list loaded) : list loaded := fold_left (fun acc x => insert_sorted x acc) l [].

Definition table_of (l : list loaded) : table :=
  fold_left (fun t x => match file_name (l_path x) with Some n => tbl_set t n (l_info x) | None => t end) l [].

Inductive conv_res :=
| ROk (svc : unit) (svc_path : str)
| RErr (e : cerr)
| RPanic
| RSkip.

Fixpoint convert_all (l : list loaded) (tbl : table) : list (str * conv_res) :=
  match l with
  | [] => []
  | x :: r =>
      match convert_one podman exists_path kill_fixed mount_nl (l_unit x) (l_path x) (i_type (l_info x)) tbl with
      | COk (svc, sp, tbl') => (l_path x, ROk svc sp) :: convert_all r tbl'
      | CErr e (Some tbl') => (l_path x, RErr e) :: convert_all r tbl'
      | CErr e None => (l_path x, RErr e) :: convert_all r tbl
      | CPanic => (l_path x, RPanic) :: convert_all r tbl
      | CSkip => (l_path x, RSkip) :: convert_all r tbl
      end
  end.

Definition process_files (files : list (str * str)) : list (str * load_res) * list (str * conv_res) :=
  let loads := map (fun f => (fst f, load_one (fst f) (snd f))) files in
  let units := flat_map (fun p => match snd p with LOk u i => [{| l_path := fst p; l_unit := u; l_info := i |}] | _ => [] end) loads in
  let sorted := sort_units units in
  (loads, convert_all sorted (table_of sorted)).

End Process.
