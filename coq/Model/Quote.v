(* Model of src/systemd_unit/quoted.rs: char_needs_escaping, quote_value, word_needs_escaping, quote_words.
   The escape table (the match arms of quote_value) is REGENERATED from the Rust source: Generated/Tables.v. *)
From QV Require Import Model.Base Generated.Tables.
Open Scope N_scope.

(* c.is_ascii_control(): 0..=31 | 127 ;  c.is_ascii_whitespace(): SP TAB LF FF CR (all controls but SP) *)
Definition is_ascii_control (c : N) : bool := (c <? 32) || (c =? 127).
Definition is_ascii_whitespace (c : N) : bool := (c =? 32) || (c =? 9) || (c =? 10) || (c =? 12) || (c =? 13).

Definition char_needs_escaping (c : N) : bool :=
  if 128 <? c then false else
  is_ascii_control c || is_ascii_whitespace c || (c =? cDQ) || (c =? cSQ) || (c =? cBS).

Definition hexdigit (d : N) : N := if d <? 10 then 48 + d else 87 + d.

(* format!("\\x{:02x}", c) for c <= 128 *)
Definition hex_escape (c : N) : str := [cBS; 120; hexdigit (c / 16); hexdigit (c mod 16)].

Definition esc_char (c : N) : str :=
  if negb (char_needs_escaping c) then [c] else
  match assocN c cm_quoted_quote_value with
  | Some s => s
  | None => hex_escape c
  end.

Definition quote_value (s : str) : str := flat_map esc_char s.

Definition word_needs_escaping (w : str) : bool := existsb char_needs_escaping w.

(* after "fix: quote empty words": an empty word is rendered as "" *)
Definition quote_word (w : str) : str :=
  match w with
  | [] => [cDQ; cDQ]
  | _ => if word_needs_escaping w then cDQ :: quote_value w ++ [cDQ] else w
  end.

(* the pinned (pre-fix) behaviour, kept so that the refutation witness stays kernel-checked *)
Definition quote_word_pinned (w : str) : str :=
  if word_needs_escaping w then cDQ :: quote_value w ++ [cDQ] else w.

Definition quote_words (ws : list str) : str := join [cSP] (map quote_word ws).
Definition quote_words_pinned (ws : list str) : str := join [cSP] (map quote_word_pinned ws).
