(* Model of the std::path subset used by quadlet-rs and of src/systemd_unit/path_buf_ext.rs.
   Paths are strings of code points; only '/', '.', '%' and '@' are special.  The std semantics below
   (components, push, pop, parent, join, file_name, file_stem, extension) is written from the std
   documentation and validated by the correspondence check. *)
From QV Require Import Model.Base.
Open Scope N_scope.

Inductive comp := CRoot | CCur | CParent | CNormal (s : str).

Definition dot : str := [cDOT].
Definition dotdot : str := [cDOT; cDOT].

Definition is_absolute (p : str) : bool := match p with c :: _ => c =? cSLASH | [] => false end.

Definition classify (s : str) : comp := if str_eqb s dotdot then CParent else CNormal s.

(* Path::components(): repeated separators, interior "." and a trailing '/' vanish; a leading "." of a relative
   path is CurDir *)
Definition components (p : str) : list comp :=
  let ss := segs p in
  if is_absolute p then CRoot :: map classify (filter (fun s => negb (str_eqb s dot)) ss)
  else match ss with
       | s :: r => (if str_eqb s dot then CCur else classify s) :: map classify (filter (fun s => negb (str_eqb s dot)) r)
       | [] => []
       end.

(* a PathBuf under construction, as a component list; Root can only be first *)
Definition pb_push (buf : list comp) (c : comp) : list comp :=
  match c with CRoot => [CRoot] | _ => buf ++ [c] end.

(* PathBuf::pop(): parent of "/" does not exist, so nothing happens there *)
Definition pb_pop (buf : list comp) : list comp :=
  match buf with [CRoot] => [CRoot] | _ => removelast buf end.

Definition clean_step (buf : list comp) (c : comp) : list comp :=
  match c with
  | CCur => buf
  | CParent => match buf with [] => pb_push buf CParent | _ => pb_pop buf end
  | _ => pb_push buf c
  end.

Definition comp_str (c : comp) : str :=
  match c with CRoot => [] | CCur => dot | CParent => dotdot | CNormal s => s end.

Definition render_comps (cs : list comp) : str :=
  match cs with
  | CRoot :: r => cSLASH :: join [cSLASH] (map comp_str r)
  | _ => join [cSLASH] (map comp_str cs)
  end.

Definition cleaned (p : str) : str := render_comps (fold_left clean_step (components p) []).

(* Path::join *)
Definition path_join (base p : str) : str :=
  if is_absolute p then p else
  match base with
  | [] => p
  | _ => if ends_with [cSLASH] base then base ++ p else base ++ [cSLASH] ++ p
  end.

(* UTF-8 length of a code point, as_os_str().len() *)
Definition utf8_len (c : N) : N := if c <? 128 then 1 else if c <? 2048 then 2 else if c <? 65536 then 3 else 4.
Definition byte_len (s : str) : N := fold_left (fun a c => a + utf8_len c) s 0.

Definition starts_with_systemd_specifier (p : str) : bool :=
  if byte_len p <=? 1 then false else
  match components p with
  | c :: _ =>
      let first := match c with CRoot => [cSLASH] | _ => comp_str c end in
      if byte_len first =? 2 then
        if starts_with [cPCT; cPCT] p then false else starts_with [cPCT] p
      else false
  | [] => false
  end.

(* absolute_from: None = the implementation consults the current directory (outside the model) *)
Definition absolute_from (p root : str) : option str :=
  if negb (starts_with_systemd_specifier p) && negb (is_absolute p) then
    match root with
    | [] => None
    | _ => Some (cleaned (path_join root p))
    end
  else Some (cleaned p).

(* Path::parent(): everything but the last component *)
Definition parent (p : str) : option str :=
  match rev (components p) with
  | [] => None
  | [CRoot] => None
  | _ :: r => Some (render_comps (rev r))
  end.

Definition absolute_from_unit (p unit_path : str) : option str :=
  match parent unit_path with
  | Some d => absolute_from p d
  | None => None
  end.

(* Path::file_name(): the last component if it is a normal one *)
Definition file_name (p : str) : option str :=
  match rev (components p) with CNormal s :: _ => Some s | _ => None end.

(* rsplit at the last '.', unless the only '.' is the first character *)
Fixpoint rsplit_dot (s : str) : option (str * str) :=
  match s with
  | [] => None
  | c :: r => match rsplit_dot r with
              | Some (a, b) => Some (c :: a, b)
              | None => if c =? cDOT then Some ([], r) else None
              end
  end.

Definition stem_ext (name : str) : str * option str :=
  if str_eqb name dotdot then (name, None) else
  match rsplit_dot name with
  | Some ([], _) => (name, None)
  | Some (a, b) => (a, Some b)
  | None => (name, None)
  end.

Definition file_stem (p : str) : option str := option_map (fun n => fst (stem_ext n)) (file_name p).
Definition extension (p : str) : option str := match file_name p with Some n => snd (stem_ext n) | None => None end.

(* file_name_template_parts: split the stem at the first '@' *)
Definition template_parts (p : str) : option str * option str :=
  let stem := match file_stem p with Some s => s | None => [] end in
  match split_once_at cAT stem with
  | Some (base, inst) =>
      match base with
      | [] => (None, None)
      | _ => match inst with [] => (Some base, None) | _ => (Some base, Some inst) end
      end
  | None => (None, None)
  end.
