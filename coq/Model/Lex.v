(* Lexical pieces of src/systemd_unit/parser.rs shared by the parser model: character classes and the
   parse_value machine.  Line/column bookkeeping is not modelled (it only appears in error text). *)
From QV Require Import Model.Base Generated.Tables Model.Quote Model.Unquote Model.PortRange Model.Unit.
Open Scope N_scope.

(* parse_until_any_of *)
Fixpoint span_until (stop : N -> bool) (cs : str) : str * str :=
  match cs with
  | [] => ([], [])
  | c :: r => if stop c then ([], cs) else let (a, b) := span_until stop r in (c :: a, b)
  end.

Fixpoint skip_while (p : N -> bool) (cs : str) : str :=
  match cs with c :: r => if p c then skip_while p r else cs | [] => [] end.

Definition is_comment_start (c : N) : bool := (c =? cHASH) || (c =? cSEMI).
Definition is_blank (c : N) : bool := (c =? cSP) || (c =? cTAB).

(* char::is_alphanumeric: exact on ASCII; beyond ASCII only the Latin letters U+00C0..U+02AF (minus the two
   operators) and the Cyrillic letters U+0400..U+0481, U+048A..U+052F are recognised -- an approximation recorded in DESIGN.md (keys in the theorems are ASCII) *)
Definition is_alnum (c : N) : bool :=
  ((48 <=? c) && (c <=? 57)) || ((65 <=? c) && (c <=? 90)) || ((97 <=? c) && (c <=? 122)) ||
  ((192 <=? c) && (c <=? 687) && negb (c =? 215) && negb (c =? 247)) || (c =? 170) || (c =? 181) || (c =? 186) ||
  ((1024 <=? c) && (c <=? 1153)) || ((1162 <=? c) && (c <=? 1327)).
Definition is_key_char (c : N) : bool := is_alnum c || (c =? cDASH).
Definition key_stop (c : N) : bool := (c =? cEQ) || (c =? cSP) || (c =? cTAB) || (c =? cNL) || (c =? cCR).

(* parse_comment: skip to the next newline (not consumed) *)
Definition skip_comment (cs : str) : str := snd (span_until (fun c => c =? cNL) cs).

(* ---- parse_value as a machine ---- *)
Inductive vmode :=
| VNormal                 (* neither flag set *)
| VBackslash              (* backslash = true *)
| VCont                   (* line_continuation = true *)
| VComment.               (* inside an interspersed comment; then line_continuation again *)

(* one step; [ign] = line_continuation_ignored_spaces.  Result: None = stop BEFORE this character *)
Definition value_step (m : vmode) (ign : nat) (acc : str) (c : N) : option (vmode * nat * str) :=
  match m with
  | VBackslash =>
      if c =? cSP then Some (VBackslash, S ign, acc)
      else if c =? cNL then Some (VCont, ign, acc ++ c_LINE_CONTINUATION_REPLACEMENT)
      else Some (VNormal, ign, acc ++ [cBS] ++ repeat cSP ign ++ [c])
  | VCont =>
      if is_comment_start c then Some (VComment, O, acc)
      else if c =? cNL then None
      else if c =? cLB then None
      else if c =? cBS then Some (VBackslash, O, acc)
      else Some (VNormal, O, acc ++ [c])
  | VComment =>
      if c =? cNL then Some (VCont, ign, acc) else Some (VComment, ign, acc)
  | VNormal =>
      if c =? cBS then Some (VBackslash, ign, acc)
      else if c =? cNL then None
      else Some (VNormal, ign, acc ++ [c])
  end.

Fixpoint value_run (m : vmode) (ign : nat) (acc : str) (cs : str) : str * str :=
  match cs with
  | [] => (acc, [])
  | c :: r => match value_step m ign acc c with
              | None => (acc, cs)
              | Some (m', ign', acc') => value_run m' ign' acc' r
              end
  end.

Definition parse_value (cs : str) : str * str :=
  let (v, rest) := value_run VNormal O [] cs in (trim_end v, rest).

