(* Model of src/systemd_unit/split.rs: SplitStrv::next and SplitWord::next (+ parse_escape_sequence,
   parse_unicode_escape) as one-character-per-step machines, and the iteration that collects all words.
   WHITESPACE and the simple-escape table are REGENERATED from the Rust source. *)
From QV Require Import Model.Base Generated.Tables Model.Unquote.
Open Scope N_scope.

Definition is_separator (c : N) : bool := memN c ca_WHITESPACE.

Inductive wst :=
| WSkip                        (* parse_until_none_of(separators) *)
| WPlain
| WInQ (q : N)
| WEsc (q : option N)          (* backslash = true *)
| WHex (q : option N) (left : nat) (acc : N)
| WOct (q : option N) (left : nat) (acc : N).

Inductive wout := WErr | WMore (s : wst) (acc : str) | WDone (w : str).

Definition wback (q : option N) : wst := match q with None => WPlain | Some q => WInQ q end.

Definition word_simple_escape (c : N) : option N :=
  match assocN c cm_split_parse_escape_sequence with
  | Some [r] => Some r
  | _ => None
  end.

(* ---------- SplitWord ---------- *)
Definition wplain_step (acc : str) (c : N) : wout :=
  if is_quote_char c then WMore (WInQ c) acc else
  if c =? cBS then WMore (WEsc None) acc else
  if is_separator c then WDone acc else WMore WPlain (acc ++ [c]).

Definition word_step (s : wst) (acc : str) (c : N) : wout :=
  match s with
  | WSkip => if is_separator c then WMore WSkip acc else wplain_step acc c
  | WPlain => wplain_step acc c
  | WInQ q => if c =? q then WMore WPlain acc else
              if c =? cBS then WMore (WEsc (Some q)) acc else WMore (WInQ q) (acc ++ [c])
  | WEsc q =>
      match word_simple_escape c with
      | Some r => WMore (wback q) (acc ++ [r])
      | None =>
          if c =? 120 then WMore (WHex q 2 0) acc else
          if c =? 117 then WMore (WHex q 4 0) acc else
          if c =? 85 then WMore (WHex q 8 0) acc else
          if is_octdigit c then WMore (WOct q 2 (c - 48)) acc else
          WMore (wback q) (acc ++ [c])              (* unknown escape: the character itself *)
      end
  | WHex q n a =>
      match hexval c with
      | None => WErr
      | Some d =>
          let a' := a * 16 + d in
          match n with
          | O => WErr
          | 1%nat => match code_to_char a' with Some r => WMore (wback q) (acc ++ [r]) | None => WErr end
          | S n' => WMore (WHex q n' a') acc
          end
      end
  | WOct q n a =>
      if is_octdigit c then
        let a' := a * 8 + (c - 48) in
        match n with
        | O => WErr
        | 1%nat => match code_to_char a' with Some r => WMore (wback q) (acc ++ [r]) | None => WErr end
        | S n' => WMore (WOct q n' a') acc
        end
      else WErr
  end.

(* end of input.  [fixed] = true: a word exists as soon as one non-separator character was seen;
   [fixed] = false (pinned): an empty word is reported as "no more words". *)
Definition wfinish (s : wst) (acc : str) : option (option str) :=
  match s with
  | WSkip => Some None
  | WPlain | WInQ _ | WEsc _ => Some (Some acc)
  | WHex _ _ _ | WOct _ _ _ => None
  end.

Fixpoint word_next (s : wst) (acc : str) (cs : str) : option (option (str * str)) :=
  match cs with
  | [] => match wfinish s acc with
          | None => None | Some None => Some None | Some (Some w) => Some (Some (w, []))
          end
  | c :: r => match word_step s acc c with
              | WErr => None
              | WDone w => Some (Some (w, r))
              | WMore s' acc' => word_next s' acc' r
              end
  end.

(* Iterator::collect over SplitWord: stops at the first None (end of input or escape error) *)
Fixpoint split_word_fuel (fixed : bool) (fuel : nat) (cs : str) : list str :=
  match fuel with
  | O => []
  | S f =>
      match word_next WSkip [] cs with
      | None | Some None => []
      | Some (Some (w, r)) =>
          if negb fixed && match w with [] => true | _ => false end then [] else w :: split_word_fuel fixed f r
      end
  end.
Definition split_word_all (cs : str) : list str := split_word_fuel true (S (length cs)) cs.
Definition split_word_all_pinned (cs : str) : list str := split_word_fuel false (S (length cs)) cs.

(* ---------- SplitStrv (escapes are ordinary characters) ---------- *)
Definition vplain_step (acc : str) (c : N) : wout :=
  if is_quote_char c then WMore (WInQ c) acc else
  if is_separator c then WDone acc else WMore WPlain (acc ++ [c]).

Definition strv_step (s : wst) (acc : str) (c : N) : wout :=
  match s with
  | WSkip => if is_separator c then WMore WSkip acc else vplain_step acc c
  | WPlain => vplain_step acc c
  | WInQ q => if c =? q then WMore WPlain acc else WMore (WInQ q) (acc ++ [c])
  | _ => WErr
  end.

Fixpoint strv_next (s : wst) (acc : str) (cs : str) : option (option (str * str)) :=
  match cs with
  | [] => match s with
          | WSkip => Some None
          | WPlain | WInQ _ => Some (Some (acc, []))
          | _ => None
          end
  | c :: r => match strv_step s acc c with
              | WErr => None
              | WDone w => Some (Some (w, r))
              | WMore s' acc' => strv_next s' acc' r
              end
  end.

Fixpoint split_strv_fuel (fixed : bool) (fuel : nat) (cs : str) : list str :=
  match fuel with
  | O => []
  | S f =>
      match strv_next WSkip [] cs with
      | None | Some None => []
      | Some (Some (w, r)) =>
          if negb fixed && match w with [] => true | _ => false end then [] else w :: split_strv_fuel fixed f r
      end
  end.
Definition split_strv_all (cs : str) : list str := split_strv_fuel true (S (length cs)) cs.
Definition split_strv_all_pinned (cs : str) : list str := split_strv_fuel false (S (length cs)) cs.
