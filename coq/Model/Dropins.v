(* Model of the name-based shadowing in src/main.rs::load_units_from_dir (unit files) and of
   src/systemd_unit/unit_file.rs::load_dropins_from (drop-in directories, shadowing, merge order). *)
From QV Require Import Model.Base Model.Path Model.Unit.
Open Scope N_scope.

(* ---- unit files: the first loadable file of a name wins; a file that fails to load does not claim the name ---- *)
Record found := { f_dir : str; f_name : str; f_loads : bool }.

Fixpoint pick_units (seen : list str) (files : list found) : list found :=
  match files with
  | [] => []
  | f :: r =>
      if mem_str (f_name f) seen then pick_units seen r
      else if f_loads f then f :: pick_units (f_name f :: seen) r
      else pick_units seen r
  end.

(* ---- drop-in directories ---- *)
(* [by_name] = true (repaired): <search dir>/<unit FILE NAME>.d ; false (pinned): join with the unit's full path, which for an
   absolute unit path discards the search dir *)
Definition dropin_dir (by_name : bool) (sp unit_path : str) (dname : str) : str :=
  if by_name then path_join sp dname
  else path_join sp (match parent unit_path with Some d => path_join d dname | None => dname end).

Definition dropin_dirs (by_name : bool) (sps : list str) (unit_path : str) : list str :=
  match file_name unit_path with
  | None => []
  | Some fname =>
      map (fun sp => dropin_dir by_name sp unit_path (fname ++ s2l ".d")) sps ++
      match template_parts unit_path, extension unit_path with
      | (Some base, Some _), Some ext => map (fun sp => dropin_dir by_name sp unit_path (base ++ s2l "@." ++ ext ++ s2l ".d")) sps
      | _, _ => []
      end
  end.

Fixpoint nodup_str (l : list str) : list str :=
  match l with
  | [] => []
  | x :: r => if mem_str x r then nodup_str r else x :: nodup_str r
  end.

(* files found per directory: (dir, conf names in that dir).  The first directory that has a name provides it. *)
Fixpoint pick_dropins (seen : list str) (dirs : list (str * list str)) : list (str * str) :=
  match dirs with
  | [] => []
  | (d, names) :: r =>
      let fresh := filter (fun n => negb (mem_str n seen)) (nodup_str names) in
      map (fun n => (n, d)) fresh ++ pick_dropins (fresh ++ seen) r
  end.
