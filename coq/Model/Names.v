(* Model of src/quadlet/mod.rs: QuadletType::from_path, QuadletUnitFile::from_unit_file, the service-name and
   resource-name helpers, get_service_file_name, UnitsInfoMap, is_url. *)
From QV Require Import Model.Base Generated.Tables Model.Quote Model.Unquote Model.Split Model.PortRange Model.Unit Model.Path.
Open Scope N_scope.

Inductive qtype := TBuild | TContainer | TImage | TKube | TNetwork | TPod | TVolume.

Definition qtype_eqb (a b : qtype) : bool :=
  match a, b with
  | TBuild, TBuild | TContainer, TContainer | TImage, TImage | TKube, TKube
  | TNetwork, TNetwork | TPod, TPod | TVolume, TVolume => true
  | _, _ => false
  end.

Definition type_of_ext (e : str) : option qtype :=
  if str_eqb e (s2l "build") then Some TBuild else
  if str_eqb e (s2l "container") then Some TContainer else
  if str_eqb e (s2l "image") then Some TImage else
  if str_eqb e (s2l "kube") then Some TKube else
  if str_eqb e (s2l "network") then Some TNetwork else
  if str_eqb e (s2l "pod") then Some TPod else
  if str_eqb e (s2l "volume") then Some TVolume else None.

Definition type_of_path (p : str) : option qtype :=
  match extension p with Some e => type_of_ext e | None => None end.

Definition type_section (t : qtype) : str :=
  match t with
  | TBuild => c_BUILD_SECTION | TContainer => c_CONTAINER_SECTION | TImage => c_IMAGE_SECTION | TKube => c_KUBE_SECTION
  | TNetwork => c_NETWORK_SECTION | TPod => c_POD_SECTION | TVolume => c_VOLUME_SECTION
  end.

Definition type_xsection (t : qtype) : str :=
  match t with
  | TBuild => c_X_BUILD_SECTION | TContainer => c_X_CONTAINER_SECTION | TImage => c_X_IMAGE_SECTION | TKube => c_X_KUBE_SECTION
  | TNetwork => c_X_NETWORK_SECTION | TPod => c_X_POD_SECTION | TVolume => c_X_VOLUME_SECTION
  end.

Definition type_suffix (t : qtype) : str :=
  match t with
  | TBuild => s2l "-build" | TContainer => [] | TImage => s2l "-image" | TKube => []
  | TNetwork => s2l "-network" | TPod => s2l "-pod" | TVolume => s2l "-volume"
  end.

Definition type_priority (t : qtype) : N :=
  match t with TImage => 1 | TNetwork | TVolume => 2 | TBuild => 3 | TContainer | TKube => 4 | TPod => 5 end.

Record info := { i_type : qtype; i_path : str; i_service_name : str; i_resource_name : str; i_containers : list str }.
Definition table := list (str * info).       (* keyed by file name *)

Definition tbl_get (t : table) (name : str) : option info := assoc_str name t.
Fixpoint tbl_set (t : table) (name : str) (i : info) : table :=
  match t with
  | [] => [(name, i)]
  | (n, x) :: r => if str_eqb name n then (n, i) :: r else (n, x) :: tbl_set r name i
  end.

Definition with_resource (i : info) (r : str) : info :=
  {| i_type := i_type i; i_path := i_path i; i_service_name := i_service_name i; i_resource_name := r; i_containers := i_containers i |}.
Definition with_container (i : info) (c : str) : info :=
  {| i_type := i_type i; i_path := i_path i; i_service_name := i_service_name i; i_resource_name := i_resource_name i;
     i_containers := i_containers i ++ [c] |}.


(* results with an explicit panic outcome *)
(* errors of the converter bodies ... *)
Inductive berr :=
| EImageNotFound (n : str) | EInternal | EInvalidDeviceOptions | EInvalidDeviceType | EInvalidGroup
| EInvalidImageOrRootfs | EInvalidKillMode (v : str) | EInvalidMountCsv | EInvalidMountFormat (v : str) | EInvalidMountSource
| EInvalidNetworkOptions | EInvalidPod (v : str) | EInvalidPortFormat (v : str) | EInvalidRelativeFile | EInvalidRemapUsers
| EInvalidResourceNameIn (v : str) | EInvalidServiceType (v : str) | EInvalidSetWorkingDirectory | EInvalidSubnet
| ENoImageTagKeySpecified | ENoFileKeySpecified | ENoSetWorkingDirectoryNorFileKeySpecified | ENoYamlKeySpecified
| EParsing | EPodNotFound (v : str) | ESourceNotFound (v : str) | EUnsupportedValueForKey (k v : str).

(* ... and of a whole conversion: only the key check of the prologue can report an unknown key -- the bodies are
   typed with [berr], so "never rejected because of its keys" is a matter of typing plus the prologue *)
Inductive cerr := EUnknownKey (k : str) | EB (b : berr).

Inductive res (E A : Type) :=
| COk (a : A)
| CErr (e : E) (tb : option table)      (* tb: the name table as mutated before the failure (the &mut map keeps it) *)
| CPanic                 (* an unwrap/expect/index whose precondition depends on the input *)
| CSkip.                 (* outside the modelled domain (csv quoting, current directory) *)
Arguments COk {E A} a.  Arguments CErr {E A} e tb.  Arguments CPanic {E A}.  Arguments CSkip {E A}.

Notation cres := (res cerr).
Notation bres := (res berr).

Definition bind {E A B} (m : res E A) (f : A -> res E B) : res E B :=
  match m with COk a => f a | CErr e tb => CErr e tb | CPanic => CPanic | CSkip => CSkip end.
Notation "'do' x <- m ; f" := (bind m (fun x => f)) (at level 200, x pattern, m at level 100, f at level 200).

Definition err {E A} (e : E) : res E A := CErr e None.
(* everything inside [m] runs after the table became [tbl] *)
Definition with_tbl {E A} (tbl : table) (m : res E A) : res E A :=
  match m with CErr e None => CErr e (Some tbl) | x => x end.
Definition lift {A} (m : bres A) : cres A :=
  match m with COk a => COk a | CErr b tb => CErr (EB b) tb | CPanic => CPanic | CSkip => CSkip end.

Definition of_pres {E A} (p : pres A) : res E A := match p with POk a => COk a | PPanic => CPanic end.

(* lookup / lookup_last: the unquoted last value *)
Definition lk {E} (u : unit) (sec key : str) : res E (option str) :=
  match lookup_last u sec key with
  | None => COk None
  | Some (POk s) => COk (Some s)
  | Some PPanic => CPanic
  end.
Definition lk_all {E} (u : unit) (sec key : str) : res E (list str) := of_pres (lookup_all u sec key).

(* quad_replace_extension(file, "", prefix, suffix): with_file_name(prefix ++ stem ++ suffix); file_stem().unwrap() *)
Definition set_file_name (p name : str) : str :=
  match file_name p with
  | Some _ => match parent p with Some d => path_join d name | None => name end
  | None => path_join p name
  end.

Definition replace_extension {E} (p : str) (prefix suffix : str) : res E str :=
  match file_stem p with
  | Some stem => COk (set_file_name p (prefix ++ stem ++ suffix))
  | None => CPanic
  end.

(* get_quadlet_service_name: ServiceName if set, else <stem><suffix> of the FILE NAME (path().file_name().unwrap()) *)
Definition service_name_of {E} (u : unit) (path : str) (t : qtype) : res E str :=
  do sn <- lk u (type_section t) (s2l "ServiceName");
  match sn with
  | Some n => COk n
  | None => match file_name path with
            | Some fname => replace_extension fname [] (type_suffix t)
            | None => CPanic
            end
  end.

Definition is_template_unit (path : str) : bool :=
  match template_parts path with (Some _, _) => true | _ => false end.

Definition container_name {E} (u : unit) (path : str) : res E str :=
  do n <- lk u c_CONTAINER_SECTION (s2l "ContainerName");
  match n with
  | Some n => COk n
  | None => COk (if is_template_unit path then s2l "systemd-%p_%i" else s2l "systemd-%N")
  end.

(* str::replace("%N", with) *)
Fixpoint replace_pN (s w : str) : str :=
  match s with
  | [] => []
  | c :: r => match r with
              | c2 :: r2 => if (c =? cPCT) && (c2 =? 78) then w ++ replace_pN r2 w else c :: replace_pN r w
              | [] => [c]
              end
  end.

Definition container_resource_name {E} (u : unit) (path : str) : res E str :=
  do name <- container_name u path;
  do sn <- service_name_of u path TContainer;
  let r := replace_pN name sn in
  COk (if memN cPCT r then [] else r).

Definition built_image_name {E} (u : unit) : res E str :=
  do tags <- lk_all u c_BUILD_SECTION (s2l "ImageTag");
  COk (match filter nonempty tags with t :: _ => t | [] => [] end).

(* QuadletUnitFile::from_unit_file *)
Definition unit_info (u : unit) (path : str) : bres info :=
  match type_of_path path with
  | None => err EInternal                 (* RuntimeError::UnsupportedQuadletType at the call site *)
  | Some t =>
      do sn <- service_name_of u path t;
      do rn <- match t with
               | TBuild => built_image_name u
               | TContainer => container_resource_name u path
               | _ => COk []
               end;
      COk {| i_type := t; i_path := path; i_service_name := sn; i_resource_name := rn; i_containers := [] |}
  end.

(* get_service_file_name: file_name of "<service_name>.service" (never fails: the last component ends in ".service") *)
Definition service_file_name (i : info) : str :=
  match file_name (i_service_name i ++ s2l ".service") with Some n => n | None => [] end.

(* regex ^((https?)|(git)://)|(github\.com/).+$  on the whole string *)
Fixpoint has_github (s : str) : bool :=
  match s with
  | [] => false
  | c :: r => (starts_with (s2l "github.com/") s &&
               match skipn 11 s with [] => false | rest => negb (memN cNL rest) end)
              || has_github r
  end.
Definition is_url (s : str) : bool := starts_with (s2l "http") s || starts_with (s2l "git://") s || has_github s.
