(* Model of src/quadlet/convert.rs and podman_command.rs: the seven from_*_unit converters and every handler.
   State is passed explicitly: the podman argument vector (list of words), the service unit under construction and the
   shared name table (UnitsInfoMap).  HashMap-valued options (Environment, Label, Annotation, Options) are kept in
   insertion order with override in place; the real iteration order is unspecified and comparisons sort those runs.
   Parameters: [podman] = the PODMAN environment variable or the default binary, [exists] = Path::exists for AddDevice=-... *)
From QV Require Import Model.Base Generated.Tables Model.Quote Model.Unquote Model.Split Model.PortRange Model.Unit Model.Path Model.Names.
Open Scope N_scope.

Section Convert.
Variable podman : str.
Variable exists_path : str -> bool.

Local Notation L := s2l (only parsing).
Definition SEC_U := c_UNIT_SECTION.
Definition SEC_S := c_SERVICE_SECTION.
Definition SEC_Q := c_QUADLET_SECTION.

(* ---------- small helpers ---------- *)
Definition to_lower (s : str) : str := map (fun c => if (65 <=? c) && (c <=? 90) then c + 32 else c) s.

Definition nonempty_list {A} (l : list A) : bool := match l with [] => false | _ => true end.

Definition is_ascii_digit_str (s : str) : bool := forallb is_digit s.

(* str::parse::<u32>().unwrap_or(0): optional '+', digits, value < 2^32 *)
Definition parse_u32_or0 (s : str) : N :=
  let s' := match s with c :: r => if c =? 43 then r else s | [] => s end in
  match s' with
  | [] => 0
  | _ => if forallb is_digit s' then
           let v := fold_left (fun a c => a * 10 + (c - 48)) s' 0 in if v <? 4294967296 then v else 0
         else 0
  end.

Fixpoint N_digits (fuel : nat) (n : N) (acc : str) : str :=
  match fuel with
  | O => acc
  | S f => if n <? 10 then (48 + n) :: acc else N_digits f (n / 10) ((48 + n mod 10) :: acc)
  end.
Definition N_to_str (n : N) : str := N_digits 12 n [].

Definition check_for_unknown_keys (u : unit) (sec : str) (supported : list str) : cres Datatypes.unit :=
  match find (fun e : entry => negb (mem_str (fst e) supported)) (section_entries u sec) with
  | Some e => err (EUnknownKey (fst e))
  | None => COk tt
  end.

(* section_entries() unquotes every value while iterating: a panic site for unvalidated units *)
Definition section_unquotes {E} (u : unit) (sec : str) : res E Datatypes.unit :=
  if forallb (fun e : entry => match unquote_value (snd e) with Some _ => true | None => false end) (section_entries u sec)
  then COk tt else CPanic.

(* ---------- PodmanCommand ---------- *)
Definition add_bool (args : list str) (flag : str) (v : bool) : list str :=
  if v then args ++ [flag] else args ++ [flag ++ L "=false"].
Definition add_keys (args : list str) (prefix : str) (m : list (str * str)) : list str :=
  args ++ flat_map (fun kv => [prefix; fst kv ++ [cEQ] ++ snd kv]) m.

Definition base_command (u : unit) (sec : str) : bres (list str) :=
  do mods <- lk_all u sec (L "ContainersConfModule");
  COk ([podman] ++ flat_map (fun v => [L "--module"; v]) mods ++ lookup_all_args u sec (L "GlobalArgs")).

Definition add_raw_exec (svc : unit) (key : str) (args : list str) : bres unit :=
  match unit_add_raw svc SEC_S key (quote_words args) with Some s => COk s | None => err EParsing end.

(* ---------- table-driven look-up-and-add ---------- *)
Fixpoint add_strings (u : unit) (sec : str) (keys : list (str * str)) (args : list str) : bres (list str) :=
  match keys with
  | [] => COk args
  | (k, flag) :: r =>
      do v <- lk u sec k;
      add_strings u sec r (match v with Some (c :: s) => args ++ [flag; c :: s] | _ => args end)
  end.

Fixpoint add_bools (u : unit) (sec : str) (keys : list (str * str)) (args : list str) : list str :=
  match keys with
  | [] => args
  | (k, flag) :: r => add_bools u sec r (match lookup_bool u sec k with Some b => add_bool args flag b | None => args end)
  end.

Fixpoint add_all_strings (u : unit) (sec : str) (keys : list (str * str)) (args : list str) : bres (list str) :=
  match keys with
  | [] => COk args
  | (k, flag) :: r =>
      do vs <- lk_all u sec k;
      add_all_strings u sec r (args ++ flat_map (fun v => [flag; v]) vs)
  end.

Definition with_flag (flag : str) (ws : list str) : list str := flat_map (fun w => [flag; w]) ws.

(* ---------- handlers ---------- *)
Definition default_dependencies (svc : unit) : unit :=
  if match lookup_bool svc SEC_Q (L "DefaultDependencies") with Some b => b | None => true end
  then unit_prepend (unit_prepend svc SEC_U (L "After") (L "network-online.target")) SEC_U (L "Wants") (L "network-online.target")
  else svc.

Definition handle_health (u : unit) (sec : str) (args : list str) : bres (list str) :=
  add_strings u sec (map (fun p => (fst p, L "--health-" ++ snd p)) pt_handle_health_key_arg_map) args.

Definition handle_image_source (name : str) (svc : unit) (tbl : table) : bres (str * unit) :=
  if ends_with (L ".build") name || ends_with (L ".image") name then
    match tbl_get tbl name with
    | None => err (EImageNotFound name)
    | Some i =>
        let sfn := service_file_name i in
        COk (i_resource_name i, unit_add (unit_add svc SEC_U (L "Requires") sfn) SEC_U (L "After") sfn)
    end
  else COk (name, svc).

Definition handle_log_driver (u : unit) (sec : str) (args : list str) : bres (list str) :=
  do v <- lk u sec (L "LogDriver");
  COk (match v with Some d => args ++ [L "--log-driver"; d] | None => args end).

Definition handle_log_opt (u : unit) (sec : str) (args : list str) : list str :=
  args ++ with_flag (L "--log-opt") (lookup_all_strv u sec (L "LogOpt")).

Fixpoint networks_loop (nets : list str) (svc : unit) (tbl : table) (args : list str) : bres (list str * unit) :=
  match nets with
  | [] => COk (args, svc)
  | net :: r =>
      match net with
      | [] => networks_loop r svc tbl args
      | _ =>
          let '(name, opts) := match split_once cCOLON net with Some (a, b) => (a, Some b) | None => (net, None) end in
          let is_net := ends_with (L ".network") name in
          let is_ctr := ends_with (L ".container") name in
          do r1 <- (if is_net || is_ctr then
                      match tbl_get tbl name with
                      | None => err EInternal
                      | Some i =>
                          match i_resource_name i with
                          | [] => err (EInvalidResourceNameIn name)
                          | rn => let sfn := service_file_name i in
                                  COk (rn, unit_add (unit_add svc SEC_U (L "Requires") sfn) SEC_U (L "After") sfn)
                          end
                      end
                    else COk (name, svc));
          let '(rname, svc') := r1 in
          match opts with
          | Some o => if is_ctr then err EInvalidNetworkOptions
                      else networks_loop r svc' tbl (args ++ [L "--network"; rname ++ [cCOLON] ++ o])
          | None => networks_loop r svc' tbl (args ++ [L "--network"; if is_ctr then L "container:" ++ rname else rname])
          end
      end
  end.

Definition handle_networks (u : unit) (sec : str) (svc : unit) (tbl : table) (args : list str) : bres (list str * unit) :=
  do nets <- lk_all u sec (L "Network");
  networks_loop nets svc tbl args.

Definition set_if_absent (svc : unit) (key value : str) : bres unit :=
  do v <- lk svc SEC_S key;
  COk (match v with None => unit_set svc SEC_S key value | Some _ => svc end).

Definition one_shot_section (svc : unit) (remain : bool) : bres unit :=
  do s1 <- set_if_absent svc (L "SyslogIdentifier") (L "%N");
  do s2 <- set_if_absent s1 (L "Type") (L "oneshot");
  if remain then set_if_absent s2 (L "RemainAfterExit") (L "yes") else COk s2.

Definition handle_podman_args (u : unit) (sec : str) (args : list str) : list str :=
  args ++ lookup_all_args u sec (L "PodmanArgs").

(* absolute_from_unit; the current directory is outside the model *)
Definition abs_from_unit (p unit_path : str) : bres str :=
  match absolute_from_unit p unit_path with Some r => COk r | None => CSkip end.

Definition handle_storage_source (unit_path : str) (svc : unit) (source : str) (tbl : table) (check_image : bool)
  : bres (str * unit) :=
  do src <- (if starts_with [cDOT] source then abs_from_unit source unit_path else COk source);
  if starts_with [cSLASH] src then COk (src, unit_add svc SEC_U (L "RequiresMountsFor") src)
  else if ends_with (L ".volume") src || (check_image && ends_with (L ".image") src) then
    match tbl_get tbl src with
    | None => err (ESourceNotFound src)
    | Some i => let sfn := service_file_name i in
                COk (i_resource_name i, unit_add (unit_add svc SEC_U (L "Requires") sfn) SEC_U (L "After") sfn)
    end
  else COk (src, svc).

Definition handle_user (u : unit) (sec : str) (args : list str) : bres (list str) :=
  do user <- lk u sec (L "User");
  do group <- lk u sec (L "Group");
  match user, group with
  | None, None => COk args
  | None, Some (_ :: _) => err EInvalidGroup
  | None, Some [] => COk args
  | Some (c :: s), None => COk (args ++ [L "--user"; c :: s])
  | Some [], None => COk args
  | Some (c :: s), Some (d :: g) => COk (args ++ [L "--user"; (c :: s) ++ [cCOLON] ++ (d :: g)])
  | Some _, Some _ => COk args
  end.

Definition join_comma (l : list str) : str := join [cCOMMA] l.

Definition handle_user_remap (u : unit) (sec : str) (args : list str) (support_manual : bool) : bres (list str) :=
  do userns <- lk u sec (L "UserNS");
  match userns with
  | Some _ => COk args
  | None =>
      let uid_maps := lookup_all_strv u sec (L "RemapUid") in
      let gid_maps := lookup_all_strv u sec (L "RemapGid") in
      do remap <- lk u sec (L "RemapUsers");
      match remap with
      | None => match uid_maps, gid_maps with
                | _ :: _, _ => err EInvalidRemapUsers
                | [], _ :: _ => err EInvalidRemapUsers
                | [], [] => COk args
                end
      | Some r =>
          if str_eqb r (L "manual") then
            (if support_manual then COk (args ++ with_flag (L "--uidmap") uid_maps ++ with_flag (L "--gidmap") gid_maps)
             else err EInvalidRemapUsers)
          else if str_eqb r (L "auto") then
            do sz <- lk u sec (L "RemapUidSize");
            let size := match sz with Some s => parse_u32_or0 s | None => 0 end in
            let opts := map (fun m => L "uidmapping=" ++ m) uid_maps ++ map (fun m => L "gidmapping=" ++ m) gid_maps
                        ++ (if 0 <? size then [L "size=" ++ N_to_str size] else []) in
            COk (match opts with
                 | [] => args ++ [L "--userns"; L "auto"]
                 | _ => args ++ [L "--userns"; L "auto:" ++ join_comma opts]
                 end)
          else if str_eqb r (L "keep-id") then
            match uid_maps, gid_maps with
            | _ :: _ :: _, _ => err EInvalidRemapUsers
            | _, _ :: _ :: _ => err EInvalidRemapUsers
            | _, _ =>
                let opts := map (fun m => L "uid=" ++ m) uid_maps ++ map (fun m => L "gid=" ++ m) gid_maps in
                COk (match opts with
                     | [] => args ++ [L "--userns"; L "keep-id"]
                     | _ => args ++ [L "--userns"; L "keep-id:" ++ join_comma opts]
                     end)
            end
          else err EInvalidRemapUsers
      end
  end.

Definition handle_user_mappings (u : unit) (sec : str) (args : list str) (support_manual : bool) : bres (list str) :=
  do userns <- lk u sec (L "UserNS");
  let '(a1, d1) := match userns with Some (c :: s) => (args ++ [L "--userns"; c :: s], true) | _ => (args, false) end in
  let uidm := lookup_all_strv u sec (L "UIDMap") in
  let gidm := lookup_all_strv u sec (L "GIDMap") in
  let a2 := a1 ++ with_flag (L "--uidmap") uidm ++ with_flag (L "--gidmap") gidm in
  let d2 := d1 || nonempty_list uidm || nonempty_list gidm in
  do subu <- lk u sec (L "SubUIDMap");
  let '(a3, d3) := match subu with Some (c :: s) => (a2 ++ [L "--subuidname"; c :: s], true) | _ => (a2, d2) end in
  do subg <- lk u sec (L "SubGIDMap");
  let '(a4, d4) := match subg with Some (c :: s) => (a3 ++ [L "--subgidname"; c :: s], true) | _ => (a3, d3) end in
  if d4 then
    do ru <- lk u sec (L "RemapUid");
    do rg <- lk u sec (L "RemapGid");
    do rus <- lk u sec (L "RemapUsers");
    match ru, rg, rus with
    | None, None, None => COk a4
    | _, _, _ => err EInvalidRemapUsers
    end
  else handle_user_remap u sec a4 support_manual.

(* [pinned] = true: split(':') and only the third part kept as options; false (repaired): splitn(3, ':') *)
Fixpoint volumes_loop (pinned : bool) (unit_path : str) (vols : list str) (svc : unit) (tbl : table) (args : list str) : bres (list str * unit) :=
  match vols with
  | [] => COk (args, svc)
  | v :: r =>
      let parts := split_on cCOLON v in
      let '(source, dest, options) :=
        match parts with
        | [d] => ([], d, [])
        | s :: d :: rest => (s, d, match rest with
                                   | o :: more => cCOLON :: (if pinned then o else join [cCOLON] (o :: more))
                                   | [] => []
                                   end)
        | [] => ([], [], [])
        end in
      match source with
      | [] => volumes_loop pinned unit_path r svc tbl (args ++ [L "-v"; dest])
      | _ =>
          do r1 <- handle_storage_source unit_path svc source tbl false;
          let '(src, svc') := r1 in
          volumes_loop pinned unit_path r svc' tbl
            (args ++ [L "-v"; match src with [] => dest | _ => src ++ [cCOLON] ++ dest ++ options end])
      end
  end.

Definition handle_volumes (pinned : bool) (u : unit) (unit_path : str) (sec : str) (svc : unit) (tbl : table) (args : list str)
  : bres (list str * unit) :=
  do vols <- lk_all u sec (L "Volume");
  volumes_loop pinned unit_path vols svc tbl args.

(* %N of the pod's service: its service FILE name without ".service" (repaired; the pinned code used the service name,
   which differs when ServiceName contains a '/') *)
Definition strip_service (n : str) : str :=
  if ends_with (L ".service") n then firstn (length n - 8) n else n.
Definition pod_unit_name (i : info) : str := strip_service (service_file_name i).

Definition handle_pod (u : unit) (sec : str) (svc : unit) (svc_path : str) (tbl : table) (args : list str)
  : bres (list str * unit * table) :=
  do pod <- lk u sec (L "Pod");
  match pod with
  | Some (c :: p) =>
      let pod := c :: p in
      if negb (ends_with (L ".pod") pod) then err (EInvalidPod pod) else
      match tbl_get tbl pod with
      | None => err (EPodNotFound pod)
      | Some i =>
          let psn := service_file_name i in
          let svc' := unit_add (unit_add svc SEC_U (L "BindsTo") psn) SEC_U (L "After") psn in
          let start := match lookup_bool u sec (L "StartWithPod") with Some b => b | None => true end in
          COk (args ++ [L "--pod-id-file"; L "%t/" ++ pod_unit_name i ++ L ".pod-id"], svc',
               if start then tbl_set tbl pod (with_container i svc_path) else tbl)
      end
  | _ => COk (args, svc, tbl)
  end.

(* handle_set_working_directory: returns the context and the (possibly extended) service *)
Definition handle_set_working_directory (u : unit) (unit_path : str) (svc : unit) (t : qtype) : bres (str * unit) :=
  let sec := type_section t in
  do swd <- lk u sec (L "SetWorkingDirectory");
  match swd with
  | None | Some [] => COk ([], svc)
  | Some w =>
      let lw := to_lower w in
      do r1 <- (if str_eqb lw (L "yaml") then
                  (match t with
                   | TKube => do y <- lk u sec (L "Yaml");
                              match y with Some y => COk ([], y) | None => err ENoYamlKeySpecified end
                   | _ => err EInvalidSetWorkingDirectory
                   end)
                else if str_eqb lw (L "file") then
                  (match t with
                   | TBuild => do f <- lk u sec (L "File");
                               match f with Some f => COk ([], f) | None => err ENoFileKeySpecified end
                   | _ => err EInvalidSetWorkingDirectory
                   end)
                else if str_eqb lw (L "unit") then COk ([], unit_path)
                else match t with
                     | TBuild => COk (w, if is_absolute w then [] else unit_path)
                     | _ => err (EUnsupportedValueForKey (L "SetWorkingDirectory") w)
                     end);
      let '(context, rel) := r1 in
      match rel with
      | [] => COk (context, svc)
      | _ =>
          if is_url context then COk (context, svc) else
          do wd <- lk u SEC_S (L "WorkingDirectory");
          match wd with
          | Some (_ :: _) => COk ([], svc)
          | _ =>
              do f <- abs_from_unit rel unit_path;
              (* .parent().unwrap_or(itself): "/" has no parent (repaired; the pinned code panicked here) *)
              COk (context, unit_add svc SEC_S (L "WorkingDirectory") (match parent f with Some d => d | None => f end))
          end
      end
  end.

(* find_mount_type / resolve_container_mount_params on the quote-free domain of the csv crate *)
Definition csv_plain (s : str) : bool := negb (memN cDQ s) && negb (memN cNL s) && negb (memN cCR s).

Definition count_eq (f : str) : nat := length (filter (fun c => c =? cEQ) f).

Fixpoint find_type (fields : list str) (found : option str) (tokens : list str) : option str * list str :=
  match fields with
  | [] => (found, tokens)
  | f :: r =>
      match found with
      | Some _ => find_type r found (tokens ++ [f])
      | None =>
          match split_once cEQ f with
          | Some (k, v) => if Nat.eqb (count_eq f) 1 && str_eqb k (L "type") then find_type r (Some v) tokens
                           else find_type r None (tokens ++ [f])
          | None => find_type r None (tokens ++ [f])
          end
      end
  end.

Fixpoint mount_tokens (unit_path : str) (tokens : list str) (svc : unit) (tbl : table) (acc : list str) : bres (list str * unit) :=
  match tokens with
  | [] => COk (acc, svc)
  | tkn :: r =>
      if starts_with (L "source=") tkn || starts_with (L "src=") tkn then
        match split_once cEQ tkn with
        | Some (_, v) =>
            do r1 <- handle_storage_source unit_path svc v tbl true;
            let '(src, svc') := r1 in
            mount_tokens unit_path r svc' tbl (acc ++ [L "source=" ++ src])
        | None => err EInvalidMountSource
        end
      else mount_tokens unit_path r svc tbl (acc ++ [tkn])
  end.

(* [nl] = true models the pinned code, which leaves the csv record terminator in the value *)
Definition resolve_mount (nl : bool) (unit_path : str) (mount : str) (svc : unit) (tbl : table) : bres (str * unit) :=
  if negb (csv_plain mount) then CSkip else
  match mount with
  | [] => err (EInvalidMountFormat mount)          (* zero csv records *)
  | _ =>
      let fields := split_on cCOMMA mount in
      match find_type fields None [] with
      | (None, _) => err (EInvalidMountFormat mount)
      | (Some ty, tokens) =>
          if negb (str_eqb ty (L "volume") || str_eqb ty (L "bind") || str_eqb ty (L "glob") || str_eqb ty (L "image"))
          then COk (mount, svc) else
          do r1 <- mount_tokens unit_path tokens svc tbl [L "type=" ++ ty];
          let '(out, svc') := r1 in
          if existsb (fun f => negb (csv_plain f) || memN cCOMMA f) out then CSkip else
          COk (join_comma out ++ (if nl then [cNL] else []), svc')
      end
  end.

Fixpoint mounts_loop (nl : bool) (unit_path : str) (ms : list str) (svc : unit) (tbl : table) (args : list str) : bres (list str * unit) :=
  match ms with
  | [] => COk (args, svc)
  | m :: r =>
      do r1 <- resolve_mount nl unit_path m svc tbl;
      let '(s, svc') := r1 in
      mounts_loop nl unit_path r svc' tbl (args ++ [L "--mount"; s])
  end.

Fixpoint expose_loop (ports : list str) (args : list str) : bres (list str) :=
  match ports with
  | [] => COk args
  | p :: r => let t := trim p in
              if is_port_range t then expose_loop r (args ++ [L "--expose"; t]) else err (EInvalidPortFormat t)
  end.

Fixpoint devices_loop (devs : list str) (args : list str) : list str :=
  match devs with
  | [] => args
  | d :: r =>
      match d with
      | c :: d' =>
          if c =? cDASH then
            let path := match split_once cCOLON d' with Some (p, _) => p | None => d' end in
            if exists_path path then devices_loop r (args ++ [L "--device"; d']) else devices_loop r args
          else devices_loop r (args ++ [L "--device"; d])
      | [] => devices_loop r (args ++ [L "--device"; d])
      end
  end.

(* ---------- common prologue ---------- *)
Definition prologue (u : unit) (path : str) (tbl : table) (t : qtype) (supported : list str) : cres (info * unit) :=
  match file_name path with
  | None => CPanic                                    (* file_name().expect("should have a file name") *)
  | Some fname =>
      match tbl_get tbl fname with
      | None => err (EB EInternal)
      | Some i =>
          let svc := default_dependencies (merge_from [] u) in
          let svc := match path with [] => svc | _ => unit_add svc SEC_U (L "SourcePath") path end in
          do _ <- section_unquotes u (type_section t);
          do _ <- check_for_unknown_keys u (type_section t) supported;
          do _ <- section_unquotes u SEC_Q;
          do _ <- check_for_unknown_keys u SEC_Q a_SUPPORTED_QUADLET_KEYS;
          COk (i, svc)
      end
  end.

Definition rename_own (svc : unit) (t : qtype) : unit :=
  rename_section (rename_section svc (type_section t) (type_xsection t)) SEC_Q c_X_QUADLET_SECTION.

Definition default_resource_name (path : str) : bres str :=
  match file_stem path with Some stem => COk (L "systemd-" ++ stem) | None => CPanic end.

(* [kill_fixed] = false models the pinned KillMode handling (always set to mixed) *)
Variable kill_fixed : bool.
Variable mount_nl : bool.      (* true = the two pinned C02 defects: Mount= keeps the csv newline, Volume= drops text after the third ':' *)

(* ---------- .container ---------- *)
(* the body in consecutive segments (each one a stretch of from_container_unit), so that statements about one stretch
   do not have to carry the whole function *)
(* ContainerName, [Service] Environment/KillMode, [Unit] RequiresMountsFor, base command, ExecStop/ExecStopPost *)
Definition ct_service (u : unit) (path : str) (svc : unit) : bres (str * list (str * str) * list str * unit) :=
  let sec := c_CONTAINER_SECTION in
  do cname <- container_name u path;
  let svc := unit_add svc SEC_S (L "Environment") (L "PODMAN_SYSTEMD_UNIT=%n") in
  do km <- lk svc SEC_S (L "KillMode");
  do svc <- (match km with
             | None => COk (unit_set svc SEC_S (L "KillMode") (L "mixed"))
             | Some k => if str_eqb k (L "mixed") || str_eqb k (L "control-group")
                         then COk (if kill_fixed then svc else unit_set svc SEC_S (L "KillMode") (L "mixed"))
                         else err (EInvalidKillMode k)
             end);
  let podman_env := lookup_all_key_val u sec (L "Environment") in
  let svc := unit_add svc SEC_U (L "RequiresMountsFor") (L "%t/containers") in
  do base <- base_command u sec;
  let stop := base ++ [L "rm"; L "-v"; L "-f"; L "-i"; L "--cidfile=%t/%N.cid"] in
  do svc <- add_raw_exec svc (L "ExecStop") stop;
  do svc <- add_raw_exec svc (L "ExecStopPost") (match stop with a0 :: r => (cDASH :: a0) :: r | [] => [] end);
  COk (cname, podman_env, base, svc).

(* podman run ... up to the table-driven keys *)
Definition ct_run_head (u : unit) (base : list str) (cname : str) (svc : unit) : bres (list str * unit) :=
  let sec := c_CONTAINER_SECTION in
  let args := base ++ [L "run"; L "--name"; cname; L "--cidfile=%t/%N.cid"; L "--replace"; L "--rm"] in
  do args <- handle_log_driver u sec args;
  let args := handle_log_opt u sec args in
  let svc := unit_add svc SEC_S (L "Delegate") (L "yes") in
  do cg <- lk u sec (L "CgroupsMode");
  let args := args ++ [L "--cgroups"; match cg with Some (c :: s) => c :: s | _ => L "split" end] in
  do args <- add_strings u sec pt_from_container_unit_string_keys args;
  do args <- add_all_strings u sec pt_from_container_unit_all_string_keys args;
  let args := add_bools u sec pt_from_container_unit_bool_keys args in
  COk (args, svc).

(* networks, service Type / Notify, SyslogIdentifier *)
Definition ct_net_notify (u : unit) (tbl : table) (args : list str) (svc : unit) : bres (list str * unit) :=
  let sec := c_CONTAINER_SECTION in
  do r2 <- handle_networks u sec svc tbl args;
  let '(args, svc) := r2 in
  do stype <- lk u SEC_S (L "Type");
  do r3 <- (let notify_branch :=
              do nt <- lk u sec (L "Notify");
              let a := match nt with
                       | Some n => if str_eqb n (L "healthy") then args ++ [L "--sdnotify=healthy"]
                                   else if match lookup_bool u sec (L "Notify") with Some b => b | None => false end
                                        then args ++ [L "--sdnotify=container"] else args ++ [L "--sdnotify=conmon"]
                       | None => args ++ [L "--sdnotify=conmon"]
                       end in
              COk (a ++ [L "-d"], unit_set (unit_set svc SEC_S (L "Type") (L "notify")) SEC_S (L "NotifyAccess") (L "all")) in
            match stype with
            | None => notify_branch
            | Some ty => if str_eqb ty (L "oneshot") then COk (args, svc)
                         else if str_eqb ty (L "notify") then notify_branch
                         else err (EInvalidServiceType ty)
            end);
  let '(args, svc) := r3 in
  do sysl <- lk u SEC_S (L "SyslogIdentifier");
  let svc := match sysl with None => unit_set svc SEC_S (L "SyslogIdentifier") (L "%N") | Some _ => svc end in
  COk (args, svc).

(* security options, devices, capabilities, sysctl, read-only/tmpfs, user and id mappings *)
Definition ct_security (u : unit) (args : list str) : bres (list str) :=
  let sec := c_CONTAINER_SECTION in
  let bool_or_false k := match lookup_bool u sec k with Some b => b | None => false end in
  let args := if bool_or_false (L "NoNewPrivileges") then args ++ [L "--security-opt=no-new-privileges"] else args in
  let args := if bool_or_false (L "SecurityLabelDisable") then args ++ [L "--security-opt"; L "label=disable"] else args in
  let args := if bool_or_false (L "SecurityLabelNested") then args ++ [L "--security-opt"; L "label=nested"] else args in
  do slt <- lk u sec (L "SecurityLabelType");
  let args := match slt with Some (c :: s) => args ++ [L "--security-opt"; L "label=type:" ++ c :: s] | _ => args end in
  do slf <- lk u sec (L "SecurityLabelFileType");
  let args := match slf with Some (c :: s) => args ++ [L "--security-opt"; L "label=filetype:" ++ c :: s] | _ => args end in
  do sll <- lk u sec (L "SecurityLabelLevel");
  let args := match sll with Some (c :: s) => args ++ [L "--security-opt"; L "label=level:" ++ c :: s] | _ => args end in
  let args := devices_loop (lookup_all_strv u sec (L "AddDevice")) args in
  do secc <- lk u sec (L "SeccompProfile");
  let args := match secc with Some p => args ++ [L "--security-opt"; L "seccomp=" ++ p] | None => args end in
  let args := args ++ with_flag (L "--cap-drop") (map to_lower (lookup_all_strv u sec (L "DropCapability"))) in
  let args := args ++ with_flag (L "--cap-add") (map to_lower (lookup_all_strv u sec (L "AddCapability"))) in
  let args := args ++ with_flag (L "--sysctl") (lookup_all_strv u sec (L "Sysctl")) in
  let ro := lookup_bool u sec (L "ReadOnly") in
  let args := match ro with Some b => add_bool args (L "--read-only") b | None => args end in
  let args := if bool_or_false (L "VolatileTmp") && negb (match ro with Some b => b | None => false end)
              then args ++ [L "--tmpfs"; L "/tmp:rw,size=512M,mode=1777"] else args in
  do args <- handle_user u sec args;
  do args <- handle_user_mappings u sec args true;
  COk args.

(* auto-update label, exposed and published ports, env/label/annotation, masks, env files, secrets *)
Definition ct_labels_ports (u : unit) (path : str) (podman_env : list (str * str)) (args : list str) : bres (list str) :=
  let sec := c_CONTAINER_SECTION in
  do au <- lk u sec (L "AutoUpdate");
  let args := match au with Some (c :: s) => args ++ [L "--label"; c_AUTO_UPDATE_LABEL ++ [cEQ] ++ c :: s] | _ => args end in
  do ports <- lk_all u sec (L "ExposeHostPort");
  do args <- expose_loop ports args;
  do args <- add_all_strings u sec pt_handle_publish_ports_inline0 args;
  let args := add_keys args (L "--env") podman_env in
  let args := add_keys args (L "--label") (lookup_all_key_val u sec (L "Label")) in
  let args := add_keys args (L "--annotation") (lookup_all_key_val u sec (L "Annotation")) in
  let args := args ++ flat_map (fun m => [L "--security-opt"; L "mask=" ++ m]) (lookup_all_args u sec (L "Mask")) in
  let args := args ++ flat_map (fun m => [L "--security-opt"; L "unmask=" ++ m]) (lookup_all_args u sec (L "Unmask")) in
  do envfiles <- (fix go (l : list str) : bres (list str) :=
                    match l with
                    | [] => COk []
                    | f :: r => do a <- abs_from_unit f path; do rest <- go r; COk (a :: rest)
                    end) (lookup_all_args u sec (L "EnvironmentFile"));
  let args := args ++ with_flag (L "--env-file") envfiles in
  let args := args ++ with_flag (L "--secret") (lookup_all_args u sec (L "Secret")) in
  COk args.

Definition from_container (u : unit) (path : str) (tbl : table) : cres (unit * str * table) :=
  let sec := c_CONTAINER_SECTION in
  do pr <- prologue u path tbl TContainer a_SUPPORTED_CONTAINER_KEYS;
  let '(inf, svc) := pr in
  lift (
  let svc_path := service_file_name inf in
  let svc := rename_own svc TContainer in
  do image0 <- lk u sec (L "Image");
  do rootfs0 <- lk u sec (L "Rootfs");
  let image := match image0 with Some s => s | None => [] end in
  let rootfs := match rootfs0 with Some s => s | None => [] end in
  match image, rootfs with
  | [], [] => err EInvalidImageOrRootfs
  | _ :: _, _ :: _ => err EInvalidImageOrRootfs
  | _, _ =>
  do r1 <- (match image with [] => COk (image, svc) | _ => handle_image_source image svc tbl end);
  let '(image, svc) := r1 in
  do ra <- ct_service u path svc;
  let '(cname, podman_env, base, svc) := ra in
  do rb <- ct_run_head u base cname svc;
  let '(args, svc) := rb in
  do rc <- ct_net_notify u tbl args svc;
  let '(args, svc) := rc in
  do args <- ct_security u args;
  do r4 <- handle_volumes mount_nl u path sec svc tbl args;
  let '(args, svc) := r4 in
  do args <- ct_labels_ports u path podman_env args;
  do r5 <- mounts_loop mount_nl path (lookup_all_args u sec (L "Mount")) svc tbl args;
  let '(args, svc) := r5 in
  do args <- handle_health u sec args;
  do r6 <- handle_pod u sec svc svc_path tbl args;
  let '(args, svc, tbl) := r6 in
  with_tbl tbl (
  let args := handle_podman_args u sec args in
  let args := match image with _ :: _ => args ++ [image] | [] => args ++ [L "--rootfs"; rootfs] end in
  let args := args ++ match lookup_last_value u sec (L "Exec") with Some raw => split_word_all raw | None => [] end in
  do svc <- add_raw_exec svc (L "ExecStart") args;
  COk (svc, svc_path, tbl))
  end).

(* ---------- .image ---------- *)
(* the podman object an .image unit provides: ImageTag if set, else the Image value *)
Definition image_resource (u : unit) : bres str :=
  do img <- lk u c_IMAGE_SECTION (L "Image");
  match img with
  | Some (c :: s) =>
      do tag <- lk u c_IMAGE_SECTION (L "ImageTag");
      COk (match tag with Some (d :: t) => d :: t | _ => c :: s end)
  | _ => err EInvalidImageOrRootfs
  end.

Definition image_body (u : unit) (svc : unit) : bres unit :=
  let sec := c_IMAGE_SECTION in
  do img <- lk u sec (L "Image");
  match img with
  | Some (c :: s) =>
      let image_name := c :: s in
      let svc := rename_own svc TImage in
      let svc := unit_add svc SEC_U (L "RequiresMountsFor") (L "%t/containers") in
      do base <- base_command u sec;
      let args := base ++ [L "image"; L "pull"] in
      do args <- add_strings u sec pt_from_image_unit_string_keys args;
      let args := add_bools u sec pt_from_image_unit_bool_keys args in
      let args := handle_podman_args u sec args ++ [image_name] in
      do svc <- add_raw_exec svc (L "ExecStart") args;
      one_shot_section svc true
  | _ => err EInvalidImageOrRootfs
  end.

Definition from_image (u : unit) (path : str) (tbl : table) : cres (unit * str * table) :=
  do pr <- prologue u path tbl TImage a_SUPPORTED_IMAGE_KEYS;
  let '(inf, svc) := pr in
  lift (
    do svc <- image_body u svc;
    do rname <- image_resource u;
    match file_name path with
    | Some fname => COk (svc, service_file_name inf, tbl_set tbl fname (with_resource inf rname))
    | None => CPanic
    end).

(* ---------- .network ---------- *)
Fixpoint subnets_loop (subnets gateways ranges : list str) (args : list str) : list str :=
  match subnets with
  | [] => args
  | s :: r =>
      let a := args ++ [L "--subnet"; s] in
      let '(a, g') := match gateways with g :: gr => (a ++ [L "--gateway"; g], gr) | [] => (a, []) end in
      let '(a, r') := match ranges with x :: xr => (a ++ [L "--ip-range"; x], xr) | [] => (a, []) end in
      subnets_loop r g' r' a
  end.

(* the podman object a .network unit provides *)
Definition network_name (u : unit) (path : str) : bres str :=
  do nn <- lk u c_NETWORK_SECTION (L "NetworkName");
  match nn with Some (c :: s) => COk (c :: s) | _ => default_resource_name path end.

Definition network_body (u : unit) (name : str) (svc : unit) : bres unit :=
  let sec := c_NETWORK_SECTION in
  let svc := rename_own svc TNetwork in
  let svc := unit_add svc SEC_U (L "RequiresMountsFor") (L "%t/containers") in
  do base <- base_command u sec;
  let args := base ++ [L "network"; L "create"; L "--ignore"] in
  let args := add_bools u sec pt_from_network_unit_bool_keys args in
  do args <- add_strings u sec pt_from_network_unit_string_keys args;
  do args <- add_all_strings u sec pt_from_network_unit_inline0 args;
  do subnets <- lk_all u sec (L "Subnet");
  do gateways <- lk_all u sec (L "Gateway");
  do ranges <- lk_all u sec (L "IPRange");
  do args <- (match subnets with
              | _ :: _ => if Nat.ltb (length subnets) (length gateways) then err EInvalidSubnet
                          else if Nat.ltb (length subnets) (length ranges) then err EInvalidSubnet
                          else COk (subnets_loop subnets gateways ranges args)
              | [] => match gateways, ranges with [], [] => COk args | _, _ => err EInvalidSubnet end
              end);
  let args := add_keys args (L "--opt") (lookup_all_key_val u sec (L "Options")) in
  let args := add_keys args (L "--label") (lookup_all_key_val u sec (L "Label")) in
  let args := handle_podman_args u sec args ++ [name] in
  do svc <- add_raw_exec svc (L "ExecStart") args;
  one_shot_section svc true.

Definition from_network (u : unit) (path : str) (tbl : table) : cres (unit * str * table) :=
  do pr <- prologue u path tbl TNetwork a_SUPPORTED_NETWORK_KEYS;
  let '(inf, svc) := pr in
  lift (
    do name <- network_name u path;
    do svc <- network_body u name svc;
    match file_name path with
    | Some fname => COk (svc, service_file_name inf, tbl_set tbl fname (with_resource inf name))
    | None => CPanic
    end).

(* ---------- .volume ---------- *)
(* the podman object a .volume unit provides *)
Definition volume_name (u : unit) (path : str) : bres str :=
  do vn <- lk u c_VOLUME_SECTION (L "VolumeName");
  match vn with Some (c :: s) => COk (c :: s) | _ => default_resource_name path end.

Definition volume_body (u : unit) (name : str) (svc : unit) (tbl : table) : bres unit :=
  let sec := c_VOLUME_SECTION in
  let svc := unit_add svc SEC_U (L "RequiresMountsFor") (L "%t/containers") in
  let labels := lookup_all_key_val u sec (L "Label") in
  do base <- base_command u sec;
  let args := base ++ [L "volume"; L "create"; L "--ignore"] in
  do driver <- lk u sec (L "Driver");
  let args := match driver with Some d => args ++ [L "--driver"; d] | None => args end in
  do r1 <- (if str_eqb (match driver with Some d => d | None => [] end) (L "image") then
              do img <- lk u sec (L "Image");
              match img with
              | None => err EInvalidImageOrRootfs
              | Some im => do r <- handle_image_source im svc tbl;
                           let '(iname, svc') := r in
                           COk (args ++ [L "--opt"; L "image=" ++ iname], svc')
              end
            else
              do usr <- lk u sec (L "User");
              do grp <- lk u sec (L "Group");
              (* repaired: an empty last assignment unsets the key (the pinned code tested has_key and produced uid=0 / gid=0) *)
              let opts := (match usr with Some s => [L "uid=" ++ N_to_str (parse_u32_or0 s)] | None => [] end)
                          ++ (match grp with Some s => [L "gid=" ++ N_to_str (parse_u32_or0 s)] | None => [] end) in
              let args := match lookup_bool u sec (L "Copy") with
                          | Some true => args ++ [L "--opt"; L "copy"]
                          | Some false => args ++ [L "--opt"; L "nocopy"]
                          | None => args
                          end in
              do dev <- lk u sec (L "Device");
              let '(args, dev_valid) := match dev with Some (c :: s) => (args ++ [L "--opt"; L "device=" ++ c :: s], true) | _ => (args, false) end in
              do ty <- lk u sec (L "Type");
              do args <- (match ty with
                          | Some (c :: s) => if dev_valid then COk (args ++ [L "--opt"; L "type=" ++ c :: s]) else err EInvalidDeviceType
                          | _ => COk args
                          end);
              do mo <- lk u sec (L "Options");
              do opts <- (match mo with
                          | Some (c :: s) => if dev_valid then COk (opts ++ [c :: s]) else err EInvalidDeviceOptions
                          | _ => COk opts
                          end);
              COk (match opts with [] => args | _ => args ++ [L "--opt"; L "o=" ++ join_comma opts] end, svc));
  let '(args, svc) := r1 in
  let args := add_keys args (L "--label") labels in
  let args := handle_podman_args u sec args ++ [name] in
  do svc <- add_raw_exec svc (L "ExecStart") args;
  one_shot_section svc true.

Definition from_volume (u : unit) (path : str) (tbl : table) : cres (unit * str * table) :=
  do pr <- prologue u path tbl TVolume a_SUPPORTED_VOLUME_KEYS;
  let '(inf, svc) := pr in
  lift (
    let svc := rename_own svc TVolume in
    do name <- volume_name u path;
    match file_name path with
    | None => CPanic
    | Some fname =>
        (* the resource name is stored before the rest of the conversion can fail *)
        let tbl' := tbl_set tbl fname (with_resource inf name) in
        with_tbl tbl' (do svc <- volume_body u name svc tbl'; COk (svc, service_file_name inf, tbl'))
    end).

(* ---------- .kube ---------- *)
Definition from_kube (u : unit) (path : str) (tbl : table) : cres (unit * str * table) :=
  let sec := c_KUBE_SECTION in
  do pr <- prologue u path tbl TKube a_SUPPORTED_KUBE_KEYS;
  let '(inf, svc) := pr in
  lift (
  let svc := rename_own svc TKube in
  do y <- lk u sec (L "Yaml");
  match y with
  | Some (c :: s) =>
      do yaml <- abs_from_unit (c :: s) path;
      (* pinned: KillMode is looked up in [Kube], where the key cannot exist, so the user's [Service] KillMode is always
         overwritten; repaired: looked up in the service, as for containers *)
      do svc <- (if kill_fixed then
                   do km <- lk svc SEC_S (L "KillMode");
                   match km with
                   | None => COk (unit_set svc SEC_S (L "KillMode") (L "mixed"))
                   | Some k => if str_eqb k (L "mixed") || str_eqb k (L "control-group") then COk svc else err (EInvalidKillMode k)
                   end
                 else COk (unit_set svc SEC_S (L "KillMode") (L "mixed")));
      let svc := unit_add svc SEC_S (L "Environment") (L "PODMAN_SYSTEMD_UNIT=%n") in
      let svc := unit_add svc SEC_U (L "RequiresMountsFor") (L "%t/containers") in
      do ty <- lk svc SEC_S (L "Type");
      let svc := match ty with
                 | Some t => if str_eqb t (L "oneshot") then svc
                             else unit_add (unit_add svc SEC_S (L "Type") (L "notify")) SEC_S (L "NotifyAccess") (L "all")
                 | None => unit_add (unit_add svc SEC_S (L "Type") (L "notify")) SEC_S (L "NotifyAccess") (L "all")
                 end in
      let svc := if has_key u SEC_S (L "SyslogIdentifier") then svc else unit_set svc SEC_S (L "SyslogIdentifier") (L "%N") in
      do base <- base_command u sec;
      let args := base ++ [L "kube"; L "play"; L "--replace"; L "--service-container=true"] in
      do ecp <- lk u sec (L "ExitCodePropagation");
      let args := match ecp with Some (d :: e) => args ++ [L "--service-exit-code-propagation=" ++ d :: e] | _ => args end in
      do args <- handle_log_driver u sec args;
      let args := handle_log_opt u sec args in
      do args <- handle_user_mappings u sec args false;
      do r1 <- handle_networks u sec svc tbl args;
      let '(args, svc) := r1 in
      let args := args ++ flat_map (fun upd =>
                    match split_once cSLASH upd with
                    | Some (a, t) => [L "--annotation"; c_AUTO_UPDATE_LABEL ++ [cSLASH] ++ a ++ [cEQ] ++ t]
                    | None => [L "--annotation"; c_AUTO_UPDATE_LABEL ++ [cEQ] ++ upd]
                    end) (lookup_all_strv u sec (L "AutoUpdate")) in
      do cms <- (fix go (l : list str) : bres (list str) :=
                   match l with
                   | [] => COk []
                   | f :: r => do a <- abs_from_unit f path; do rest <- go r; COk (a :: rest)
                   end) (lookup_all_strv u sec (L "ConfigMap"));
      let args := args ++ with_flag (L "--configmap") cms in
      do args <- add_all_strings u sec pt_handle_publish_ports_inline0 args;
      let args := handle_podman_args u sec args ++ [yaml] in
      do svc <- add_raw_exec svc (L "ExecStart") args;
      do base2 <- base_command u sec;
      let stop := base2 ++ [L "kube"; L "down"] in
      let stop := match lookup_bool u sec (L "KubeDownForce") with Some b => add_bool stop (L "--force") b | None => stop end in
      do svc <- add_raw_exec svc (L "ExecStopPost") (stop ++ [yaml]);
      do r2 <- handle_set_working_directory u path svc TKube;
      COk (snd r2, service_file_name inf, tbl)
  | _ => err ENoYamlKeySpecified
  end).

(* ---------- .pod ---------- *)
Definition from_pod (u : unit) (path : str) (tbl : table) : cres (unit * str * table) :=
  let sec := c_POD_SECTION in
  do pr <- prologue u path tbl TPod a_SUPPORTED_POD_KEYS;
  let '(inf, svc) := pr in
  lift (
  do pn <- lk u sec (L "PodName");
  do name <- (match pn with Some (c :: s) => COk (c :: s) | _ => default_resource_name path end);
  let svc := rename_own svc TPod in
  let svc := unit_add svc SEC_U (L "RequiresMountsFor") (L "%t/containers") in
  let svc := fold_left (fun s c => unit_add (unit_add s SEC_U (L "Wants") c) SEC_U (L "Before") c) (i_containers inf) svc in
  do sysl <- lk u SEC_S (L "SyslogIdentifier");
  let svc := match sysl with None => unit_set svc SEC_S (L "SyslogIdentifier") (L "%N") | Some _ => svc end in
  do base <- base_command u sec;
  do svc <- add_raw_exec svc (L "ExecStart") (base ++ [L "pod"; L "start"; L "--pod-id-file=%t/%N.pod-id"]);
  do svc <- add_raw_exec svc (L "ExecStop") (base ++ [L "pod"; L "stop"; L "--pod-id-file=%t/%N.pod-id"; L "--ignore"; L "--time=10"]);
  do svc <- add_raw_exec svc (L "ExecStopPost") (base ++ [L "pod"; L "rm"; L "--pod-id-file=%t/%N.pod-id"; L "--ignore"; L "--force"]);
  let args := base ++ [L "pod"; L "create"; L "--infra-conmon-pidfile=%t/%N.pid"; L "--pod-id-file=%t/%N.pod-id"; L "--exit-policy=stop"; L "--replace"] in
  do args <- handle_user_mappings u sec args true;
  do args <- add_all_strings u sec pt_handle_publish_ports_inline0 args;
  do r1 <- handle_networks u sec svc tbl args;
  let '(args, svc) := r1 in
  do args <- add_strings u sec pt_from_pod_unit_string_keys args;
  do args <- add_all_strings u sec pt_from_pod_unit_all_string_keys args;
  do r2 <- handle_volumes mount_nl u path sec svc tbl args;
  let '(args, svc) := r2 in
  let args := args ++ [L "--infra-name"; name ++ L "-infra"; L "--name"; name] in
  let args := handle_podman_args u sec args in
  do svc <- add_raw_exec svc (L "ExecStartPre") args;
  let svc := unit_add svc SEC_S (L "Environment") (L "PODMAN_SYSTEMD_UNIT=%n") in
  let svc := unit_add svc SEC_S (L "Type") (L "forking") in
  let svc := unit_add svc SEC_S (L "Restart") (L "on-failure") in
  let svc := unit_add svc SEC_S (L "PIDFile") (L "%t/%N.pid") in
  COk (svc, service_file_name inf, tbl)).

(* ---------- .build ---------- *)
Definition from_build (u : unit) (path : str) (tbl : table) : cres (unit * str * table) :=
  let sec := c_BUILD_SECTION in
  match file_name path with
  | None => CPanic
  | Some fname =>
  match tbl_get tbl fname with
  | None => err (EB EInternal)
  | Some inf0 =>
  match i_resource_name inf0 with
  | [] => err (EB ENoImageTagKeySpecified)
  | _ =>
  let svc := default_dependencies (merge_from [] u) in
  let svc := unit_add svc SEC_U (L "RequiresMountsFor") (L "%t/containers") in
  let svc := match path with [] => svc | _ => unit_add svc SEC_U (L "SourcePath") path end in
  do _ <- section_unquotes u sec;
  do _ <- check_for_unknown_keys u sec a_SUPPORTED_BUILD_KEYS;
  do _ <- section_unquotes u SEC_Q;
  do _ <- check_for_unknown_keys u SEC_Q a_SUPPORTED_QUADLET_KEYS;
  lift (
  let inf := inf0 in
  let svc := rename_own svc TBuild in
  do base <- base_command u sec;
  let args := base ++ [L "build"] in
  do pull <- lk u sec (L "Pull");
  let args := match pull with Some (c :: s) => args ++ [L "--pull=" ++ c :: s] | _ => args end in
  do args <- add_strings u sec pt_from_build_unit_string_keys args;
  let args := add_bools u sec pt_from_build_unit_bool_keys args in
  do args <- add_all_strings u sec pt_from_build_unit_all_string_keys args;
  let args := add_keys args (L "--annotation") (lookup_all_key_val u sec (L "Annotation")) in
  let args := add_keys args (L "--env") (lookup_all_key_val u sec (L "Environment")) in
  let args := add_keys args (L "--label") (lookup_all_key_val u sec (L "Label")) in
  do r1 <- handle_networks u sec svc tbl args;
  let '(args, svc) := r1 in
  let args := args ++ with_flag (L "--secret") (lookup_all_args u sec (L "Secret")) in
  do r2 <- handle_volumes mount_nl u path sec svc tbl args;
  let '(args, svc) := r2 in
  do r3 <- handle_set_working_directory u path svc TBuild;
  let '(context, svc) := r3 in
  do wd <- lk svc SEC_S (L "WorkingDirectory");
  do fp <- lk u sec (L "File");
  do r4 <- (match wd, fp, context with
            | None, None, [] => err ENoSetWorkingDirectoryNorFileKeySpecified
            | None, None, _ => COk ([], [])
            | Some [], None, [] => err ENoSetWorkingDirectoryNorFileKeySpecified
            | Some w, None, _ => COk (w, [])
            | None, Some [], [] => err ENoSetWorkingDirectoryNorFileKeySpecified
            | None, Some f, _ => COk ([], f)
            | Some w, Some f, _ => COk (w, f)
            end);
  let '(working_directory, file_path) := r4 in
  let args := match file_path with [] => args | _ => args ++ [L "--file"; file_path] end in
  let args := handle_podman_args u sec args in
  do args <- (match context with
              | _ :: _ => COk (args ++ [context])
              | [] => if negb (is_absolute file_path) && negb (is_url file_path) then
                        match working_directory with [] => err EInvalidRelativeFile | _ => COk (args ++ [working_directory]) end
                      else COk args
              end);
  do svc <- add_raw_exec svc (L "ExecStart") args;
  do svc <- one_shot_section svc false;
  COk (svc, service_file_name inf, tbl)
  )
  end end end.

Definition convert_one (u : unit) (path : str) (t : qtype) (tbl : table) : cres (unit * str * table) :=
  match t with
  | TBuild => from_build u path tbl
  | TContainer => from_container u path tbl
  | TImage => from_image u path tbl
  | TKube => from_kube u path tbl
  | TNetwork => from_network u path tbl
  | TPod => from_pod u path tbl
  | TVolume => from_volume u path tbl
  end.

End Convert.
