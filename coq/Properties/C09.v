(* C09 -- pod membership is wired symmetrically between pods and their containers.
   Proved on the model for the whole generator run over arbitrary file contents (parse, name table, sort by type priority,
   convert one after the other with the table threaded through):
     C09_pods_want_exactly_their_members   when a .pod unit is converted, its service wants and is ordered before exactly the
                                           containers registered so far (after the user's own Wants=/Before= and, for Wants, the
                                           default dependency), every container precedes every pod in the run, and the service file
                                           name the pod's own conversion returns is the one the table held for it from the start;
     C09_members_spec / C09_registered_spec which containers those are: converted (or failed only in the final ExecStart store),
                                           Pod= names this pod's file, StartWithPod not switched off;
     C09_members_are_bound_to_their_pod    a converted container naming Pod=p.pod has BindsTo=/After= that same service file name and
                                           --pod-id-file %t/<that name without .service>.pod-id, and is registered unless it opted out;
   plus the handler-level facts of the first round (C09_member, C09_errors, C09_members_wired, C09_slash_refuted).
   The tie to /repo: whole-service correspondence of the Process model with the implementation on generated pod/container
   populations, and the direct oracle of tools/props/C09.py on implementation output. *)
From Coq Require Import Sorting.Sorted.
From QV Require Import Model.Base Generated.Tables Model.Quote Model.Unit Model.Parser Model.Path Model.Names Model.Convert Model.Process Proofs.C07 Proofs.C07run Proofs.C08 Proofs.C09 Proofs.C09run Model.ProcessD Proofs.RunTrees.

(* ---- the whole run ---- *)
(* loaded_units files: the units that loaded; sort_units: by type priority; table_of: the name table before any conversion;
   final_tbl l1 tbl0: the table after converting the prefix l1; members l1 tbl0 P: what those conversions registered for pod file P *)
Theorem C09_pods_want_exactly_their_members : forall podman exists_path kill_fixed mount_nl files l1 xp l2 P svc sp t',
  sort_units (loaded_units files) = l1 ++ xp :: l2 -> i_type (l_info xp) = TPod -> file_name (l_path xp) = Some P ->
  let tbl0 := table_of (sort_units (loaded_units files)) in
  convert_one podman exists_path kill_fixed mount_nl (l_unit xp) (l_path xp) (i_type (l_info xp))
              (final_tbl podman exists_path kill_fixed mount_nl l1 tbl0) = COk (svc, sp, t') ->
  (forall x, In x l2 -> i_type (l_info x) <> TContainer) /\
  sfile tbl0 P = Some sp /\
  exists pre, (pre = [] \/ pre = [s2l "network-online.target"]) /\
    vals svc SEC_U (s2l "Wants") = pre ++ vals (l_unit xp) SEC_U (s2l "Wants")
                                   ++ map quote_value (members podman exists_path kill_fixed mount_nl l1 tbl0 P) /\
    vals svc SEC_U (s2l "Before") = vals (l_unit xp) SEC_U (s2l "Before")
                                    ++ map quote_value (members podman exists_path kill_fixed mount_nl l1 tbl0 P).
Proof. exact pods_want_exactly_their_members. Qed.

(* the result of converting the unit at a position of the run is computed with the table the prefix left behind *)
Theorem C09_run_position : forall podman exists_path kill_fixed mount_nl l1 x l2 tbl0,
  convert_all podman exists_path kill_fixed mount_nl (l1 ++ x :: l2) tbl0 =
  convert_all podman exists_path kill_fixed mount_nl l1 tbl0 ++
  (l_path x, res_of (convert_one podman exists_path kill_fixed mount_nl (l_unit x) (l_path x) (i_type (l_info x))
                                 (final_tbl podman exists_path kill_fixed mount_nl l1 tbl0)))
  :: convert_all podman exists_path kill_fixed mount_nl l2 (final_tbl podman exists_path kill_fixed mount_nl (l1 ++ [x]) tbl0).
Proof. exact run_position. Qed.

Theorem C09_members_spec : forall podman exists_path kill_fixed mount_nl l tbl P s,
  In s (members podman exists_path kill_fixed mount_nl l tbl P) <->
  exists l1 x l2, l = l1 ++ x :: l2 /\
    In s (regd podman exists_path kill_fixed mount_nl x (final_tbl podman exists_path kill_fixed mount_nl l1 tbl) P).
Proof. exact members_spec. Qed.

Theorem C09_registered_spec : forall podman exists_path kill_fixed mount_nl x tbl P s,
  In s (regd podman exists_path kill_fixed mount_nl x tbl P) <->
  (i_type (l_info x) = TContainer /\
   ((exists svc sp t', convert_one podman exists_path kill_fixed mount_nl (l_unit x) (l_path x) (i_type (l_info x)) tbl = COk (svc, sp, t')) \/
    (exists t', convert_one podman exists_path kill_fixed mount_nl (l_unit x) (l_path x) (i_type (l_info x)) tbl = CErr (EB EParsing) (Some t'))) /\
   (exists i, @lk berr (l_unit x) c_CONTAINER_SECTION (s2l "Pod") = COk (Some P) /\ P <> [] /\ ends_with (s2l ".pod") P = true /\
              tbl_get tbl P = Some i /\ start_with_pod (l_unit x) = true) /\
   own_sfile x tbl = Some s).
Proof.
  intros. rewrite regd_spec. split; intros (A & B & (i & C) & D); (split; [exact A|split; [exact B|split; [exists i|exact D]]]);
    apply pod_reg_spec; exact C.
Qed.

Theorem C09_members_are_bound_to_their_pod : forall podman exists_path kill_fixed mount_nl files l1 xc l2 svc sp t' c p,
  sort_units (loaded_units files) = l1 ++ xc :: l2 -> i_type (l_info xc) = TContainer ->
  @lk berr (l_unit xc) c_CONTAINER_SECTION (s2l "Pod") = COk (Some (c :: p)) ->
  let tbl0 := table_of (sort_units (loaded_units files)) in
  convert_one podman exists_path kill_fixed mount_nl (l_unit xc) (l_path xc) (i_type (l_info xc))
              (final_tbl podman exists_path kill_fixed mount_nl l1 tbl0) = COk (svc, sp, t') ->
  exists psf, sfile tbl0 (c :: p) = Some psf /\ ends_with (s2l ".pod") (c :: p) = true /\
    In (quote_value psf) (vals svc SEC_U (s2l "BindsTo")) /\ In (quote_value psf) (vals svc SEC_U (s2l "After")) /\
    (exists before pre post, vals svc SEC_S (s2l "ExecStart") =
       before ++ [quote_words (pre ++ [s2l "--pod-id-file"; s2l "%t/" ++ strip_service psf ++ s2l ".pod-id"] ++ post)]) /\
    (start_with_pod (l_unit xc) = true ->
       own_sfile xc (final_tbl podman exists_path kill_fixed mount_nl l1 tbl0) = Some sp /\
       In sp (members podman exists_path kill_fixed mount_nl (l1 ++ [xc]) tbl0 (c :: p))).
Proof. exact members_are_bound_to_their_pod. Qed.

(* the service file name of every table entry never changes during a run; the list of containers only grows by registrations *)
Theorem C09_table_along_the_run : forall podman exists_path kill_fixed mount_nl l tbl P,
  sfile (final_tbl podman exists_path kill_fixed mount_nl l tbl) P = sfile tbl P /\
  conts (final_tbl podman exists_path kill_fixed mount_nl l tbl) P = conts tbl P ++ members podman exists_path kill_fixed mount_nl l tbl P.
Proof. intros. split; [apply final_sfile|apply final_conts]. Qed.

Theorem C09_member : forall u sec svc svc_path tbl args c p i,
  @lk berr u sec (s2l "Pod") = COk (Some (c :: p)) -> ends_with (s2l ".pod") (c :: p) = true -> tbl_get tbl (c :: p) = Some i ->
  handle_pod u sec svc svc_path tbl args =
  COk (args ++ [s2l "--pod-id-file"; s2l "%t/" ++ pod_unit_name i ++ s2l ".pod-id"], pod_deps svc (service_file_name i),
       if match lookup_bool u sec (s2l "StartWithPod") with Some b => b | None => true end
       then tbl_set tbl (c :: p) (with_container i svc_path) else tbl).
Proof. exact pod_member. Qed.

Theorem C09_errors :
  (forall u sec svc svc_path tbl args c p, @lk berr u sec (s2l "Pod") = COk (Some (c :: p)) -> ends_with (s2l ".pod") (c :: p) = false ->
     handle_pod u sec svc svc_path tbl args = err (EInvalidPod (c :: p))) /\
  (forall u sec svc svc_path tbl args c p, @lk berr u sec (s2l "Pod") = COk (Some (c :: p)) -> ends_with (s2l ".pod") (c :: p) = true -> tbl_get tbl (c :: p) = None ->
     handle_pod u sec svc svc_path tbl args = err (EPodNotFound (c :: p))).
Proof. exact (conj pod_not_a_pod_file pod_missing). Qed.

Theorem C09_members_wired : forall cs svc,
  vals (add_members svc cs) SEC_U (s2l "Wants") = vals svc SEC_U (s2l "Wants") ++ map quote_value cs /\
  vals (add_members svc cs) SEC_U (s2l "Before") = vals svc SEC_U (s2l "Before") ++ map quote_value cs.
Proof. exact members_wired. Qed.

(* pinned: ServiceName containing '/' made the two pod-id paths differ; repaired: the member uses the service file name too *)
Theorem C09_slash_refuted :
  service_file_name slash_info = s2l "b.service" /\ (s2l "%t/" ++ i_service_name slash_info ++ s2l ".pod-id") = s2l "%t/a/b.pod-id" /\
  (s2l "%t/" ++ pod_unit_name slash_info ++ s2l ".pod-id") = s2l "%t/b.pod-id".
Proof. exact slash_in_service_name. Qed.

(* ---- the same on the run with drop-ins (Model/ProcessD.v: every unit is merged with its drop-ins before the name table is built):
   tree_units b files are the units that loaded, each merged with its drop-ins ---- *)
Theorem C09_pods_want_exactly_their_members_with_dropins : forall podman exists_path kill_fixed mount_nl b files l1 xp l2 P svc sp t',
  sort_units (tree_units b files) = l1 ++ xp :: l2 -> i_type (l_info xp) = TPod -> file_name (l_path xp) = Some P ->
  let tbl0 := table_of (sort_units (tree_units b files)) in
  convert_one podman exists_path kill_fixed mount_nl (l_unit xp) (l_path xp) (i_type (l_info xp))
              (final_tbl podman exists_path kill_fixed mount_nl l1 tbl0) = COk (svc, sp, t') ->
  (forall x, In x l2 -> i_type (l_info x) <> TContainer) /\
  sfile tbl0 P = Some sp /\
  exists pre, (pre = [] \/ pre = [s2l "network-online.target"]) /\
    vals svc SEC_U (s2l "Wants") = pre ++ vals (l_unit xp) SEC_U (s2l "Wants")
                                   ++ map quote_value (members podman exists_path kill_fixed mount_nl l1 tbl0 P) /\
    vals svc SEC_U (s2l "Before") = vals (l_unit xp) SEC_U (s2l "Before")
                                    ++ map quote_value (members podman exists_path kill_fixed mount_nl l1 tbl0 P).
Proof. exact trees_pods_want_exactly_their_members. Qed.

Theorem C09_members_are_bound_to_their_pod_with_dropins : forall podman exists_path kill_fixed mount_nl b files l1 xc l2 svc sp t' c p,
  sort_units (tree_units b files) = l1 ++ xc :: l2 -> i_type (l_info xc) = TContainer ->
  @lk berr (l_unit xc) c_CONTAINER_SECTION (s2l "Pod") = COk (Some (c :: p)) ->
  let tbl0 := table_of (sort_units (tree_units b files)) in
  convert_one podman exists_path kill_fixed mount_nl (l_unit xc) (l_path xc) (i_type (l_info xc))
              (final_tbl podman exists_path kill_fixed mount_nl l1 tbl0) = COk (svc, sp, t') ->
  exists psf, sfile tbl0 (c :: p) = Some psf /\ ends_with (s2l ".pod") (c :: p) = true /\
    In (quote_value psf) (vals svc SEC_U (s2l "BindsTo")) /\ In (quote_value psf) (vals svc SEC_U (s2l "After")) /\
    (exists before pre post, vals svc SEC_S (s2l "ExecStart") =
       before ++ [quote_words (pre ++ [s2l "--pod-id-file"; s2l "%t/" ++ strip_service psf ++ s2l ".pod-id"] ++ post)]) /\
    (start_with_pod (l_unit xc) = true ->
       own_sfile xc (final_tbl podman exists_path kill_fixed mount_nl l1 tbl0) = Some sp /\
       In sp (members podman exists_path kill_fixed mount_nl (l1 ++ [xc]) tbl0 (c :: p))).
Proof. exact trees_members_are_bound_to_their_pod. Qed.

(* the units of that run are what the theorems above are about: the conversions of process_trees are the run over them *)
Theorem C09_run_with_dropins_is : forall podman exists_path kill_fixed mount_nl b files,
  snd (process_trees podman exists_path kill_fixed mount_nl b files) =
  convert_all podman exists_path kill_fixed mount_nl (sort_units (tree_units b files)) (table_of (sort_units (tree_units b files))).
Proof. exact process_trees_snd. Qed.

(* a container made a member by a DROP-IN is wanted by the pod; a drop-in that says nothing about Pod= changes nothing for it *)
Theorem C09_dropin_membership_example :
  tree_pod_wants [ext_pod; ext_plain] = Some [s2l "network-online.target"] /\
  tree_pod_wants [ext_pod; ext_other] = Some [s2l "network-online.target"] /\
  tree_pod_wants [ext_pod; ext_joined] = Some [s2l "network-online.target"; s2l "in.service"].
Proof. exact dropin_membership_example. Qed.
