(* C09 -- pod membership is wired symmetrically between pods and their containers.
   PARTIAL: proved are the handler-level facts (what a member container gets and records in the name table; what a pod's service
   gets from the recorded list; the three failure cases).  "Exactly those containers, whatever the numbers and names" over whole
   runs is decided by the direct oracle and by correspondence of the Process model. *)
From QV Require Import Model.Base Generated.Tables Model.Quote Model.Unit Model.Names Model.Convert Proofs.C07 Proofs.C09.

Theorem C09_member : forall u sec svc svc_path tbl args c p i,
  @lk berr u sec (s2l "Pod") = COk (Some (c :: p)) -> ends_with (s2l ".pod") (c :: p) = true -> tbl_get tbl (c :: p) = Some i ->
  handle_pod u sec svc svc_path tbl args =
  COk (args ++ [s2l "--pod-id-file"; s2l "%t/" ++ pod_unit_name i ++ s2l ".pod-id"], pod_deps svc (service_file_name i),
       if match lookup_bool u sec (s2l "StartWithPod") with Some b => b | None => true end
       then tbl_set tbl (c :: p) (with_container i svc_path) else tbl).
Proof. exact pod_member. Qed.

Theorem C09_errors :
  (forall u sec svc svc_path tbl args c p, @lk berr u sec (s2l "Pod") = COk (Some (c :: p)) -> ends_with (s2l ".pod") (c :: p) = false ->
     handle_pod u sec svc svc_path tbl args = err (EInvalidPod (c :: p))) /\
  (forall u sec svc svc_path tbl args c p, @lk berr u sec (s2l "Pod") = COk (Some (c :: p)) -> ends_with (s2l ".pod") (c :: p) = true -> tbl_get tbl (c :: p) = None ->
     handle_pod u sec svc svc_path tbl args = err (EPodNotFound (c :: p))).
Proof. exact (conj pod_not_a_pod_file pod_missing). Qed.

Theorem C09_members_wired : forall cs svc,
  vals (add_members svc cs) SEC_U (s2l "Wants") = vals svc SEC_U (s2l "Wants") ++ map quote_value cs /\
  vals (add_members svc cs) SEC_U (s2l "Before") = vals svc SEC_U (s2l "Before") ++ map quote_value cs.
Proof. exact members_wired. Qed.

(* pinned: ServiceName containing '/' made the two pod-id paths differ; repaired: the member uses the service file name too *)
Theorem C09_slash_refuted :
  service_file_name slash_info = s2l "b.service" /\ (s2l "%t/" ++ i_service_name slash_info ++ s2l ".pod-id") = s2l "%t/a/b.pod-id" /\
  (s2l "%t/" ++ pod_unit_name slash_info ++ s2l ".pod-id") = s2l "%t/b.pod-id".
Proof. exact slash_in_service_name. Qed.
