(* C13 -- search order picks among same-named files; drop-ins come from every search dir.
   PARTIAL: the shadowing algorithms and the drop-in directory computation are proved on lists; directory traversal
   (walkdir/read_dir order, recursion into subdirectories) and the merge itself are exercised end to end. *)
From QV Require Import Model.Base Model.Path Model.Dropins Proofs.C13.

(* among the files met in search order, exactly the first loadable file of each name is used, and no name twice --
   for every sequence of (directory, name, loads?) *)
Theorem C13_first_wins : forall files,
  NoDup (map f_name (pick_units [] files)) /\
  (forall f, In f (pick_units [] files) <->
     exists pre post, files = pre ++ f :: post /\ f_loads f = true /\ (forall g, In g pre -> f_name g = f_name f -> f_loads g = false)).
Proof. exact units_first_wins. Qed.

(* a drop-in name is provided by the first drop-in directory (in search order) that contains it *)
Theorem C13_dropin_shadowing : forall dirs n d, In (n, d) (pick_dropins [] dirs) ->
  exists pre names post, dirs = pre ++ (d, names) :: post /\ In n names /\ (forall d' ns', In (d', ns') pre -> ~ In n ns').
Proof.
  intros dirs n d H. destruct (pick_dropins_spec dirs [] n d H) as (pre & names & post & E & Hin & _ & Hp).
  exists pre, names, post. auto.
Qed.

(* drop-in directories are <search dir>/<unit file name>.d for EVERY search dir (then the template directories) *)
Theorem C13_dropin_dirs : forall sps unit_path fname, file_name unit_path = Some fname ->
  exists tmpl, dropin_dirs true sps unit_path = map (fun sp => path_join sp (fname ++ s2l ".d")) sps ++ tmpl.
Proof. exact dropin_dirs_by_name. Qed.

(* pinned: joining with the unit's absolute path discarded the search directory *)
Theorem C13_pinned_refuted :
  dropin_dirs false [s2l "/first"; s2l "/second"] (s2l "/first/x.container") = [s2l "/first/x.container.d"; s2l "/first/x.container.d"] /\
  dropin_dirs true [s2l "/first"; s2l "/second"] (s2l "/first/x.container") = [s2l "/first/x.container.d"; s2l "/second/x.container.d"] /\
  dropin_dirs true [s2l "/a"; s2l "/b"] (s2l "/a/t@i.container") =
    [s2l "/a/t@i.container.d"; s2l "/b/t@i.container.d"; s2l "/a/t@.container.d"; s2l "/b/t@.container.d"].
Proof. exact pinned_refuted. Qed.
