(* C05 -- list-valued keys are split into words exactly as systemd splits them. *)
From QV Require Import Model.Base Model.Split Spec.SdExtract Proofs.C05.

(* argument-style keys: wherever systemd's extract_first_word(UNQUOTE|CUNESCAPE|RELAX) succeeds on a raw value,
   collecting SplitWord yields exactly systemd's word list (same words, same order, none dropped) *)
Theorem C05_args_equiv : forall raw ws, sd_split fl_args raw = Some ws -> split_word_all raw = ws.
Proof. exact args_equiv. Qed.

(* plain list keys: same against extract_first_word(UNQUOTE|RETAIN_ESCAPE) *)
Theorem C05_strv_equiv : forall raw ws, sd_split fl_strv raw = Some ws -> split_strv_all raw = ws.
Proof. exact strv_equiv. Qed.

(* the pinned (pre-fix) splitters drop an explicitly quoted empty word and every word after it *)
Theorem C05_pinned_refuted :
  split_word_all_pinned (s2l "sh -c """" foo") = [s2l "sh"; s2l "-c"] /\
  sd_split fl_args (s2l "sh -c """" foo") = Some [s2l "sh"; s2l "-c"; []; s2l "foo"] /\
  split_strv_all_pinned (s2l "a """" b") = [s2l "a"] /\
  sd_split fl_strv (s2l "a """" b") = Some [s2l "a"; []; s2l "b"].
Proof. exact pinned_refuted. Qed.

Check C05_args_equiv : forall raw ws, sd_split fl_args raw = Some ws -> split_word_all raw = ws.
Check C05_strv_equiv : forall raw ws, sd_split fl_strv raw = Some ws -> split_strv_all raw = ws.
