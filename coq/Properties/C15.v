(* C15 -- repeated assignments: last wins, lists accumulate, empty assignment resets. *)
From QV Require Import Model.Base Model.Split Model.Unit Spec.Effective Proofs.C15 Model.Lex Model.Parser Model.ProcessD Proofs.C06trees.

(* list keys: the looked-up values are exactly the history after its last empty assignment *)
Theorem C15_list : forall u sec key, lookup_all_values u sec key = effective (values_raw u sec key).
Proof. exact list_rule. Qed.

(* [effective] is "the suffix after the last empty assignment", stated without the algorithm *)
Theorem C15_effective_is_suffix : forall hist,
  (existsb is_empty hist = false /\ effective hist = hist) \/
  (exists pre, hist = pre ++ [] :: effective hist /\ existsb is_empty (effective hist) = false).
Proof. exact effective_spec. Qed.

(* single-valued keys: the last of the effective assignments (none after an empty last assignment) *)
Theorem C15_last : forall u sec key, lookup_last_value u sec key = last_assignment (values_raw u sec key).
Proof. exact last_rule. Qed.

(* name=value keys: last value per name among the words of the effective assignments *)
Theorem C15_kv : forall u sec key n,
  assoc_str n (lookup_all_key_val u sec key) =
  last_value_for n (flat_map split_word_all (effective (values_raw u sec key))).
Proof. exact kv_rule. Qed.

(* a history distributed over the main file and a drop-in is the concatenated history *)
Theorem C15_dropins : forall u d sec key, NoDup (map fst d) ->
  values_raw (merge_from u d) sec key = values_raw u sec key ++ values_raw d sec key.
Proof. exact dropin_history. Qed.

(* pinned: an empty last assignment was returned as the value "" (giving --log-driver "" etc.) *)
Theorem C15_pinned_refuted :
  lookup_last_value_pinned [(s2l "Container", [(s2l "LogDriver", s2l "journald"); (s2l "LogDriver", [])])] (s2l "Container") (s2l "LogDriver") = Some []
  /\ effective [s2l "journald"; []] = [].
Proof. exact pinned_last_refuted. Qed.

Check C15_list : forall u sec key, lookup_all_values u sec key = effective (values_raw u sec key).

(* drop-ins, any number: the history of a key in the unit the generator converts (Model/ProcessD.v: the main file merged with its drop-ins) is
   its history in the main file followed by its histories in the drop-ins, in merge order -- so "distributed arbitrarily over the main file,
   repeated sections and any number of drop-in files" is one history, to which C15_list / C15_last / C15_kv apply *)
Theorem C15_merged_history : forall ds u sec key, Forall (fun d => parse_unit d <> None) ds ->
  values_raw (fst (merge_dropins u ds)) sec key = values_raw u sec key ++ dropin_values ds sec key.
Proof. exact merged_history. Qed.

(* ---- the three reading rules on the unit the run converts (main file merged with its drop-ins, Model/ProcessD.v): each rule is
   applied to the key's history over the main file followed by the drop-ins in merge order ---- *)
Theorem C15_rules_with_dropins : forall ds u sec key, Forall (fun d => parse_unit d <> None) ds ->
  let m := fst (merge_dropins u ds) in
  let hist := values_raw u sec key ++ dropin_values ds sec key in
  lookup_all_values m sec key = effective hist /\
  lookup_last_value m sec key = last_assignment hist /\
  forall n, assoc_str n (lookup_all_key_val m sec key) = last_value_for n (flat_map split_word_all (effective hist)).
Proof.
  intros ds u sec key H. cbv zeta. rewrite <- (merged_history ds u sec key H).
  split; [apply list_rule|]. split; [apply last_rule|]. intros n. apply kv_rule.
Qed.
