(* C08 -- references to other Quadlet units resolve to real names and add dependencies.
   PARTIAL: proved are the links of the chain -- the look-up handlers use the table's names and add Requires=/After= on the
   table's service file (or fail naming the missing file); converting a volume / network / image stores the documented object
   name in the table; the stored service name is the documented one; units are processed in type-priority order.  The end-to-end
   statement over arbitrary reference graphs is decided by the direct oracle plus correspondence of the Process model. *)
From Coq Require Import Sorting.Sorted Sorting.Permutation.
From QV Require Import Model.Base Generated.Tables Model.Unit Model.Path Model.Names Model.Convert Model.Process Spec.Names Proofs.C08.

Theorem C08_storage_source : forall unit_path svc src tbl check_image,
  starts_with [cDOT] src = false -> starts_with [cSLASH] src = false ->
  (ends_with (s2l ".volume") src || (check_image && ends_with (s2l ".image") src)) = true ->
  handle_storage_source unit_path svc src tbl check_image =
  match tbl_get tbl src with
  | Some i => COk (i_resource_name i, deps svc (service_file_name i))
  | None => err (ESourceNotFound src)
  end.
Proof. exact storage_source_resolves. Qed.

Theorem C08_image_source : forall name svc tbl,
  (ends_with (s2l ".build") name || ends_with (s2l ".image") name) = true ->
  handle_image_source name svc tbl =
  match tbl_get tbl name with
  | Some i => COk (i_resource_name i, deps svc (service_file_name i))
  | None => err (EImageNotFound name)
  end.
Proof. exact image_source_resolves. Qed.

Theorem C08_network : forall name svc tbl args i, name <> [] -> memN cCOLON name = false ->
  ends_with (s2l ".network") name = true -> ends_with (s2l ".container") name = false ->
  tbl_get tbl name = Some i -> i_resource_name i <> [] ->
  networks_loop [name] svc tbl args = COk (args ++ [s2l "--network"; i_resource_name i], deps svc (service_file_name i)).
Proof. exact network_resolves. Qed.

Theorem C08_service_names : forall u path t fname stem,
  file_name path = Some fname -> file_stem fname = Some stem -> file_name fname = Some fname -> parent fname = None \/ parent fname = Some [] ->
  forall sn, @service_name_of berr u path t = COk sn ->
  exists explicit, @lk berr u (type_section t) (s2l "ServiceName") = COk explicit /\ sn = spec_service_name explicit stem (type_suffix t).
Proof. exact service_name_is_documented. Qed.

Theorem C08_tables_set :
  (forall podman u path tbl svc sp tbl', from_volume podman u path tbl = COk (svc, sp, tbl') ->
     exists fname inf name, file_name path = Some fname /\ tbl_get tbl fname = Some inf /\ volume_name u path = COk name /\ tbl' = tbl_set tbl fname (with_resource inf name)) /\
  (forall podman u path tbl svc sp tbl', from_network podman u path tbl = COk (svc, sp, tbl') ->
     exists fname inf name, file_name path = Some fname /\ tbl_get tbl fname = Some inf /\ network_name u path = COk name /\ tbl' = tbl_set tbl fname (with_resource inf name)) /\
  (forall podman u path tbl svc sp tbl', from_image podman u path tbl = COk (svc, sp, tbl') ->
     exists fname inf name, file_name path = Some fname /\ tbl_get tbl fname = Some inf /\ image_resource u = COk name /\ tbl' = tbl_set tbl fname (with_resource inf name)) /\
  (forall u path stem name, file_stem path = Some stem -> volume_name u path = COk name ->
     exists explicit, @lk berr u c_VOLUME_SECTION (s2l "VolumeName") = COk explicit /\ name = spec_object_name explicit stem) /\
  (forall u path stem name, file_stem path = Some stem -> network_name u path = COk name ->
     exists explicit, @lk berr u c_NETWORK_SECTION (s2l "NetworkName") = COk explicit /\ name = spec_object_name explicit stem).
Proof. exact (conj volume_sets_table (conj network_sets_table (conj image_sets_table (conj volume_name_documented network_name_documented)))). Qed.

Theorem C08_sorted : forall l, Sorted.StronglySorted (fun a b => prio a <= prio b)%N (sort_units l) /\ Permutation.Permutation l (sort_units l).
Proof. intros l. split; [apply sort_units_sorted|apply sort_units_perm]. Qed.
