(* C08 -- references to other Quadlet units resolve to real names and add dependencies.
   PARTIAL: proved are the links of the chain -- the look-up handlers use the table's names and add Requires=/After= on the
   table's service file (or fail naming the missing file); converting a volume / network / image stores the documented object
   name in the table; the stored service name is the documented one; units are processed in type-priority order.
   Over whole runs (second session): C08_names_along_the_run -- once a volume / network / image unit has been converted, every later
   conversion of the run sees, under that unit's file name, exactly the object name its own conversion computed and the service file
   name its own conversion returned (file names distinct, as C13 guarantees); C08_volume_creates / C08_network_creates -- that object
   name is the one the unit's own ExecStart creates; C08_lower_priority_first -- referenced volumes, networks and images come before
   the containers, pods, kube and build units that can refer to them.  Together with the handler theorems (which use exactly the
   table's object name and service file name) this is the chain from a reference to the real names.  The reading of a Volume= /
   Mount= / Network= value into a reference is decided by the direct oracle plus correspondence of the Process model. *)
From Coq Require Import Sorting.Sorted Sorting.Permutation.
From QV Require Import Model.Base Generated.Tables Model.Unit Model.Path Model.Names Model.Convert Model.Quote Model.Process Spec.Names Proofs.C07 Proofs.C08 Proofs.C09run Proofs.C08run Proofs.Prio Model.Lex Model.Parser Model.ProcessD Proofs.C11 Proofs.C13names.

Theorem C08_storage_source : forall unit_path svc src tbl check_image,
  starts_with [cDOT] src = false -> starts_with [cSLASH] src = false ->
  (ends_with (s2l ".volume") src || (check_image && ends_with (s2l ".image") src)) = true ->
  handle_storage_source unit_path svc src tbl check_image =
  match tbl_get tbl src with
  | Some i => COk (i_resource_name i, deps svc (service_file_name i))
  | None => err (ESourceNotFound src)
  end.
Proof. exact storage_source_resolves. Qed.

Theorem C08_image_source : forall name svc tbl,
  (ends_with (s2l ".build") name || ends_with (s2l ".image") name) = true ->
  handle_image_source name svc tbl =
  match tbl_get tbl name with
  | Some i => COk (i_resource_name i, deps svc (service_file_name i))
  | None => err (EImageNotFound name)
  end.
Proof. exact image_source_resolves. Qed.

Theorem C08_network : forall name svc tbl args i, name <> [] -> memN cCOLON name = false ->
  ends_with (s2l ".network") name = true -> ends_with (s2l ".container") name = false ->
  tbl_get tbl name = Some i -> i_resource_name i <> [] ->
  networks_loop [name] svc tbl args = COk (args ++ [s2l "--network"; i_resource_name i], deps svc (service_file_name i)).
Proof. exact network_resolves. Qed.

Theorem C08_service_names : forall u path t fname stem,
  file_name path = Some fname -> file_stem fname = Some stem -> file_name fname = Some fname -> parent fname = None \/ parent fname = Some [] ->
  forall sn, @service_name_of berr u path t = COk sn ->
  exists explicit, @lk berr u (type_section t) (s2l "ServiceName") = COk explicit /\ sn = spec_service_name explicit stem (type_suffix t).
Proof. exact service_name_is_documented. Qed.

Theorem C08_tables_set :
  (forall podman u path tbl svc sp tbl', from_volume podman u path tbl = COk (svc, sp, tbl') ->
     exists fname inf name, file_name path = Some fname /\ tbl_get tbl fname = Some inf /\ volume_name u path = COk name /\ tbl' = tbl_set tbl fname (with_resource inf name)) /\
  (forall podman u path tbl svc sp tbl', from_network podman u path tbl = COk (svc, sp, tbl') ->
     exists fname inf name, file_name path = Some fname /\ tbl_get tbl fname = Some inf /\ network_name u path = COk name /\ tbl' = tbl_set tbl fname (with_resource inf name)) /\
  (forall podman u path tbl svc sp tbl', from_image podman u path tbl = COk (svc, sp, tbl') ->
     exists fname inf name, file_name path = Some fname /\ tbl_get tbl fname = Some inf /\ image_resource u = COk name /\ tbl' = tbl_set tbl fname (with_resource inf name)) /\
  (forall u path stem name, file_stem path = Some stem -> volume_name u path = COk name ->
     exists explicit, @lk berr u c_VOLUME_SECTION (s2l "VolumeName") = COk explicit /\ name = spec_object_name explicit stem) /\
  (forall u path stem name, file_stem path = Some stem -> network_name u path = COk name ->
     exists explicit, @lk berr u c_NETWORK_SECTION (s2l "NetworkName") = COk explicit /\ name = spec_object_name explicit stem).
Proof. exact (conj volume_sets_table (conj network_sets_table (conj image_sets_table (conj volume_name_documented network_name_documented)))). Qed.

Theorem C08_sorted : forall l, Sorted.StronglySorted (fun a b => prio a <= prio b)%N (sort_units l) /\ Permutation.Permutation l (sort_units l).
Proof. intros l. split; [apply sort_units_sorted|apply sort_units_perm]. Qed.

(* ---- whole runs ---- *)
(* created_name x: volume_name / network_name / image_resource of x's own unit; rname / sfile: object name and service file name of a table entry;
   final_tbl l tbl0: the table after converting the units of l one after the other *)
Theorem C08_names_along_the_run : forall podman exists_path kill_fixed mount_nl l1a x l1b tbl0 svc sp t',
  NoDup (map (fun z => file_name (l_path z)) (l1a ++ x :: l1b)) ->
  i_type (l_info x) = TVolume \/ i_type (l_info x) = TNetwork \/ i_type (l_info x) = TImage ->
  convert_one podman exists_path kill_fixed mount_nl (l_unit x) (l_path x) (i_type (l_info x))
              (final_tbl podman exists_path kill_fixed mount_nl l1a tbl0) = COk (svc, sp, t') ->
  exists K name, file_name (l_path x) = Some K /\ created_name x = COk name /\
    rname (final_tbl podman exists_path kill_fixed mount_nl (l1a ++ x :: l1b) tbl0) K = Some name /\
    sfile (final_tbl podman exists_path kill_fixed mount_nl (l1a ++ x :: l1b) tbl0) K = Some sp.
Proof. exact names_along_the_run. Qed.

Theorem C08_volume_creates : forall podman u path tbl svc sp t', from_volume podman u path tbl = COk (svc, sp, t') ->
  exists name before pre, volume_name u path = COk name /\ vals svc SEC_S (s2l "ExecStart") = before ++ [quote_words (pre ++ [name])].
Proof. exact volume_creates. Qed.

Theorem C08_network_creates : forall podman u path tbl svc sp t', from_network podman u path tbl = COk (svc, sp, t') ->
  exists name before pre, network_name u path = COk name /\ vals svc SEC_S (s2l "ExecStart") = before ++ [quote_words (pre ++ [name])].
Proof. exact network_creates. Qed.

Theorem C08_lower_priority_first : forall l1 y l2 x,
  Sorted.StronglySorted (fun a b => prio a <= prio b)%N (l1 ++ y :: l2) -> In x (l1 ++ y :: l2) -> (prio x < prio y)%N -> In x l1.
Proof. exact lower_priority_first. Qed.

(* the model's type priorities are those of main.rs today (regenerated table) ... *)
Theorem C08_priority_table : length priority_table = 7%nat /\ forall t, assoc_str (type_name t) priority_table = Some (type_priority t).
Proof. exact priority_table_ok. Qed.

(* ... and they convert every referenced unit type before the types that can refer to it *)
Theorem C08_referenced_types_first :
  (type_priority TImage < type_priority TVolume)%N /\
  (forall a b, In a [TImage; TNetwork; TVolume] -> In b [TBuild; TContainer; TKube; TPod] -> (type_priority a < type_priority b)%N) /\
  (type_priority TBuild < type_priority TContainer)%N.
Proof. exact referenced_types_first. Qed.

(* ---- names and drop-ins (Model/ProcessD.v: the run over unit files WITH their drop-ins) ---- *)
(* without drop-ins it is the run of Model/Process.v: every theorem above about process_files applies to it *)
Theorem C08_run_without_dropins_is_the_plain_run : forall podman ep kf mn b files,
  process_trees podman ep kf mn b (map (fun f => (fst f, snd f, [])) files) = process_files podman ep kf mn files.
Proof. exact process_trees_without_dropins. Qed.

(* repaired: the unit that is converted is the main file merged with its drop-ins, it is validated, and the name table holds the service
   name and object name of THAT unit -- an explicit ServiceName=/ContainerName=/ImageTag= in a drop-in is what referring units see *)
Theorem C08_names_follow_the_merged_unit : forall path main ds m i,
  load_tree true path main ds = LOk m i ->
  exists u, parse_unit main = Some u /\ m = fst (merge_dropins u ds) /\ unit_info m path = COk i /\ Validated m.
Proof. exact names_follow_the_merged_unit. Qed.

(* the pinned order (names from the main file alone) against the repaired one, kernel-checked: b.container gets ContainerName=foo and
   ServiceName=bsvc from a drop-in; a.container has Network=b.container *)
Theorem C08_dropin_names_example :
  let run b := snd (process_trees (s2l "/usr/bin/podman") (fun _ => false) true false b ex_files) in
  svc_path_of (assoc_str (s2l "/d/b.container") (run true)) = s2l "bsvc.service" /\
  requires_of (assoc_str (s2l "/d/a.container") (run true)) = [s2l "bsvc.service"] /\
  exec_start_of (assoc_str (s2l "/d/a.container") (run true)) =
    [s2l "/usr/bin/podman run --name systemd-%N --cidfile=%t/%N.cid --replace --rm --cgroups split --network container:foo --sdnotify=conmon -d img"] /\
  exec_start_of (assoc_str (s2l "/d/b.container") (run true)) =
    [s2l "/usr/bin/podman run --name foo --cidfile=%t/%N.cid --replace --rm --cgroups split --sdnotify=conmon -d img"] /\
  svc_path_of (assoc_str (s2l "/d/b.container") (run false)) = s2l "b.service" /\
  requires_of (assoc_str (s2l "/d/a.container") (run false)) = [s2l "b.service"] /\
  exec_start_of (assoc_str (s2l "/d/a.container") (run false)) =
    [s2l "/usr/bin/podman run --name systemd-%N --cidfile=%t/%N.cid --replace --rm --cgroups split --network container:systemd-b --sdnotify=conmon -d img"] /\
  exec_start_of (assoc_str (s2l "/d/b.container") (run false)) =
    [s2l "/usr/bin/podman run --name foo --cidfile=%t/%N.cid --replace --rm --cgroups split --sdnotify=conmon -d img"].
Proof. exact dropin_names_example. Qed.
