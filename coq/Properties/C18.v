(* C18 -- failures to write output are reported, never silently ignored.
   PARTIAL by nature: the theorem is over a fault model (which of create / write / flush fails for which file is an oracle);
   which OS errors occur and when the BufWriter flushes is runtime behaviour, exercised end to end. *)
From QV Require Import Model.Base Model.Unit Model.Output Proofs.C18.

(* for every run of any number of services and every placement of faults: a file with any fault (create, write, flush) is in
   the error list, the exit status is 1, that service is not enabled, and every fault-free service is still written and enabled *)
Theorem C18_reported : forall a prev svcs s, In s svcs -> s_fault s <> FNone -> NoDup (map s_path svcs) ->
  let '(effs, errs, exit) := output_phase false true false a prev svcs in
  In (s_path s) errs /\ exit = 1 /\ ~ In (EEnable (s_path s)) effs /\
  (forall t, In t svcs -> s_fault t = FNone ->
     In (EWriteFile (s_path t) (header a ++ concat (write_calls (s_unit t))) true) effs /\ In (EEnable (s_path t)) effs).
Proof. exact faults_reported. Qed.

(* pinned: the BufWriter was dropped without flush: a failing flush gave exit 0 and the service was enabled *)
Theorem C18_pinned_refuted :
  snd (output_phase false false false (s2l "q") [] [demo_svc]) = 0%N /\
  In (EEnable (s2l "/out/b.service")) (fst (fst (output_phase false false false (s2l "q") [] [demo_svc]))) /\
  snd (output_phase false true false (s2l "q") [] [demo_svc]) = 1%N.
Proof. exact flush_pinned_refuted. Qed.
