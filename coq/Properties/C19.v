(* C19 -- --dry-run writes nothing and prints exactly what a real run would write. *)
From QV Require Import Model.Base Model.Unit Model.Output Proofs.C06 Proofs.C18.

(* the two serialisers agree: what write_to emits call by call is the text of to_string, for every unit *)
Theorem C19_serialisers_agree : forall u : unit, concat (write_calls u) = to_string u.
Proof. exact write_calls_concat. Qed.

(* a dry run has no file-system effect at all (only prints), reports exactly the earlier errors and their exit status *)
Theorem C19_no_effects : forall fc mk a prev svcs,
  let '(effs, errs, exit) := output_phase true fc mk a prev svcs in
  effs = map (fun s => EPrint (s_path s) (to_string (s_unit s))) svcs /\ errs = prev /\ exit = match prev with [] => 0%N | _ => 1%N end.
Proof. exact dry_run_no_effects. Qed.

(* for every service the printed text is the text a (fault-free) real run writes after the generated-by line; same errors, same exit status *)
Theorem C19_same_text : forall fc a prev svcs, Forall (fun s => s_fault s = FNone) svcs ->
  let '(effs_d, errs_d, exit_d) := output_phase true fc false a prev svcs in
  let '(effs_r, errs_r, exit_r) := output_phase false fc false a prev svcs in
  errs_d = errs_r /\ exit_d = exit_r /\
  forall s, In s svcs -> In (EPrint (s_path s) (to_string (s_unit s))) effs_d /\
                         In (EWriteFile (s_path s) (header a ++ to_string (s_unit s)) true) effs_r.
Proof. exact dry_run_same_text. Qed.
