(* C12 -- writes stay inside the output directory; enablement links reach the service.
   PARTIAL: the lexical core is proved (shape of normalised relative paths; a link n components below the output
   directory whose target climbs n-1 times resolves to the service file); that the implementation creates exactly the
   planned links and touches nothing else is decided by the direct oracle in scratch trees with decoy files. *)
From QV Require Import Model.Base Model.Path Model.Links Spec.CleanRef Proofs.C12.

(* normalising ANY relative path yields k times ".." followed by plain names; so a normalised Alias either climbs
   (first component "..", skipped by the repaired code) or consists of plain names only *)
Theorem C12_inside : forall p, is_absolute p = false ->
  exists k ns, fold_left clean_step (components p) [] = repeat CParent k ++ map CNormal ns.
Proof. exact cleaned_relative_shape. Qed.

(* a link [dirs]/link below the output directory with target (../)^|dirs| file resolves to <output dir>/file,
   for every output directory position, every depth and every plain file name *)
Theorem C12_resolves : forall (outpos dirs : list str) (file : str), plain file ->
  walk (outpos ++ dirs) (repeat sdotdot (length dirs) ++ [file]) = outpos ++ [file].
Proof. exact link_resolves. Qed.

(* the repaired filter: an Alias word that passes it normalises to plain names only (never absolute, never climbing) *)
Theorem C12_accepted_alias_is_plain : forall p, stays_below p = true ->
  exists ns, fold_left clean_step (components p) [] = map CNormal ns.
Proof. exact accepted_alias_is_plain. Qed.

Theorem C12_pinned_refuted :
  alias_ok false (s2l "/etc/victim") = true /\ is_absolute (cleaned (s2l "/etc/victim")) = true /\
  alias_ok false (s2l "a/../../x") = true /\ climbs (cleaned (s2l "a/../../x")) = true /\
  alias_ok true (s2l "/etc/victim") = false /\ alias_ok true (s2l "a/../../x") = false /\ alias_ok true (s2l "../../x") = false.
Proof. exact pinned_refuted. Qed.
