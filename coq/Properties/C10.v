(* C10 -- files are converted independently; exit status reflects failures.
   PARTIAL: the bookkeeping is proved on the process/output model (exit status 1 exactly when some error was recorded; one load result
   per input file; every loadable file is handed to its converter exactly once, in a type-priority-sorted permutation).  Independence
   of a valid unit's service from unrelated files, placements and discovery orders, and that every failure is logged with the file's
   path, are decided by the metamorphic end-to-end oracle of tools/props/C10.py. *)
From Coq Require Import Sorting.Permutation.
From QV Require Import Model.Base Model.Unit Model.Names Model.Convert Model.Process Model.Output Proofs.C08 Proofs.C10.

Theorem C10_exit : forall dry fc mk a prev svcs,
  let '(effs, errs, exit) := output_phase dry fc mk a prev svcs in (exit = 1%N <-> errs <> []) /\ (exit = 0%N <-> errs = []).
Proof. exact exit_iff_errors. Qed.

Theorem C10_one_result_per_file : forall podman ex kf mn files,
  map fst (fst (process_files podman ex kf mn files)) = map fst files.
Proof. exact one_load_result_per_file. Qed.

Theorem C10_each_unit_converted_once : forall podman ex kf mn l tbl,
  map fst (convert_all podman ex kf mn (sort_units l) tbl) = map l_path (sort_units l) /\ Permutation l (sort_units l).
Proof. intros. split; [apply convert_all_paths|apply sort_units_perm]. Qed.

(* a file that does not load takes no part in the run: all conversion results are what they are without it *)
Theorem C10_unloadable_files_change_nothing : forall podman ex kf mn files1 files2 p t,
  (forall u i, load_one p t <> LOk u i) ->
  snd (process_files podman ex kf mn (files1 ++ (p, t) :: files2)) = snd (process_files podman ex kf mn (files1 ++ files2)).
Proof. exact unloadable_file_changes_nothing. Qed.
