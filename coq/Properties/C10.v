(* C10 -- files are converted independently; exit status reflects failures.
   Proved on the process/output model: the bookkeeping (exit status 1 exactly when some error was recorded; one load result per input
   file; every loadable file is handed to its converter exactly once, in a type-priority-sorted permutation) and INDEPENDENCE
   (C10_added_files_change_nothing, Proofs/C10run.v): adding any files -- valid, failing conversion or not loadable -- to a set of
   files whose non-pod units convert changes the result of no non-pod unit of that set.
   C10_added_files_change_nothing_pods (Proofs/C10pods.v) extends this to pods: a pod keeps its service too unless one of the added
   units names it in Pod= (then the pod's service lists the new member, C09) -- C10_pod_independence_example shows both sides.
   PARTIAL beyond that: independence from placement and discovery order, and that every failure is logged with the file's path are
   decided by the metamorphic end-to-end oracle of tools/props/C10.py. *)
From Coq Require Import Sorting.Permutation.
From QV Require Import Model.Base Generated.Tables Model.Unit Model.Path Model.Names Model.Convert Model.Process Model.Output Proofs.C08 Proofs.C09run Proofs.C10 Proofs.C10run Proofs.C10pods Proofs.Prio Model.ProcessD Proofs.RunTrees Proofs.C10order.

Theorem C10_exit : forall dry fc mk a prev svcs,
  let '(effs, errs, exit) := output_phase dry fc mk a prev svcs in (exit = 1%N <-> errs <> []) /\ (exit = 0%N <-> errs = []).
Proof. exact exit_iff_errors. Qed.

Theorem C10_one_result_per_file : forall podman ex kf mn files,
  map fst (fst (process_files podman ex kf mn files)) = map fst files.
Proof. exact one_load_result_per_file. Qed.

Theorem C10_each_unit_converted_once : forall podman ex kf mn l tbl,
  map fst (convert_all podman ex kf mn (sort_units l) tbl) = map l_path (sort_units l) /\ Permutation l (sort_units l).
Proof. intros. split; [apply convert_all_paths|apply sort_units_perm]. Qed.

(* a file that does not load takes no part in the run: all conversion results are what they are without it *)
Theorem C10_unloadable_files_change_nothing : forall podman ex kf mn files1 files2 p t,
  (forall u i, load_one p t <> LOk u i) ->
  snd (process_files podman ex kf mn (files1 ++ (p, t) :: files2)) = snd (process_files podman ex kf mn (files1 ++ files2)).
Proof. exact unloadable_file_changes_nothing. Qed.

(* ---- independence: the main clause ----
   Leaving files out of a run -- equivalently, adding files (valid, failing conversion, or not loadable at all) to it -- changes the
   result of no unit that is not a pod: same service text, same service file name.  Premises: the files left out have other file
   names than the files kept (the loader guarantees distinct names, C13), and every kept unit that is not a pod converts in the
   smaller run (so what it references is present and converts).  Pods are excepted because a pod's service lists the containers
   that joined it (C09).  unit_results pairs each loaded unit, in conversion order, with its result. *)
Theorem C10_added_files_change_nothing : forall podman exists_path kill_fixed mount_nl (keepp : str -> bool) files,
  (forall p q, In p (map fst files) -> In q (map fst files) -> keepp p = true -> keepp q = false ->
     forall f, file_name p = Some f -> file_name q <> Some f) ->
  (forall x r, In (x, r) (unit_results podman exists_path kill_fixed mount_nl (filter (fun f => keepp (fst f)) files)) -> is_podu x = false -> exists svc sp, r = ROk svc sp) ->
  Forall2 (fun a b => fst a = fst b /\ (is_podu (fst a) = false -> snd a = snd b))
    (unit_results podman exists_path kill_fixed mount_nl (filter (fun f => keepp (fst f)) files))
    (filter (fun p => keepp (l_path (fst p))) (unit_results podman exists_path kill_fixed mount_nl files)).
Proof. exact added_files_change_nothing. Qed.

(* the same, read off the list of (path, result) pairs of process_files *)
Theorem C10_added_files_keep_results : forall podman exists_path kill_fixed mount_nl (keepp : str -> bool) files p r,
  (forall p q, In p (map fst files) -> In q (map fst files) -> keepp p = true -> keepp q = false ->
     forall f, file_name p = Some f -> file_name q <> Some f) ->
  (forall q s, In (q, s) (snd (process_files podman exists_path kill_fixed mount_nl (filter (fun f => keepp (fst f)) files))) -> type_of_path q <> Some TPod -> exists svc sp, s = ROk svc sp) ->
  In (p, r) (snd (process_files podman exists_path kill_fixed mount_nl (filter (fun f => keepp (fst f)) files))) -> type_of_path p <> Some TPod ->
  In (p, r) (snd (process_files podman exists_path kill_fixed mount_nl files)).
Proof. exact added_files_keep_results. Qed.

(* one conversion: a larger name table (more entries, longer container lists) never changes a successful result *)
Theorem C10_convert_one_monotone : forall podman exists_path kill_fixed mount_nl t t' u path ty svc sp t1,
  TR t t' -> (forall f, file_name path = Some f -> tbl_get t f = tbl_get t' f) ->
  convert_one podman exists_path kill_fixed mount_nl u path ty t = COk (svc, sp, t1) ->
  exists t1', convert_one podman exists_path kill_fixed mount_nl u path ty t' = COk (svc, sp, t1').
Proof. exact convert_one_mono. Qed.

(* sorting by type priority commutes with leaving units out (the sort is stable) *)
Theorem C10_sort_filter : forall keep l, sort_units (filter keep l) = filter keep (sort_units l).
Proof. exact sort_filter. Qed.

Theorem C10_independence_example :
  filter (fun f => ex_keep (fst f)) ex_big = ex_small /\
  (forall q s, In (q, s) (snd (process_files (s2l "/usr/bin/podman") (fun _ => false) true false ex_small)) -> exists svc sp, s = ROk svc sp) /\
  (exists e, In (s2l "/d/bad.container", RErr e) (snd (process_files (s2l "/usr/bin/podman") (fun _ => false) true false ex_big))) /\
  length (snd (process_files (s2l "/usr/bin/podman") (fun _ => false) true false ex_big)) = 4%nat.
Proof. exact independence_example. Qed.

(* the model's type priorities are those of main.rs today (regenerated table) ... *)
Theorem C10_priority_table : length priority_table = 7%nat /\ forall t, assoc_str (type_name t) priority_table = Some (type_priority t).
Proof. exact priority_table_ok. Qed.

(* ---- independence, pods included ----
   stable_unit T x: x is not a pod, or it is a pod whose file name is not among T, the Pod= values of the units left out.  Every
   successful result of a stable unit of the smaller run is the result of the same unit in the larger run. *)
Theorem C10_added_files_change_nothing_pods : forall podman exists_path kill_fixed mount_nl (keepp : str -> bool) files,
  (forall p q, In p (map fst files) -> In q (map fst files) -> keepp p = true -> keepp q = false ->
     forall f, file_name p = Some f -> file_name q <> Some f) ->
  (forall x r, In (x, r) (unit_results podman exists_path kill_fixed mount_nl (filter (fun f => keepp (fst f)) files)) -> is_podu x = false -> exists svc sp, r = ROk svc sp) ->
  let T := junk_pods (fun x => keepp (l_path x)) (sort_units (units_of files)) in
  Forall2 (fun a b => fst a = fst b /\ (stable_unit T (fst a) = true -> forall svc sp, snd a = ROk svc sp -> snd b = ROk svc sp))
    (unit_results podman exists_path kill_fixed mount_nl (filter (fun f => keepp (fst f)) files))
    (filter (fun p => keepp (l_path (fst p))) (unit_results podman exists_path kill_fixed mount_nl files)).
Proof. exact added_files_change_nothing_pods. Qed.

(* a pod keeps its service when an unrelated container is added, and does not when the added container names it in Pod= *)
Theorem C10_pod_independence_example :
  (exists svc sp, pod_result exp_small = Some (ROk svc sp) /\ pod_result exp_big_other = Some (ROk svc sp)) /\
  pod_result exp_big_joins <> pod_result exp_small.
Proof. exact pod_independence_example. Qed.

(* ---- the same on the run with drop-ins (Model/ProcessD.v); a file is (path, main text, drop-in texts in merge order) ---- *)
Theorem C10_one_result_per_file_with_dropins : forall podman ex kf mn b (files : list (str * str * list str)),
  map fst (fst (process_trees podman ex kf mn b files)) = map (fun f => fst (fst f)) files.
Proof. exact trees_one_load_result_per_file. Qed.

Theorem C10_each_unit_converted_once_with_dropins : forall podman ex kf mn b files,
  map fst (snd (process_trees podman ex kf mn b files)) = map l_path (sort_units (tree_units b files)) /\
  Permutation (tree_units b files) (sort_units (tree_units b files)).
Proof. exact trees_each_unit_converted_once. Qed.

Theorem C10_unloadable_files_change_nothing_with_dropins : forall podman ex kf mn b files1 files2 p t ds,
  (forall u i, load_tree b p t ds <> LOk u i) ->
  snd (process_trees podman ex kf mn b (files1 ++ (p, t, ds) :: files2)) = snd (process_trees podman ex kf mn b (files1 ++ files2)).
Proof. exact trees_unloadable_file_changes_nothing. Qed.

Theorem C10_added_files_change_nothing_with_dropins : forall podman exists_path kill_fixed mount_nl b (keepp : str -> bool) (files : list (str * str * list str)),
  (forall p q, In p (map (fun f => fst (fst f)) files) -> In q (map (fun f => fst (fst f)) files) -> keepp p = true -> keepp q = false ->
     forall f, file_name p = Some f -> file_name q <> Some f) ->
  (forall x r, In (x, r) (tree_results podman exists_path kill_fixed mount_nl b (filter (fun f => keepp (fst (fst f))) files)) -> is_podu x = false -> exists svc sp, r = ROk svc sp) ->
  Forall2 (fun a b => fst a = fst b /\ (is_podu (fst a) = false -> snd a = snd b))
    (tree_results podman exists_path kill_fixed mount_nl b (filter (fun f => keepp (fst (fst f))) files))
    (filter (fun p => keepp (l_path (fst p))) (tree_results podman exists_path kill_fixed mount_nl b files)).
Proof. exact trees_added_files_change_nothing. Qed.

Theorem C10_added_files_change_nothing_pods_with_dropins : forall podman exists_path kill_fixed mount_nl b (keepp : str -> bool) (files : list (str * str * list str)),
  (forall p q, In p (map (fun f => fst (fst f)) files) -> In q (map (fun f => fst (fst f)) files) -> keepp p = true -> keepp q = false ->
     forall f, file_name p = Some f -> file_name q <> Some f) ->
  (forall x r, In (x, r) (tree_results podman exists_path kill_fixed mount_nl b (filter (fun f => keepp (fst (fst f))) files)) -> is_podu x = false -> exists svc sp, r = ROk svc sp) ->
  let T := junk_pods (fun x => keepp (l_path x)) (sort_units (tree_units b files)) in
  Forall2 (fun a b => fst a = fst b /\ (stable_unit T (fst a) = true -> forall svc sp, snd a = ROk svc sp -> snd b = ROk svc sp))
    (tree_results podman exists_path kill_fixed mount_nl b (filter (fun f => keepp (fst (fst f))) files))
    (filter (fun p => keepp (l_path (fst p))) (tree_results podman exists_path kill_fixed mount_nl b files)).
Proof. exact trees_added_files_change_nothing_pods. Qed.

(* ---- discovery order ---- a unit that converts on its own has that result in every run containing its file, in whatever order
   the files were discovered and whatever the other files are (valid, failing or unloadable), given distinct paths and that no other
   file has its file name *)
Theorem C10_lone_unit_result_any_order : forall podman exists_path kill_fixed mount_nl files files' p t svc sp,
  Permutation files files' ->
  NoDup (map fst files) -> In (p, t) files ->
  (forall q, In q (map fst files) -> q <> p -> forall f, file_name p = Some f -> file_name q <> Some f) ->
  type_of_path p <> Some TPod ->
  snd (process_files podman exists_path kill_fixed mount_nl [(p, t)]) = [(p, ROk svc sp)] ->
  In (p, ROk svc sp) (snd (process_files podman exists_path kill_fixed mount_nl files)) /\
  In (p, ROk svc sp) (snd (process_files podman exists_path kill_fixed mount_nl files')).
Proof. exact lone_unit_result_any_order. Qed.

Theorem C10_lone_unit_example :
  exists svc sp, exo_run [exo_unit] = [(fst exo_unit, ROk svc sp)] /\
    In (fst exo_unit, ROk svc sp) (exo_run (exo_unit :: exo_rest)) /\ In (fst exo_unit, ROk svc sp) (exo_run (rev (exo_unit :: exo_rest))).
Proof. exact lone_unit_example. Qed.

(* a group of files whose non-pod units convert on their own: each has the same result in any two runs containing the group in the
   same relative order -- whatever the other files are and wherever they sit in the order of discovery *)
Theorem C10_group_result_any_surroundings : forall podman exists_path kill_fixed mount_nl (keepp : str -> bool) files files' p r,
  filter (fun f => keepp (fst f)) files = filter (fun f => keepp (fst f)) files' ->
  (forall a b, In a (map fst files) -> In b (map fst files) -> keepp a = true -> keepp b = false -> forall f, file_name a = Some f -> file_name b <> Some f) ->
  (forall a b, In a (map fst files') -> In b (map fst files') -> keepp a = true -> keepp b = false -> forall f, file_name a = Some f -> file_name b <> Some f) ->
  (forall q s, In (q, s) (snd (process_files podman exists_path kill_fixed mount_nl (filter (fun f => keepp (fst f)) files))) -> type_of_path q <> Some TPod -> exists svc sp, s = ROk svc sp) ->
  In (p, r) (snd (process_files podman exists_path kill_fixed mount_nl (filter (fun f => keepp (fst f)) files))) -> type_of_path p <> Some TPod ->
  In (p, r) (snd (process_files podman exists_path kill_fixed mount_nl files)) /\ In (p, r) (snd (process_files podman exists_path kill_fixed mount_nl files')).
Proof. exact group_result_any_surroundings. Qed.
