(* C04 -- single-valued keys are unquoted as documented in systemd.syntax. *)
From QV Require Import Model.Base Model.Unquote Spec.Spelling Proofs.C04.

(* every documented spelling (wholly double-quoted, wholly single-quoted, unquoted with C escapes, and
   whitespace-separated mixtures) of a string reads back as exactly that string *)
Theorem C04_spellings_read_back : forall s raw : str, Spells s raw -> unquote_value raw = Some s.
Proof. exact spellings_read_back. Qed.

(* every string without NUL has a double-quoted and a single-quoted spelling *)
Theorem C04_every_string_spellable : forall s : str, ~ In 0%N s -> Spells s (dq s) /\ Spells s (sq s).
Proof. exact every_string_spellable. Qed.

Theorem C04_canonical_read_back : forall s : str, ~ In 0%N s -> unquote_value (dq s) = Some s /\ unquote_value (sq s) = Some s.
Proof. exact canonical_read_back. Qed.

(* the pinned reader (quote may open inside an open quote) mis-reads "sh -c 'exit 1'" *)
Theorem C04_pinned_refuted :
  Spells (s2l "sh -c 'exit 1'") (dq (s2l "sh -c 'exit 1'")) /\
  dq (s2l "sh -c 'exit 1'") = s2l """sh -c 'exit 1'""" /\
  unquote_value_pinned (s2l """sh -c 'exit 1'""") = Some (s2l "sh -c exit 1""").
Proof. exact pinned_refuted. Qed.

Check C04_spellings_read_back : forall s raw : str, Spells s raw -> unquote_value raw = Some s.
Check C04_every_string_spellable : forall s : str, ~ In 0%N s -> Spells s (dq s) /\ Spells s (sq s).
