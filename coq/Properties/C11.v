(* C11 -- the generator never panics, aborts or hangs, whatever the input files contain.
   PARTIAL by nature.  What is proved: (1) every function of the model is a structurally recursive Coq function -- the parser, the
   splitters and the unquoter are one-character-per-step machines -- so the modelled logic terminates on every input by construction
   (no fuel anywhere in the parser); (2) every unit the parser returns, and every merge of such units, contains only values that
   passed the load-time validation; (3) on such units no look-up reaches the unquote().expect() panic.  Every other panic-capable site of
   the code is listed in tools/panic_sites.json with the reason it is safe, how it is modelled (an explicit Panic outcome) or which
   finding class it belongs to; a new site breaks that inventory.  Panics inside csv/walkdir/std/the logger, stack exhaustion and
   allocation failure are not expressible in the model: the fuzzing half (in-process under catch_unwind and the real binary) covers them
   only by sampling. *)
From QV Require Import Model.Base Model.Unquote Model.Unit Model.Parser Model.Names Model.Convert Proofs.C11.

Theorem C11_parsed_units_validated : forall text u, parse_unit text = Some u -> Validated u.
Proof. exact parsed_units_validated. Qed.

Theorem C11_merged_units_validated : forall d u, Validated u -> Validated d -> Validated (merge_from u d).
Proof. exact merged_units_validated. Qed.

Theorem C11_lookups_do_not_panic : forall u sec key, Validated u ->
  lookup_last u sec key <> Some PPanic /\ lookup_all u sec key <> PPanic.
Proof. exact lookups_do_not_panic. Qed.

(* the parser is total: a result for every text, without fuel *)
Theorem C11_total_functions : forall text, parse_unit text = None \/ exists u, parse_unit text = Some u.
Proof. intros text. destruct (parse_unit text) as [u|]; [right; exists u; reflexivity|left; reflexivity]. Qed.

(* what the user can put into a value never contains NUL (repaired: a literal NUL is rejected at load, as escaped ones always were) *)
Theorem C11_values_have_no_nul : forall raw s, unquote_value raw = Some s -> ~ In 0%N s.
Proof. exact unquoted_values_have_no_nul. Qed.

(* the two repaired panics, kernel-checked on the model: a value with NUL stored through add() could not be read again (now no such
   value can arise from user text); WorkingDirectory of "/" is "/" (the pinned code panicked on parent().expect()) *)
Theorem C11_pinned_refuted :
  lookup_last (unit_add [] (s2l "Service") (s2l "WorkingDirectory") [47; 0; 47]%N) (s2l "Service") (s2l "WorkingDirectory") = Some PPanic /\
  match convert_one (s2l "/usr/bin/podman") (fun _ => false) true false kube_root (s2l "/d/k.kube") TKube [(s2l "k.kube", kube_info)] with
  | COk (svc, _, _) => values_raw svc (s2l "Service") (s2l "WorkingDirectory") = [s2l "/"]
  | _ => False
  end.
Proof. exact (conj nul_value_panics working_dir_of_root). Qed.
