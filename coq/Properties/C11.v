(* C11 -- the generator never panics, aborts or hangs, whatever the input files contain.
   Proved on the model (second session): C11_run_never_panics -- for arbitrary file contents and ordinary paths (no NUL, a file
   name) the whole run -- load, name table, every converter -- never reaches a Panic outcome; C11_convert_never_panics (every
   converter on every validated unit), C11_load_never_panics, C11_stored_values_readable (whatever add()/set() store for a value
   without NUL can be read again, so the generator never panics on its own entries).  The model has an explicit Panic outcome at every
   unwrap/expect/index site whose precondition depends on the input (tools/panic_sites.json); that the model's Panic outcomes coincide
   with the implementation's panics is the correspondence obligation of tools/props/C11.py.
   PARTIAL by nature beyond the model.  Also proved: (1) every function of the model is a structurally recursive Coq function -- the parser, the
   splitters and the unquoter are one-character-per-step machines -- so the modelled logic terminates on every input by construction
   (no fuel anywhere in the parser); (2) every unit the parser returns, and every merge of such units, contains only values that
   passed the load-time validation; (3) on such units no look-up reaches the unquote().expect() panic.  Every other panic-capable site of
   the code is listed in tools/panic_sites.json with the reason it is safe, how it is modelled (an explicit Panic outcome) or which
   finding class it belongs to; a new site breaks that inventory.  Panics inside csv/walkdir/std/the logger, stack exhaustion and
   allocation failure are not expressible in the model: the fuzzing half (in-process under catch_unwind and the real binary) covers them
   only by sampling. *)
From QV Require Import Model.Base Model.Quote Model.Unquote Model.Unit Model.Parser Model.Path Model.Names Model.Convert Model.Process Model.ProcessD Proofs.C11 Proofs.C11run Proofs.C06trees.

Theorem C11_parsed_units_validated : forall text u, parse_unit text = Some u -> Validated u.
Proof. exact parsed_units_validated. Qed.

Theorem C11_merged_units_validated : forall d u, Validated u -> Validated d -> Validated (merge_from u d).
Proof. exact merged_units_validated. Qed.

Theorem C11_lookups_do_not_panic : forall u sec key, Validated u ->
  lookup_last u sec key <> Some PPanic /\ lookup_all u sec key <> PPanic.
Proof. exact lookups_do_not_panic. Qed.

(* the parser is total: a result for every text, without fuel *)
Theorem C11_total_functions : forall text, parse_unit text = None \/ exists u, parse_unit text = Some u.
Proof. intros text. destruct (parse_unit text) as [u|]; [right; exists u; reflexivity|left; reflexivity]. Qed.

(* what the user can put into a value never contains NUL (repaired: a literal NUL is rejected at load, as escaped ones always were) *)
Theorem C11_values_have_no_nul : forall raw s, unquote_value raw = Some s -> ~ In 0%N s.
Proof. exact unquoted_values_have_no_nul. Qed.

(* the two repaired panics, kernel-checked on the model: a value with NUL stored through add() could not be read again (now no such
   value can arise from user text); WorkingDirectory of "/" is "/" (the pinned code panicked on parent().expect()) *)
Theorem C11_pinned_refuted :
  lookup_last (unit_add [] (s2l "Service") (s2l "WorkingDirectory") [47; 0; 47]%N) (s2l "Service") (s2l "WorkingDirectory") = Some PPanic /\
  match convert_one (s2l "/usr/bin/podman") (fun _ => false) true false kube_root (s2l "/d/k.kube") TKube [(s2l "k.kube", kube_info)] with
  | COk (svc, _, _) => values_raw svc (s2l "Service") (s2l "WorkingDirectory") = [s2l "/"]
  | _ => False
  end.
Proof. exact (conj nul_value_panics working_dir_of_root). Qed.

(* ---- no Panic outcome anywhere in the run ---- *)
(* Ordinary p: no NUL in p, p has a file name, and that name is its own file name (no separator) *)
Theorem C11_run_never_panics : forall podman exists_path kill_fixed mount_nl files,
  (forall p t, In (p, t) files -> ~ In 0%N p /\ exists f, file_name p = Some f /\ file_name f = Some f) ->
  let '(loads, results) := process_files podman exists_path kill_fixed mount_nl files in
  (forall p, ~ In (p, LPanic) loads) /\ (forall p, ~ In (p, RPanic) results).
Proof. exact run_no_panic. Qed.

Theorem C11_convert_never_panics : forall podman exists_path kill_fixed mount_nl u, Validated u -> forall path, ~ In 0%N path ->
  forall t tbl f st, file_name path = Some f -> file_stem path = Some st ->
  convert_one podman exists_path kill_fixed mount_nl u path t tbl <> CPanic.
Proof. exact convert_no_panic. Qed.

Theorem C11_load_never_panics : forall path text,
  (~ In 0%N path /\ exists f, file_name path = Some f /\ file_name f = Some f) -> load_one path text <> LPanic.
Proof. exact load_one_no_panic. Qed.

Theorem C11_stored_values_readable : forall v, ~ In 0%N v -> unquote_value (quote_value v) <> None.
Proof. exact quote_value_reads_back. Qed.

(* the run over unit files WITH their drop-ins (Model/ProcessD.v): no Panic outcome either -- the merged unit is validated *)
Theorem C11_run_with_dropins_never_panics : forall podman exists_path kill_fixed mount_nl names_after (files : list (str * str * list str)),
  (forall p t ds, In (p, t, ds) files -> ~ In 0%N p /\ exists f, file_name p = Some f /\ file_name f = Some f) ->
  let '(loads, results) := process_trees podman exists_path kill_fixed mount_nl names_after files in
  (forall p, ~ In (p, LPanic) loads) /\ (forall p, ~ In (p, RPanic) results).
Proof. exact trees_run_no_panic. Qed.
