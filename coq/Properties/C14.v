(* C14 -- root never uses per-user directories; a user uses only its own and shared ones (administrator's tree).
   PARTIAL by nature: the theorems are about the filter logic on path components; the real walkdir traversal, symlinked
   'users' directories and permissions are exercised end to end in a private mount namespace, not modelled. *)
From QV Require Import Model.Base Model.Discover Spec.Allowed Proofs.C14.

(* the system generator keeps no directory at or below users/ -- for every path *)
Theorem C14_root : forall p, root_includes p = true -> ~ under_users p.
Proof. exact root_never_users. Qed.

(* the user generator keeps exactly users/, users/<non-numeric>/... and users/<own uid>/..., and no other directory
   of the administrator's tree -- for every path and every uid *)
Theorem C14_user : forall uid p, rootless_includes true uid p = true <-> allowed_for_user uid p.
Proof. intros uid p. split; [apply user_only_allowed|apply allowed_is_included]. Qed.

(* pinned: the LAST component was tested, so users/1000/sub was served to uid 2000 and users/shared/7 to nobody *)
Theorem C14_pinned_refuted :
  rootless_includes false (s2l "2000") [users; s2l "1000"; s2l "sub"] = true /\
  rootless_includes false (s2l "2000") [users; s2l "shared"; s2l "7"] = false /\
  rootless_includes true (s2l "2000") [users; s2l "1000"; s2l "sub"] = false /\
  rootless_includes true (s2l "2000") [users; s2l "shared"; s2l "7"] = true.
Proof. exact pinned_refuted. Qed.
