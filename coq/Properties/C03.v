(* C03 -- unit files parse losslessly and independently of their spelling. *)
From QV Require Import Model.Base Model.Unquote Model.PortRange Model.Unit Model.Lex Model.Parser Spec.Layout Proofs.C03.

(* which raw values a unit file can carry: accepted by the load-time validation, not starting with a blank,
   not ending in white space (the format cannot express those; see C06's known finding) *)
Definition C03_val_ok (v : str) : Prop :=
  unquote_value v <> None /\ (match v with c :: _ => is_blank_c c = false | [] => True end) /\ trim_end v = v.

(* For every file model (sequence of section instances with ordered entries, documented key charset, any section
   names without ']' and newline) and EVERY rendering of it -- comment and blank lines anywhere, indentation,
   blanks around '=', trailing blanks, blanks after a header, any blank of a value written as a backslash-newline
   continuation with optional spaces before the newline and comment lines after it, sections split and repeated --
   the parser returns exactly the merged sections: same sections in first-occurrence order, same keys, same raw
   values, same order. *)
Theorem C03_parse_render : forall (m : fmodel) (text : str),
  Renders C03_val_ok key_ok m text -> parse_unit text = Some (merge_sections m).
Proof. exact parse_render. Qed.

(* a missing final newline changes nothing *)
Theorem C03_final_newline_optional : forall (m : fmodel) (text : str),
  Renders C03_val_ok key_ok m (text ++ [cNL]) -> parse_unit text = Some (merge_sections m).
Proof. exact parse_render_no_final_nl. Qed.

(* consequently two spellings of the same content are indistinguishable for everything downstream *)
Theorem C03_spelling_independent : forall (m : fmodel) (t1 t2 : str),
  Renders C03_val_ok key_ok m t1 -> Renders C03_val_ok key_ok m t2 -> parse_unit t1 = parse_unit t2.
Proof. intros m t1 t2 H1 H2. rewrite (parse_render m t1 H1), (parse_render m t2 H2). reflexivity. Qed.

(* known finding: a '[' at the start of the line after a continuation is read as a header (excluded above by cont_safe) *)
Theorem C03_bracket_refuted :
  parse_unit (s2l "[S]" ++ [cNL] ++ s2l "K=a " ++ [cBS; cNL] ++ s2l "[b]" ++ [cNL]) = Some [(s2l "S", [(s2l "K", s2l "a")]); (s2l "b", [])]
  /\ merge_sections [(s2l "S", [(s2l "K", s2l "a [b]")])] = [(s2l "S", [(s2l "K", s2l "a [b]")])].
Proof. exact bracket_refuted. Qed.

Check C03_parse_render : forall (m : fmodel) (text : str),
  Renders C03_val_ok key_ok m text -> parse_unit text = Some (merge_sections m).
