(* C02 -- each supported key adds exactly its documented podman option, value intact.
   Proved: the tables (every (key, option) pair found in the source is the documented pair of the documented kind); the frame of the
   table-driven key kinds inside their loop (single string, boolean, one-per-assignment); and, for the container converter, the frame
   in the WHOLE command (C02_container_string_key_frame, _list_key_frame, _bool_key_frame): adding a first assignment of any key of
   its three option tables (11 single-valued, 8 one-per-assignment, 3 boolean keys) changes
   the generated ExecStart= by exactly the insertion of [option; value] -- every other argument, before and after, is the same.
   (Proofs/C02run.v: no other handler reads the key; every handler only appends, and what it appends does not depend on what is
   already there.)  The same whole-command frame is proved for the table-driven keys of .image (ExecStart=), .network (ExecStart=)
   and .pod (ExecStartPre=, the `podman pod create` line) units (Proofs/C02types.v).
   PARTIAL beyond that: the same whole-command frame for the other key kinds and for .build/.kube/.volume units, the special handlers
   and the position clauses are decided by the direct oracle of tools/props/C02.py on implementation output together with
   whole-service correspondence with the converter model. *)
From QV Require Import Model.Base Generated.Tables Model.Quote Model.Unquote Model.PortRange Model.Unit Model.Names Model.Convert Spec.Docs Proofs.C07 Proofs.C02 Proofs.C02run Proofs.C02types Proofs.Prio Proofs.C02shape Model.Parser Model.Path Model.Process Model.ProcessD Proofs.C16trees.

(* every (key, option) pair of the look-up tables found in the source today is the documented pair of the documented kind *)
Theorem C02_tables :
  pairs_documented doc_table_container KStr pt_from_container_unit_string_keys = true /\
  pairs_documented doc_table_container KAll pt_from_container_unit_all_string_keys = true /\
  pairs_documented doc_table_container KBool pt_from_container_unit_bool_keys = true /\
  pairs_documented doc_table_container KAll pt_handle_publish_ports_inline0 = true /\
  pairs_documented doc_table_container KStr health_pairs = true /\
  pairs_documented doc_table_container KAll pt_get_base_podman_command_inline0 = true /\
  pairs_documented doc_table_build KStr pt_from_build_unit_string_keys = true /\
  pairs_documented doc_table_build KBool pt_from_build_unit_bool_keys = true /\
  pairs_documented doc_table_build KAll pt_from_build_unit_all_string_keys = true /\
  pairs_documented doc_table_image KStr pt_from_image_unit_string_keys = true /\
  pairs_documented doc_table_image KBool pt_from_image_unit_bool_keys = true /\
  pairs_documented doc_table_network KBool pt_from_network_unit_bool_keys = true /\
  pairs_documented doc_table_network KStr pt_from_network_unit_string_keys = true /\
  pairs_documented doc_table_network KAll pt_from_network_unit_inline0 = true /\
  pairs_documented doc_table_pod KStr pt_from_pod_unit_string_keys = true /\
  pairs_documented doc_table_pod KAll pt_from_pod_unit_all_string_keys = true.
Proof. exact tables_documented. Qed.

(* single-valued table keys: a first assignment K0=raw adds exactly [option; value] at K0's slot; every other key's group is unchanged *)
Theorem C02_strings_frame : forall u sec pre post k0 flag0 raw c v args,
  NoDup (map fst (pre ++ (k0, flag0) :: post)) ->
  values_raw u sec k0 = [] -> unquote_value raw = Some (c :: v) -> raw <> [] ->
  no_panic u sec (pre ++ (k0, flag0) :: post) ->
  add_strings u sec (pre ++ (k0, flag0) :: post) args
    = COk (args ++ flat_map (str_group u sec) pre ++ flat_map (str_group u sec) post) /\
  add_strings (add_entry u sec k0 raw) sec (pre ++ (k0, flag0) :: post) args
    = COk (args ++ flat_map (str_group u sec) pre ++ [flag0; c :: v] ++ flat_map (str_group u sec) post).
Proof. exact strings_frame. Qed.

Theorem C02_bools_frame : forall u sec pre post k0 flag0 raw b args,
  NoDup (map fst (pre ++ (k0, flag0) :: post)) ->
  values_raw u sec k0 = [] -> raw <> [] -> to_bool raw = Some b ->
  add_bools u sec (pre ++ (k0, flag0) :: post) args = args ++ flat_map (bool_group u sec) pre ++ flat_map (bool_group u sec) post /\
  add_bools (add_entry u sec k0 raw) sec (pre ++ (k0, flag0) :: post) args
    = args ++ flat_map (bool_group u sec) pre ++ (if b then [flag0] else [flag0 ++ s2l "=false"]) ++ flat_map (bool_group u sec) post.
Proof. exact bools_frame. Qed.

Theorem C02_all_strings_frame : forall u sec pre post k0 flag0 raw v args,
  NoDup (map fst (pre ++ (k0, flag0) :: post)) ->
  values_raw u sec k0 = [] -> unquote_value raw = Some v -> raw <> [] ->
  no_panic_all u sec (pre ++ (k0, flag0) :: post) ->
  add_all_strings u sec (pre ++ (k0, flag0) :: post) args
    = COk (args ++ flat_map (all_group u sec) pre ++ flat_map (all_group u sec) post) /\
  add_all_strings (add_entry u sec k0 raw) sec (pre ++ (k0, flag0) :: post) args
    = COk (args ++ flat_map (all_group u sec) pre ++ [flag0; v] ++ flat_map (all_group u sec) post).
Proof. exact all_strings_frame. Qed.

(* pinned: the Mount= value gains the csv record terminator *)
Theorem C02_pinned_refuted :
  exec_of (convert_one (s2l "/usr/bin/podman") (fun _ => false) true true mnt_unit (s2l "/d/a.container") TContainer demo_tbl)
  = Some [s2l "/usr/bin/podman run --name systemd-%N --cidfile=%t/%N.cid --replace --rm --cgroups split --sdnotify=conmon -d --mount ""type=bind,source=/x,target=/y\n"" img"].
Proof. exact mount_pinned_refuted. Qed.

(* pinned: Volume= lost everything after the third ':'; repaired: kept *)
Theorem C02_volume_pinned_refuted :
  exec_of (convert_one (s2l "/usr/bin/podman") (fun _ => false) true true vol_unit (s2l "/d/a.container") TContainer demo_tbl)
  = Some [s2l "/usr/bin/podman run --name systemd-%N --cidfile=%t/%N.cid --replace --rm --cgroups split --sdnotify=conmon -d -v /a:/b:ro img"]
  /\
  exec_of (convert_one (s2l "/usr/bin/podman") (fun _ => false) true false vol_unit (s2l "/d/a.container") TContainer demo_tbl)
  = Some [s2l "/usr/bin/podman run --name systemd-%N --cidfile=%t/%N.cid --replace --rm --cgroups split --sdnotify=conmon -d -v /a:/b:ro:z img"].
Proof. exact volume_pinned_refuted. Qed.

(* ---- the whole container command ---- *)
(* a first assignment of a key of one of the three option tables of the container converter changes ExecStart= by exactly the
   insertion of that key's option words; p is everything before them and q everything after, identical in both commands *)
Theorem C02_container_string_key_frame : forall podman exists_path kill_fixed mount_nl u k0 flag0 raw c v path tbl svc1 sp1 t1 svc2 sp2 t2,
  In (k0, flag0) pt_from_container_unit_string_keys ->
  values_raw u c_CONTAINER_SECTION k0 = [] -> unquote_value raw = Some (c :: v) ->
  from_container podman exists_path kill_fixed mount_nl u path tbl = COk (svc1, sp1, t1) ->
  from_container podman exists_path kill_fixed mount_nl (add_entry u c_CONTAINER_SECTION k0 raw) path tbl = COk (svc2, sp2, t2) ->
  exists before1 before2 p q,
    vals svc1 SEC_S (s2l "ExecStart") = before1 ++ [quote_words (p ++ q)] /\
    vals svc2 SEC_S (s2l "ExecStart") = before2 ++ [quote_words (p ++ [flag0; c :: v] ++ q)].
Proof. exact container_string_key_frame_closed. Qed.

Theorem C02_container_list_key_frame : forall podman exists_path kill_fixed mount_nl u k0 flag0 raw c v path tbl svc1 sp1 t1 svc2 sp2 t2,
  In (k0, flag0) pt_from_container_unit_all_string_keys ->
  values_raw u c_CONTAINER_SECTION k0 = [] -> unquote_value raw = Some (c :: v) ->
  from_container podman exists_path kill_fixed mount_nl u path tbl = COk (svc1, sp1, t1) ->
  from_container podman exists_path kill_fixed mount_nl (add_entry u c_CONTAINER_SECTION k0 raw) path tbl = COk (svc2, sp2, t2) ->
  exists before1 before2 p q,
    vals svc1 SEC_S (s2l "ExecStart") = before1 ++ [quote_words (p ++ q)] /\
    vals svc2 SEC_S (s2l "ExecStart") = before2 ++ [quote_words (p ++ [flag0; c :: v] ++ q)].
Proof. exact container_all_key_frame_closed. Qed.

Theorem C02_container_bool_key_frame : forall podman exists_path kill_fixed mount_nl u k0 flag0 raw b path tbl svc1 sp1 t1 svc2 sp2 t2,
  In (k0, flag0) pt_from_container_unit_bool_keys ->
  values_raw u c_CONTAINER_SECTION k0 = [] -> raw <> [] -> to_bool raw = Some b ->
  from_container podman exists_path kill_fixed mount_nl u path tbl = COk (svc1, sp1, t1) ->
  from_container podman exists_path kill_fixed mount_nl (add_entry u c_CONTAINER_SECTION k0 raw) path tbl = COk (svc2, sp2, t2) ->
  exists before1 before2 p q,
    vals svc1 SEC_S (s2l "ExecStart") = before1 ++ [quote_words (p ++ q)] /\
    vals svc2 SEC_S (s2l "ExecStart") = before2 ++ [quote_words (p ++ (if b then [flag0] else [flag0 ++ s2l "=false"]) ++ q)].
Proof. exact container_bool_key_frame_closed. Qed.

Theorem C02_frame_example :
  exec_of (convert_one (s2l "/usr/bin/podman") (fun _ => false) true false demo_unit (s2l "/d/a.container") TContainer demo_tbl)
    = Some [s2l "/usr/bin/podman run --name systemd-%N --cidfile=%t/%N.cid --replace --rm --cgroups split --sdnotify=conmon -d img"] /\
  exec_of (convert_one (s2l "/usr/bin/podman") (fun _ => false) true false (add_entry demo_unit c_CONTAINER_SECTION (s2l "Timezone") (s2l "UTC")) (s2l "/d/a.container") TContainer demo_tbl)
    = Some [s2l "/usr/bin/podman run --name systemd-%N --cidfile=%t/%N.cid --replace --rm --cgroups split --tz UTC --sdnotify=conmon -d img"].
Proof. exact frame_example. Qed.

(* ---- the same whole-command frame for the table-driven keys of .image, .network and .pod units ---- *)

Theorem C02_image_string_key_frame : forall podman u k0 flag0 raw c v path tbl svc1 sp1 t1 svc2 sp2 t2,
  In (k0, flag0) pt_from_image_unit_string_keys -> values_raw u c_IMAGE_SECTION k0 = [] -> unquote_value raw = Some (c :: v) ->
  from_image podman u path tbl = COk (svc1, sp1, t1) -> from_image podman (add_entry u c_IMAGE_SECTION k0 raw) path tbl = COk (svc2, sp2, t2) ->
  exists before1 before2 p q,
    vals svc1 SEC_S (s2l "ExecStart") = before1 ++ [quote_words (p ++ q)] /\
    vals svc2 SEC_S (s2l "ExecStart") = before2 ++ [quote_words (p ++ [flag0; c :: v] ++ q)].
Proof. exact image_string_key_frame. Qed.

Theorem C02_image_bool_key_frame : forall podman u k0 flag0 raw b path tbl svc1 sp1 t1 svc2 sp2 t2,
  In (k0, flag0) pt_from_image_unit_bool_keys -> values_raw u c_IMAGE_SECTION k0 = [] -> raw <> [] -> to_bool raw = Some b ->
  from_image podman u path tbl = COk (svc1, sp1, t1) -> from_image podman (add_entry u c_IMAGE_SECTION k0 raw) path tbl = COk (svc2, sp2, t2) ->
  exists before1 before2 p q,
    vals svc1 SEC_S (s2l "ExecStart") = before1 ++ [quote_words (p ++ q)] /\
    vals svc2 SEC_S (s2l "ExecStart") = before2 ++ [quote_words (p ++ (if b then [flag0] else [flag0 ++ s2l "=false"]) ++ q)].
Proof. exact image_bool_key_frame. Qed.

Theorem C02_network_string_key_frame : forall podman u k0 flag0 raw c v path tbl svc1 sp1 t1 svc2 sp2 t2,
  In (k0, flag0) pt_from_network_unit_string_keys -> values_raw u c_NETWORK_SECTION k0 = [] -> unquote_value raw = Some (c :: v) ->
  from_network podman u path tbl = COk (svc1, sp1, t1) -> from_network podman (add_entry u c_NETWORK_SECTION k0 raw) path tbl = COk (svc2, sp2, t2) ->
  exists before1 before2 p q,
    vals svc1 SEC_S (s2l "ExecStart") = before1 ++ [quote_words (p ++ q)] /\
    vals svc2 SEC_S (s2l "ExecStart") = before2 ++ [quote_words (p ++ [flag0; c :: v] ++ q)].
Proof. exact network_string_key_frame. Qed.

Theorem C02_network_bool_key_frame : forall podman u k0 flag0 raw b path tbl svc1 sp1 t1 svc2 sp2 t2,
  In (k0, flag0) pt_from_network_unit_bool_keys -> values_raw u c_NETWORK_SECTION k0 = [] -> raw <> [] -> to_bool raw = Some b ->
  from_network podman u path tbl = COk (svc1, sp1, t1) -> from_network podman (add_entry u c_NETWORK_SECTION k0 raw) path tbl = COk (svc2, sp2, t2) ->
  exists before1 before2 p q,
    vals svc1 SEC_S (s2l "ExecStart") = before1 ++ [quote_words (p ++ q)] /\
    vals svc2 SEC_S (s2l "ExecStart") = before2 ++ [quote_words (p ++ (if b then [flag0] else [flag0 ++ s2l "=false"]) ++ q)].
Proof. exact network_bool_key_frame. Qed.

Theorem C02_network_list_key_frame : forall podman u k0 flag0 raw c v path tbl svc1 sp1 t1 svc2 sp2 t2,
  In (k0, flag0) pt_from_network_unit_inline0 -> values_raw u c_NETWORK_SECTION k0 = [] -> unquote_value raw = Some (c :: v) ->
  from_network podman u path tbl = COk (svc1, sp1, t1) -> from_network podman (add_entry u c_NETWORK_SECTION k0 raw) path tbl = COk (svc2, sp2, t2) ->
  exists before1 before2 p q,
    vals svc1 SEC_S (s2l "ExecStart") = before1 ++ [quote_words (p ++ q)] /\
    vals svc2 SEC_S (s2l "ExecStart") = before2 ++ [quote_words (p ++ [flag0; c :: v] ++ q)].
Proof. exact network_list_key_frame. Qed.

Theorem C02_pod_string_key_frame : forall podman mount_nl u k0 flag0 raw c v path tbl svc1 sp1 t1 svc2 sp2 t2,
  In (k0, flag0) pt_from_pod_unit_string_keys -> values_raw u c_POD_SECTION k0 = [] -> unquote_value raw = Some (c :: v) ->
  from_pod podman mount_nl u path tbl = COk (svc1, sp1, t1) -> from_pod podman mount_nl (add_entry u c_POD_SECTION k0 raw) path tbl = COk (svc2, sp2, t2) ->
  exists before1 before2 p q,
    vals svc1 SEC_S (s2l "ExecStartPre") = before1 ++ [quote_words (p ++ q)] /\
    vals svc2 SEC_S (s2l "ExecStartPre") = before2 ++ [quote_words (p ++ [flag0; c :: v] ++ q)].
Proof. exact pod_string_key_frame. Qed.

Theorem C02_pod_list_key_frame : forall podman mount_nl u k0 flag0 raw c v path tbl svc1 sp1 t1 svc2 sp2 t2,
  In (k0, flag0) pt_from_pod_unit_all_string_keys -> values_raw u c_POD_SECTION k0 = [] -> unquote_value raw = Some (c :: v) ->
  from_pod podman mount_nl u path tbl = COk (svc1, sp1, t1) -> from_pod podman mount_nl (add_entry u c_POD_SECTION k0 raw) path tbl = COk (svc2, sp2, t2) ->
  exists before1 before2 p q,
    vals svc1 SEC_S (s2l "ExecStartPre") = before1 ++ [quote_words (p ++ q)] /\
    vals svc2 SEC_S (s2l "ExecStartPre") = before2 ++ [quote_words (p ++ [flag0; c :: v] ++ q)].
Proof. exact pod_list_key_frame. Qed.

Theorem C02_pod_frame_example :
  pre_of (convert_one (s2l "/usr/bin/podman") (fun _ => false) true false pod_unit (s2l "/d/a.pod") TPod pod_tbl)
    = Some [s2l "/usr/bin/podman pod create --infra-conmon-pidfile=%t/%N.pid --pod-id-file=%t/%N.pod-id --exit-policy=stop --replace --infra-name p-infra --name p"] /\
  pre_of (convert_one (s2l "/usr/bin/podman") (fun _ => false) true false (add_entry pod_unit c_POD_SECTION (s2l "IP") (s2l "10.0.0.1")) (s2l "/d/a.pod") TPod pod_tbl)
    = Some [s2l "/usr/bin/podman pod create --infra-conmon-pidfile=%t/%N.pid --pod-id-file=%t/%N.pod-id --exit-policy=stop --replace --ip 10.0.0.1 --infra-name p-infra --name p"].
Proof. exact pod_frame_example. Qed.

Theorem C02_network_frame_example :
  exec_of (convert_one (s2l "/usr/bin/podman") (fun _ => false) true false net_unit (s2l "/d/a.network") TNetwork net_tbl)
    = Some [s2l "/usr/bin/podman network create --ignore --label a=b systemd-a"] /\
  exec_of (convert_one (s2l "/usr/bin/podman") (fun _ => false) true false (add_entry net_unit c_NETWORK_SECTION (s2l "Internal") (s2l "yes")) (s2l "/d/a.network") TNetwork net_tbl)
    = Some [s2l "/usr/bin/podman network create --ignore --internal --label a=b systemd-a"].
Proof. exact network_frame_example. Qed.

(* the model's type priorities are those of main.rs today (regenerated table) ... *)
Theorem C02_priority_table : length priority_table = 7%nat /\ forall t, assoc_str (type_name t) priority_table = Some (type_priority t).
Proof. exact priority_table_ok. Qed.

(* ---- the whole-command clauses: global options before the sub-command, PodmanArgs after all key options, the object (image or
   --rootfs R) after them, the Exec= words last -- for EVERY successful conversion (every handler only appends) ---- *)
Theorem C02_container_command_shape : forall podman exists_path kill_fixed mount_nl u path tbl svc sp t',
  from_container podman exists_path kill_fixed mount_nl u path tbl = COk (svc, sp, t') ->
  exists before mods cname mid obj ports,
    @lk_all berr u c_CONTAINER_SECTION (s2l "ContainersConfModule") = COk mods /\
    @lk_all berr u c_CONTAINER_SECTION (s2l "ExposeHostPort") = COk ports /\
    Forall (fun p => is_port_range (trim p) = true) ports /\
    (exists m1 m2, mid = m1 ++ flat_map (fun p => [s2l "--expose"; trim p]) ports ++ m2) /\
    (exists image, obj = [image] \/ obj = [s2l "--rootfs"; image]) /\
    vals svc SEC_S (s2l "ExecStart") =
      before ++ [quote_words (global_words podman mods u c_CONTAINER_SECTION
                              ++ [s2l "run"; s2l "--name"; cname; s2l "--cidfile=%t/%N.cid"; s2l "--replace"; s2l "--rm"]
                              ++ mid ++ lookup_all_args u c_CONTAINER_SECTION (s2l "PodmanArgs") ++ obj ++ exec_words u c_CONTAINER_SECTION)].
Proof. exact container_shape. Qed.

Theorem C02_image_command_shape : forall podman u path tbl svc sp t',
  from_image podman u path tbl = COk (svc, sp, t') ->
  exists before mods mid image,
    @lk_all berr u c_IMAGE_SECTION (s2l "ContainersConfModule") = COk mods /\
    @lk berr u c_IMAGE_SECTION (s2l "Image") = COk (Some image) /\
    vals svc SEC_S (s2l "ExecStart") =
      before ++ [quote_words (global_words podman mods u c_IMAGE_SECTION ++ [s2l "image"; s2l "pull"] ++ mid
                              ++ lookup_all_args u c_IMAGE_SECTION (s2l "PodmanArgs") ++ [image])].
Proof. exact image_shape. Qed.

Theorem C02_network_command_shape : forall podman u path tbl svc sp t',
  from_network podman u path tbl = COk (svc, sp, t') ->
  exists before mods mid name,
    @lk_all berr u c_NETWORK_SECTION (s2l "ContainersConfModule") = COk mods /\
    network_name u path = COk name /\
    vals svc SEC_S (s2l "ExecStart") =
      before ++ [quote_words (global_words podman mods u c_NETWORK_SECTION ++ [s2l "network"; s2l "create"; s2l "--ignore"] ++ mid
                              ++ lookup_all_args u c_NETWORK_SECTION (s2l "PodmanArgs") ++ [name])].
Proof. exact network_shape. Qed.

Theorem C02_pod_command_shape : forall podman mount_nl u path tbl svc sp t',
  from_pod podman mount_nl u path tbl = COk (svc, sp, t') ->
  exists before mods mid,
    @lk_all berr u c_POD_SECTION (s2l "ContainersConfModule") = COk mods /\
    vals svc SEC_S (s2l "ExecStartPre") =
      before ++ [quote_words (global_words podman mods u c_POD_SECTION
                              ++ [s2l "pod"; s2l "create"; s2l "--infra-conmon-pidfile=%t/%N.pid"; s2l "--pod-id-file=%t/%N.pod-id"; s2l "--exit-policy=stop"; s2l "--replace"]
                              ++ mid ++ lookup_all_args u c_POD_SECTION (s2l "PodmanArgs"))].
Proof. exact pod_shape. Qed.

Theorem C02_kube_command_shape : forall podman kill_fixed u path tbl svc sp t',
  from_kube podman kill_fixed u path tbl = COk (svc, sp, t') ->
  exists before mods mid yaml,
    @lk_all berr u c_KUBE_SECTION (s2l "ContainersConfModule") = COk mods /\
    vals svc SEC_S (s2l "ExecStart") =
      before ++ [quote_words (global_words podman mods u c_KUBE_SECTION ++ [s2l "kube"; s2l "play"; s2l "--replace"; s2l "--service-container=true"] ++ mid
                              ++ lookup_all_args u c_KUBE_SECTION (s2l "PodmanArgs") ++ [yaml])].
Proof. exact kube_shape. Qed.

Theorem C02_build_command_shape : forall podman mount_nl u path tbl svc sp t',
  from_build podman mount_nl u path tbl = COk (svc, sp, t') ->
  exists before mods mid tail,
    @lk_all berr u c_BUILD_SECTION (s2l "ContainersConfModule") = COk mods /\
    (tail = [] \/ exists x, tail = [x]) /\
    vals svc SEC_S (s2l "ExecStart") =
      before ++ [quote_words (global_words podman mods u c_BUILD_SECTION ++ [s2l "build"] ++ mid ++ lookup_all_args u c_BUILD_SECTION (s2l "PodmanArgs") ++ tail)].
Proof. exact build_shape. Qed.

Theorem C02_volume_command_shape : forall podman u path tbl svc sp t',
  from_volume podman u path tbl = COk (svc, sp, t') ->
  exists before mods mid name,
    @lk_all berr u c_VOLUME_SECTION (s2l "ContainersConfModule") = COk mods /\
    volume_name u path = COk name /\
    vals svc SEC_S (s2l "ExecStart") =
      before ++ [quote_words (global_words podman mods u c_VOLUME_SECTION ++ [s2l "volume"; s2l "create"; s2l "--ignore"] ++ mid
                              ++ lookup_all_args u c_VOLUME_SECTION (s2l "PodmanArgs") ++ [name])].
Proof. exact volume_shape. Qed.

(* ---- from the converters to the whole run with drop-ins: every service of the run is the result of ONE conversion of one input file's
   main text merged with its drop-ins, under the type of its path, with some name table -- so every theorem above (stated for all
   units and all tables) speaks about every service of the run ---- *)
Theorem C02_run_services_are_conversions : forall podman exists_path kill_fixed mount_nl b (files : list (str * str * list str)) p svc sp,
  In (p, ROk svc sp) (snd (process_trees podman exists_path kill_fixed mount_nl b files)) ->
  exists text ds u0 t tbl t1, In (p, text, ds) files /\ parse_unit text = Some u0 /\ type_of_path p = Some t /\
    convert_one podman exists_path kill_fixed mount_nl (fst (merge_dropins u0 ds)) p t tbl = COk (svc, sp, t1).
Proof. exact trees_results_are_conversions. Qed.

(* e.g. the command shape of every container service of the run *)
Theorem C02_every_container_service_of_the_run : forall podman exists_path kill_fixed mount_nl b (files : list (str * str * list str)) p svc sp,
  In (p, ROk svc sp) (snd (process_trees podman exists_path kill_fixed mount_nl b files)) -> type_of_path p = Some TContainer ->
  exists text ds u0, In (p, text, ds) files /\ parse_unit text = Some u0 /\
  let u := fst (merge_dropins u0 ds) in
  exists before mods cname mid obj,
    @lk_all berr u c_CONTAINER_SECTION (s2l "ContainersConfModule") = COk mods /\
    (exists image, obj = [image] \/ obj = [s2l "--rootfs"; image]) /\
    vals svc SEC_S (s2l "ExecStart") =
      before ++ [quote_words (global_words podman mods u c_CONTAINER_SECTION
                              ++ [s2l "run"; s2l "--name"; cname; s2l "--cidfile=%t/%N.cid"; s2l "--replace"; s2l "--rm"]
                              ++ mid ++ lookup_all_args u c_CONTAINER_SECTION (s2l "PodmanArgs") ++ obj ++ exec_words u c_CONTAINER_SECTION)].
Proof.
  intros podman ep kf mn b files p svc sp Hr Ht.
  destruct (trees_results_are_conversions _ _ _ _ _ _ _ _ _ Hr) as (text & ds & u0 & t & tbl & t1 & Hin & Hp & Ht' & Hc).
  rewrite Ht in Ht'. injection Ht' as <-. cbn [convert_one] in Hc.
  destruct (container_shape _ _ _ _ _ _ _ _ _ _ Hc) as (before & mods & cname & mid & obj & ports & A & _ & _ & _ & O & E).
  exists text, ds, u0. split; [exact Hin|]. split; [exact Hp|]. cbv zeta. exists before, mods, cname, mid, obj. auto.
Qed.
