(* C06 -- generated unit files read back exactly as generated; values cannot forge lines. *)
From QV Require Import Model.Base Model.Quote Model.Unquote Model.PortRange Model.Unit Model.Lex Model.Parser Spec.Layout
  Proofs.C01 Proofs.C03 Proofs.C06.

(* a unit whose section names are distinct, non-empty and free of ']' and newline, whose keys are non-empty key
   characters and whose raw values are validated, newline-free, without leading blank or trailing white space,
   is read back from its serialisation exactly: same sections, same entries, same order *)
Theorem C06_roundtrip : forall u : unit, WF_unit u -> parse_unit (to_string u) = Some u.
Proof. exact roundtrip. Qed.

(* one physical line per entry and two per section: nothing in a name, key or value can add a line *)
Theorem C06_lines : forall u : unit, no_nl_unit u ->
  count_nl (to_string u) = (fold_right (fun s n => 2 + length (snd s) + n) 0 u)%nat.
Proof. exact line_count. Qed.

(* what the generator stores through add()/set()/prepend() never contains a raw newline or control character *)
Theorem C06_quote_value_safe : forall s : str, forall c, In c (quote_value s) -> is_ascii_control c = false.
Proof. exact quote_value_no_ctl. Qed.

(* write_to (the real run) and to_string (the dry run) produce the same text *)
Theorem C06_write_calls : forall u : unit, concat (write_calls u) = to_string u.
Proof. exact write_calls_concat. Qed.

Check C06_roundtrip : forall u : unit, WF_unit u -> parse_unit (to_string u) = Some u.
