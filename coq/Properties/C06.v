(* C06 -- generated unit files read back exactly as generated; values cannot forge lines. *)
From QV Require Import Model.Base Model.Quote Model.Unquote Model.PortRange Model.Unit Model.Lex Model.Parser Spec.Layout
  Model.Path Model.Names Model.Convert Model.Process Model.ProcessD Proofs.C01 Proofs.C03 Proofs.C06 Proofs.C11 Proofs.C06shape Proofs.C06full Proofs.C06trees.

(* a unit whose section names are distinct, non-empty and free of ']' and newline, whose keys are non-empty key
   characters and whose raw values are validated, newline-free, without leading blank or trailing white space,
   is read back from its serialisation exactly: same sections, same entries, same order *)
Theorem C06_roundtrip : forall u : unit, WF_unit u -> parse_unit (to_string u) = Some u.
Proof. exact roundtrip. Qed.

(* one physical line per entry and two per section: nothing in a name, key or value can add a line *)
Theorem C06_lines : forall u : unit, no_nl_unit u ->
  count_nl (to_string u) = (fold_right (fun s n => 2 + length (snd s) + n) 0 u)%nat.
Proof. exact line_count. Qed.

(* what the generator stores through add()/set()/prepend() never contains a raw newline or control character *)
Theorem C06_quote_value_safe : forall s : str, forall c, In c (quote_value s) -> is_ascii_control c = false.
Proof. exact quote_value_no_ctl. Qed.

(* write_to (the real run) and to_string (the dry run) produce the same text *)
Theorem C06_write_calls : forall u : unit, concat (write_calls u) = to_string u.
Proof. exact write_calls_concat. Qed.

(* ---- the generator clause, over the whole run: values cannot forge lines ---- *)
(* whatever the unit files contain: every service that any of the seven converters produces in a run of the generator has no newline
   in any section name, key or value (user entries: the parser never lets one in; generated entries: quote_value / quote_words never
   emit a control character; keys and section names are literals) ... *)
Theorem C06_generated_services_have_no_newline : forall podman exists_path kill_fixed mount_nl files p svc sp,
  In (p, ROk svc sp) (snd (process_files podman exists_path kill_fixed mount_nl files)) -> no_nl_unit svc.
Proof. intros. apply NoNL_no_nl. eapply run_services_have_no_newline. eassumption. Qed.

(* ... so the file written for it has exactly one physical line per entry and two per section: no value can add, split or swallow a line *)
Theorem C06_generated_services_line_count : forall podman exists_path kill_fixed mount_nl files p svc sp,
  In (p, ROk svc sp) (snd (process_files podman exists_path kill_fixed mount_nl files)) ->
  count_nl (to_string svc) = (fold_right (fun s n => 2 + length (snd s) + n) 0 svc)%nat.
Proof. exact run_services_line_count. Qed.

(* Shaped u := NoDup (map fst u) /\ every section name is non-empty, without ']' and newline /\ every key is key characters without newline /\ every value is without newline *)
Definition Shaped := NoNL.

(* a single conversion keeps that shape *)
Theorem C06_conversion_keeps_the_shape : forall podman exists_path kill_fixed mount_nl u path t tbl svc sp tbl',
  Shaped u -> convert_one podman exists_path kill_fixed mount_nl u path t tbl = COk (svc, sp, tbl') -> Shaped svc.
Proof. intros podman ep kf mn u path t tbl svc sp tbl' Hu H. eapply convert_nn; [exact Hu|exact H]. Qed.

Theorem C06_parsed_units_are_shaped : forall text u, parse_unit text = Some u -> Shaped u.
Proof. exact parsed_units_have_no_newline. Qed.

(* the shape of every generated service, over the whole run: section names distinct, non-empty, without ']' and newline; keys made of key
   characters only (a-z A-Z 0-9 '-', possibly none), without newline; values without newline.  This is the well-formedness that
   C06_roundtrip asks of a unit, except for what concerns the VALUES' own spelling (validated, no blank at an edge: the known class) *)
Theorem C06_generated_services_are_shaped : forall podman exists_path kill_fixed mount_nl files p svc sp,
  In (p, ROk svc sp) (snd (process_files podman exists_path kill_fixed mount_nl files)) -> Shaped svc.
Proof. exact run_services_have_no_newline. Qed.

Check C06_roundtrip : forall u : unit, WF_unit u -> parse_unit (to_string u) = Some u.
Check C06_generated_services_have_no_newline : forall podman exists_path kill_fixed mount_nl files p svc sp,
  In (p, ROk svc sp) (snd (process_files podman exists_path kill_fixed mount_nl files)) -> no_nl_unit svc.

(* ---- the generator clause over the whole run ---- *)
(* every service of a run of the generator -- arbitrary file contents -- whose entries have non-empty keys and validated values without a
   blank at an edge (EntriesOk; the excluded values are the known class BlankAtValueEdge) is read back, from the very text the generator
   writes, as exactly itself: same sections, same entries, same order.  (That the generated entries ARE validated is C11's subject:
   C11_stored_values_readable and the [Service] invariant of Proofs/C11run.v; for [Unit] it is checked by the oracle.) *)
Theorem C06_generated_services_read_back : forall podman exists_path kill_fixed mount_nl files p svc sp,
  In (p, ROk svc sp) (snd (process_files podman exists_path kill_fixed mount_nl files)) ->
  EntriesOk svc -> parse_unit (to_string svc) = Some svc.
Proof. exact run_services_read_back. Qed.

(* ---- ... and without the hypothesis on validity: it is a theorem too (Proofs/C06full.v) ---- *)
(* every value of every service of a run passes the load-time validation (file paths without NUL, as the kernel guarantees): NUL-freeness is
   carried from the unit files -- a validated value has no NUL, nor has what unquoting or word-splitting it yields -- through the name table
   (every service file name and registered container in it is NUL-free, along the whole run) to every value the generator stores *)
Theorem C06_generated_services_are_validated : forall podman exists_path kill_fixed mount_nl files p svc sp,
  (forall q t, In (q, t) files -> ~ In 0%N q) ->
  In (p, ROk svc sp) (snd (process_files podman exists_path kill_fixed mount_nl files)) -> Validated svc.
Proof. exact run_services_are_validated. Qed.

(* THE GENERATOR CLAUSE: for arbitrary unit file contents, every service the generator produces -- unless one of its entries has an empty
   key or a value with a blank at an edge (the known class BlankAtValueEdge) -- is read back, from the very text the generator writes, as
   exactly itself: same sections, same entries, same values, same order *)
Theorem C06_every_generated_service_reads_back : forall podman exists_path kill_fixed mount_nl files p svc sp,
  (forall q t, In (q, t) files -> ~ In 0%N q) ->
  In (p, ROk svc sp) (snd (process_files podman exists_path kill_fixed mount_nl files)) ->
  EdgeFree svc -> parse_unit (to_string svc) = Some svc.
Proof. exact run_services_read_back_exactly. Qed.

(* non-vacuity: a run whose service meets the premises (checked by computation) and reads back *)
Definition edge_freeb (u : unit) : bool :=
  forallb (fun s : str * entries => forallb (fun e : entry =>
    negb (match fst e with [] => true | _ => false end) &&
    match snd e with c :: _ => negb (is_blank_c c) | [] => true end && str_eqb (trim_end (snd e)) (snd e)) (snd s)) u.
Example C06_read_back_example :
  match snd (process_files (s2l "/usr/bin/podman") (fun _ => false) true false
               [(s2l "/d/a.container", s2l "[Unit]
Description=a b
[Container]
Image=img
Volume=/srv/my data:/data
Exec=sh -c ""echo hi""
[Install]
WantedBy=default.target
")]) with
  | [(_, ROk svc _)] => edge_freeb svc = true /\ parse_unit (to_string svc) = Some svc /\ length svc = 4%nat
  | _ => False
  end.
Proof. vm_compute. repeat split; reflexivity. Qed.

(* ---- the same for the run over unit files WITH their drop-ins (Model/ProcessD.v; either order of deriving the names) ---- *)
Theorem C06_every_generated_service_reads_back_with_dropins : forall podman exists_path kill_fixed mount_nl names_after (files : list (str * str * list str)) p svc sp,
  (forall q t ds, In (q, t, ds) files -> ~ In 0%N q) ->
  In (p, ROk svc sp) (snd (process_trees podman exists_path kill_fixed mount_nl names_after files)) ->
  EdgeFree svc -> parse_unit (to_string svc) = Some svc.
Proof. intros podman ep kf mn na files p svc sp Hf. exact (trees_services_read_back_exactly podman ep kf mn na files Hf p svc sp). Qed.
