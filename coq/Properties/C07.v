(* C07 -- user sections pass through unchanged; the Quadlet section is kept as X-<name>.
   Proved for every successful run of every converter of the model (all seven unit types), and for the whole generator run
   (parse, name table, sort, convert): the generated service holds, per (section, key), exactly the user's values in their
   original order, possibly behind the default dependency (only [Unit] After/Wants) and possibly followed by generator entries
   (only the listed (section, key) pairs of that unit type); the own section and [Quadlet] reappear verbatim as X-<name>;
   a managed [Service] setting the user chose is left exactly as written.
   The lists A_of / MANAGED / hidden live in Spec/Passthrough.v and are compared with the store sites of the Rust source on every
   run (tools/props/C07.py, inventory).  "[Service] NotifyAccess is the only user entry a non-oneshot container may lose" appears
   here in the form "the managed keys are the only exempt ones" (for a container: KillMode when absent, Type/NotifyAccess, SyslogIdentifier). *)
From QV Require Import Model.Base Generated.Tables Model.Quote Model.Unit Model.Parser Model.Names Model.Convert Model.Process Spec.Passthrough Proofs.C07 Proofs.C07run Proofs.C07kept Model.ProcessD Proofs.C06trees.

(* add(sec,k,v): every (section, key) keeps its values in order; only (sec,k) gains one value, at the end *)
Theorem C07_add_keeps_order : forall u sec k v sec' k',
  vals (unit_add u sec k v) sec' k' = vals u sec' k' ++ (if str_eqb sec' sec && str_eqb k k' then [quote_value v] else []).
Proof. exact vals_unit_add. Qed.

(* set(sec,k,v): the values of every other key of that section, and of every other section, are untouched ... *)
Theorem C07_set_keeps_others : forall u sec k raw sec' k',
  (sec' <> sec \/ k <> k') -> vals (set_entry u sec k raw) sec' k' = vals u sec' k'.
Proof.
  intros u sec k raw sec' k' [H|H].
  - apply vals_set_other_sec. exact H.
  - destruct (str_eqb_spec sec' sec) as [->|Hs]; [apply vals_set_other_key; exact H|apply vals_set_other_sec; exact Hs].
Qed.

(* ... and on the key itself only the last value is replaced *)
Theorem C07_set_replaces_last : forall u sec k raw, vals (set_entry u sec k raw) sec k = removelast (vals u sec k) ++ [raw].
Proof. exact vals_set_same. Qed.

(* ---- every converter run ---- *)
(* A_of t: the (section, key) pairs the converter of type t may append to; hidden t: the unit's own section, [Quadlet] and their X- names *)
Theorem C07_conversion_passes_through : forall podman exists_path kill_fixed mount_nl u path t tbl svc p tbl',
  NoDup (map fst u) ->
  convert_one podman exists_path kill_fixed mount_nl u path t tbl = COk (svc, p, tbl') ->
  (forall sec k, ~ In sec (hidden t) -> (sec = SEC_S -> ~ In k MANAGED) ->
     exists pre post, vals svc sec k = pre ++ vals u sec k ++ post
       /\ (~ In (sec, k) (A_of t) -> post = [])
       /\ (pre = [] \/ (sec = SEC_U /\ (k = s2l "After" \/ k = s2l "Wants") /\ pre = [s2l "network-online.target"])))
  /\
  (forall k, vals svc (type_xsection t) k = vals u (type_xsection t) k ++ vals u (type_section t) k /\
             vals svc c_X_QUADLET_SECTION k = vals u c_X_QUADLET_SECTION k ++ vals u SEC_Q k /\
             vals svc (type_section t) k = [] /\ vals svc SEC_Q k = []).
Proof. exact every_run_passes_through. Qed.

(* [Install] and any other section the generator does not know: exactly the user's entries *)
Theorem C07_other_sections_exact : forall podman exists_path kill_fixed mount_nl u path t tbl svc p tbl' sec k,
  NoDup (map fst u) -> convert_one podman exists_path kill_fixed mount_nl u path t tbl = COk (svc, p, tbl') ->
  ~ In sec (hidden t) -> sec <> SEC_U -> sec <> SEC_S -> vals svc sec k = vals u sec k.
Proof. exact other_sections_exact. Qed.

(* the premise NoDup holds for everything the parser returns *)
Theorem C07_parsed_units_have_distinct_sections : forall text u, parse_unit text = Some u -> NoDup (map fst u).
Proof. exact parse_nodup. Qed.

(* the whole generator run over arbitrary file contents *)
Theorem C07_every_generated_service_passes_through : forall podman exists_path kill_fixed mount_nl files path svc sp,
  In (path, ROk svc sp) (snd (process_files podman exists_path kill_fixed mount_nl files)) ->
  exists text u t, In (path, text) files /\ parse_unit text = Some u /\
    (forall sec k, ~ In sec (hidden t) -> (sec = SEC_S -> ~ In k MANAGED) ->
       exists pre post, vals svc sec k = pre ++ vals u sec k ++ post
         /\ (~ In (sec, k) (A_of t) -> post = [])
         /\ (pre = [] \/ (sec = SEC_U /\ (k = s2l "After" \/ k = s2l "Wants") /\ pre = [s2l "network-online.target"])))
    /\
    (forall k, vals svc (type_xsection t) k = vals u (type_xsection t) k ++ vals u (type_section t) k /\
               vals svc c_X_QUADLET_SECTION k = vals u c_X_QUADLET_SECTION k ++ vals u SEC_Q k /\
               vals svc (type_section t) k = [] /\ vals svc SEC_Q k = []).
Proof. exact every_generated_service_passes_through. Qed.

(* ---- managed settings the user chose (repaired KillMode handling: kill_fixed = true) ---- *)
Theorem C07_killmode_kept : forall podman exists_path mount_nl u path t tbl svc p tbl',
  NoDup (map fst u) -> lookup_last_value u SEC_S (s2l "KillMode") <> None ->
  convert_one podman exists_path true mount_nl u path t tbl = COk (svc, p, tbl') ->
  vals svc SEC_S (s2l "KillMode") = vals u SEC_S (s2l "KillMode").
Proof. exact killmode_kept. Qed.

Theorem C07_syslog_identifier_kept : forall podman exists_path mount_nl u path t tbl svc p tbl',
  NoDup (map fst u) -> lookup_last_value u SEC_S (s2l "SyslogIdentifier") <> None ->
  convert_one podman exists_path true mount_nl u path t tbl = COk (svc, p, tbl') ->
  vals svc SEC_S (s2l "SyslogIdentifier") = vals u SEC_S (s2l "SyslogIdentifier").
Proof. exact syslog_identifier_kept. Qed.

Theorem C07_remain_after_exit_kept : forall podman exists_path mount_nl u path t tbl svc p tbl',
  NoDup (map fst u) -> lookup_last_value u SEC_S (s2l "RemainAfterExit") <> None ->
  convert_one podman exists_path true mount_nl u path t tbl = COk (svc, p, tbl') ->
  vals svc SEC_S (s2l "RemainAfterExit") = vals u SEC_S (s2l "RemainAfterExit").
Proof. exact remain_after_exit_kept. Qed.

Theorem C07_container_oneshot_kept : forall podman exists_path mount_nl u path tbl svc p tbl',
  NoDup (map fst u) -> @lk berr u SEC_S (s2l "Type") = COk (Some (s2l "oneshot")) ->
  convert_one podman exists_path true mount_nl u path TContainer tbl = COk (svc, p, tbl') ->
  vals svc SEC_S (s2l "Type") = vals u SEC_S (s2l "Type") /\ vals svc SEC_S (s2l "NotifyAccess") = vals u SEC_S (s2l "NotifyAccess").
Proof. exact container_oneshot_kept. Qed.

Theorem C07_oneshot_type_kept : forall podman exists_path mount_nl u path t tbl svc p tbl',
  t = TImage \/ t = TNetwork \/ t = TVolume \/ t = TBuild ->
  NoDup (map fst u) -> lookup_last_value u SEC_S (s2l "Type") <> None ->
  convert_one podman exists_path true mount_nl u path t tbl = COk (svc, p, tbl') ->
  vals svc SEC_S (s2l "Type") = vals u SEC_S (s2l "Type").
Proof. exact oneshot_type_kept. Qed.

(* Type=oneshot of a .kube unit: neither Type nor NotifyAccess gains anything *)
Theorem C07_kube_oneshot_kept : forall podman u path tbl svc p tbl',
  NoDup (map fst u) -> @lk berr u SEC_S (s2l "Type") = COk (Some (s2l "oneshot")) ->
  from_kube podman true u path tbl = COk (svc, p, tbl') ->
  vals svc SEC_S (s2l "Type") = vals u SEC_S (s2l "Type") /\ vals svc SEC_S (s2l "NotifyAccess") = vals u SEC_S (s2l "NotifyAccess").
Proof. exact kube_oneshot_kept. Qed.

(* a non-empty user WorkingDirectory is never added to (.kube, .build) *)
Theorem C07_kube_workdir_kept : forall podman kill_fixed u path tbl svc p tbl' c0 w,
  NoDup (map fst u) -> @lk berr u SEC_S (s2l "WorkingDirectory") = COk (Some (c0 :: w)) ->
  from_kube podman kill_fixed u path tbl = COk (svc, p, tbl') ->
  vals svc SEC_S (s2l "WorkingDirectory") = vals u SEC_S (s2l "WorkingDirectory").
Proof. exact kube_workdir_kept. Qed.

Theorem C07_build_workdir_kept : forall podman mount_nl u path tbl svc p tbl' c0 w,
  NoDup (map fst u) -> @lk berr u SEC_S (s2l "WorkingDirectory") = COk (Some (c0 :: w)) ->
  from_build podman mount_nl u path tbl = COk (svc, p, tbl') ->
  vals svc SEC_S (s2l "WorkingDirectory") = vals u SEC_S (s2l "WorkingDirectory").
Proof. exact build_workdir_kept. Qed.

(* the tables the statements above mention, spelled out *)
Theorem C07_tables :
  MANAGED = [s2l "KillMode"; s2l "SyslogIdentifier"; s2l "Type"; s2l "NotifyAccess"; s2l "RemainAfterExit"] /\
  (forall t, hidden t = [type_section t; type_xsection t; SEC_Q; c_X_QUADLET_SECTION]) /\
  A_of TContainer = [(SEC_U, s2l "Requires"); (SEC_U, s2l "After"); (SEC_U, s2l "BindsTo"); (SEC_U, s2l "RequiresMountsFor"); (SEC_U, s2l "SourcePath");
                     (SEC_S, s2l "Environment"); (SEC_S, s2l "ExecStop"); (SEC_S, s2l "ExecStopPost"); (SEC_S, s2l "ExecStart"); (SEC_S, s2l "Delegate")] /\
  A_of TKube = [(SEC_U, s2l "Requires"); (SEC_U, s2l "After"); (SEC_U, s2l "BindsTo"); (SEC_U, s2l "RequiresMountsFor"); (SEC_U, s2l "SourcePath");
                (SEC_S, s2l "Environment"); (SEC_S, s2l "ExecStart"); (SEC_S, s2l "ExecStopPost"); (SEC_S, s2l "Type"); (SEC_S, s2l "NotifyAccess");
                (SEC_S, s2l "WorkingDirectory")] /\
  A_of TPod = [(SEC_U, s2l "Requires"); (SEC_U, s2l "After"); (SEC_U, s2l "BindsTo"); (SEC_U, s2l "RequiresMountsFor"); (SEC_U, s2l "SourcePath");
               (SEC_U, s2l "Wants"); (SEC_U, s2l "Before"); (SEC_S, s2l "ExecStart"); (SEC_S, s2l "ExecStop"); (SEC_S, s2l "ExecStopPost");
               (SEC_S, s2l "ExecStartPre"); (SEC_S, s2l "Environment"); (SEC_S, s2l "Type"); (SEC_S, s2l "Restart"); (SEC_S, s2l "PIDFile")] /\
  A_of TBuild = [(SEC_U, s2l "Requires"); (SEC_U, s2l "After"); (SEC_U, s2l "BindsTo"); (SEC_U, s2l "RequiresMountsFor"); (SEC_U, s2l "SourcePath");
                 (SEC_S, s2l "ExecStart"); (SEC_S, s2l "WorkingDirectory")] /\
  (forall t, t = TImage \/ t = TNetwork \/ t = TVolume ->
     A_of t = [(SEC_U, s2l "Requires"); (SEC_U, s2l "After"); (SEC_U, s2l "BindsTo"); (SEC_U, s2l "RequiresMountsFor"); (SEC_U, s2l "SourcePath");
               (SEC_S, s2l "ExecStart")]).
Proof. repeat split; try reflexivity. intros t [->|[->| ->]]; reflexivity. Qed.

(* non-vacuity: a unit with an extra section, a reset After= list and a user KillMode goes through the whole run *)
Theorem C07_example :
  match process_files (s2l "/usr/bin/podman") (fun _ => false) true false [(s2l "/d/a.container", ex_text)] with
  | (_, [(_, ROk svc _)]) =>
      vals svc (s2l "X-Meta") (s2l "Owner") = [s2l "me"] /\ vals svc SEC_U (s2l "After") = [s2l "network-online.target"; []; s2l "foo.service"] /\
      vals svc SEC_S (s2l "KillMode") = [s2l "control-group"] /\ vals svc (s2l "X-Container") (s2l "Image") = [s2l "img"]
  | _ => False
  end.
Proof. exact every_generated_service_example. Qed.

(* the pinned code overwrote a permitted KillMode=control-group; the repaired code keeps it (full container converter) *)
Theorem C07_pinned_refuted :
  killmode_of (convert_one (s2l "/usr/bin/podman") (fun _ => false) false true demo_unit (s2l "/d/a.container") TContainer demo_tbl) = Some [s2l "mixed"]
  /\ killmode_of (convert_one (s2l "/usr/bin/podman") (fun _ => false) true true demo_unit (s2l "/d/a.container") TContainer demo_tbl) = Some [s2l "control-group"].
Proof. exact (conj killmode_pinned_refuted killmode_fixed_kept). Qed.

(* the run over unit files WITH their drop-ins (Model/ProcessD.v, names derived after merging): the same pass-through, of the MERGED unit --
   what the user wrote in the main file and in the drop-ins, in merge order, reaches the service untouched *)
Theorem C07_every_generated_service_passes_through_with_dropins : forall podman exists_path kill_fixed mount_nl (files : list (str * str * list str)) path svc sp,
  In (path, ROk svc sp) (snd (process_trees podman exists_path kill_fixed mount_nl true files)) ->
  exists main ds u0 t, In (path, main, ds) files /\ parse_unit main = Some u0 /\
    let u := fst (merge_dropins u0 ds) in
    PassThrough (A_of t) MANAGED t u svc /\ OwnKept t u svc.
Proof. exact trees_every_generated_service_passes_through. Qed.
