(* C07 -- user sections pass through unchanged; the Quadlet section is kept as X-<name>.
   PARTIAL: the theorems below are the multimap laws for the operations the converters compose (which the unit tests
   never compose) and kernel-checked witnesses over the full container converter model; the statement over every
   converter run ("for all units ...") is decided by the direct oracle of tools/props/C07.py on implementation output. *)
From QV Require Import Model.Base Model.Quote Model.Unit Model.Names Model.Convert Proofs.C07.

(* add(sec,k,v): every (section, key) keeps its values in order; only (sec,k) gains one value, at the end *)
Theorem C07_add_keeps_order : forall u sec k v sec' k',
  vals (unit_add u sec k v) sec' k' = vals u sec' k' ++ (if str_eqb sec' sec && str_eqb k k' then [quote_value v] else []).
Proof. exact vals_unit_add. Qed.

(* set(sec,k,v): the values of every other key of that section, and of every other section, are untouched ... *)
Theorem C07_set_keeps_others : forall u sec k raw sec' k',
  (sec' <> sec \/ k <> k') -> vals (set_entry u sec k raw) sec' k' = vals u sec' k'.
Proof.
  intros u sec k raw sec' k' [H|H].
  - apply vals_set_other_sec. exact H.
  - destruct (str_eqb_spec sec' sec) as [->|Hs]; [apply vals_set_other_key; exact H|apply vals_set_other_sec; exact Hs].
Qed.

(* ... and on the key itself only the last value is replaced *)
Theorem C07_set_replaces_last : forall u sec k raw, vals (set_entry u sec k raw) sec k = removelast (vals u sec k) ++ [raw].
Proof. exact vals_set_same. Qed.

(* the pinned code overwrote a permitted KillMode=control-group; the repaired code keeps it (full container converter) *)
Theorem C07_pinned_refuted :
  killmode_of (convert_one (s2l "/usr/bin/podman") (fun _ => false) false true demo_unit (s2l "/d/a.container") TContainer demo_tbl) = Some [s2l "mixed"]
  /\ killmode_of (convert_one (s2l "/usr/bin/podman") (fun _ => false) true true demo_unit (s2l "/d/a.container") TContainer demo_tbl) = Some [s2l "control-group"].
Proof. exact (conj killmode_pinned_refuted killmode_fixed_kept). Qed.
