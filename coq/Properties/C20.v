(* C20 -- ExposeHostPort accepts exactly port[-port][/tcp|/udp]. *)
From QV Require Import Model.Base Model.PortRange Spec.PortRe Proofs.C20.

(* the hand-written recogniser accepts exactly the regular language, for every code-point string *)
Theorem C20_exact : forall s : str, is_port_range s = true <-> PortRe s.
Proof. exact port_exact. Qed.

(* the pinned (pre-fix) recogniser is refuted by kernel-checked witnesses *)
Theorem C20_pinned_refuted :
  (is_port_range_pinned (s2l "-80") = true /\ is_port_range_pinned (s2l "/tcp") = true /\
   is_port_range_pinned (s2l "1-/udp") = true) /\
  (~ PortRe (s2l "-80") /\ ~ PortRe (s2l "/tcp") /\ ~ PortRe (s2l "1-/udp")).
Proof. exact (conj pinned_accepts_bad bad_not_in_language). Qed.

Check C20_exact : forall s : str, is_port_range s = true <-> PortRe s.
