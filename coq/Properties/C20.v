(* C20 -- ExposeHostPort accepts exactly port[-port][/tcp|/udp]. *)
From QV Require Import Model.Base Generated.Tables Model.Quote Model.PortRange Model.Unit Model.Names Model.Convert Spec.PortRe Proofs.C07 Proofs.C20 Proofs.C02shape Model.Parser Model.Path Model.Process Model.ProcessD Proofs.C16trees.

(* the hand-written recogniser accepts exactly the regular language, for every code-point string *)
Theorem C20_exact : forall s : str, is_port_range s = true <-> PortRe s.
Proof. exact port_exact. Qed.

(* the pinned (pre-fix) recogniser is refuted by kernel-checked witnesses *)
Theorem C20_pinned_refuted :
  (is_port_range_pinned (s2l "-80") = true /\ is_port_range_pinned (s2l "/tcp") = true /\
   is_port_range_pinned (s2l "1-/udp") = true) /\
  (~ PortRe (s2l "-80") /\ ~ PortRe (s2l "/tcp") /\ ~ PortRe (s2l "1-/udp")).
Proof. exact (conj pinned_accepts_bad bad_not_in_language). Qed.

(* ---- the call site: what a converted container does with ExposeHostPort= ---- *)
(* if the container converts, every effective ExposeHostPort= value, trimmed, is in the language, and the command carries exactly
   "--expose <trimmed value>" for each of them, in order, as one consecutive run *)
Theorem C20_callsite_accepts : forall podman exists_path kill_fixed mount_nl u path tbl svc sp t',
  from_container podman exists_path kill_fixed mount_nl u path tbl = COk (svc, sp, t') ->
  exists ports before pre post,
    @lk_all berr u c_CONTAINER_SECTION (s2l "ExposeHostPort") = COk ports /\
    Forall (fun p => PortRe (trim p)) ports /\
    vals svc SEC_S (s2l "ExecStart") = before ++ [quote_words (pre ++ flat_map (fun p => [s2l "--expose"; trim p]) ports ++ post)].
Proof.
  intros podman ep kf mn u path tbl svc sp t' H.
  destruct (container_shape _ _ _ _ _ _ _ _ _ _ H) as (before & mods & cname & mid & obj & ports & _ & Hp & F & (m1 & m2 & ->) & _ & E).
  exists ports, before,
    (global_words podman mods u c_CONTAINER_SECTION ++ [s2l "run"; s2l "--name"; cname; s2l "--cidfile=%t/%N.cid"; s2l "--replace"; s2l "--rm"] ++ m1),
    (m2 ++ lookup_all_args u c_CONTAINER_SECTION (s2l "PodmanArgs") ++ obj ++ exec_words u c_CONTAINER_SECTION).
  split; [exact Hp|]. split.
  - revert F. apply Forall_impl. intros p Hpr. apply C20_exact. exact Hpr.
  - rewrite E. f_equal. f_equal. f_equal. rewrite <- !app_assoc. reflexivity.
Qed.

(* and a value outside the language is never passed on: the conversion of that container fails *)
Theorem C20_callsite_rejects : forall podman exists_path kill_fixed mount_nl u path tbl ports,
  @lk_all berr u c_CONTAINER_SECTION (s2l "ExposeHostPort") = COk ports -> Exists (fun p => ~ PortRe (trim p)) ports ->
  forall r, from_container podman exists_path kill_fixed mount_nl u path tbl <> COk r.
Proof.
  intros podman ep kf mn u path tbl ports Hp Hex [[svc sp] t'] H.
  destruct (container_shape _ _ _ _ _ _ _ _ _ _ H) as (before & mods & cname & mid & obj & ports' & _ & Hp' & F & _).
  rewrite Hp in Hp'. injection Hp' as <-. apply Exists_exists in Hex. destruct Hex as [p [Hin Hn]].
  rewrite Forall_forall in F. apply Hn. apply C20_exact. exact (F p Hin).
Qed.

(* ---- every container service of the whole run with drop-ins: its unit's effective ExposeHostPort= values -- main file merged with
   its drop-ins -- are all in the language, and the command carries --expose <value> for each (by the bridge
   trees_results_are_conversions: every service of the run is one conversion of one merged unit) ---- *)
Theorem C20_every_container_service_of_the_run : forall podman exists_path kill_fixed mount_nl b (files : list (str * str * list str)) p svc sp,
  In (p, ROk svc sp) (snd (process_trees podman exists_path kill_fixed mount_nl b files)) -> type_of_path p = Some TContainer ->
  exists text ds u0 ports before pre post, In (p, text, ds) files /\ parse_unit text = Some u0 /\
    @lk_all berr (fst (merge_dropins u0 ds)) c_CONTAINER_SECTION (s2l "ExposeHostPort") = COk ports /\
    Forall (fun q => PortRe (trim q)) ports /\
    vals svc SEC_S (s2l "ExecStart") = before ++ [quote_words (pre ++ flat_map (fun q => [s2l "--expose"; trim q]) ports ++ post)].
Proof.
  intros podman ep kf mn b files p svc sp Hr Ht.
  destruct (trees_results_are_conversions _ _ _ _ _ _ _ _ _ Hr) as (text & ds & u0 & t & tbl & t1 & Hin & Hp & Ht' & Hc).
  rewrite Ht in Ht'. injection Ht' as <-. cbn [convert_one] in Hc.
  destruct (C20_callsite_accepts _ _ _ _ _ _ _ _ _ _ Hc) as (ports & before & pre & post & A & B & C).
  exists text, ds, u0, ports, before, pre, post. auto.
Qed.

Check C20_exact : forall s : str, is_port_range s = true <-> PortRe s.
