(* C01 -- property theorems only.  Each is closed by [exact], pinned by [Check], audited by [Print Assumptions]. *)
From QV Require Import Model.Base Model.Quote Spec.SdExtract Proofs.C01.

(* For every argument vector (any number of arguments, each any sequence of code points other than NUL),
   systemd's ExecStart= word splitting (EXTRACT_UNQUOTE|EXTRACT_CUNESCAPE) of the rendered line returns
   exactly that vector. *)
Theorem C01_exec_roundtrip :
  forall args : list str, Forall (fun w => ~ In 0%N w) args -> sd_split fl_exec (quote_words args) = Some args.
Proof. exact exec_roundtrip. Qed.

(* the pre-fix quoting (empty word rendered as nothing) is refuted by a kernel-checked witness *)
Theorem C01_pinned_refuted :
  sd_split fl_exec (quote_words_pinned [[97]; []; [98]]%N) = Some [[97]; [98]]%N.
Proof. exact pinned_refuted. Qed.

Check C01_exec_roundtrip :
  forall args : list str, Forall (fun w => ~ In 0%N w) args -> sd_split fl_exec (quote_words args) = Some args.
