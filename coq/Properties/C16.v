(* C16 -- undocumented keys are rejected, documented keys are accepted. *)
From QV Require Import Model.Base Generated.Tables Model.Unquote Model.Unit Model.Path Model.Names Model.Convert Spec.Docs Proofs.C16.

(* the allow-lists found in the source today are exactly the documented key sets (finite: bound = the tables) *)
Theorem C16_tables : (forall t, same_set (supported t) (documented t) = true) /\ same_set a_SUPPORTED_QUADLET_KEYS doc_keys_quadlet = true.
Proof. exact (conj tables_agree quadlet_tables_agree). Qed.

(* any key of the unit's own section that is not documented for that unit type -- a misspelling, another capitalisation,
   a key of another type -- prevents a service from being generated, whatever else the unit contains, for every unit, path,
   name table and environment *)
Theorem C16_reject : forall podman exists_path kill_fixed mount_nl u path tbl t k,
  In k (keys_of u (type_section t)) -> mem_str k (documented t) = false ->
  forall r, convert_one podman exists_path kill_fixed mount_nl u path t tbl <> COk r.
Proof. exact reject_own. Qed.

Theorem C16_reject_quadlet : forall podman exists_path kill_fixed mount_nl u path tbl t k,
  In k (keys_of u c_QUADLET_SECTION) -> mem_str k doc_keys_quadlet = false ->
  forall r, convert_one podman exists_path kill_fixed mount_nl u path t tbl <> COk r.
Proof. exact reject_quadlet. Qed.

(* the error names an undocumented key of the unit (the first one in file order) *)
Theorem C16_error_names_key : forall podman exists_path kill_fixed mount_nl u path tbl t k fname i,
  t <> TBuild -> file_name path = Some fname -> tbl_get tbl fname = Some i ->
  forallb (fun e : entry => match unquote_value (snd e) with Some _ => true | None => false end) (section_entries u (type_section t)) = true ->
  In k (keys_of u (type_section t)) -> mem_str k (documented t) = false ->
  exists k', convert_one podman exists_path kill_fixed mount_nl u path t tbl = CErr (EUnknownKey k') None
             /\ mem_str k' (documented t) = false /\ In k' (keys_of u (type_section t)).
Proof. exact reject_names_key. Qed.

(* conversely, a unit whose keys are all documented is never rejected because of its keys *)
Theorem C16_accept : forall podman exists_path kill_fixed mount_nl u path tbl t,
  (forall k, In k (keys_of u (type_section t)) -> mem_str k (documented t) = true) ->
  (forall k, In k (keys_of u c_QUADLET_SECTION) -> mem_str k doc_keys_quadlet = true) ->
  forall k tb, convert_one podman exists_path kill_fixed mount_nl u path t tbl <> CErr (EUnknownKey k) tb.
Proof. exact accept_documented. Qed.

Check C16_reject.
Check C16_accept.
