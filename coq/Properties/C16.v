(* C16 -- undocumented keys are rejected, documented keys are accepted. *)
From QV Require Import Model.Base Generated.Tables Model.Unquote Model.Unit Model.Path Model.Names Model.Convert Spec.Docs Proofs.C16 Model.Parser Model.Process Model.ProcessD Proofs.C06trees Proofs.C16trees.

(* the allow-lists found in the source today are exactly the documented key sets (finite: bound = the tables) *)
Theorem C16_tables : (forall t, same_set (supported t) (documented t) = true) /\ same_set a_SUPPORTED_QUADLET_KEYS doc_keys_quadlet = true.
Proof. exact (conj tables_agree quadlet_tables_agree). Qed.

(* any key of the unit's own section that is not documented for that unit type -- a misspelling, another capitalisation,
   a key of another type -- prevents a service from being generated, whatever else the unit contains, for every unit, path,
   name table and environment *)
Theorem C16_reject : forall podman exists_path kill_fixed mount_nl u path tbl t k,
  In k (keys_of u (type_section t)) -> mem_str k (documented t) = false ->
  forall r, convert_one podman exists_path kill_fixed mount_nl u path t tbl <> COk r.
Proof. exact reject_own. Qed.

Theorem C16_reject_quadlet : forall podman exists_path kill_fixed mount_nl u path tbl t k,
  In k (keys_of u c_QUADLET_SECTION) -> mem_str k doc_keys_quadlet = false ->
  forall r, convert_one podman exists_path kill_fixed mount_nl u path t tbl <> COk r.
Proof. exact reject_quadlet. Qed.

(* the error names an undocumented key of the unit (the first one in file order) *)
Theorem C16_error_names_key : forall podman exists_path kill_fixed mount_nl u path tbl t k fname i,
  t <> TBuild -> file_name path = Some fname -> tbl_get tbl fname = Some i ->
  forallb (fun e : entry => match unquote_value (snd e) with Some _ => true | None => false end) (section_entries u (type_section t)) = true ->
  In k (keys_of u (type_section t)) -> mem_str k (documented t) = false ->
  exists k', convert_one podman exists_path kill_fixed mount_nl u path t tbl = CErr (EUnknownKey k') None
             /\ mem_str k' (documented t) = false /\ In k' (keys_of u (type_section t)).
Proof. exact reject_names_key. Qed.

(* conversely, a unit whose keys are all documented is never rejected because of its keys *)
Theorem C16_accept : forall podman exists_path kill_fixed mount_nl u path tbl t,
  (forall k, In k (keys_of u (type_section t)) -> mem_str k (documented t) = true) ->
  (forall k, In k (keys_of u c_QUADLET_SECTION) -> mem_str k doc_keys_quadlet = true) ->
  forall k tb, convert_one podman exists_path kill_fixed mount_nl u path t tbl <> CErr (EUnknownKey k) tb.
Proof. exact accept_documented. Qed.

Check C16_reject.
Check C16_accept.

(* ---- over the whole run with drop-ins (Model/ProcessD.v): an undocumented key in the unit's own section or in [Quadlet], given in
   the main file OR IN ANY OF ITS DROP-INS (values_raw u sec k ++ dropin_values ds sec k is the key's history over main file and
   drop-ins), means the run yields no service for that file, whatever the other files are ---- *)
Theorem C16_reject_in_the_run_with_dropins : forall podman exists_path kill_fixed mount_nl b (files : list (str * str * list str)) p text ds u t sec k,
  NoDup (map (fun f : str * str * list str => fst (fst f)) files) -> In (p, text, ds) files ->
  parse_unit text = Some u -> Forall (fun d => parse_unit d <> None) ds -> type_of_path p = Some t ->
  (sec = type_section t /\ mem_str k (documented t) = false) \/ (sec = c_QUADLET_SECTION /\ mem_str k doc_keys_quadlet = false) ->
  values_raw u sec k ++ dropin_values ds sec k <> [] ->
  forall svc sp, ~ In (p, ROk svc sp) (snd (process_trees podman exists_path kill_fixed mount_nl b files)).
Proof. exact trees_reject_undocumented_key. Qed.

Theorem C16_dropin_unknown_key_example :
  (exists svc sp, exk_run [s2l "[Container]" ++ [10] ++ s2l "Label=a=b" ++ [10]] = [(s2l "/d/a.container", ROk svc sp)]) /\
  exk_run [s2l "[Container]" ++ [10] ++ s2l "Lable=a=b" ++ [10]] = [(s2l "/d/a.container", RErr (EUnknownKey (s2l "Lable")))] /\
  exk_run [s2l "[Quadlet]" ++ [10] ++ s2l "Image=x" ++ [10]] = [(s2l "/d/a.container", RErr (EUnknownKey (s2l "Image")))].
Proof. exact dropin_unknown_key_example. Qed.
