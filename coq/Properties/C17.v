(* C17 -- relative paths resolve against the unit file's directory and are normalised. *)
From QV Require Import Model.Base Model.Path Spec.CleanRef Proofs.C17.

(* for an absolute base directory D and any path p that does not start with a systemd specifier, the result is
   the canonical spelling '/' seg '/' seg ... of the position reached by walking D's and then p's segments from
   the root (only p's when p is absolute), "." staying put and ".." going up but never above the root;
   in particular no current directory is consulted (the result is Some _) *)
Theorem C17_abs : forall D p, is_absolute D = true -> starts_with_systemd_specifier p = false ->
  absolute_from p D = Some (resolve_abs (if is_absolute p then segs p else segs D ++ segs p)).
Proof. exact abs_resolution. Qed.

(* no ".", ".." or empty segment remains *)
Theorem C17_normal : forall D p,
  Forall (fun s => s <> [] /\ s <> sdot /\ s <> sdotdot) (walk [] (if is_absolute p then segs p else segs D ++ segs p)).
Proof. exact resolution_normal. Qed.

(* the result is absolute whenever the base is *)
Theorem C17_result_absolute : forall D p r, is_absolute D = true -> starts_with_systemd_specifier p = false ->
  absolute_from p D = Some r -> is_absolute r = true.
Proof. exact result_absolute. Qed.

(* a path that starts with a systemd specifier is not resolved against the base *)
Theorem C17_specifier : forall D p, starts_with_systemd_specifier p = true -> absolute_from p D = Some (cleaned p).
Proof. exact specifier_not_resolved. Qed.

Check C17_abs : forall D p, is_absolute D = true -> starts_with_systemd_specifier p = false ->
  absolute_from p D = Some (resolve_abs (if is_absolute p then segs p else segs D ++ segs p)).
