(* Extraction of the executable Model and Spec definitions.  ExtrOcamlBasic only: bool, option, list, prod,
   unit, sumbool, sumor map to OCaml natives; N / positive / nat / string / ascii stay Coq datatypes. *)
From Coq Require Extraction ExtrOcamlBasic.
From QV Require Import Model.Base Generated.Tables Model.Quote Model.Unquote Model.Split Model.PortRange Spec.SdExtract.
Extraction Language OCaml.
Extraction "Extract/model.ml"
  s2l
  quote_value quote_words quote_words_pinned
  unquote_value unquote_value_pinned
  split_word_all split_word_all_pinned split_strv_all split_strv_all_pinned
  is_port_range is_port_range_pinned trim trim_end
  fl_exec fl_args fl_strv sd_split.
