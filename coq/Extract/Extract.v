(* Extraction of the executable Model and Spec definitions.  ExtrOcamlBasic only: bool, option, list, prod,
   unit, sumbool, sumor map to OCaml natives; N / positive / nat / string / ascii stay Coq datatypes. *)
From Coq Require Extraction ExtrOcamlBasic.
From QV Require Import Model.Base Generated.Tables Model.Quote Model.Unquote Model.Split Model.PortRange Model.Unit Model.Lex Model.Parser Model.Path Model.Names Model.Convert Model.Process Model.ProcessD Model.Links Model.Discover Spec.SdExtract Spec.Passthrough.
Extraction Language OCaml.
Extraction "Extract/model.ml"
  s2l
  quote_value quote_words quote_words_pinned
  unquote_value unquote_value_pinned
  split_word_all split_word_all_pinned split_strv_all split_strv_all_pinned
  is_port_range is_port_range_pinned trim trim_end
  cleaned absolute_from absolute_from_unit starts_with_systemd_specifier template_parts parent file_name file_stem extension
  root_includes rootless_includes plan_links process_files process_trees convert_one unit_info is_url
  parse_unit to_string write_calls unit_add unit_add_raw unit_set set_entry unit_prepend rename_section merge_from
  lookup_last lookup_last_value lookup_all lookup_all_values lookup_all_args lookup_all_strv lookup_all_key_val lookup_bool has_key to_bool
  fl_exec fl_args fl_strv sd_split
  A_of MANAGED hidden.
