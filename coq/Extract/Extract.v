(* Extraction of the executable Model and Spec definitions.  ExtrOcamlBasic only: bool, option, list, prod,
   unit, sumbool, sumor map to OCaml natives; N / positive / nat / string / ascii stay Coq datatypes. *)
From Coq Require Extraction ExtrOcamlBasic.
From QV Require Import Model.Base Generated.Tables Model.Quote Spec.SdExtract.
Extraction Language OCaml.
Extraction "Extract/model.ml"
  s2l
  quote_value quote_words quote_words_pinned
  fl_exec fl_args fl_strv sd_split.
