(* C01: quote_words round-trips through systemd's exec-line splitter. *)
From QV Require Import Model.Base Generated.Tables Model.Quote Spec.SdExtract Proofs.Util.
Open Scope N_scope.

Lemma word_cons fl s acc c r : word fl s acc (c :: r) =
  match step fl s acc c with SErr => None | Done w => Some (Some (w, r)) | More s' acc' => word fl s' acc' r end.
Proof. reflexivity. Qed.

(* one escaped character inside double quotes decodes to itself: c < 129 by kernel-checked enumeration
   (with symbolic accumulator and rest), c >= 129 by arithmetic *)
Lemma esc_low c : In c (upto 129) -> c <> 0 -> forall acc rest,
  word fl_exec (InQ cDQ) acc (esc_char c ++ rest) = word fl_exec (InQ cDQ) (acc ++ [c]) rest.
Proof.
  intros Hin Hnz acc rest.
  cbv [upto app N.of_nat Pos.of_succ_nat Pos.succ] in Hin.
  repeat (destruct Hin as [<-|Hin]; [try (exfalso; apply Hnz; reflexivity); try reflexivity|]).
  destruct Hin.
Qed.

Lemma esc_high c : 128 < c -> forall acc rest,
  word fl_exec (InQ cDQ) acc (esc_char c ++ rest) = word fl_exec (InQ cDQ) (acc ++ [c]) rest.
Proof.
  intros H acc rest. unfold esc_char, char_needs_escaping.
  destruct (N.ltb_spec 128 c); [|lia]. cbn [negb app].
  rewrite word_cons. cbn [step]. unfold cDQ, cBS.
  destruct (N.eqb_spec c 34); [lia|]. destruct (N.eqb_spec c 92); [lia|]. reflexivity.
Qed.

Lemma esc_any c : c <> 0 -> forall acc rest,
  word fl_exec (InQ cDQ) acc (esc_char c ++ rest) = word fl_exec (InQ cDQ) (acc ++ [c]) rest.
Proof.
  intros Hnz. destruct (N.lt_ge_cases c 129).
  - apply esc_low; [apply (upto_in 129); lia|assumption].
  - apply esc_high; lia.
Qed.

Lemma quoted_body w : ~ In 0 w -> forall acc rest,
  word fl_exec (InQ cDQ) acc (quote_value w ++ cDQ :: rest) = word fl_exec Plain (acc ++ w) rest.
Proof.
  induction w as [|c w IH]; intros Hnz acc rest.
  - cbn. rewrite app_nil_r. reflexivity.
  - unfold quote_value in *. cbn [flat_map]. rewrite <- app_assoc.
    rewrite esc_any by (intros ->; apply Hnz; left; reflexivity).
    rewrite IH by (intros H; apply Hnz; right; exact H).
    rewrite <- app_assoc. reflexivity.
Qed.

Definition plainc (c : N) := negb (is_sep c) && negb (c =? 34) && negb (c =? 39) && negb (c =? 92).

Lemma needs_plain c : char_needs_escaping c = false -> plainc c = true.
Proof.
  unfold char_needs_escaping, plainc, is_sep, is_ascii_control, is_ascii_whitespace, cDQ, cSQ, cBS.
  destruct (N.ltb_spec 128 c).
  - intros _.
    repeat match goal with |- context[N.eqb c ?k] => destruct (N.eqb_spec c k); [lia|] end. reflexivity.
  - intros Hn. repeat (apply orb_false_iff in Hn; destruct Hn as [Hn ?]).
    repeat match goal with H : N.eqb c ?k = false |- _ => apply N.eqb_neq in H end.
    repeat match goal with |- context[N.eqb c ?k] => destruct (N.eqb_spec c k); [lia|] end. reflexivity.
Qed.

Lemma step_plain s c acc : (s = Skip \/ s = Plain) -> plainc c = true ->
  step fl_exec s acc c = More Plain (acc ++ [c]).
Proof.
  unfold plainc. intros Hs H.
  repeat (apply andb_true_iff in H; destruct H as [H ?]).
  repeat match goal with H : negb _ = true |- _ => apply negb_true_iff in H end.
  destruct Hs as [-> | ->]; cbn [step]; unfold plain_step, is_quote, cDQ, cSQ, cBS;
  repeat match goal with H : ?x = false |- context[?x] => rewrite H end; reflexivity.
Qed.

Lemma plain_body w : word_needs_escaping w = false -> forall s acc rest, (s = Skip \/ s = Plain) -> w <> [] ->
  word fl_exec s acc (w ++ rest) = word fl_exec Plain (acc ++ w) rest.
Proof.
  induction w as [|c w IH]; intros Hn s acc rest Hs Hne; [congruence|].
  cbn [word_needs_escaping existsb] in Hn. apply orb_false_iff in Hn. destruct Hn as [Hc Hw].
  cbn [app]. rewrite word_cons, (step_plain s c acc Hs (needs_plain c Hc)).
  destruct w as [|c' w'].
  - reflexivity.
  - rewrite (IH Hw Plain (acc ++ [c]) rest (or_intror eq_refl)) by discriminate.
    rewrite <- app_assoc. reflexivity.
Qed.

Lemma word_quote_word w rest : ~ In 0 w ->
  word fl_exec Skip [] (quote_word w ++ rest) = word fl_exec Plain w rest.
Proof.
  intros Hnz. unfold quote_word. destruct w as [|c w'] eqn:E.
  - reflexivity.
  - rewrite <- E in *. destruct (word_needs_escaping w) eqn:Hn.
    + cbn [app]. rewrite word_cons. cbn [step]. change (is_sep cDQ) with false. cbn iota.
      unfold plain_step. change (is_quote cDQ) with true. cbn iota.
      rewrite <- app_assoc. cbn [app]. rewrite quoted_body by assumption. reflexivity.
    + rewrite (plain_body w Hn Skip [] rest) by (auto; subst; discriminate). reflexivity.
Qed.

Lemma split_fuel_mono fl f cs r : split fl f cs = Some r -> forall g, (f <= g)%nat -> split fl g cs = Some r.
Proof.
  revert cs r. induction f as [|f IH]; intros cs r H g Hg; [discriminate|].
  destruct g as [|g]; [lia|]. cbn [split] in *.
  destruct (word fl Skip [] cs) as [[[w rest]|]|]; try assumption.
  destruct (split fl f rest) eqn:E; [|discriminate]. rewrite (IH _ _ E g) by lia. assumption.
Qed.

Lemma join_cons w q qs : join [cSP] (w :: q :: qs) = w ++ cSP :: join [cSP] (q :: qs).
Proof. reflexivity. Qed.

Lemma split_S fl f cs : split fl (S f) cs = match word fl Skip [] cs with
  | None => None | Some None => Some []
  | Some (Some (w, r)) => match split fl f r with Some ws => Some (w :: ws) | None => None end end.
Proof. reflexivity. Qed.

(* number of words bounds the fuel needed: at most one word per character, plus one *)
Lemma roundtrip_fuel ws : Forall (fun w => ~ In 0 w) ws ->
  split fl_exec (S (length ws)) (quote_words ws) = Some ws.
Proof.
  induction ws as [|w ws IH]; intros H.
  - reflexivity.
  - inversion H as [|? ? Hw Hws]; subst. specialize (IH Hws).
    unfold quote_words in *. cbn [map length].
    destruct (map quote_word ws) as [|q qs] eqn:E.
    + destruct ws; [|discriminate]. cbn [join]. rewrite split_S.
      rewrite <- (app_nil_r (quote_word w)), word_quote_word by assumption. reflexivity.
    + rewrite join_cons. remember (join [cSP] (q :: qs)) as tl. rewrite split_S.
      rewrite word_quote_word by assumption.
      rewrite word_cons. change (step fl_exec Plain w cSP) with (Done w).
      cbn iota. rewrite IH. reflexivity.
Qed.

Lemma quote_word_nonempty w : quote_word w <> [].
Proof.
  unfold quote_word. destruct w as [|c w]; [discriminate|].
  destruct (word_needs_escaping (c :: w)); discriminate.
Qed.

Lemma quote_words_length ws : (length ws <= length (quote_words ws))%nat.
Proof.
  unfold quote_words. induction ws as [|w ws IH]; [cbn; lia|].
  cbn [map]. assert (Hw : (1 <= length (quote_word w))%nat).
  { pose proof (quote_word_nonempty w). destruct (quote_word w); [congruence|cbn [length]; lia]. }
  destruct (map quote_word ws) as [|q qs] eqn:E.
  - destruct ws; [|discriminate]. cbn [join length]. lia.
  - rewrite join_cons, app_length. cbn [length]. cbn [length] in IH. lia.
Qed.

Theorem exec_roundtrip ws : Forall (fun w => ~ In 0 w) ws -> sd_split fl_exec (quote_words ws) = Some ws.
Proof.
  intros H. unfold sd_split.
  apply (split_fuel_mono _ _ _ _ (roundtrip_fuel ws H)).
  pose proof (quote_words_length ws). lia.
Qed.

(* the pinned (pre-fix) quote_words loses an empty argument *)
Lemma pinned_refuted : sd_split fl_exec (quote_words_pinned [[97]; []; [98]]) = Some [[97]; [98]].
Proof. vm_compute. reflexivity. Qed.

(* non-vacuity: a vector with an empty word, blanks, both quotes, control, DEL, backslash and non-ASCII *)
Example exec_roundtrip_example :
  sd_split fl_exec (quote_words [[97]; []; [98; 32; 34; 1; 127; 92; 39; 233; 9; 10]; [45; 45]; [32]])
  = Some [[97]; []; [98; 32; 34; 1; 127; 92; 39; 233; 9; 10]; [45; 45]; [32]].
Proof. vm_compute. reflexivity. Qed.

(* safety lemmas used by C06: quoting never emits a raw newline or other ASCII control character *)
Definition no_raw_ctl (s : str) : Prop := forall c, In c s -> is_ascii_control c = false.

Lemma esc_char_low_ok c : In c (upto 129) -> forallb (fun x => negb (is_ascii_control x)) (esc_char c) = true.
Proof.
  intros Hin.
  cbv [upto app N.of_nat Pos.of_succ_nat Pos.succ] in Hin.
  repeat (destruct Hin as [<-|Hin]; [vm_compute; reflexivity|]).
  destruct Hin.
Qed.

Lemma esc_char_no_ctl c : no_raw_ctl (esc_char c).
Proof.
  destruct (N.lt_ge_cases c 129) as [Hlt|Hge].
  - pose proof (esc_char_low_ok c (upto_in 129 c ltac:(lia))) as H.
    rewrite forallb_forall in H. intros x Hx. specialize (H x Hx).
    apply negb_true_iff in H. exact H.
  - unfold esc_char, char_needs_escaping. destruct (N.ltb_spec 128 c); [|lia]. cbn [negb].
    intros x [<-|[]]. unfold is_ascii_control.
    destruct (N.ltb_spec c 32); [lia|]. destruct (N.eqb_spec c 127); [lia|]. reflexivity.
Qed.

Lemma quote_value_no_ctl s : no_raw_ctl (quote_value s).
Proof.
  unfold quote_value. intros c Hc. apply in_flat_map in Hc. destruct Hc as [x [_ Hx]].
  exact (esc_char_no_ctl x c Hx).
Qed.
