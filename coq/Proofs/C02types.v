(* C02, continued: the whole-command frame for the table-driven keys of .image, .network and .pod units. *)
From QV Require Import Model.Base Generated.Tables Model.Quote Model.Unquote Model.Split Model.PortRange Model.Unit Model.Lex Model.Parser
  Model.Path Model.Names Model.Convert Model.Process Spec.Passthrough Proofs.Util Proofs.C15 Proofs.C07 Proofs.C02 Proofs.C08 Proofs.C07run Proofs.C09 Proofs.C09run Proofs.C08run Proofs.C02run.
Open Scope N_scope.
Local Notation L := s2l (only parsing).

(* ---- the look-up loops, for any section ---- *)
Section SameG.
Variables (u : unit) (sec0 k0 raw : str).
Notation u' := (add_entry u sec0 k0 raw).

Lemma add_strings_sameG keys : Forall (fun p => fst p <> k0) keys -> forall args, add_strings u' sec0 keys args = add_strings u sec0 keys args.
Proof.
  induction 1 as [|[k f] r Hk Hr IH]; intros args; cbn [add_strings]; [reflexivity|]. cbn [fst] in Hk.
  rewrite (lk_add_any u sec0 k0 raw) by (right; exact Hk). destruct (lk u sec0 k) as [v| | |]; cbn [bind]; try reflexivity. apply IH.
Qed.
Lemma add_all_strings_sameG keys : Forall (fun p => fst p <> k0) keys -> forall args, add_all_strings u' sec0 keys args = add_all_strings u sec0 keys args.
Proof.
  induction 1 as [|[k f] r Hk Hr IH]; intros args; cbn [add_all_strings]; [reflexivity|]. cbn [fst] in Hk.
  rewrite (lk_all_add_any u sec0 k0 raw) by (right; exact Hk). destruct (lk_all u sec0 k) as [v| | |]; cbn [bind]; try reflexivity. apply IH.
Qed.
Lemma add_bools_sameG keys : Forall (fun p => fst p <> k0) keys -> forall args, add_bools u' sec0 keys args = add_bools u sec0 keys args.
Proof.
  induction 1 as [|[k f] r Hk Hr IH]; intros args; cbn [add_bools]; [reflexivity|]. cbn [fst] in Hk.
  rewrite (lookup_bool_add_any u sec0 k0 raw) by (right; exact Hk). apply IH.
Qed.
End SameG.

Lemma keys_other k0 (keys : list (str * str)) : ~ In k0 (map fst keys) -> Forall (fun p => fst p <> k0) keys.
Proof. intros H. apply Forall_forall. intros p Hp X. apply H. rewrite <- X. apply in_map. exact Hp. Qed.

(* the inserted words of each key kind *)
Definition ins_string (flag0 : str) (c : N) (v : str) : list str := [flag0; c :: v].
Definition ins_bool (flag0 : str) (b : bool) : list str := if b then [flag0] else [flag0 ++ L "=false"].

(* ---- .image ---- *)
Definition IMG_COMMON : list str := [L "Image"; L "ContainersConfModule"; L "GlobalArgs"; L "PodmanArgs"; L "ImageTag"].

Section ImageFrame.
Variables (podman : str) (u : unit) (k0 raw : str) (ins : list str).
Notation sec0 := c_IMAGE_SECTION.
Notation u' := (add_entry u sec0 k0 raw).
Hypothesis HK : ~ In k0 IMG_COMMON.
(* the two table loops, taken together, insert [ins] *)
Hypothesis Hloops : forall a b1 b2,
  add_strings u sec0 pt_from_image_unit_string_keys a = COk b1 -> add_strings u' sec0 pt_from_image_unit_string_keys a = COk b2 ->
  Ins ins (add_bools u sec0 pt_from_image_unit_bool_keys b1) (add_bools u' sec0 pt_from_image_unit_bool_keys b2).

Ltac side := right; let X := fresh in intros X; apply HK; rewrite <- X; unfold IMG_COMMON; cbn [In]; auto 10.

Lemma image_body_frame sv1 sv2 s1 s2 :
  image_body podman u sv1 = COk s1 -> image_body podman u' sv2 = COk s2 ->
  exists before1 before2 p q,
    vals s1 SEC_S (L "ExecStart") = before1 ++ [quote_words (p ++ q)] /\
    vals s2 SEC_S (L "ExecStart") = before2 ++ [quote_words (p ++ ins ++ q)].
Proof.
  unfold image_body. cbv zeta. intros R1 R2. revert R1. bel; intros img Hi. revert R2. bel; intros img' Hi'.
  rewrite (lk_add_any u sec0 k0 raw) in Hi' by side. rewrite Hi in Hi'. injection Hi' as <-.
  destruct img as [[|c s]|]; try discriminate.
  intros R2 R1. revert R1. bel; intros base Hb. bel; intros a1 H1. bel; intros x1 X1. intros O1.
  revert R2. bel; intros base' Hb'. bel; intros a1' H1'. bel; intros x2 X2. intros O2.
  unfold base_command in Hb, Hb'. rewrite (lk_all_add_any u sec0 k0 raw) in Hb' by side. rewrite (lookup_all_args_add_any u sec0 k0 raw) in Hb' by side.
  rewrite Hb in Hb'. injection Hb' as <-.
  unfold handle_podman_args in X1, X2. rewrite (lookup_all_args_add_any u sec0 k0 raw) in X2 by side.
  rewrite (one_shot_keeps_execstart _ _ _ O1), (one_shot_keeps_execstart _ _ _ O2).
  rewrite (add_raw_exec_execstart _ _ _ X1), (add_raw_exec_execstart _ _ _ X2).
  destruct (Hloops _ _ _ H1 H1') as (p & q & -> & ->).
  eexists _, _, p, _. split; f_equal; f_equal; rewrite <- ?app_assoc; reflexivity.
Qed.

Theorem image_key_frame path tbl svc1 sp1 t1 svc2 sp2 t2 :
  from_image podman u path tbl = COk (svc1, sp1, t1) -> from_image podman u' path tbl = COk (svc2, sp2, t2) ->
  exists before1 before2 p q,
    vals svc1 SEC_S (L "ExecStart") = before1 ++ [quote_words (p ++ q)] /\
    vals svc2 SEC_S (L "ExecStart") = before2 ++ [quote_words (p ++ ins ++ q)].
Proof.
  unfold from_image. intros R1 R2. revert R1.
  bel; intros [i svc0] _. intros R1. apply lift_ok in R1. revert R1. bel; intros s1 B1. bel; intros rn1 _.
  destruct (file_name path); [|discriminate]. intros E1. injection E1 as <- _ _.
  revert R2. bel; intros [i' svc0'] _. intros R2. apply lift_ok in R2. revert R2. bel; intros s2 B2. bel; intros rn2 _.
  intros E2. injection E2 as <- _ _.
  eapply image_body_frame; eassumption.
Qed.
End ImageFrame.

Ltac nodup_keys2 := cbn [map fst];
  repeat (constructor; [cbn [In]; let X := fresh in intros X; repeat (destruct X as [X|X]; [vm_compute in X; discriminate X|]); exact X|]); constructor.

Lemma image_tables_disjoint :
  forallb (fun k => negb (mem_str k (IMG_COMMON ++ map fst pt_from_image_unit_bool_keys))) (map fst pt_from_image_unit_string_keys) &&
  forallb (fun k => negb (mem_str k (IMG_COMMON ++ map fst pt_from_image_unit_string_keys))) (map fst pt_from_image_unit_bool_keys) = true.
Proof. vm_compute. reflexivity. Qed.
Lemma image_string_nodup : NoDup (map fst pt_from_image_unit_string_keys).
Proof. unfold pt_from_image_unit_string_keys. nodup_keys2. Qed.
Lemma image_bool_nodup : NoDup (map fst pt_from_image_unit_bool_keys).
Proof. unfold pt_from_image_unit_bool_keys. nodup_keys2. Qed.

Theorem image_string_key_frame podman u k0 flag0 raw c v path tbl svc1 sp1 t1 svc2 sp2 t2 :
  In (k0, flag0) pt_from_image_unit_string_keys -> values_raw u c_IMAGE_SECTION k0 = [] -> unquote_value raw = Some (c :: v) ->
  from_image podman u path tbl = COk (svc1, sp1, t1) -> from_image podman (add_entry u c_IMAGE_SECTION k0 raw) path tbl = COk (svc2, sp2, t2) ->
  exists before1 before2 p q,
    vals svc1 SEC_S (L "ExecStart") = before1 ++ [quote_words (p ++ q)] /\
    vals svc2 SEC_S (L "ExecStart") = before2 ++ [quote_words (p ++ [flag0; c :: v] ++ q)].
Proof.
  intros Hin Hfresh Huq R1 R2. destruct (in_split _ _ Hin) as (pre & post & Ht).
  pose proof image_tables_disjoint as D. apply andb_prop in D. destruct D as [DS DB].
  assert (HK' : ~ In k0 (IMG_COMMON ++ map fst pt_from_image_unit_bool_keys)) by (apply (notin_of_sweep _ (map fst pt_from_image_unit_string_keys)); [exact DS|apply (in_map fst) in Hin; exact Hin]).
  assert (HK : ~ In k0 IMG_COMMON) by (intros X; apply HK'; apply in_or_app; left; exact X).
  assert (HB : ~ In k0 (map fst pt_from_image_unit_bool_keys)) by (intros X; apply HK'; apply in_or_app; right; exact X).
  refine (image_key_frame podman u k0 raw [flag0; c :: v] HK _ path tbl svc1 sp1 t1 svc2 sp2 t2 R1 R2).
  intros a b1 b2 H1 H2. rewrite Ht in H1, H2. pose proof image_string_nodup as Hnd. rewrite Ht in Hnd.
  destruct (strings_frame u c_IMAGE_SECTION pre post k0 flag0 raw c v a Hnd Hfresh Huq (raw_ne_of_unquote _ _ _ Huq) (add_strings_no_panic _ _ _ _ _ H1)) as [F1 F2].
  rewrite F1 in H1. rewrite F2 in H2. injection H1 as <-. injection H2 as <-.
  rewrite (add_bools_sameG u c_IMAGE_SECTION k0 raw) by (apply keys_other; exact HB).
  eapply Ins_Rel; [|apply add_bools_rel]. eexists _, _. split; [rewrite app_assoc; reflexivity|rewrite app_assoc; reflexivity].
Qed.

Theorem image_bool_key_frame podman u k0 flag0 raw b path tbl svc1 sp1 t1 svc2 sp2 t2 :
  In (k0, flag0) pt_from_image_unit_bool_keys -> values_raw u c_IMAGE_SECTION k0 = [] -> raw <> [] -> to_bool raw = Some b ->
  from_image podman u path tbl = COk (svc1, sp1, t1) -> from_image podman (add_entry u c_IMAGE_SECTION k0 raw) path tbl = COk (svc2, sp2, t2) ->
  exists before1 before2 p q,
    vals svc1 SEC_S (L "ExecStart") = before1 ++ [quote_words (p ++ q)] /\
    vals svc2 SEC_S (L "ExecStart") = before2 ++ [quote_words (p ++ (if b then [flag0] else [flag0 ++ L "=false"]) ++ q)].
Proof.
  intros Hin Hfresh Hraw Hb R1 R2. destruct (in_split _ _ Hin) as (pre & post & Ht).
  pose proof image_tables_disjoint as D. apply andb_prop in D. destruct D as [DS DB].
  assert (HK' : ~ In k0 (IMG_COMMON ++ map fst pt_from_image_unit_string_keys)) by (apply (notin_of_sweep _ (map fst pt_from_image_unit_bool_keys)); [exact DB|apply (in_map fst) in Hin; exact Hin]).
  assert (HK : ~ In k0 IMG_COMMON) by (intros X; apply HK'; apply in_or_app; left; exact X).
  assert (HS : ~ In k0 (map fst pt_from_image_unit_string_keys)) by (intros X; apply HK'; apply in_or_app; right; exact X).
  refine (image_key_frame podman u k0 raw _ HK _ path tbl svc1 sp1 t1 svc2 sp2 t2 R1 R2).
  intros a b1 b2 H1 H2. rewrite (add_strings_sameG u c_IMAGE_SECTION k0 raw) in H2 by (apply keys_other; exact HS). rewrite H1 in H2. injection H2 as <-.
  rewrite Ht. pose proof image_bool_nodup as Hnd. rewrite Ht in Hnd.
  destruct (bools_frame u c_IMAGE_SECTION pre post k0 flag0 raw b b1 Hnd Hfresh Hraw Hb) as [F1 F2]. rewrite F1, F2.
  eexists _, _. split; [rewrite app_assoc; reflexivity|rewrite app_assoc; reflexivity].
Qed.

(* ---- .network ---- *)
Definition NET_COMMON : list str := [L "NetworkName"; L "ContainersConfModule"; L "GlobalArgs"; L "PodmanArgs"; L "Subnet"; L "Gateway"; L "IPRange"; L "Options"; L "Label"].

Lemma subnets_loop_rel subnets : forall gw rg a1 a2, Rel a1 (subnets_loop subnets gw rg a1) a2 (subnets_loop subnets gw rg a2).
Proof.
  induction subnets as [|s r IH]; intros gw rg a1 a2; cbn [subnets_loop]; [apply Rel_refl|]. cbv zeta.
  destruct gw as [|g gr], rg as [|x xr]; (eapply Rel_trans; [|apply IH]); rewrite <- ?app_assoc; apply Rel_app.
Qed.

Section NetworkFrame.
Variables (podman : str) (u : unit) (k0 raw : str) (ins : list str).
Notation sec0 := c_NETWORK_SECTION.
Notation u' := (add_entry u sec0 k0 raw).
Hypothesis HK : ~ In k0 NET_COMMON.
Hypothesis Hloops : forall a c1 c2 d1 d2,
  add_strings u sec0 pt_from_network_unit_string_keys (add_bools u sec0 pt_from_network_unit_bool_keys a) = COk c1 ->
  add_strings u' sec0 pt_from_network_unit_string_keys (add_bools u' sec0 pt_from_network_unit_bool_keys a) = COk c2 ->
  add_all_strings u sec0 pt_from_network_unit_inline0 c1 = COk d1 -> add_all_strings u' sec0 pt_from_network_unit_inline0 c2 = COk d2 -> Ins ins d1 d2.

Ltac side := right; let X := fresh in intros X; apply HK; rewrite <- X; unfold NET_COMMON; cbn [In]; auto 12.

Lemma network_body_frame name sv1 sv2 s1 s2 :
  network_body podman u name sv1 = COk s1 -> network_body podman u' name sv2 = COk s2 ->
  exists before1 before2 p q,
    vals s1 SEC_S (L "ExecStart") = before1 ++ [quote_words (p ++ q)] /\
    vals s2 SEC_S (L "ExecStart") = before2 ++ [quote_words (p ++ ins ++ q)].
Proof.
  unfold network_body. cbv zeta. intros R1 R2. revert R1.
  bel; intros base Hb. bel; intros c1 H1. bel; intros d1 H2. bel; intros sn Hsn. bel; intros gw Hgw. bel; intros rg Hrg. bel; intros e1 H3. bel; intros x1 X1. intros O1.
  revert R2. bel; intros base' Hb'. bel; intros c2 H1'. bel; intros d2 H2'. bel; intros sn' Hsn'. bel; intros gw' Hgw'. bel; intros rg' Hrg'. bel; intros e2 H3'. bel; intros x2 X2. intros O2.
  unfold base_command in Hb, Hb'. rewrite (lk_all_add_any u sec0 k0 raw) in Hb' by side. rewrite (lookup_all_args_add_any u sec0 k0 raw) in Hb' by side.
  rewrite Hb in Hb'. injection Hb' as <-.
  rewrite (lk_all_add_any u sec0 k0 raw) in Hsn' by side. rewrite Hsn in Hsn'. injection Hsn' as <-.
  rewrite (lk_all_add_any u sec0 k0 raw) in Hgw' by side. rewrite Hgw in Hgw'. injection Hgw' as <-.
  rewrite (lk_all_add_any u sec0 k0 raw) in Hrg' by side. rewrite Hrg in Hrg'. injection Hrg' as <-.
  pose proof (Hloops _ _ _ _ _ H1 H1' H2 H2') as I.
  assert (R3 : Rel d1 e1 d2 e2).
  { destruct sn as [|s0 sr].
    - destruct gw, rg; try discriminate. injection H3 as <-. injection H3' as <-. apply Rel_refl.
    - destruct (Nat.ltb _ _); [discriminate|]. destruct (Nat.ltb _ _); [discriminate|].
      assert (E1 : e1 = subnets_loop (s0 :: sr) gw rg d1) by congruence. assert (E2 : e2 = subnets_loop (s0 :: sr) gw rg d2) by congruence.
      rewrite E1, E2. apply subnets_loop_rel. }
  unfold handle_podman_args, add_keys in X1, X2.
  rewrite (lookup_all_key_val_add_any u sec0 k0 raw) in X2 by side. rewrite (lookup_all_key_val_add_any u sec0 k0 raw) in X2 by side.
  rewrite (lookup_all_args_add_any u sec0 k0 raw) in X2 by side.
  rewrite (one_shot_keeps_execstart _ _ _ O1), (one_shot_keeps_execstart _ _ _ O2).
  rewrite (add_raw_exec_execstart _ _ _ X1), (add_raw_exec_execstart _ _ _ X2).
  destruct (Ins_Rel _ _ _ _ _ I R3) as (p & q & -> & ->).
  eexists _, _, p, _. split; f_equal; f_equal; rewrite <- ?app_assoc; reflexivity.
Qed.

Theorem network_key_frame path tbl svc1 sp1 t1 svc2 sp2 t2 :
  from_network podman u path tbl = COk (svc1, sp1, t1) -> from_network podman u' path tbl = COk (svc2, sp2, t2) ->
  exists before1 before2 p q,
    vals svc1 SEC_S (L "ExecStart") = before1 ++ [quote_words (p ++ q)] /\
    vals svc2 SEC_S (L "ExecStart") = before2 ++ [quote_words (p ++ ins ++ q)].
Proof.
  unfold from_network. intros R1 R2. revert R1.
  bel; intros [i svc0] _. intros R1. apply lift_ok in R1. revert R1. bel; intros nm Hn. bel; intros s1 B1.
  destruct (file_name path); [|discriminate]. intros E1. injection E1 as <- _ _.
  revert R2. bel; intros [i' svc0'] _. intros R2. apply lift_ok in R2. revert R2. bel; intros nm' Hn'. bel; intros s2 B2.
  intros E2. injection E2 as <- _ _.
  unfold network_name in Hn, Hn'. rewrite (lk_add_any u sec0 k0 raw) in Hn' by side. rewrite Hn in Hn'. injection Hn' as <-.
  eapply network_body_frame; eassumption.
Qed.
End NetworkFrame.

Notation NKS := (map fst pt_from_network_unit_string_keys).
Notation NKB := (map fst pt_from_network_unit_bool_keys).
Notation NKA := (map fst pt_from_network_unit_inline0).

Lemma network_tables_disjoint :
  forallb (fun k => negb (mem_str k (NET_COMMON ++ NKB ++ NKA))) NKS && forallb (fun k => negb (mem_str k (NET_COMMON ++ NKS ++ NKA))) NKB &&
  forallb (fun k => negb (mem_str k (NET_COMMON ++ NKS ++ NKB))) NKA = true.
Proof. vm_compute. reflexivity. Qed.
Lemma network_string_nodup : NoDup NKS.  Proof. unfold pt_from_network_unit_string_keys. nodup_keys2. Qed.
Lemma network_bool_nodup : NoDup NKB.  Proof. unfold pt_from_network_unit_bool_keys. nodup_keys2. Qed.
Lemma network_all_nodup : NoDup NKA.  Proof. unfold pt_from_network_unit_inline0. nodup_keys2. Qed.

Ltac split3 D DS DB DA := apply andb_prop in D; destruct D as [D DA]; apply andb_prop in D; destruct D as [DS DB].
Ltac notin3 HK' HK H1 H2 := assert (HK : ~ In _ NET_COMMON) by (intros X; apply HK'; apply in_or_app; left; exact X);
  assert (H1 : ~ In _ _) by (intros X; apply HK'; apply in_or_app; right; apply in_or_app; left; exact X);
  assert (H2 : ~ In _ _) by (intros X; apply HK'; apply in_or_app; right; apply in_or_app; right; exact X).

Theorem network_string_key_frame podman u k0 flag0 raw c v path tbl svc1 sp1 t1 svc2 sp2 t2 :
  In (k0, flag0) pt_from_network_unit_string_keys -> values_raw u c_NETWORK_SECTION k0 = [] -> unquote_value raw = Some (c :: v) ->
  from_network podman u path tbl = COk (svc1, sp1, t1) -> from_network podman (add_entry u c_NETWORK_SECTION k0 raw) path tbl = COk (svc2, sp2, t2) ->
  exists before1 before2 p q,
    vals svc1 SEC_S (L "ExecStart") = before1 ++ [quote_words (p ++ q)] /\
    vals svc2 SEC_S (L "ExecStart") = before2 ++ [quote_words (p ++ [flag0; c :: v] ++ q)].
Proof.
  intros Hin Hfresh Huq R1 R2. destruct (in_split _ _ Hin) as (pre & post & Ht).
  pose proof network_tables_disjoint as D. split3 D DS DB DA.
  assert (HK' : ~ In k0 (NET_COMMON ++ NKB ++ NKA)) by (apply (notin_of_sweep _ NKS); [exact DS|apply (in_map fst) in Hin; exact Hin]).
  assert (HK : ~ In k0 NET_COMMON) by (intros X; apply HK'; apply in_or_app; left; exact X).
  assert (HB : ~ In k0 NKB) by (intros X; apply HK'; apply in_or_app; right; apply in_or_app; left; exact X).
  assert (HA : ~ In k0 NKA) by (intros X; apply HK'; apply in_or_app; right; apply in_or_app; right; exact X).
  refine (network_key_frame podman u k0 raw [flag0; c :: v] HK _ path tbl svc1 sp1 t1 svc2 sp2 t2 R1 R2).
  intros a c1 c2 d1 d2 H1 H2 H3 H4.
  rewrite (add_bools_sameG u c_NETWORK_SECTION k0 raw) in H2 by (apply keys_other; exact HB).
  rewrite Ht in H1, H2. pose proof network_string_nodup as Hnd. rewrite Ht in Hnd.
  destruct (strings_frame u c_NETWORK_SECTION pre post k0 flag0 raw c v (add_bools u c_NETWORK_SECTION pt_from_network_unit_bool_keys a) Hnd Hfresh Huq (raw_ne_of_unquote _ _ _ Huq) (add_strings_no_panic _ _ _ _ _ H1)) as [F1 F2].
  rewrite F1 in H1. rewrite F2 in H2. injection H1 as <-. injection H2 as <-.
  rewrite (add_all_strings_sameG u c_NETWORK_SECTION k0 raw) in H4 by (apply keys_other; exact HA).
  eapply Ins_Rel; [|eapply add_all_strings_rel; [exact H3|exact H4]]. eexists _, _. split; [rewrite app_assoc; reflexivity|rewrite app_assoc; reflexivity].
Qed.

Theorem network_bool_key_frame podman u k0 flag0 raw b path tbl svc1 sp1 t1 svc2 sp2 t2 :
  In (k0, flag0) pt_from_network_unit_bool_keys -> values_raw u c_NETWORK_SECTION k0 = [] -> raw <> [] -> to_bool raw = Some b ->
  from_network podman u path tbl = COk (svc1, sp1, t1) -> from_network podman (add_entry u c_NETWORK_SECTION k0 raw) path tbl = COk (svc2, sp2, t2) ->
  exists before1 before2 p q,
    vals svc1 SEC_S (L "ExecStart") = before1 ++ [quote_words (p ++ q)] /\
    vals svc2 SEC_S (L "ExecStart") = before2 ++ [quote_words (p ++ (if b then [flag0] else [flag0 ++ L "=false"]) ++ q)].
Proof.
  intros Hin Hfresh Hraw Hb R1 R2. destruct (in_split _ _ Hin) as (pre & post & Ht).
  pose proof network_tables_disjoint as D. split3 D DS DB DA.
  assert (HK' : ~ In k0 (NET_COMMON ++ NKS ++ NKA)) by (apply (notin_of_sweep _ NKB); [exact DB|apply (in_map fst) in Hin; exact Hin]).
  assert (HK : ~ In k0 NET_COMMON) by (intros X; apply HK'; apply in_or_app; left; exact X).
  assert (HS : ~ In k0 NKS) by (intros X; apply HK'; apply in_or_app; right; apply in_or_app; left; exact X).
  assert (HA : ~ In k0 NKA) by (intros X; apply HK'; apply in_or_app; right; apply in_or_app; right; exact X).
  refine (network_key_frame podman u k0 raw _ HK _ path tbl svc1 sp1 t1 svc2 sp2 t2 R1 R2).
  intros a c1 c2 d1 d2 H1 H2 H3 H4.
  rewrite Ht in H1, H2. pose proof network_bool_nodup as Hnd. rewrite Ht in Hnd.
  destruct (bools_frame u c_NETWORK_SECTION pre post k0 flag0 raw b a Hnd Hfresh Hraw Hb) as [F1 F2]. rewrite F1 in H1. rewrite F2 in H2.
  rewrite (add_strings_sameG u c_NETWORK_SECTION k0 raw) in H2 by (apply keys_other; exact HS).
  rewrite (add_all_strings_sameG u c_NETWORK_SECTION k0 raw) in H4 by (apply keys_other; exact HA).
  eapply Ins_Rel; [|eapply Rel_trans; [eapply add_strings_rel; [exact H1|exact H2]|eapply add_all_strings_rel; [exact H3|exact H4]]].
  eexists _, _. split; [rewrite app_assoc; reflexivity|rewrite app_assoc; reflexivity].
Qed.

Theorem network_list_key_frame podman u k0 flag0 raw c v path tbl svc1 sp1 t1 svc2 sp2 t2 :
  In (k0, flag0) pt_from_network_unit_inline0 -> values_raw u c_NETWORK_SECTION k0 = [] -> unquote_value raw = Some (c :: v) ->
  from_network podman u path tbl = COk (svc1, sp1, t1) -> from_network podman (add_entry u c_NETWORK_SECTION k0 raw) path tbl = COk (svc2, sp2, t2) ->
  exists before1 before2 p q,
    vals svc1 SEC_S (L "ExecStart") = before1 ++ [quote_words (p ++ q)] /\
    vals svc2 SEC_S (L "ExecStart") = before2 ++ [quote_words (p ++ [flag0; c :: v] ++ q)].
Proof.
  intros Hin Hfresh Huq R1 R2. destruct (in_split _ _ Hin) as (pre & post & Ht).
  pose proof network_tables_disjoint as D. split3 D DS DB DA.
  assert (HK' : ~ In k0 (NET_COMMON ++ NKS ++ NKB)) by (apply (notin_of_sweep _ NKA); [exact DA|apply (in_map fst) in Hin; exact Hin]).
  assert (HK : ~ In k0 NET_COMMON) by (intros X; apply HK'; apply in_or_app; left; exact X).
  assert (HS : ~ In k0 NKS) by (intros X; apply HK'; apply in_or_app; right; apply in_or_app; left; exact X).
  assert (HB : ~ In k0 NKB) by (intros X; apply HK'; apply in_or_app; right; apply in_or_app; right; exact X).
  refine (network_key_frame podman u k0 raw [flag0; c :: v] HK _ path tbl svc1 sp1 t1 svc2 sp2 t2 R1 R2).
  intros a c1 c2 d1 d2 H1 H2 H3 H4.
  rewrite (add_bools_sameG u c_NETWORK_SECTION k0 raw) in H2 by (apply keys_other; exact HB).
  rewrite (add_strings_sameG u c_NETWORK_SECTION k0 raw) in H2 by (apply keys_other; exact HS).
  rewrite H1 in H2. injection H2 as <-.
  rewrite Ht in H3, H4. pose proof network_all_nodup as Hnd. rewrite Ht in Hnd.
  destruct (all_strings_frame u c_NETWORK_SECTION pre post k0 flag0 raw (c :: v) c1 Hnd Hfresh Huq (raw_ne_of_unquote _ _ _ Huq) (all_strings_no_panic _ _ _ _ _ H3)) as [F1 F2].
  rewrite F1 in H3. rewrite F2 in H4. injection H3 as <-. injection H4 as <-.
  eexists _, _. split; [rewrite app_assoc; reflexivity|rewrite app_assoc; reflexivity].
Qed.

(* ---- .pod ---- *)
Definition POD_COMMON : list str :=
  [L "PodName"; L "ContainersConfModule"; L "GlobalArgs"; L "PodmanArgs"; L "PublishPort"; L "Network"; L "Volume"; L "UserNS"; L "UIDMap"; L "GIDMap";
   L "SubUIDMap"; L "SubGIDMap"; L "RemapUid"; L "RemapGid"; L "RemapUsers"; L "RemapUidSize"].

Section PodFrame.
Variables (podman : str) (mount_nl : bool) (u : unit) (k0 raw : str) (ins : list str).
Notation sec0 := c_POD_SECTION.
Notation u' := (add_entry u sec0 k0 raw).
Hypothesis HK : ~ In k0 POD_COMMON.
Hypothesis Hloops : forall a c1 c2 d1 d2,
  add_strings u sec0 pt_from_pod_unit_string_keys a = COk c1 -> add_strings u' sec0 pt_from_pod_unit_string_keys a = COk c2 ->
  add_all_strings u sec0 pt_from_pod_unit_all_string_keys c1 = COk d1 -> add_all_strings u' sec0 pt_from_pod_unit_all_string_keys c2 = COk d2 -> Ins ins d1 d2.

Ltac side := first [ left; discriminate | right; let X := fresh in intros X; apply HK; rewrite <- X; unfold POD_COMMON; cbn [In]; auto 20 ].
Ltac rw_in H :=
  repeat first [ rewrite (lk_add_any u sec0 k0 raw) in H by side | rewrite (lk_all_add_any u sec0 k0 raw) in H by side
               | rewrite (lookup_bool_add_any u sec0 k0 raw) in H by side | rewrite (lookup_last_value_add_any u sec0 k0 raw) in H by side
               | rewrite (lookup_all_strv_add_any u sec0 k0 raw) in H by side | rewrite (lookup_all_args_add_any u sec0 k0 raw) in H by side
               | rewrite (lookup_all_key_val_add_any u sec0 k0 raw) in H by side ].

Lemma pod_user_remap_same args sm : handle_user_remap u' sec0 args sm = handle_user_remap u sec0 args sm.
Proof. unfold handle_user_remap.
  repeat first [ rewrite (lk_add_any u sec0 k0 raw) by side | rewrite (lookup_all_strv_add_any u sec0 k0 raw) by side ]. reflexivity. Qed.

Lemma pod_user_mappings_same args sm : handle_user_mappings u' sec0 args sm = handle_user_mappings u sec0 args sm.
Proof.
  unfold handle_user_mappings.
  repeat first [ rewrite (lk_add_any u sec0 k0 raw) by side | rewrite (lookup_all_strv_add_any u sec0 k0 raw) by side ].
  destruct (lk u sec0 (L "UserNS")) as [userns| | |]; cbn [bind]; try reflexivity.
  destruct (match userns with Some (c :: s) => _ | _ => _ end) as [a1 d1]. cbv zeta.
  destruct (lk u sec0 (L "SubUIDMap")) as [subu| | |]; cbn [bind]; try reflexivity.
  destruct (match subu with Some (c :: s) => _ | _ => _ end) as [a3 d3].
  destruct (lk u sec0 (L "SubGIDMap")) as [subg| | |]; cbn [bind]; try reflexivity.
  destruct (match subg with Some (c :: s) => _ | _ => _ end) as [a4 d4].
  destruct d4; [reflexivity|apply pod_user_remap_same].
Qed.

Theorem pod_key_frame path tbl svc1 sp1 t1 svc2 sp2 t2 :
  from_pod podman mount_nl u path tbl = COk (svc1, sp1, t1) -> from_pod podman mount_nl u' path tbl = COk (svc2, sp2, t2) ->
  exists before1 before2 p q,
    vals svc1 SEC_S (L "ExecStartPre") = before1 ++ [quote_words (p ++ q)] /\
    vals svc2 SEC_S (L "ExecStartPre") = before2 ++ [quote_words (p ++ ins ++ q)].
Proof.
  unfold from_pod. cbv zeta. intros R1 R2. revert R1.
  bel; intros [i svc0] _. intros R1. apply lift_ok in R1. revert R1.
  bel; intros pn Hpn. bel; intros name Hname. bel; intros sysl _. bel; intros base Hb.
  bel; intros e1 _. bel; intros e2 _. bel; intros e3 _. bel; intros a1 H1. bel; intros a2 H2.
  bel; intros [a3 s4] H3. bel; intros a4 H4. bel; intros a5 H5. bel; intros [a6 s6] H6. bel; intros s7 H7. intros E1. injection E1 as <- _ _.
  revert R2. bel; intros [i' svc0'] _. intros R2. apply lift_ok in R2. revert R2.
  bel; intros pn' Hpn'. bel; intros name' Hname'. bel; intros sysl' _. bel; intros base' Hb'.
  bel; intros f1 _. bel; intros f2 _. bel; intros f3 _. bel; intros b1 G1. bel; intros b2 G2.
  bel; intros [b3 q4] G3. bel; intros b4 G4. bel; intros b5 G5. bel; intros [b6 q6] G6. bel; intros q7 G7. intros E2. injection E2 as <- _ _.
  rw_in Hpn'. rewrite Hpn in Hpn'. injection Hpn' as <-. rewrite Hname in Hname'. injection Hname' as <-.
  unfold base_command in Hb, Hb'. rw_in Hb'. rewrite Hb in Hb'. injection Hb' as <-.
  rewrite pod_user_mappings_same in G1. rewrite H1 in G1. injection G1 as <-.
  rewrite (add_all_strings_sameG u sec0 k0 raw) in G2 by (unfold pt_handle_publish_ports_inline0; repeat (constructor; [cbn [fst]; intros X; apply HK; rewrite <- X; unfold POD_COMMON; cbn [In]; auto 20|]); constructor).
  rewrite H2 in G2. injection G2 as <-.
  unfold handle_networks in H3, G3. rw_in G3.
  destruct (@lk_all berr u sec0 (L "Network")) as [nets| | |]; cbn [bind] in H3, G3; try discriminate.
  pose proof (networks_loop_rel _ _ _ _ _ _ _ _ _ _ H3 G3) as R3.
  assert (a3 = b3) by (destruct R3 as (d & -> & ->); reflexivity). subst b3.
  pose proof (Hloops _ _ _ _ _ H4 G4 H5 G5) as I5.
  unfold handle_volumes in H6, G6. rw_in G6.
  destruct (@lk_all berr u sec0 (L "Volume")) as [vols| | |]; cbn [bind] in H6, G6; try discriminate.
  pose proof (volumes_loop_rel _ _ _ _ _ _ _ _ _ _ _ _ H6 G6) as R6.
  unfold handle_podman_args in H7, G7. rw_in G7.
  rewrite !vals_unit_add. cbn [andb]. rewrite !app_nil_r.
  assert (X1 : vals s7 SEC_S (L "ExecStartPre") = vals s6 SEC_S (L "ExecStartPre") ++ [quote_words ((a6 ++ [L "--infra-name"; name ++ L "-infra"; L "--name"; name]) ++ lookup_all_args u sec0 (L "PodmanArgs"))]).
  { revert H7. unfold add_raw_exec, unit_add_raw. destruct (unquote_value _); [|discriminate]. intros H. injection H as <-. rewrite vals_add_entry, !str_eqb_refl. reflexivity. }
  assert (X2 : vals q7 SEC_S (L "ExecStartPre") = vals q6 SEC_S (L "ExecStartPre") ++ [quote_words ((b6 ++ [L "--infra-name"; name ++ L "-infra"; L "--name"; name]) ++ lookup_all_args u sec0 (L "PodmanArgs"))]).
  { revert G7. unfold add_raw_exec, unit_add_raw. destruct (unquote_value _); [|discriminate]. intros H. injection H as <-. rewrite vals_add_entry, !str_eqb_refl. reflexivity. }
  rewrite X1, X2. destruct (Ins_Rel _ _ _ _ _ I5 R6) as (p & q & -> & ->).
  eexists _, _, p, _. split; f_equal; f_equal; rewrite <- ?app_assoc; reflexivity.
Qed.
End PodFrame.

Definition PKS := map fst pt_from_pod_unit_string_keys.
Definition PKA := map fst pt_from_pod_unit_all_string_keys.
Lemma pod_string_nodup : NoDup PKS. Proof. unfold PKS, pt_from_pod_unit_string_keys. nodup_keys2. Qed.
Lemma pod_all_nodup : NoDup PKA. Proof. unfold PKA, pt_from_pod_unit_all_string_keys. nodup_keys2. Qed.
Lemma pod_tables_disjoint :
  forallb (fun k => negb (mem_str k (POD_COMMON ++ PKA))) PKS = true /\
  forallb (fun k => negb (mem_str k (POD_COMMON ++ PKS))) PKA = true.
Proof. vm_compute. split; reflexivity. Qed.

Theorem pod_string_key_frame podman mount_nl u k0 flag0 raw c v path tbl svc1 sp1 t1 svc2 sp2 t2 :
  In (k0, flag0) pt_from_pod_unit_string_keys -> values_raw u c_POD_SECTION k0 = [] -> unquote_value raw = Some (c :: v) ->
  from_pod podman mount_nl u path tbl = COk (svc1, sp1, t1) -> from_pod podman mount_nl (add_entry u c_POD_SECTION k0 raw) path tbl = COk (svc2, sp2, t2) ->
  exists before1 before2 p q,
    vals svc1 SEC_S (L "ExecStartPre") = before1 ++ [quote_words (p ++ q)] /\
    vals svc2 SEC_S (L "ExecStartPre") = before2 ++ [quote_words (p ++ [flag0; c :: v] ++ q)].
Proof.
  intros Hin Hfresh Huq R1 R2. destruct (in_split _ _ Hin) as (pre & post & Ht).
  pose proof pod_tables_disjoint as [DS DA].
  assert (HK' : ~ In k0 (POD_COMMON ++ PKA)) by (apply (notin_of_sweep _ PKS); [exact DS|apply (in_map fst) in Hin; exact Hin]).
  assert (HK : ~ In k0 POD_COMMON) by (intros X; apply HK'; apply in_or_app; left; exact X).
  assert (HA : ~ In k0 PKA) by (intros X; apply HK'; apply in_or_app; right; exact X).
  refine (pod_key_frame podman mount_nl u k0 raw [flag0; c :: v] HK _ path tbl svc1 sp1 t1 svc2 sp2 t2 R1 R2).
  intros a c1 c2 d1 d2 H1 H2 H3 H4.
  rewrite Ht in H1, H2. pose proof pod_string_nodup as Hnd. unfold PKS in Hnd. rewrite Ht in Hnd.
  destruct (strings_frame u c_POD_SECTION pre post k0 flag0 raw c v a Hnd Hfresh Huq (raw_ne_of_unquote _ _ _ Huq) (add_strings_no_panic _ _ _ _ _ H1)) as [F1 F2].
  rewrite F1 in H1. rewrite F2 in H2. injection H1 as <-. injection H2 as <-.
  rewrite (add_all_strings_sameG u c_POD_SECTION k0 raw) in H4 by (apply keys_other; exact HA).
  eapply Ins_Rel; [|eapply add_all_strings_rel; [exact H3|exact H4]]. eexists _, _. split; [rewrite app_assoc; reflexivity|rewrite app_assoc; reflexivity].
Qed.

Theorem pod_list_key_frame podman mount_nl u k0 flag0 raw c v path tbl svc1 sp1 t1 svc2 sp2 t2 :
  In (k0, flag0) pt_from_pod_unit_all_string_keys -> values_raw u c_POD_SECTION k0 = [] -> unquote_value raw = Some (c :: v) ->
  from_pod podman mount_nl u path tbl = COk (svc1, sp1, t1) -> from_pod podman mount_nl (add_entry u c_POD_SECTION k0 raw) path tbl = COk (svc2, sp2, t2) ->
  exists before1 before2 p q,
    vals svc1 SEC_S (L "ExecStartPre") = before1 ++ [quote_words (p ++ q)] /\
    vals svc2 SEC_S (L "ExecStartPre") = before2 ++ [quote_words (p ++ [flag0; c :: v] ++ q)].
Proof.
  intros Hin Hfresh Huq R1 R2. destruct (in_split _ _ Hin) as (pre & post & Ht).
  pose proof pod_tables_disjoint as [DS DA].
  assert (HK' : ~ In k0 (POD_COMMON ++ PKS)) by (apply (notin_of_sweep _ PKA); [exact DA|apply (in_map fst) in Hin; exact Hin]).
  assert (HK : ~ In k0 POD_COMMON) by (intros X; apply HK'; apply in_or_app; left; exact X).
  assert (HS : ~ In k0 PKS) by (intros X; apply HK'; apply in_or_app; right; exact X).
  refine (pod_key_frame podman mount_nl u k0 raw [flag0; c :: v] HK _ path tbl svc1 sp1 t1 svc2 sp2 t2 R1 R2).
  intros a c1 c2 d1 d2 H1 H2 H3 H4.
  rewrite (add_strings_sameG u c_POD_SECTION k0 raw) in H2 by (apply keys_other; exact HS).
  rewrite H1 in H2. injection H2 as <-.
  rewrite Ht in H3, H4. pose proof pod_all_nodup as Hnd. unfold PKA in Hnd. rewrite Ht in Hnd.
  destruct (all_strings_frame u c_POD_SECTION pre post k0 flag0 raw (c :: v) c1 Hnd Hfresh Huq (raw_ne_of_unquote _ _ _ Huq) (all_strings_no_panic _ _ _ _ _ H3)) as [F1 F2].
  rewrite F1 in H3. rewrite F2 in H4. injection H3 as <-. injection H4 as <-.
  eexists _, _. split; [rewrite app_assoc; reflexivity|rewrite app_assoc; reflexivity].
Qed.

(* ---- the premises are satisfiable ---- *)
Definition pod_unit : unit := [(L "Pod", [(L "PodName", L "p")])].
Definition pod_info : info := {| i_type := TPod; i_path := L "/d/a.pod"; i_service_name := L "a-pod"; i_resource_name := L "systemd-a"; i_containers := [] |}.
Definition pod_tbl : table := [(L "a.pod", pod_info)].
Definition pre_of (r : cres (unit * str * table)) : option (list str) :=
  match r with COk (svc, _, _) => Some (vals svc (L "Service") (L "ExecStartPre")) | _ => None end.
Definition net_unit : unit := [(L "Network", [(L "Label", L "a=b")])].
Definition net_info : info := {| i_type := TNetwork; i_path := L "/d/a.network"; i_service_name := L "a-network"; i_resource_name := L "systemd-a"; i_containers := [] |}.
Definition net_tbl : table := [(L "a.network", net_info)].

Example pod_frame_example :
  pre_of (convert_one (L "/usr/bin/podman") (fun _ => false) true false pod_unit (L "/d/a.pod") TPod pod_tbl)
    = Some [L "/usr/bin/podman pod create --infra-conmon-pidfile=%t/%N.pid --pod-id-file=%t/%N.pod-id --exit-policy=stop --replace --infra-name p-infra --name p"] /\
  pre_of (convert_one (L "/usr/bin/podman") (fun _ => false) true false (add_entry pod_unit c_POD_SECTION (L "IP") (L "10.0.0.1")) (L "/d/a.pod") TPod pod_tbl)
    = Some [L "/usr/bin/podman pod create --infra-conmon-pidfile=%t/%N.pid --pod-id-file=%t/%N.pod-id --exit-policy=stop --replace --ip 10.0.0.1 --infra-name p-infra --name p"].
Proof. vm_compute. split; reflexivity. Qed.

Example network_frame_example :
  exec_of (convert_one (L "/usr/bin/podman") (fun _ => false) true false net_unit (L "/d/a.network") TNetwork net_tbl)
    = Some [L "/usr/bin/podman network create --ignore --label a=b systemd-a"] /\
  exec_of (convert_one (L "/usr/bin/podman") (fun _ => false) true false (add_entry net_unit c_NETWORK_SECTION (L "Internal") (L "yes")) (L "/d/a.network") TNetwork net_tbl)
    = Some [L "/usr/bin/podman network create --ignore --internal --label a=b systemd-a"].
Proof. vm_compute. split; reflexivity. Qed.
