(* C10, continued: conversions are monotone in the name table -- adding files to a set of files never changes the service of a
   unit that converted before (pods excepted: a pod's service lists the containers that joined it). *)
From Coq Require Import Sorted Lia.
From QV Require Import Model.Base Generated.Tables Model.Quote Model.Unquote Model.Split Model.PortRange Model.Unit Model.Lex Model.Parser
  Model.Path Model.Names Model.Convert Model.Process Spec.Passthrough Proofs.Util Proofs.C15 Proofs.C07 Proofs.C02 Proofs.C08 Proofs.C07run Proofs.C09 Proofs.C09run Proofs.C08run Proofs.C10.
Open Scope N_scope.
Local Notation L := s2l (only parsing).

(* two table entries that references cannot tell apart: everything but the list of containers *)
Definition ieq (i i' : info) : Prop :=
  i_type i = i_type i' /\ i_path i = i_path i' /\ i_service_name i = i_service_name i' /\ i_resource_name i = i_resource_name i'.
Lemma ieq_refl i : ieq i i.  Proof. repeat split. Qed.
Lemma ieq_sfn i i' : ieq i i' -> service_file_name i = service_file_name i'.
Proof. intros (_ & _ & H & _). unfold service_file_name. rewrite H. reflexivity. Qed.
Lemma ieq_pun i i' : ieq i i' -> pod_unit_name i = pod_unit_name i'.
Proof. intros H. unfold pod_unit_name. rewrite (ieq_sfn _ _ H). reflexivity. Qed.
Lemma ieq_rn i i' : ieq i i' -> i_resource_name i = i_resource_name i'.
Proof. intros (_ & _ & _ & H). exact H. Qed.

(* every entry of the smaller table is present, up to its container list, in the larger one *)
Definition TR (t t' : table) : Prop := forall n i, tbl_get t n = Some i -> exists i', tbl_get t' n = Some i' /\ ieq i i'.
Lemma TR_refl t : TR t t.  Proof. intros n i H. exists i. split; [exact H|apply ieq_refl]. Qed.

Section Mono.
Variables (t t' : table).
Hypothesis HT : TR t t'.

Lemma image_source_mono name svc r : handle_image_source name svc t = COk r -> handle_image_source name svc t' = COk r.
Proof.
  unfold handle_image_source. destruct (ends_with (L ".build") name || ends_with (L ".image") name); [|exact (fun H => H)].
  destruct (tbl_get t name) as [i|] eqn:E; [|discriminate]. destruct (HT _ _ E) as (i' & -> & Hi). cbv zeta.
  rewrite (ieq_sfn _ _ Hi), (ieq_rn _ _ Hi). exact (fun H => H).
Qed.

Lemma networks_loop_mono nets : forall svc args r, networks_loop nets svc t args = COk r -> networks_loop nets svc t' args = COk r.
Proof.
  induction nets as [|net nets IH]; intros svc args r; [exact (fun H => H)|]. cbn [networks_loop].
  destruct net as [|c net]; [apply IH|]. set (nm := c :: net). clearbody nm.
  destruct (match split_once cCOLON nm with Some (a, b) => (a, Some b) | None => (nm, None) end) as [name opts]. cbv zeta.
  destruct (ends_with (L ".network") name || ends_with (L ".container") name).
  - destruct (tbl_get t name) as [i|] eqn:E; [|discriminate]. destruct (HT _ _ E) as (i' & -> & Hi).
    rewrite <- (ieq_sfn _ _ Hi), <- (ieq_rn _ _ Hi). destruct (i_resource_name i); [discriminate|]. cbn [bind].
    destruct opts; [destruct (ends_with (L ".container") name); [exact (fun H => H)|]|]; apply IH.
  - cbn [bind]. destruct opts; [destruct (ends_with (L ".container") name); [exact (fun H => H)|]|]; apply IH.
Qed.

Lemma networks_mono u sec svc args r : handle_networks u sec svc t args = COk r -> handle_networks u sec svc t' args = COk r.
Proof. unfold handle_networks. destruct (lk_all u sec (L "Network")); cbn [bind]; try discriminate. apply networks_loop_mono. Qed.

Lemma storage_mono up svc src ci r : handle_storage_source up svc src t ci = COk r -> handle_storage_source up svc src t' ci = COk r.
Proof.
  unfold handle_storage_source. destruct (if starts_with [cDOT] src then abs_from_unit src up else COk src) as [s| | |]; cbn [bind]; try discriminate.
  destruct (starts_with [cSLASH] s); [exact (fun H => H)|]. destruct (ends_with (L ".volume") s || ci && ends_with (L ".image") s); [|exact (fun H => H)].
  destruct (tbl_get t s) as [i|] eqn:E; [|discriminate]. destruct (HT _ _ E) as (i' & -> & Hi). cbv zeta.
  rewrite (ieq_sfn _ _ Hi), (ieq_rn _ _ Hi). exact (fun H => H).
Qed.

Lemma volumes_loop_mono pinned up vols : forall svc args r, volumes_loop pinned up vols svc t args = COk r -> volumes_loop pinned up vols svc t' args = COk r.
Proof.
  induction vols as [|v vols IH]; intros svc args r; [exact (fun H => H)|]. cbn [volumes_loop]. cbv zeta.
  destruct (match split_on cCOLON v with [] => _ | _ => _ end) as [[source dest] options].
  destruct source as [|c s]; [apply IH|].
  destruct (handle_storage_source up svc (c :: s) t false) as [[src svc']| | |] eqn:E; cbn [bind]; try discriminate.
  rewrite (storage_mono _ _ _ _ _ E). cbn [bind]. apply IH.
Qed.

Lemma volumes_mono pinned u up sec svc args r : handle_volumes pinned u up sec svc t args = COk r -> handle_volumes pinned u up sec svc t' args = COk r.
Proof. unfold handle_volumes. destruct (lk_all u sec (L "Volume")); cbn [bind]; try discriminate. apply volumes_loop_mono. Qed.

Lemma mount_tokens_mono up tokens : forall svc acc r, mount_tokens up tokens svc t acc = COk r -> mount_tokens up tokens svc t' acc = COk r.
Proof.
  induction tokens as [|tkn tokens IH]; intros svc acc r; [exact (fun H => H)|]. cbn [mount_tokens].
  destruct (starts_with (L "source=") tkn || starts_with (L "src=") tkn); [|apply IH].
  destruct (split_once cEQ tkn) as [[k v]|]; [|discriminate].
  destruct (handle_storage_source up svc v t true) as [[src svc']| | |] eqn:E; cbn [bind]; try discriminate.
  rewrite (storage_mono _ _ _ _ _ E). cbn [bind]. apply IH.
Qed.

Lemma resolve_mount_mono nl up m svc r : resolve_mount nl up m svc t = COk r -> resolve_mount nl up m svc t' = COk r.
Proof.
  unfold resolve_mount. destruct (negb (csv_plain m)); [discriminate|]. destruct m as [|c m]; [discriminate|].
  destruct (find_type (split_on cCOMMA (c :: m)) None []) as [[ty|] tokens]; [|discriminate].
  destruct (negb _); [exact (fun H => H)|].
  destruct (mount_tokens up tokens svc t [L "type=" ++ ty]) as [[out svc']| | |] eqn:E; cbn [bind]; try discriminate.
  rewrite (mount_tokens_mono _ _ _ _ _ E). cbn [bind]. exact (fun H => H).
Qed.

Lemma mounts_loop_mono nl up ms : forall svc args r, mounts_loop nl up ms svc t args = COk r -> mounts_loop nl up ms svc t' args = COk r.
Proof.
  induction ms as [|m ms IH]; intros svc args r; [exact (fun H => H)|]. cbn [mounts_loop].
  destruct (resolve_mount nl up m svc t) as [[s svc']| | |] eqn:E; cbn [bind]; try discriminate.
  rewrite (resolve_mount_mono _ _ _ _ _ E). cbn [bind]. apply IH.
Qed.
End Mono.

Lemma TR_set t t' n x x' : TR t t' -> ieq x x' -> TR (tbl_set t n x) (tbl_set t' n x').
Proof.
  intros HT Hx m i. destruct (str_eqb_spec m n) as [->|Hne].
  - rewrite !tbl_get_set_same. intros H. injection H as <-. exists x'. split; [reflexivity|exact Hx].
  - rewrite !tbl_get_set_other by exact Hne. apply HT.
Qed.

(* ---- stepping two runs of the same program text over different tables ---- *)
Definition Qb (svc : unit) (sp : str) (r : bres (unit * str * table)) : Prop := exists t1, r = COk (svc, sp, t1).
Definition Qc (svc : unit) (sp : str) (r : cres (unit * str * table)) : Prop := exists t1, r = COk (svc, sp, t1).

Lemma step {E A B} (m m' : res E A) (f f' : A -> res E B) r (P : res E B -> Prop) :
  (forall a, m = COk a -> m' = COk a /\ (f a = COk r -> P (f' a))) -> bind m f = COk r -> P (bind m' f').
Proof. intros H. destruct m as [a| | |]; cbn [bind]; try discriminate. destruct (H a eq_refl) as [-> K]. exact K. Qed.

Lemma step2 {E A B} (m m' : res E A) (f f' : A -> res E B) r (P : res E B -> Prop) :
  (forall a, m = COk a -> exists a', m' = COk a' /\ (f a = COk r -> P (f' a'))) -> bind m f = COk r -> P (bind m' f').
Proof. intros H. destruct m as [a| | |]; cbn [bind]; try discriminate. destruct (H a eq_refl) as (a' & -> & K). exact K. Qed.

Lemma lift_step svc sp (m m' : bres (unit * str * table)) r : (m = COk r -> Qb svc sp m') -> lift m = COk r -> Qc svc sp (lift m').
Proof. intros H X. apply lift_ok in X. destruct (H X) as (t1 & ->). exists t1. reflexivity. Qed.

Lemma with_tbl_step svc sp tb tb' (m m' : bres (unit * str * table)) r : (m = COk r -> Qb svc sp m') -> with_tbl tb m = COk r -> Qb svc sp (with_tbl tb' m').
Proof. intros H X. apply with_tbl_ok in X. destruct (H X) as (t1 & ->). exists t1. reflexivity. Qed.

Lemma with_tbl_stepc svc sp tb tb' (m m' : cres (unit * str * table)) r : (m = COk r -> Qc svc sp m') -> with_tbl tb m = COk r -> Qc svc sp (with_tbl tb' m').
Proof. intros H X. apply with_tbl_ok in X. destruct (H X) as (t1 & ->). exists t1. reflexivity. Qed.

Create HintDb mono discriminated.
#[export] Hint Resolve image_source_mono networks_loop_mono networks_mono storage_mono volumes_loop_mono volumes_mono mount_tokens_mono resolve_mount_mono mounts_loop_mono : mono.

Ltac dpair a := try (is_var a; lazymatch type of a with prod _ _ => idtac end; let x := fresh "x" in let y := fresh "y" in destruct a as [x y]; dpair x).
(* goals  X = COk r -> X' = COk r  where X' is X over the other table *)
Ltac mw :=
  first
  [ exact (fun H => H)
  | solve [eauto with mono]
  | lazymatch goal with |- bind ?m ?f = COk ?r -> bind ?m' ?f' = COk ?r =>
      refine (@step _ _ _ m m' f f' r (fun x => x = COk r) _); cbv beta;
      let a := fresh "a" in let Ha := fresh "Ha" in intros a Ha; split; [revert Ha; mw | clear Ha; dpair a; mw] end
  | lazymatch goal with |- (match ?x with _ => _ end) = COk _ -> _ => destruct x; try (intros; discriminate); mw end ].
Ltac st :=
  lazymatch goal with
  | |- bind ?m ?f = COk ?r -> ?P (bind ?m' ?f') =>
      refine (@step _ _ _ m m' f f' r P _); cbv beta;
      let a := fresh "a" in let Ha := fresh "Ha" in intros a Ha; split; [revert Ha; solve [mw]|]; clear Ha; dpair a
  end.
Ltac fin := let H := fresh in intros H; inversion H; subst; eexists; reflexivity.
Ltac walk :=
  repeat first
  [ st
  | lazymatch goal with |- lift ?m = COk ?r -> Qc ?s ?p (lift ?m') => refine (lift_step s p m m' r _) end
  | lazymatch goal with |- with_tbl ?tb ?m = COk ?r -> Qb ?s ?p (with_tbl ?tb' ?m') => refine (with_tbl_step s p tb tb' m m' r _) end
  | lazymatch goal with |- (match ?x with _ => _ end) = COk _ -> _ => destruct x; try (intros; discriminate) end
  | lazymatch goal with |- COk _ = COk _ -> _ => fin end ].

Lemma volume_body_mono podman t t' u name svc r : TR t t' -> volume_body podman u name svc t = COk r -> volume_body podman u name svc t' = COk r.
Proof.
  intros HT. unfold volume_body. cbv zeta. mw.
Qed.
#[export] Hint Resolve volume_body_mono : mono.

Lemma ct_net_notify_mono t t' u args svc r : TR t t' -> ct_net_notify u t args svc = COk r -> ct_net_notify u t' args svc = COk r.
Proof. intros HT. unfold ct_net_notify. cbv zeta. mw. Qed.
#[export] Hint Resolve ct_net_notify_mono : mono.

Section Converters.
Variables (podman : str) (exists_path : str -> bool) (kill_fixed mount_nl : bool).
Variables (t t' : table).
Hypothesis HT : TR t t'.

Lemma prologue_same u path ty sup : (forall f, file_name path = Some f -> tbl_get t f = tbl_get t' f) ->
  prologue u path t ty sup = prologue u path t' ty sup.
Proof. intros H. unfold prologue. destruct (file_name path) as [f|]; [|reflexivity]. rewrite (H f eq_refl). reflexivity. Qed.

Lemma kube_mono u path svc sp t1 : (forall f, file_name path = Some f -> tbl_get t f = tbl_get t' f) ->
  from_kube podman kill_fixed u path t = COk (svc, sp, t1) -> Qc svc sp (from_kube podman kill_fixed u path t').
Proof.
  intros Hown. unfold from_kube. rewrite <- (prologue_same u path _ _ Hown). cbv zeta. walk.
Qed.

Lemma pod_mono u path svc sp t1 : (forall f, file_name path = Some f -> tbl_get t f = tbl_get t' f) ->
  from_pod podman mount_nl u path t = COk (svc, sp, t1) -> Qc svc sp (from_pod podman mount_nl u path t').
Proof. intros Hown. unfold from_pod. rewrite <- (prologue_same u path _ _ Hown). cbv zeta. walk. Qed.

Lemma build_mono u path svc sp t1 : (forall f, file_name path = Some f -> tbl_get t f = tbl_get t' f) ->
  from_build podman mount_nl u path t = COk (svc, sp, t1) -> Qc svc sp (from_build podman mount_nl u path t').
Proof.
  intros Hown. unfold from_build. cbv zeta. destruct (file_name path) as [f|]; [|discriminate]. rewrite <- (Hown f eq_refl).
  destruct (tbl_get t f) as [inf0|]; [|discriminate]. destruct (i_resource_name inf0); [discriminate|]. walk.
Qed.

Lemma image_mono u path svc sp t1 : (forall f, file_name path = Some f -> tbl_get t f = tbl_get t' f) ->
  from_image podman u path t = COk (svc, sp, t1) -> Qc svc sp (from_image podman u path t').
Proof. intros Hown. unfold from_image. rewrite <- (prologue_same u path _ _ Hown). cbv zeta. walk. Qed.

Lemma network_mono u path svc sp t1 : (forall f, file_name path = Some f -> tbl_get t f = tbl_get t' f) ->
  from_network podman u path t = COk (svc, sp, t1) -> Qc svc sp (from_network podman u path t').
Proof. intros Hown. unfold from_network. rewrite <- (prologue_same u path _ _ Hown). cbv zeta. walk. Qed.

Lemma volume_mono u path svc sp t1 : (forall f, file_name path = Some f -> tbl_get t f = tbl_get t' f) ->
  from_volume podman u path t = COk (svc, sp, t1) -> Qc svc sp (from_volume podman u path t').
Proof.
  intros Hown. unfold from_volume. rewrite <- (prologue_same u path _ _ Hown). cbv zeta.
  st. refine (lift_step _ _ _ _ _ _). st. destruct (file_name path) as [f|]; [|discriminate].
  refine (with_tbl_step _ _ _ _ _ _ _ _).
  assert (HT' : TR (tbl_set t f (with_resource x a)) (tbl_set t' f (with_resource x a))) by (apply TR_set; [exact HT|apply ieq_refl]).
  walk.
Qed.

Lemma pod_handler_mono u sec svc sp args a s tb : handle_pod u sec svc sp t args = COk (a, s, tb) ->
  exists tb', handle_pod u sec svc sp t' args = COk (a, s, tb').
Proof.
  unfold handle_pod. destruct (lk u sec (L "Pod")) as [[[|c p]|]| | |]; cbn [bind]; try discriminate.
  - intros H. inversion H. subst. eexists. reflexivity.
  - destruct (negb (ends_with (L ".pod") (c :: p))); [discriminate|].
    destruct (tbl_get t (c :: p)) as [i|] eqn:E; [|discriminate]. destruct (HT _ _ E) as (i' & -> & Hi). cbv zeta.
    rewrite <- (ieq_sfn _ _ Hi), <- (ieq_pun _ _ Hi). intros H. inversion H. subst. eexists. reflexivity.
  - intros H. inversion H. subst. eexists. reflexivity.
Qed.

Lemma container_mono u path svc sp t1 : (forall f, file_name path = Some f -> tbl_get t f = tbl_get t' f) ->
  from_container podman exists_path kill_fixed mount_nl u path t = COk (svc, sp, t1) -> Qc svc sp (from_container podman exists_path kill_fixed mount_nl u path t').
Proof.
  intros Hown. unfold from_container. rewrite <- (prologue_same u path _ _ Hown). cbv zeta.
  st. refine (lift_step _ _ _ _ _ _). st. st.
  set (image := match a with Some s => s | None => [] end). set (rootfs := match a0 with Some s => s | None => [] end).
  clearbody image rootfs. destruct image as [|c im], rootfs as [|d rf]; try discriminate.
  all: do 9 st.
  all: lazymatch goal with |- bind ?m ?f = COk ?r -> ?P (bind ?m' ?f') => refine (@step2 _ _ _ m m' f f' r P _); cbv beta end.
  all: intros [[a10 s10] tb10] H10; destruct (pod_handler_mono _ _ _ _ _ _ _ _ H10) as (tb' & ->); eexists; split; [reflexivity|]; cbv beta iota; walk.
Qed.
End Converters.

(* ---- one conversion, two tables ---- *)
Section OneStep.
Variables (podman : str) (exists_path : str -> bool) (kill_fixed mount_nl : bool).
Notation conv1 u path ty tbl := (convert_one podman exists_path kill_fixed mount_nl u path ty tbl).

Theorem convert_one_mono t t' u path ty svc sp t1 :
  TR t t' -> (forall f, file_name path = Some f -> tbl_get t f = tbl_get t' f) ->
  conv1 u path ty t = COk (svc, sp, t1) -> exists t1', conv1 u path ty t' = COk (svc, sp, t1').
Proof.
  intros HT Hown. unfold convert_one. destruct ty.
  - apply build_mono; assumption.
  - apply container_mono; assumption.
  - apply image_mono; assumption.
  - apply kube_mono; assumption.
  - apply network_mono; assumption.
  - apply pod_mono; assumption.
  - apply volume_mono; assumption.
Qed.

(* J: the file names of the units that only the larger run converts *)
Definition is_pod_name (n : str) : bool := ends_with (L ".pod") n.
Definition Inv (J : list str) (t t' : table) : Prop :=
  TR t t' /\ (forall n, ~ In n J -> is_pod_name n = false -> tbl_get t n = tbl_get t' n) /\ (forall n, In n J -> tbl_get t n = None).

Lemma ieq_with_container i i' sp sp' : ieq i i' -> ieq (with_container i sp) (with_container i' sp').
Proof. intros H. exact H. Qed.

Lemma pod_reg_pod u t P i : pod_reg u t = Some (P, i) -> is_pod_name P = true /\ tbl_get t P = Some i.
Proof.
  unfold pod_reg. destruct (lk u c_CONTAINER_SECTION (L "Pod")) as [[[|c p]|]| | |]; try discriminate.
  destruct (ends_with (L ".pod") (c :: p)) eqn:E; [|discriminate]. destruct (tbl_get t (c :: p)) as [i0|] eqn:G; [|discriminate].
  destruct (start_with_pod u); [|discriminate]. intros H. injection H as <- <-. split; assumption.
Qed.

(* both runs register the container with its pod *)
Lemma Inv_reg J t t' u sp : Inv J t t' -> Inv J (reg_tbl u t sp) (reg_tbl u t' sp).
Proof.
  intros (HT & HE & HN). unfold reg_tbl.
  destruct (pod_reg u t) as [[P i]|] eqn:E.
  - destruct (pod_reg_pod _ _ _ _ E) as [HP HG]. destruct (HT _ _ HG) as (i' & HG' & Hi).
    assert (E' : pod_reg u t' = Some (P, i')).
    { revert E. unfold pod_reg. destruct (lk u c_CONTAINER_SECTION (L "Pod")) as [[[|c p]|]| | |]; try discriminate.
      destruct (ends_with (L ".pod") (c :: p)); [|discriminate]. destruct (tbl_get t (c :: p)) as [i0|] eqn:G; [|discriminate].
      destruct (start_with_pod u); [|discriminate]. intros H. injection H as <- <-. rewrite HG'. reflexivity. }
    rewrite E'. split; [|split].
    + apply TR_set; [exact HT|apply ieq_with_container; exact Hi].
    + intros n Hn Hp. assert (n <> P) by (intros ->; rewrite HP in Hp; discriminate). rewrite !tbl_get_set_other by assumption. apply HE; assumption.
    + intros n Hn. assert (n <> P) by (intros ->; rewrite (HN _ Hn) in HG; discriminate). rewrite tbl_get_set_other by assumption. apply HN; assumption.
  - destruct (pod_reg u t') as [[P i']|] eqn:E'; [|split; [|split]; assumption].
    destruct (pod_reg_pod _ _ _ _ E') as [HP HG']. split; [|split].
    + intros n i Hn. destruct (str_eqb_spec n P) as [->|Hne].
      * rewrite tbl_get_set_same. destruct (HT _ _ Hn) as (i2 & H2 & Hi). rewrite HG' in H2. injection H2 as <-. eexists. split; [reflexivity|]. apply (ieq_with_container i i' [] sp Hi).
      * rewrite tbl_get_set_other by exact Hne. apply HT. exact Hn.
    + intros n Hn Hp. assert (n <> P) by (intros ->; rewrite HP in Hp; discriminate). rewrite tbl_get_set_other by assumption. apply HE; assumption.
    + exact HN.
Qed.

(* only the larger run registers a container *)
Lemma Inv_reg_right J t t' u sp : Inv J t t' -> Inv J t (reg_tbl u t' sp).
Proof.
  intros (HT & HE & HN). unfold reg_tbl. destruct (pod_reg u t') as [[P i']|] eqn:E'; [|split; [|split]; assumption].
  destruct (pod_reg_pod _ _ _ _ E') as [HP HG']. split; [|split].
  - intros n i Hn. destruct (str_eqb_spec n P) as [->|Hne].
    + rewrite tbl_get_set_same. destruct (HT _ _ Hn) as (i2 & H2 & Hi). rewrite HG' in H2. injection H2 as <-. eexists. split; [reflexivity|]. exact Hi.
    + rewrite tbl_get_set_other by exact Hne. apply HT. exact Hn.
  - intros n Hn Hp. assert (n <> P) by (intros ->; rewrite HP in Hp; discriminate). rewrite tbl_get_set_other by assumption. apply HE; assumption.
  - exact HN.
Qed.

(* both runs store the same resource name under the unit's own file name *)
Lemma Inv_set_own J t t' f inf name : Inv J t t' -> tbl_get t f = Some inf -> tbl_get t' f = Some inf ->
  Inv J (tbl_set t f (with_resource inf name)) (tbl_set t' f (with_resource inf name)).
Proof.
  intros (HT & HE & HN) G G'. split; [|split].
  - apply TR_set; [exact HT|apply ieq_refl].
  - intros n Hn Hp. destruct (str_eqb_spec n f) as [->|Hne]; [rewrite !tbl_get_set_same; reflexivity|]. rewrite !tbl_get_set_other by exact Hne. apply HE; assumption.
  - intros n Hn. assert (n <> f) by (intros ->; rewrite (HN _ Hn) in G; discriminate). rewrite tbl_get_set_other by assumption. apply HN; assumption.
Qed.

(* only the larger run stores something under a name of J *)
Lemma Inv_set_right J t t' f v : Inv J t t' -> In f J -> Inv J t (tbl_set t' f v).
Proof.
  intros (HT & HE & HN) Hf. split; [|split].
  - intros n i Hn. assert (n <> f) by (intros ->; rewrite (HN _ Hf) in Hn; discriminate). rewrite tbl_get_set_other by assumption. apply HT. exact Hn.
  - intros n Hn Hp. assert (n <> f) by (intros ->; exact (Hn Hf)). rewrite tbl_get_set_other by assumption. apply HE; assumption.
  - exact HN.
Qed.
End OneStep.

Section Steps.
Variables (podman : str) (exists_path : str -> bool) (kill_fixed mount_nl : bool).
Notation conv1 u path ty tbl := (convert_one podman exists_path kill_fixed mount_nl u path ty tbl).

(* what a conversion may do to the table: nothing, a store under its own file name, or the registration with a pod *)
Lemma own_out u path ty tbl : ty = TImage \/ ty = TNetwork \/ ty = TVolume ->
  tbl_out tbl (conv1 u path ty tbl) = tbl \/ exists f v, file_name path = Some f /\ tbl_out tbl (conv1 u path ty tbl) = tbl_set tbl f v.
Proof.
  intros [->|[->| ->]]; unfold convert_one.
  - destruct (from_image podman u path tbl) as [[[s p] t]|e [t|]| |] eqn:E; cbn [tbl_out]; try (left; reflexivity).
    + right. destruct (image_sets_table _ _ _ _ _ _ _ E) as (fname & inf & name & Hf & _ & _ & ->). eauto.
    + exfalso. assert (P : plain (from_image podman u path tbl)) by (unfold from_image; pl). exact (P e t E).
  - destruct (from_network podman u path tbl) as [[[s p] t]|e [t|]| |] eqn:E; cbn [tbl_out]; try (left; reflexivity).
    + right. destruct (network_sets_table _ _ _ _ _ _ _ E) as (fname & inf & name & Hf & _ & _ & ->). eauto.
    + exfalso. assert (P : plain (from_network podman u path tbl)) by (unfold from_network; pl). exact (P e t E).
  - destruct (from_volume podman u path tbl) as [[[s p] t]|e [t|]| |] eqn:E; cbn [tbl_out]; try (left; reflexivity).
    + right. destruct (volume_sets_table _ _ _ _ _ _ _ E) as (fname & inf & name & Hf & _ & _ & ->). eauto.
    + revert E. unfold from_volume.
      destruct (prologue u path tbl TVolume a_SUPPORTED_VOLUME_KEYS) as [[inf svc0]|e0 [t0|]| |] eqn:Ep; cbn [bind]; try discriminate.
      * destruct (prologue_ok _ _ _ _ _ _ _ Ep) as (fname & Ef & Et). cbv zeta.
        destruct (volume_name u path) as [name|e1 [t1|]| |] eqn:En; cbn [bind lift]; try discriminate.
        -- rewrite Ef. intros H. right. exists fname, (with_resource inf name). split; [reflexivity|].
           destruct (volume_body podman u name (rename_own svc0 TVolume) (tbl_set tbl fname (with_resource inf name))) as [sv|e2 [t2|]| |] eqn:Eb;
             cbn [bind with_tbl lift] in H; try discriminate.
           ++ exfalso. exact (plain_volume_body podman u name _ _ e2 t2 Eb).
           ++ injection H as _ <-. reflexivity.
        -- exfalso. exact (plain_volume_name u path e1 t1 En).
      * exfalso. exact (plain_prologue u path tbl TVolume _ e0 t0 Ep).
Qed.

(* a unit that only the larger run converts *)
Lemma junk_step J t t' u path ty : Inv J t t' -> (forall f, file_name path = Some f -> In f J) ->
  Inv J t (tbl_out t' (conv1 u path ty t')).
Proof.
  intros HI HJ. destruct ty.
  - unfold convert_one. rewrite build_keeps. exact HI.
  - unfold convert_one. destruct (container_out podman exists_path kill_fixed mount_nl u path t') as [->|(inf & svc0 & _ & ->)]; [exact HI|]. apply Inv_reg_right. exact HI.
  - destruct (own_out u path TImage t' (or_introl eq_refl)) as [->|(f & v & Hf & ->)]; [exact HI|]. apply Inv_set_right; [exact HI|apply HJ; exact Hf].
  - unfold convert_one. rewrite kube_keeps. exact HI.
  - destruct (own_out u path TNetwork t' (or_intror (or_introl eq_refl))) as [->|(f & v & Hf & ->)]; [exact HI|]. apply Inv_set_right; [exact HI|apply HJ; exact Hf].
  - unfold convert_one. rewrite pod_keeps. exact HI.
  - destruct (own_out u path TVolume t' (or_intror (or_intror eq_refl))) as [->|(f & v & Hf & ->)]; [exact HI|]. apply Inv_set_right; [exact HI|apply HJ; exact Hf].
Qed.

(* a unit that both runs convert, successfully *)
Lemma kept_step J t t' u path ty svc sp t1 t1' : Inv J t t' ->
  (forall f, file_name path = Some f -> ~ In f J /\ is_pod_name f = false) ->
  conv1 u path ty t = COk (svc, sp, t1) -> conv1 u path ty t' = COk (svc, sp, t1') -> Inv J t1 t1'.
Proof.
  intros HI Hf H H'. pose proof HI as (HT & HE & HN). destruct ty; unfold convert_one in H, H'.
  - pose proof (build_keeps podman mount_nl u path t) as K. rewrite H in K. pose proof (build_keeps podman mount_nl u path t') as K'. rewrite H' in K'. cbn [tbl_out] in K, K'. subst. exact HI.
  - destruct (container_ok_out _ _ _ _ _ _ _ _ _ _ H) as (inf & svc0 & _ & _ & ->). destruct (container_ok_out _ _ _ _ _ _ _ _ _ _ H') as (inf' & svc0' & _ & _ & ->). apply Inv_reg. exact HI.
  - destruct (image_sets_table _ _ _ _ _ _ _ H) as (f & inf & name & Ef & G & Hn & ->). destruct (image_sets_table _ _ _ _ _ _ _ H') as (f' & inf' & name' & Ef' & G' & Hn' & ->).
    rewrite Ef in Ef'. injection Ef' as <-. rewrite Hn in Hn'. injection Hn' as <-. destruct (Hf f Ef) as [HnJ Hp]. rewrite <- (HE f HnJ Hp), G in G'. injection G' as <-.
    apply Inv_set_own; [exact HI|exact G|rewrite <- (HE f HnJ Hp); exact G].
  - pose proof (kube_keeps podman kill_fixed u path t) as K. rewrite H in K. pose proof (kube_keeps podman kill_fixed u path t') as K'. rewrite H' in K'. cbn [tbl_out] in K, K'. subst. exact HI.
  - destruct (network_sets_table _ _ _ _ _ _ _ H) as (f & inf & name & Ef & G & Hn & ->). destruct (network_sets_table _ _ _ _ _ _ _ H') as (f' & inf' & name' & Ef' & G' & Hn' & ->).
    rewrite Ef in Ef'. injection Ef' as <-. rewrite Hn in Hn'. injection Hn' as <-. destruct (Hf f Ef) as [HnJ Hp]. rewrite <- (HE f HnJ Hp), G in G'. injection G' as <-.
    apply Inv_set_own; [exact HI|exact G|rewrite <- (HE f HnJ Hp); exact G].
  - pose proof (pod_keeps podman mount_nl u path t) as K. rewrite H in K. pose proof (pod_keeps podman mount_nl u path t') as K'. rewrite H' in K'. cbn [tbl_out] in K, K'. subst. exact HI.
  - destruct (volume_sets_table _ _ _ _ _ _ _ H) as (f & inf & name & Ef & G & Hn & ->). destruct (volume_sets_table _ _ _ _ _ _ _ H') as (f' & inf' & name' & Ef' & G' & Hn' & ->).
    rewrite Ef in Ef'. injection Ef' as <-. rewrite Hn in Hn'. injection Hn' as <-. destruct (Hf f Ef) as [HnJ Hp]. rewrite <- (HE f HnJ Hp), G in G'. injection G' as <-.
    apply Inv_set_own; [exact HI|exact G|rewrite <- (HE f HnJ Hp); exact G].
Qed.
End Steps.

(* ---- the two runs ---- *)
Section Runs.
Variables (podman : str) (exists_path : str -> bool) (kill_fixed mount_nl : bool).
Notation conv x tbl := (convert_one podman exists_path kill_fixed mount_nl (l_unit x) (l_path x) (i_type (l_info x)) tbl).
Notation run l tbl := (convert_all podman exists_path kill_fixed mount_nl l tbl).

Definition is_podu (x : loaded) : bool := match i_type (l_info x) with TPod => true | _ => false end.
Definition results (l : list loaded) (tbl : table) : list (loaded * conv_res) := combine l (map snd (run l tbl)).

Lemma results_cons x r tbl : results (x :: r) tbl = (x, res_of (conv x tbl)) :: results r (tbl_out tbl (conv x tbl)).
Proof. unfold results. rewrite convert_all_cons. cbv zeta. reflexivity. Qed.

Lemma res_of_ok (r : cres (unit * str * table)) svc sp : res_of r = ROk svc sp -> exists t1, r = COk (svc, sp, t1).
Proof. destruct r as [[[s p] t]|e tb| |]; cbn [res_of]; try discriminate. intros H. injection H as -> ->. eauto. Qed.

Theorem run_mono (keep : loaded -> bool) (J : list str) : forall l' t t',
  Inv J t t' ->
  (forall x, In x l' -> keep x = false -> forall f, file_name (l_path x) = Some f -> In f J) ->
  (forall x, In x l' -> keep x = true -> is_podu x = false -> forall f, file_name (l_path x) = Some f -> ~ In f J /\ is_pod_name f = false) ->
  (forall x r, In (x, r) (results (filter keep l') t) -> is_podu x = false -> exists svc sp, r = ROk svc sp) ->
  Forall2 (fun a b => fst a = fst b /\ (is_podu (fst a) = false -> snd a = snd b))
    (results (filter keep l') t) (filter (fun p => keep (fst p)) (results l' t')).
Proof.
  induction l' as [|x r IH]; intros t t' HI HJ HK HS; [constructor|].
  rewrite (results_cons x r t'). cbn [filter fst] in HS |- *. destruct (keep x) eqn:Ek.
  - rewrite results_cons in HS |- *.
    assert (HJ' : forall x0, In x0 r -> keep x0 = false -> forall f, file_name (l_path x0) = Some f -> In f J) by (intros x0 Hx0; apply HJ; right; exact Hx0).
    assert (HK' : forall x0, In x0 r -> keep x0 = true -> is_podu x0 = false -> forall f, file_name (l_path x0) = Some f -> ~ In f J /\ is_pod_name f = false) by (intros x0 Hx0; apply HK; right; exact Hx0).
    destruct (is_podu x) eqn:Ep.
    + constructor; [split; [reflexivity|intros X; cbn [fst] in X; rewrite Ep in X; discriminate X]|].
      assert (Ety : i_type (l_info x) = TPod) by (unfold is_podu in Ep; destruct (i_type (l_info x)); try discriminate; reflexivity).
      rewrite Ety in *. unfold convert_one in *. rewrite !pod_keeps in *.
      apply IH; [exact HI|exact HJ'|exact HK'|]. intros x0 r0 Hin. apply HS. right. exact Hin.
    + destruct (HS x _ (or_introl eq_refl) Ep) as (svc & sp & Hr). destruct (res_of_ok _ _ _ Hr) as (t1 & E1).
      pose proof HI as (HT & HE & HN).
      assert (Hown : forall f, file_name (l_path x) = Some f -> tbl_get t f = tbl_get t' f).
      { intros f Hf. destruct (HK x (or_introl eq_refl) Ek Ep f Hf) as [HnJ Hp]. apply HE; assumption. }
      destruct (convert_one_mono podman exists_path kill_fixed mount_nl t t' _ _ _ _ _ _ HT Hown E1) as (t1' & E1').
      rewrite E1, E1' in *. cbn [res_of tbl_out] in *. constructor; [split; reflexivity|].
      apply IH; [|exact HJ'|exact HK'|].
      * eapply kept_step; [exact HI| |exact E1|exact E1']. intros f Hf. exact (HK x (or_introl eq_refl) Ek Ep f Hf).
      * intros x0 r0 Hin. apply HS. right. exact Hin.
  - apply IH.
    + apply junk_step; [exact HI|]. exact (HJ x (or_introl eq_refl) Ek).
    + intros x0 Hx0. apply HJ. right. exact Hx0.
    + intros x0 Hx0. apply HK. right. exact Hx0.
    + exact HS.
Qed.
End Runs.

(* ---- sorting by type priority commutes with leaving units out ---- *)
Definition prio (x : loaded) : N := type_priority (i_type (l_info x)).
Definition Srt (l : list loaded) : Prop := StronglySorted (fun a b => prio a <= prio b) l.

Lemma insert_sorted_in x l y : In y (insert_sorted x l) <-> y = x \/ In y l.
Proof.
  induction l as [|z r IH]; cbn [insert_sorted In]; [intuition congruence|]. fold (prio x) (prio z). destruct (prio x <? prio z); cbn [In]; [intuition congruence|]. rewrite IH. intuition congruence.
Qed.

Lemma insert_sorted_srt x l : Srt l -> Srt (insert_sorted x l).
Proof.
  unfold Srt. induction l as [|z r IH]; intros H; cbn [insert_sorted]; [repeat constructor|]. fold (prio x) (prio z).
  inversion H as [|? ? Hr Hz]; subst. destruct (N.ltb_spec (prio x) (prio z)) as [Hlt|Hge].
  - constructor; [exact H|]. constructor; [lia|]. eapply Forall_impl; [|exact Hz]. cbv beta. intros a Ha. lia.
  - constructor; [apply IH; exact Hr|]. apply Forall_forall. intros y Hy. apply insert_sorted_in in Hy. destruct Hy as [->|Hy]; [exact Hge|].
    rewrite Forall_forall in Hz. apply Hz. exact Hy.
Qed.

Lemma insert_before_all x l : Forall (fun z => prio x < prio z) l -> insert_sorted x l = x :: l.
Proof. destruct l as [|z r]; [reflexivity|]. intros H. inversion H; subst. cbn [insert_sorted]. fold (prio x) (prio z). destruct (N.ltb_spec (prio x) (prio z)); [reflexivity|lia]. Qed.

Lemma filter_insert keep x l : Srt l ->
  filter keep (insert_sorted x l) = if keep x then insert_sorted x (filter keep l) else filter keep l.
Proof.
  unfold Srt. induction l as [|z r IH]; intros H; cbn [insert_sorted filter]; [destruct (keep x); reflexivity|]. fold (prio x) (prio z).
  inversion H as [|? ? Hr Hz]; subst. destruct (N.ltb_spec (prio x) (prio z)) as [Hlt|Hge].
  - cbn [filter]. destruct (keep x); [|reflexivity]. symmetry. apply insert_before_all.
    assert (F : Forall (fun a => prio x < prio a) (z :: r)).
    { constructor; [exact Hlt|]. eapply Forall_impl; [|exact Hz]. cbv beta. intros a Ha. lia. }
    rewrite Forall_forall in F |- *. intros a Ha. apply F. change (In a (filter keep (z :: r))) in Ha. apply filter_In in Ha. exact (proj1 Ha).
  - cbn [filter]. rewrite (IH Hr). destruct (keep z), (keep x); try reflexivity.
    cbn [insert_sorted]. fold (prio x) (prio z). destruct (N.ltb_spec (prio x) (prio z)); [lia|reflexivity].
Qed.

Lemma sort_filter_acc keep l : forall acc, Srt acc ->
  fold_left (fun a x => insert_sorted x a) (filter keep l) (filter keep acc) = filter keep (fold_left (fun a x => insert_sorted x a) l acc)
  /\ Srt (fold_left (fun a x => insert_sorted x a) l acc).
Proof.
  induction l as [|x r IH]; intros acc Hs; cbn [filter fold_left]; [split; [reflexivity|exact Hs]|].
  destruct (IH (insert_sorted x acc) (insert_sorted_srt x acc Hs)) as [E S]. split; [|exact S].
  rewrite <- E, (filter_insert keep x acc Hs). destruct (keep x); reflexivity.
Qed.

Theorem sort_filter keep l : sort_units (filter keep l) = filter keep (sort_units l).
Proof. unfold sort_units. exact (proj1 (sort_filter_acc keep l [] (SSorted_nil _))). Qed.

Lemma sort_units_in l x : In x (sort_units l) <-> In x l.
Proof.
  unfold sort_units. assert (G : forall acc, In x (fold_left (fun a y => insert_sorted y a) l acc) <-> In x acc \/ In x l).
  { induction l as [|y r IH]; intros acc; cbn [fold_left In]; [tauto|]. rewrite IH, insert_sorted_in. intuition congruence. }
  rewrite G. cbn [In]. tauto.
Qed.

(* ---- the two name tables ---- *)
Definition name_of (x : loaded) : option str := file_name (l_path x).
Definition tstep (t : table) (x : loaded) : table := match file_name (l_path x) with Some n => tbl_set t n (l_info x) | None => t end.

Lemma Inv_set_both J t t' f v : Inv J t t' -> ~ In f J -> Inv J (tbl_set t f v) (tbl_set t' f v).
Proof.
  intros (HT & HE & HN) Hf. split; [|split].
  - apply TR_set; [exact HT|apply ieq_refl].
  - intros n Hn Hp. destruct (str_eqb_spec n f) as [->|Hne]; [rewrite !tbl_get_set_same; reflexivity|]. rewrite !tbl_get_set_other by exact Hne. apply HE; assumption.
  - intros n Hn. assert (n <> f) by (intros ->; exact (Hf Hn)). rewrite tbl_get_set_other by assumption. apply HN; assumption.
Qed.

Lemma Inv_nil J : Inv J [] [].
Proof. split; [|split]; [intros n i H; discriminate H|reflexivity|reflexivity]. Qed.

Lemma table_of_inv_acc keep J l : forall acc acc', Inv J acc acc' ->
  (forall x, In x l -> keep x = false -> forall f, name_of x = Some f -> In f J) ->
  (forall x, In x l -> keep x = true -> forall f, name_of x = Some f -> ~ In f J) ->
  Inv J (fold_left tstep (filter keep l) acc) (fold_left tstep l acc').
Proof.
  induction l as [|x r IH]; intros acc acc' HI HJ HK; [exact HI|]. cbn [filter fold_left].
  assert (HJ' : forall y, In y r -> keep y = false -> forall f, name_of y = Some f -> In f J) by (intros y Hy; apply HJ; right; exact Hy).
  assert (HK' : forall y, In y r -> keep y = true -> forall f, name_of y = Some f -> ~ In f J) by (intros y Hy; apply HK; right; exact Hy).
  destruct (keep x) eqn:Ek.
  - cbn [fold_left]. apply IH; [|exact HJ'|exact HK']. unfold tstep. destruct (file_name (l_path x)) as [f|] eqn:Ef; [|exact HI].
    apply Inv_set_both; [exact HI|]. exact (HK x (or_introl eq_refl) Ek f Ef).
  - apply IH; [|exact HJ'|exact HK']. unfold tstep. destruct (file_name (l_path x)) as [f|] eqn:Ef; [|exact HI].
    apply Inv_set_right; [exact HI|]. exact (HJ x (or_introl eq_refl) Ek f Ef).
Qed.

Lemma table_of_inv keep J l :
  (forall x, In x l -> keep x = false -> forall f, name_of x = Some f -> In f J) ->
  (forall x, In x l -> keep x = true -> forall f, name_of x = Some f -> ~ In f J) ->
  Inv J (table_of (filter keep l)) (table_of l).
Proof. intros HJ HK. exact (table_of_inv_acc keep J l [] [] (Inv_nil J) HJ HK). Qed.

(* ---- a file whose name ends in .pod is a pod unit or no unit at all ---- *)
Lemma starts_with_app p : forall l, starts_with p l = true -> exists k, l = p ++ k.
Proof.
  induction p as [|x p IH]; intros l H; [exists l; reflexivity|]. destruct l as [|y l]; [discriminate|]. cbn [starts_with] in H.
  apply andb_prop in H. destruct H as [E H]. apply N.eqb_eq in E. subst y. destruct (IH l H) as [k ->]. exists k. reflexivity.
Qed.

Lemma ends_with_app sfx l : ends_with sfx l = true -> exists g, l = g ++ sfx.
Proof.
  unfold ends_with. intros H. destruct (starts_with_app _ _ H) as [k E]. exists (rev k).
  rewrite <- (rev_involutive l), E, rev_app_distr, rev_involutive. reflexivity.
Qed.

Lemma rsplit_dot_pod g : rsplit_dot (g ++ L ".pod") = Some (g, L "pod").
Proof. induction g as [|c g IH]; [vm_compute; reflexivity|]. cbn [app rsplit_dot]. rewrite IH. reflexivity. Qed.

Lemma pod_name_type p f t : file_name p = Some f -> is_pod_name f = true -> type_of_path p = Some t -> t = TPod.
Proof.
  intros Hf Hp. unfold type_of_path, extension. rewrite Hf. destruct (ends_with_app _ _ Hp) as [g ->]. unfold stem_ext.
  destruct (str_eqb (g ++ L ".pod") dotdot); [discriminate|]. rewrite rsplit_dot_pod. destruct g; [discriminate|]. cbn [snd].
  intros H. vm_compute in H. injection H as <-. reflexivity.
Qed.

Lemma Forall2_in_l {A B} (R : A -> B -> Prop) l l' a : Forall2 R l l' -> In a l -> exists b, In b l' /\ R a b.
Proof. induction 1 as [|x y l l' Hxy _ IH]; intros H; [contradiction H|]. destruct H as [<-|H]; [exists y; split; [left; reflexivity|exact Hxy]|]. destruct (IH H) as (b & Hb & Hr). exists b. split; [right; exact Hb|exact Hr]. Qed.

(* ---- the whole run ---- *)
Section Files.
Variables (podman : str) (exists_path : str -> bool) (kill_fixed mount_nl : bool).
Notation pf := (process_files podman exists_path kill_fixed mount_nl).
Notation run l tbl := (convert_all podman exists_path kill_fixed mount_nl l tbl).

Definition units_of (files : list (str * str)) : list loaded :=
  flat_map (fun p : str * load_res => match snd p with LOk u i => [{| l_path := fst p; l_unit := u; l_info := i |}] | _ => [] end)
    (map (fun f : str * str => (fst f, load_one (fst f) (snd f))) files).

Lemma process_files_snd files : snd (pf files) = run (sort_units (units_of files)) (table_of (sort_units (units_of files))).
Proof. reflexivity. Qed.

Lemma units_filter (keepp : str -> bool) files :
  units_of (filter (fun f => keepp (fst f)) files) = filter (fun x => keepp (l_path x)) (units_of files).
Proof.
  unfold units_of. induction files as [|[p txt] r IH]; [reflexivity|]. cbn [filter fst map flat_map snd].
  destruct (keepp p) eqn:Ek.
  - cbn [map flat_map fst snd]. rewrite IH. destruct (load_one p txt); cbn [app filter l_path]; rewrite ?Ek; reflexivity.
  - rewrite IH. destruct (load_one p txt); cbn [app filter l_path]; rewrite ?Ek; reflexivity.
Qed.

Lemma units_spec files x : In x (units_of files) ->
  In (l_path x) (map fst files) /\ exists t, type_of_path (l_path x) = Some t /\ i_type (l_info x) = t.
Proof.
  unfold units_of. induction files as [|[p txt] r IH]; [cbn [map flat_map]; intros H; contradiction H|]. cbn [map flat_map fst snd]. intros H. apply in_app_or in H. destruct H as [H|H].
  - destruct (load_one p txt) as [u i| | |] eqn:El; try contradiction H. destruct H as [<-|H]; [|contradiction H]. cbn [l_path l_info]. split; [left; reflexivity|].
    unfold load_one in El. destruct (parse_unit txt) as [u0|]; [|discriminate]. destruct (unit_info u0 p) as [i0| | |] eqn:Ei; try discriminate.
    injection El as -> ->. unfold unit_info in Ei. destruct (type_of_path p) as [t|]; [|discriminate]. exists t. split; [reflexivity|].
    destruct (service_name_of u p t); cbn [bind] in Ei; try discriminate.
    destruct (match t with TBuild => _ | TContainer => _ | _ => _ end); cbn [bind] in Ei; try discriminate. injection Ei as <-. reflexivity.
  - destruct (IH H) as [Hi Ht]. split; [right; exact Hi|exact Ht].
Qed.

Definition unit_results (files : list (str * str)) : list (loaded * conv_res) :=
  combine (sort_units (units_of files)) (map snd (snd (pf files))).

Definition junk_names (keep : loaded -> bool) (l : list loaded) : list str :=
  flat_map (fun x => if keep x then [] else match name_of x with Some f => [f] | None => [] end) l.

Lemma junk_names_in keep l f : In f (junk_names keep l) <-> exists x, In x l /\ keep x = false /\ name_of x = Some f.
Proof.
  unfold junk_names. rewrite in_flat_map. split.
  - intros (x & Hx & H). exists x. destruct (keep x); [contradiction H|]. destruct (name_of x) as [g|]; [|contradiction H]. destruct H as [<-|H]; [|contradiction H]. auto.
  - intros (x & Hx & Hk & Hn). exists x. split; [exact Hx|]. rewrite Hk, Hn. left. reflexivity.
Qed.

(* Leaving files out of the run -- equivalently, adding files to it -- changes the result of no unit that is not a pod, provided the
   files left out have other file names than the files kept and every kept unit that is not a pod converts in the smaller run.
   (A pod is excepted because its service lists the containers that joined it; pods that fail are allowed.) *)
Theorem added_files_change_nothing (keepp : str -> bool) files :
  (forall p q, In p (map fst files) -> In q (map fst files) -> keepp p = true -> keepp q = false ->
     forall f, file_name p = Some f -> file_name q <> Some f) ->
  (forall x r, In (x, r) (unit_results (filter (fun f => keepp (fst f)) files)) -> is_podu x = false -> exists svc sp, r = ROk svc sp) ->
  Forall2 (fun a b => fst a = fst b /\ (is_podu (fst a) = false -> snd a = snd b))
    (unit_results (filter (fun f => keepp (fst f)) files))
    (filter (fun p => keepp (l_path (fst p))) (unit_results files)).
Proof.
  intros Hd Hs. unfold unit_results in *. rewrite !process_files_snd in *. rewrite units_filter, sort_filter in *.
  set (keep := fun x : loaded => keepp (l_path x)) in *. set (big := sort_units (units_of files)) in *.
  set (J := junk_names keep big).
  assert (Hbig : forall x, In x big -> In (l_path x) (map fst files) /\ exists t, type_of_path (l_path x) = Some t /\ i_type (l_info x) = t).
  { intros x Hx. apply units_spec. apply sort_units_in. exact Hx. }
  assert (HJ : forall x, In x big -> keep x = false -> forall f, file_name (l_path x) = Some f -> In f J).
  { intros x Hx Hk f Hf. apply junk_names_in. exists x. auto. }
  assert (HK0 : forall x, In x big -> keep x = true -> forall f, file_name (l_path x) = Some f -> ~ In f J).
  { intros x Hx Hk f Hf Hin. apply junk_names_in in Hin. destruct Hin as (y & Hy & Hky & Hny).
    exact (Hd (l_path x) (l_path y) (proj1 (Hbig x Hx)) (proj1 (Hbig y Hy)) Hk Hky f Hf Hny). }
  apply (run_mono podman exists_path kill_fixed mount_nl keep J big).
  - apply table_of_inv; [exact HJ|exact HK0].
  - exact HJ.
  - intros x Hx Hk Hp f Hf. split; [exact (HK0 x Hx Hk f Hf)|].
    destruct (is_pod_name f) eqn:E; [|reflexivity]. exfalso. destruct (Hbig x Hx) as (_ & t & Ht & Hi).
    pose proof (pod_name_type _ _ _ Hf E Ht) as ->. unfold is_podu in Hp. rewrite Hi in Hp. discriminate Hp.
  - exact Hs.
Qed.

Lemma run_results l : forall tbl, run l tbl = map (fun xr : loaded * conv_res => (l_path (fst xr), snd xr)) (combine l (map snd (run l tbl))).
Proof.
  induction l as [|x r IH]; intros tbl; [reflexivity|]. rewrite convert_all_cons. cbv zeta. cbn [map combine fst snd]. f_equal. apply IH.
Qed.

(* the same, read off the results by path *)
Corollary added_files_keep_results (keepp : str -> bool) files p r :
  (forall p q, In p (map fst files) -> In q (map fst files) -> keepp p = true -> keepp q = false ->
     forall f, file_name p = Some f -> file_name q <> Some f) ->
  (forall q s, In (q, s) (snd (pf (filter (fun f => keepp (fst f)) files))) -> type_of_path q <> Some TPod -> exists svc sp, s = ROk svc sp) ->
  In (p, r) (snd (pf (filter (fun f => keepp (fst f)) files))) -> type_of_path p <> Some TPod ->
  In (p, r) (snd (pf files)).
Proof.
  intros Hd Hs Hin Hp.
  assert (Hty : forall fl x, In x (sort_units (units_of fl)) -> is_podu x = false -> type_of_path (l_path x) <> Some TPod).
  { intros fl x Hx Hpod. destruct (units_spec fl x (proj1 (sort_units_in _ _) Hx)) as (_ & t & Ht & Hi). rewrite Ht. intros X. injection X as ->.
    unfold is_podu in Hpod. rewrite Hi in Hpod. discriminate Hpod. }
  assert (Hty' : forall fl x, In x (sort_units (units_of fl)) -> type_of_path (l_path x) <> Some TPod -> is_podu x = false).
  { intros fl x Hx Hn. destruct (units_spec fl x (proj1 (sort_units_in _ _) Hx)) as (_ & t & Ht & Hi). unfold is_podu. rewrite Hi.
    destruct t; try reflexivity. exfalso. exact (Hn Ht). }
  pose proof (added_files_change_nothing keepp files Hd) as F.
  assert (Hs' : forall x s, In (x, s) (unit_results (filter (fun f => keepp (fst f)) files)) -> is_podu x = false -> exists svc sp, s = ROk svc sp).
  { intros x s Hx Hpod. apply (Hs (l_path x) s).
    - rewrite process_files_snd, run_results. apply in_map_iff. exists (x, s). split; [reflexivity|]. exact Hx.
    - apply (Hty (filter (fun f => keepp (fst f)) files)); [|exact Hpod]. unfold unit_results in Hx. apply in_combine_l in Hx. exact Hx. }
  specialize (F Hs').
  rewrite process_files_snd, run_results in Hin. apply in_map_iff in Hin. destruct Hin as ([x s] & E & Hx). cbn [fst snd] in E. injection E as <- <-.
  fold (unit_results (filter (fun f => keepp (fst f)) files)) in Hx.
  destruct (Forall2_in_l _ _ _ _ F Hx) as ([y s'] & Hy & Efst & Esnd). cbn [fst snd] in Efst, Esnd. subst y.
  apply filter_In in Hy. destruct Hy as [Hy _].
  rewrite Esnd.
  - rewrite process_files_snd, run_results. apply in_map_iff. exists (x, s'). split; [reflexivity|exact Hy].
  - apply (Hty' (filter (fun f => keepp (fst f)) files)); [|exact Hp]. unfold unit_results in Hx. apply in_combine_l in Hx. exact Hx.
Qed.
End Files.

(* ---- the premises are satisfiable: a container and the volume it uses keep their services when a failing container, a network
   and an unparsable file are added ---- *)
Definition ex_small : list (str * str) :=
  [(L "/d/a.container", L "[Container]" ++ [10] ++ L "Image=img" ++ [10] ++ L "Volume=v.volume:/data" ++ [10]);
   (L "/d/v.volume", L "[Volume]" ++ [10] ++ L "Label=x=y" ++ [10])].
Definition ex_big : list (str * str) :=
  (L "/d/bad.container", L "[Container]" ++ [10] ++ L "Imag=img" ++ [10]) ::
  (L "/d/n.network", L "[Network]" ++ [10]) ::
  (L "/d/broken.volume", L "no section header") :: ex_small.
Definition ex_keep (p : str) : bool := str_eqb p (L "/d/a.container") || str_eqb p (L "/d/v.volume").

Example independence_example :
  filter (fun f => ex_keep (fst f)) ex_big = ex_small /\
  (forall q s, In (q, s) (snd (process_files (L "/usr/bin/podman") (fun _ => false) true false ex_small)) -> exists svc sp, s = ROk svc sp) /\
  (exists e, In (L "/d/bad.container", RErr e) (snd (process_files (L "/usr/bin/podman") (fun _ => false) true false ex_big))) /\
  length (snd (process_files (L "/usr/bin/podman") (fun _ => false) true false ex_big)) = 4%nat.
Proof.
  split; [vm_compute; reflexivity|]. split; [|split].
  - vm_compute. intros q s [H|[H|H]]; [| |contradiction H]; injection H as _ <-; eexists _, _; reflexivity.
  - vm_compute. eexists. auto 10.
  - vm_compute. reflexivity.
Qed.
