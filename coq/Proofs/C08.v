(* C08: references resolve through the name table to the names the referenced unit really has. *)
From QV Require Import Model.Base Generated.Tables Model.Quote Model.Unquote Model.Split Model.PortRange Model.Unit Model.Lex Model.Parser
  Model.Path Model.Names Model.Convert Model.Process Spec.Names Proofs.Util Proofs.C07.
Open Scope N_scope.

From Coq Require Import Sorting.Sorted Sorting.Permutation.
Local Notation L := s2l (only parsing).

(* ---- looking a referenced unit up ---- *)
Definition deps (svc : unit) (sfn : str) : unit := unit_add (unit_add svc SEC_U (L "Requires") sfn) SEC_U (L "After") sfn.

(* Volume= / Mount= source naming a .volume (or, for Mount=, an .image) file *)
Theorem storage_source_resolves unit_path svc src tbl check_image :
  starts_with [cDOT] src = false -> starts_with [cSLASH] src = false ->
  (ends_with (L ".volume") src || (check_image && ends_with (L ".image") src)) = true ->
  handle_storage_source unit_path svc src tbl check_image =
  match tbl_get tbl src with
  | Some i => COk (i_resource_name i, deps svc (service_file_name i))
  | None => err (ESourceNotFound src)
  end.
Proof.
  intros H1 H2 H3. unfold handle_storage_source. rewrite H1. cbn [bind]. rewrite H2, H3. reflexivity.
Qed.

(* Image= naming an .image or .build file *)
Theorem image_source_resolves name svc tbl :
  (ends_with (L ".build") name || ends_with (L ".image") name) = true ->
  handle_image_source name svc tbl =
  match tbl_get tbl name with
  | Some i => COk (i_resource_name i, deps svc (service_file_name i))
  | None => err (EImageNotFound name)
  end.
Proof. intros H. unfold handle_image_source. rewrite H. reflexivity. Qed.

(* Network= naming a .network file, without options *)
Theorem network_resolves name svc tbl args i : name <> [] -> memN cCOLON name = false ->
  ends_with (L ".network") name = true -> ends_with (L ".container") name = false ->
  tbl_get tbl name = Some i -> i_resource_name i <> [] ->
  networks_loop [name] svc tbl args = COk (args ++ [L "--network"; i_resource_name i], deps svc (service_file_name i)).
Proof.
  intros Hne Hc Hn Hct Ht Hr. destruct name as [|c0 name']; [congruence|].
  cbn [networks_loop].
  assert (Hs : split_once cCOLON (c0 :: name') = None).
  { clear -Hc. revert Hc. generalize (c0 :: name'). induction l as [|c r IH]; intros H; [reflexivity|].
    cbn [split_once]. unfold memN in H. cbn [existsb] in H. apply orb_false_iff in H. destruct H as [H1 H2].
    rewrite N.eqb_sym in H1. rewrite H1. unfold memN in IH. rewrite (IH H2). reflexivity. }
  rewrite Hs. rewrite Hn, Hct. cbn [orb]. rewrite Ht.
  destruct (i_resource_name i) as [|r0 rn] eqn:E; [congruence|]. cbn [bind]. reflexivity.
Qed.

Theorem network_missing name svc tbl args : name <> [] -> memN cCOLON name = false ->
  ends_with (L ".network") name = true -> tbl_get tbl name = None ->
  networks_loop [name] svc tbl args = err EInternal.
Proof.
  intros Hne Hc Hn Ht. destruct name as [|c0 name']; [congruence|]. cbn [networks_loop].
  assert (Hs : split_once cCOLON (c0 :: name') = None).
  { clear -Hc. revert Hc. generalize (c0 :: name'). induction l as [|c r IH]; intros H; [reflexivity|].
    cbn [split_once]. unfold memN in H. cbn [existsb] in H. apply orb_false_iff in H. destruct H as [H1 H2].
    rewrite N.eqb_sym in H1. rewrite H1. unfold memN in IH. rewrite (IH H2). reflexivity. }
  rewrite Hs, Hn. cbn [orb]. rewrite Ht. reflexivity.
Qed.

(* ---- what the table holds: service names ---- *)
Theorem service_name_is_documented u path t fname stem :
  file_name path = Some fname -> file_stem fname = Some stem -> file_name fname = Some fname -> parent fname = None \/ parent fname = Some [] ->
  forall sn, @service_name_of berr u path t = COk sn ->
  exists explicit, @lk berr u (type_section t) (L "ServiceName") = COk explicit /\ sn = spec_service_name explicit stem (type_suffix t).
Proof.
  intros Hf Hs Hff Hp sn H. unfold service_name_of in H.
  destruct (@lk berr u (type_section t) (L "ServiceName")) as [ex| | |] eqn:E; cbn [bind] in H; try discriminate.
  exists ex. split; [reflexivity|]. destruct ex as [n|].
  - injection H as <-. reflexivity.
  - rewrite Hf in H. unfold replace_extension in H. rewrite Hs in H. injection H as <-.
    unfold set_file_name. rewrite Hff. cbn [spec_service_name].
    destruct Hp as [Hp|Hp]; rewrite Hp; [reflexivity|]. unfold path_join.
    destruct (is_absolute (stem ++ type_suffix t)) eqn:Ea; reflexivity.
Qed.

(* ---- what the table holds after a unit was converted: the documented object name ---- *)
Lemma prologue_ok u path tbl t sup i svc : prologue u path tbl t sup = COk (i, svc) ->
  exists fname, file_name path = Some fname /\ tbl_get tbl fname = Some i.
Proof.
  unfold prologue. intros H.
  destruct (file_name path) as [fname|] eqn:Ef; [|discriminate].
  destruct (tbl_get tbl fname) as [inf|] eqn:Et; [|discriminate].
  repeat match type of H with
  | bind ?m _ = COk _ => let E := fresh "E" in destruct m eqn:E; cbn [bind] in H; try discriminate
  end.
  injection H as <- _. exists fname. auto.
Qed.

Theorem volume_sets_table podman u path tbl svc sp tbl' :
  from_volume podman u path tbl = COk (svc, sp, tbl') ->
  exists fname inf name, file_name path = Some fname /\ tbl_get tbl fname = Some inf /\
    volume_name u path = COk name /\ tbl' = tbl_set tbl fname (with_resource inf name).
Proof.
  unfold from_volume. intros H.
  destruct (prologue u path tbl TVolume a_SUPPORTED_VOLUME_KEYS) as [[inf svc0]| | |] eqn:Ep; cbn [bind] in H; try discriminate.
  destruct (prologue_ok _ _ _ _ _ _ _ Ep) as (fname & Ef & Et).
  destruct (volume_name u path) as [name| | |] eqn:En; cbn [bind lift] in H; try discriminate.
  rewrite Ef in H. unfold with_tbl in H.
  destruct (volume_body podman u name _ _) as [svc'| e [t|] | |] eqn:Eb; cbn [bind lift] in H; try discriminate.
  injection H as <- <- <-. exists fname, inf, name. auto.
Qed.

Theorem network_sets_table podman u path tbl svc sp tbl' :
  from_network podman u path tbl = COk (svc, sp, tbl') ->
  exists fname inf name, file_name path = Some fname /\ tbl_get tbl fname = Some inf /\
    network_name u path = COk name /\ tbl' = tbl_set tbl fname (with_resource inf name).
Proof.
  unfold from_network. intros H.
  destruct (prologue u path tbl TNetwork a_SUPPORTED_NETWORK_KEYS) as [[inf svc0]| | |] eqn:Ep; cbn [bind] in H; try discriminate.
  destruct (prologue_ok _ _ _ _ _ _ _ Ep) as (fname & Ef & Et).
  destruct (network_name u path) as [name| | |] eqn:En; cbn [bind lift] in H; try discriminate.
  destruct (network_body podman u name _) as [svc'| | |] eqn:Eb; cbn [bind lift] in H; try discriminate.
  rewrite Ef in H. injection H as <- <- <-. exists fname, inf, name. auto.
Qed.

Theorem image_sets_table podman u path tbl svc sp tbl' :
  from_image podman u path tbl = COk (svc, sp, tbl') ->
  exists fname inf name, file_name path = Some fname /\ tbl_get tbl fname = Some inf /\
    image_resource u = COk name /\ tbl' = tbl_set tbl fname (with_resource inf name).
Proof.
  unfold from_image. intros H.
  destruct (prologue u path tbl TImage a_SUPPORTED_IMAGE_KEYS) as [[inf svc0]| | |] eqn:Ep; cbn [bind] in H; try discriminate.
  destruct (prologue_ok _ _ _ _ _ _ _ Ep) as (fname & Ef & Et).
  destruct (image_body podman u _) as [svc'| | |] eqn:Eb; cbn [bind lift] in H; try discriminate.
  destruct (image_resource u) as [name| | |] eqn:En; cbn [bind lift] in H; try discriminate.
  rewrite Ef in H. injection H as <- <- <-. exists fname, inf, name. auto.
Qed.

(* the object names are the documented ones *)
Theorem volume_name_documented u path stem name : file_stem path = Some stem -> volume_name u path = COk name ->
  exists explicit, @lk berr u c_VOLUME_SECTION (L "VolumeName") = COk explicit /\ name = spec_object_name explicit stem.
Proof.
  intros Hs H. unfold volume_name in H. destruct (@lk berr u c_VOLUME_SECTION (L "VolumeName")) as [ex| | |]; cbn [bind] in H; try discriminate.
  exists ex. split; [reflexivity|]. destruct ex as [[|c s]|]; unfold default_resource_name in H; rewrite ?Hs in H; injection H as <-; reflexivity.
Qed.

Theorem network_name_documented u path stem name : file_stem path = Some stem -> network_name u path = COk name ->
  exists explicit, @lk berr u c_NETWORK_SECTION (L "NetworkName") = COk explicit /\ name = spec_object_name explicit stem.
Proof.
  intros Hs H. unfold network_name in H. destruct (@lk berr u c_NETWORK_SECTION (L "NetworkName")) as [ex| | |]; cbn [bind] in H; try discriminate.
  exists ex. split; [reflexivity|]. destruct ex as [[|c s]|]; unfold default_resource_name in H; rewrite ?Hs in H; injection H as <-; reflexivity.
Qed.

Theorem image_name_documented u name : image_resource u = COk name ->
  exists image tag, @lk berr u c_IMAGE_SECTION (L "Image") = COk (Some image) /\ @lk berr u c_IMAGE_SECTION (L "ImageTag") = COk tag /\
                    image <> [] /\ name = spec_image_name tag image.
Proof.
  intros H. unfold image_resource in H. destruct (@lk berr u c_IMAGE_SECTION (L "Image")) as [[[|c s]|]| | |]; cbn [bind] in H; try discriminate.
  destruct (@lk berr u c_IMAGE_SECTION (L "ImageTag")) as [tag| | |]; cbn [bind] in H; try discriminate.
  injection H as <-. exists (c :: s), tag. split; [reflexivity|]. split; [reflexivity|]. split; [discriminate|]. destruct tag as [[|d t]|]; reflexivity.
Qed.

(* ---- processing order: referenced types come first ---- *)
Definition prio (x : loaded) : N := type_priority (i_type (l_info x)).

Lemma insert_sorted_sorted x l : Sorted.StronglySorted (fun a b => prio a <= prio b) l ->
  Sorted.StronglySorted (fun a b => prio a <= prio b) (insert_sorted x l).
Proof.
  induction 1 as [|y r Hr IH Hy]; cbn [insert_sorted]; [repeat constructor|].
  fold (prio x). fold (prio y). destruct (N.ltb_spec (prio x) (prio y)) as [Hlt|Hge].
  - constructor; [constructor; assumption|]. constructor; [lia|]. rewrite Forall_forall in *. intros z Hz. specialize (Hy z Hz). lia.
  - constructor; [exact IH|]. rewrite Forall_forall in *. intros z Hz.
    assert (Hin : forall l', In z (insert_sorted x l') -> z = x \/ In z l').
    { clear. induction l' as [|w l' IH]; cbn [insert_sorted]; [intros [<-|[]]; auto|].
      destruct (_ <? _); cbn [In]; intros [H|H]; auto. destruct (IH H); auto. }
    destruct (Hin r Hz) as [->|Hz']; [exact Hge|apply Hy; exact Hz'].
Qed.

Theorem sort_units_sorted l : Sorted.StronglySorted (fun a b => prio a <= prio b) (sort_units l).
Proof.
  unfold sort_units. assert (G : forall acc, Sorted.StronglySorted (fun a b => prio a <= prio b) acc ->
    Sorted.StronglySorted (fun a b => prio a <= prio b) (fold_left (fun acc x => insert_sorted x acc) l acc)).
  { induction l as [|x l IH]; intros acc H; [exact H|]. cbn [fold_left]. apply IH. apply insert_sorted_sorted. exact H. }
  apply G. constructor.
Qed.

Lemma insert_sorted_perm x l : Permutation.Permutation (x :: l) (insert_sorted x l).
Proof.
  induction l as [|y r IH]; cbn [insert_sorted]; [reflexivity|]. destruct (_ <? _); [reflexivity|].
  apply Permutation.perm_trans with (y :: x :: r); [apply Permutation.perm_swap|]. constructor. exact IH.
Qed.

Theorem sort_units_perm l : Permutation.Permutation l (sort_units l).
Proof.
  unfold sort_units. assert (G : forall acc, Permutation.Permutation (acc ++ l) (fold_left (fun acc x => insert_sorted x acc) l acc)).
  { induction l as [|x l IH]; intros acc; [rewrite app_nil_r; reflexivity|]. cbn [fold_left].
    apply Permutation.perm_trans with (insert_sorted x acc ++ l); [|apply IH].
    apply Permutation.perm_trans with ((x :: acc) ++ l).
    - apply Permutation.Permutation_sym. apply Permutation.Permutation_middle.
    - apply Permutation.Permutation_app_tail. apply insert_sorted_perm. }
  apply (G []).
Qed.
