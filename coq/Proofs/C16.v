(* C16: undocumented keys are rejected, documented keys are accepted. *)
From QV Require Import Model.Base Generated.Tables Model.Quote Model.Unquote Model.Split Model.PortRange Model.Unit Model.Path
  Model.Names Model.Convert Spec.Docs Proofs.Util.
Open Scope N_scope.

(* ---- the allow-lists in the source are the documented key sets ---- *)
Definition same_set (a b : list str) : bool := forallb (fun k => mem_str k b) a && forallb (fun k => mem_str k a) b.

Lemma same_set_mem a b : same_set a b = true -> forall k, mem_str k a = mem_str k b.
Proof.
  unfold same_set. intros H k. apply andb_true_iff in H. destruct H as [Hab Hba].
  rewrite forallb_forall in Hab, Hba.
  destruct (mem_str k a) eqn:Ea.
  - apply mem_str_In in Ea. symmetry. apply Hab. exact Ea.
  - destruct (mem_str k b) eqn:Eb; [|reflexivity].
    apply mem_str_In in Eb. specialize (Hba k Eb). congruence.
Qed.

Definition supported (t : qtype) : list str :=
  match t with
  | TBuild => a_SUPPORTED_BUILD_KEYS | TContainer => a_SUPPORTED_CONTAINER_KEYS | TImage => a_SUPPORTED_IMAGE_KEYS
  | TKube => a_SUPPORTED_KUBE_KEYS | TNetwork => a_SUPPORTED_NETWORK_KEYS | TPod => a_SUPPORTED_POD_KEYS | TVolume => a_SUPPORTED_VOLUME_KEYS
  end.
Definition documented (t : qtype) : list str :=
  match t with
  | TBuild => doc_keys_build | TContainer => doc_keys_container | TImage => doc_keys_image
  | TKube => doc_keys_kube | TNetwork => doc_keys_network | TPod => doc_keys_pod | TVolume => doc_keys_volume
  end.

Lemma tables_agree : forall t, same_set (supported t) (documented t) = true.
Proof. intros []; vm_compute; reflexivity. Qed.

Lemma quadlet_tables_agree : same_set a_SUPPORTED_QUADLET_KEYS doc_keys_quadlet = true.
Proof. vm_compute. reflexivity. Qed.

Lemma supported_iff_documented t k : mem_str k (supported t) = mem_str k (documented t).
Proof. apply same_set_mem. apply tables_agree. Qed.

(* ---- the key check ---- *)
Definition keys_of (u : unit) (sec : str) : list str := map fst (section_entries u sec).

Lemma check_rejects u sec sup k : In k (keys_of u sec) -> mem_str k sup = false ->
  exists k', check_for_unknown_keys u sec sup = CErr (EUnknownKey k') None /\ mem_str k' sup = false /\ In k' (keys_of u sec).
Proof.
  unfold keys_of, check_for_unknown_keys. intros Hin Hm.
  destruct (find (fun e : entry => negb (mem_str (fst e) sup)) (section_entries u sec)) as [e|] eqn:E.
  - apply find_some in E. destruct E as [Hi He]. exists (fst e). repeat split.
    + apply negb_true_iff in He. exact He.
    + apply in_map. exact Hi.
  - apply in_map_iff in Hin. destruct Hin as [e [<- Hi]].
    pose proof (find_none _ _ E e Hi) as Hn. cbn in Hn. rewrite Hm in Hn. discriminate.
Qed.

Lemma check_accepts u sec sup : (forall k, In k (keys_of u sec) -> mem_str k sup = true) ->
  check_for_unknown_keys u sec sup = COk tt.
Proof.
  unfold keys_of, check_for_unknown_keys. intros H.
  destruct (find (fun e : entry => negb (mem_str (fst e) sup)) (section_entries u sec)) as [e|] eqn:E; [|reflexivity].
  apply find_some in E. destruct E as [Hi He]. rewrite (H (fst e) (in_map fst _ _ Hi)) in He. discriminate.
Qed.

Lemma bind_not_ok {E A B} (m : res E A) (f : A -> res E B) : (forall a, m <> COk a) -> forall b, bind m f <> COk b.
Proof. intros H b. destruct m; cbn; try discriminate. exfalso. apply (H a). reflexivity. Qed.

Section WithParams.
Variable podman : str.
Variable exists_path : str -> bool.
Variable kill_fixed mount_nl : bool.

Lemma prologue_rejects u path tbl t k : In k (keys_of u (type_section t)) -> mem_str k (supported t) = false ->
  forall r, prologue u path tbl t (supported t) <> COk r.
Proof.
  intros Hin Hm r. unfold prologue.
  destruct (file_name path); [|discriminate]. destruct (tbl_get tbl l); [|discriminate].
  destruct (check_rejects u (type_section t) (supported t) k Hin Hm) as (k' & Hc & _).
  unfold section_unquotes. destruct (forallb _ (section_entries u (type_section t))); cbn [bind]; [|discriminate].
  rewrite Hc. cbn [bind]. discriminate.
Qed.

Notation conv := (convert_one podman exists_path kill_fixed mount_nl).

(* an undocumented key in the unit's own section: no service is generated, whatever else the unit contains *)
Theorem reject_own u path tbl t k : In k (keys_of u (type_section t)) -> mem_str k (documented t) = false ->
  forall r, conv u path t tbl <> COk r.
Proof.
  intros Hin Hd. rewrite <- supported_iff_documented in Hd.
  destruct t; cbn [convert_one];
    try (unfold from_container, from_image, from_network, from_volume, from_kube, from_pod;
         apply bind_not_ok; apply (prologue_rejects u path tbl _ k Hin Hd)).
  (* build: the same checks, inline *)
  intros r. unfold from_build.
  destruct (file_name path); [|discriminate]. destruct (tbl_get tbl l); [|discriminate].
  destruct (i_resource_name i); [discriminate|].
  destruct (check_rejects u c_BUILD_SECTION a_SUPPORTED_BUILD_KEYS k Hin Hd) as (k' & Hc & _).
  unfold section_unquotes. destruct (forallb _ (section_entries u c_BUILD_SECTION)); cbn [bind]; [|discriminate].
  rewrite Hc. cbn [bind]. discriminate.
Qed.

(* ... and when nothing else is wrong before the check, the error names an undocumented key of the unit *)
Theorem reject_names_key u path tbl t k fname i :
  t <> TBuild -> file_name path = Some fname -> tbl_get tbl fname = Some i ->
  forallb (fun e : entry => match unquote_value (snd e) with Some _ => true | None => false end) (section_entries u (type_section t)) = true ->
  In k (keys_of u (type_section t)) -> mem_str k (documented t) = false ->
  exists k', conv u path t tbl = CErr (EUnknownKey k') None /\ mem_str k' (documented t) = false /\ In k' (keys_of u (type_section t)).
Proof.
  intros Hnb Hf Ht Huq Hin Hd. rewrite <- supported_iff_documented in Hd.
  destruct (check_rejects u (type_section t) (supported t) k Hin Hd) as (k' & Hc & Hk' & Hin').
  exists k'. rewrite <- supported_iff_documented. split; [|split; assumption].
  destruct t; try congruence; cbn [convert_one];
    unfold from_container, from_image, from_network, from_volume, from_kube, from_pod, prologue;
    rewrite Hf, Ht; unfold section_unquotes; cbn [type_section supported] in *; rewrite Huq; cbn [bind]; rewrite Hc; reflexivity.
Qed.

(* an undocumented key in [Quadlet] likewise *)
Theorem reject_quadlet u path tbl t k : In k (keys_of u c_QUADLET_SECTION) -> mem_str k doc_keys_quadlet = false ->
  forall r, conv u path t tbl <> COk r.
Proof.
  intros Hin Hd. rewrite <- (same_set_mem _ _ quadlet_tables_agree) in Hd.
  destruct (check_rejects u c_QUADLET_SECTION a_SUPPORTED_QUADLET_KEYS k Hin Hd) as (k' & Hc & _).
  assert (P : forall t0, forall r, prologue u path tbl t0 (supported t0) <> COk r).
  { intros t0 r. unfold prologue. destruct (file_name path); [|discriminate]. destruct (tbl_get tbl l); [|discriminate].
    unfold section_unquotes.
    destruct (forallb _ (section_entries u (type_section t0))); cbn [bind]; [|discriminate].
    destruct (check_for_unknown_keys u (type_section t0) (supported t0)) as [[]| | |]; cbn [bind]; try discriminate.
    destruct (forallb _ (section_entries u SEC_Q)); cbn [bind]; [|discriminate].
    unfold SEC_Q. rewrite Hc. cbn [bind]. discriminate. }
  destruct t; cbn [convert_one].
  2: { unfold from_container. apply bind_not_ok. apply (P TContainer). }
  2: { unfold from_image. apply bind_not_ok. apply (P TImage). }
  2: { unfold from_kube. apply bind_not_ok. apply (P TKube). }
  2: { unfold from_network. apply bind_not_ok. apply (P TNetwork). }
  2: { unfold from_pod. apply bind_not_ok. apply (P TPod). }
  2: { unfold from_volume. apply bind_not_ok. apply (P TVolume). }
  intros r. unfold from_build.
  destruct (file_name path); [|discriminate]. destruct (tbl_get tbl l); [|discriminate].
  destruct (i_resource_name i); [discriminate|].
  unfold section_unquotes. destruct (forallb _ (section_entries u c_BUILD_SECTION)); cbn [bind]; [|discriminate].
  destruct (check_for_unknown_keys u c_BUILD_SECTION a_SUPPORTED_BUILD_KEYS) as [[]| | |]; cbn [bind]; try discriminate.
  destruct (forallb _ (section_entries u SEC_Q)); cbn [bind]; [|discriminate].
  unfold SEC_Q. rewrite Hc. cbn [bind]. discriminate.
Qed.

(* ---- conversely: documented keys only => never an unknown-key error ---- *)
Lemma lift_no_unknown {A} (m : bres A) k tb : lift m <> CErr (EUnknownKey k) tb.
Proof. destruct m; cbn; discriminate. Qed.

Lemma bind_no_unknown {A B} (m : cres A) (f : A -> cres B) k tb :
  (forall k' tb', m <> CErr (EUnknownKey k') tb') -> (forall a, f a <> CErr (EUnknownKey k) tb) -> bind m f <> CErr (EUnknownKey k) tb.
Proof. intros Hm Hf. destruct m; cbn; try discriminate; [apply Hf|]. intros H. injection H as -> ->. exact (Hm k tb eq_refl). Qed.

Lemma prologue_no_unknown u path tbl t :
  (forall k, In k (keys_of u (type_section t)) -> mem_str k (supported t) = true) ->
  (forall k, In k (keys_of u c_QUADLET_SECTION) -> mem_str k a_SUPPORTED_QUADLET_KEYS = true) ->
  forall k tb, prologue u path tbl t (supported t) <> CErr (EUnknownKey k) tb.
Proof.
  intros H1 H2 k tb. unfold prologue. destruct (file_name path); [|discriminate]. destruct (tbl_get tbl l); [|discriminate].
  unfold section_unquotes. destruct (forallb _ (section_entries u (type_section t))); cbn [bind]; [|discriminate].
  rewrite (check_accepts _ _ _ H1). cbn [bind].
  destruct (forallb _ (section_entries u SEC_Q)); cbn [bind]; [|discriminate].
  unfold SEC_Q. rewrite (check_accepts _ _ _ H2). cbn [bind]. discriminate.
Qed.

Theorem accept_documented u path tbl t :
  (forall k, In k (keys_of u (type_section t)) -> mem_str k (documented t) = true) ->
  (forall k, In k (keys_of u c_QUADLET_SECTION) -> mem_str k doc_keys_quadlet = true) ->
  forall k tb, conv u path t tbl <> CErr (EUnknownKey k) tb.
Proof.
  intros H1 H2 k tb.
  assert (H1' : forall k, In k (keys_of u (type_section t)) -> mem_str k (supported t) = true)
    by (intros k0 Hk0; rewrite supported_iff_documented; apply H1; exact Hk0).
  assert (H2' : forall k, In k (keys_of u c_QUADLET_SECTION) -> mem_str k a_SUPPORTED_QUADLET_KEYS = true)
    by (intros k0 Hk0; rewrite (same_set_mem _ _ quadlet_tables_agree); apply H2; exact Hk0).
  destruct t; cbn [convert_one];
    try (unfold from_container, from_image, from_network, from_volume, from_kube, from_pod;
         apply bind_no_unknown; [apply (prologue_no_unknown u path tbl _ H1' H2')|intros [inf svc]; apply lift_no_unknown]).
  unfold from_build.
  destruct (file_name path); [|discriminate]. destruct (tbl_get tbl l); [|discriminate].
  destruct (i_resource_name i); [discriminate|].
  unfold section_unquotes. destruct (forallb _ (section_entries u c_BUILD_SECTION)); cbn [bind]; [|discriminate].
  cbn [type_section supported] in H1'. rewrite (check_accepts _ _ _ H1'). cbn [bind].
  destruct (forallb _ (section_entries u SEC_Q)); cbn [bind]; [|discriminate].
  unfold SEC_Q. rewrite (check_accepts _ _ _ H2'). cbn [bind]. apply lift_no_unknown.
Qed.

End WithParams.
