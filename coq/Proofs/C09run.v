(* C09 over whole runs: how converting one unit changes the name table, and what a pod's service gets from it. *)
From QV Require Import Model.Base Generated.Tables Model.Quote Model.Unquote Model.Split Model.PortRange Model.Unit Model.Lex Model.Parser
  Model.Path Model.Names Model.Convert Model.Process Spec.Passthrough Proofs.Util Proofs.C15 Proofs.C07 Proofs.C08 Proofs.C07run Proofs.C09.
Open Scope N_scope.

(* ---- an error raised by a handler never carries a table: only with_tbl attaches one ---- *)
Definition plain {E A} (r : res E A) : Prop := forall e t, r <> CErr e (Some t).

Lemma plain_ok {E A} (a : A) : plain (@COk E A a).  Proof. intros e t H. discriminate. Qed.
Lemma plain_err {E A} (e : E) : plain (@err E A e).  Proof. intros e' t H. discriminate. Qed.
Lemma plain_panic {E A} : plain (@CPanic E A).  Proof. intros e t H. discriminate. Qed.
Lemma plain_skip {E A} : plain (@CSkip E A).  Proof. intros e t H. discriminate. Qed.
Lemma plain_bind {E A B} (m : res E A) (f : A -> res E B) : plain m -> (forall a, plain (f a)) -> plain (bind m f).
Proof. intros Hm Hf e t. destruct m as [a|e0 tb| |]; cbn [bind]; [apply Hf| |discriminate|discriminate]. intros H. injection H as -> ->. exact (Hm e t eq_refl). Qed.
Lemma plain_lift {A} (m : bres A) : plain m -> plain (lift m).
Proof. intros Hm e t. destruct m as [a|b tb| |]; cbn [lift]; try discriminate. intros H. injection H as _ ->. exact (Hm b t eq_refl). Qed.
Lemma plain_lk {E} u sec k : plain (@lk E u sec k).
Proof. intros e t. unfold lk. destruct (lookup_last u sec k) as [[s|]|]; discriminate. Qed.
Lemma plain_lk_all {E} u sec k : plain (@lk_all E u sec k).
Proof. intros e t. unfold lk_all, of_pres. destruct (lookup_all u sec k); discriminate. Qed.

Lemma plain_let {E A B} (e : B) (f : B -> res E A) : (forall x, plain (f x)) -> plain (let x := e in f x).
Proof. intros H. exact (H e). Qed.

Ltac pl :=
  repeat first
    [ apply plain_ok | apply plain_err | apply plain_panic | apply plain_skip | apply plain_lk | apply plain_lk_all
    | solve [auto with plain]
    | apply plain_lift
    | match goal with |- plain (let _ := _ in _) => apply plain_let; intros end
    | match goal with |- plain (bind _ _) => apply plain_bind; [|intros] end
    | match goal with
      | |- plain (match ?x with _ => _ end) => destruct x
      | |- plain (if ?b then _ else _) => destruct b
      end ].

Create HintDb plain.

Lemma plain_check u sec sup : plain (check_for_unknown_keys u sec sup).
Proof. unfold check_for_unknown_keys. pl. Qed.
Lemma plain_unquotes {E} u sec : plain (@section_unquotes E u sec).
Proof. unfold section_unquotes. pl. Qed.
Lemma plain_base podman u sec : plain (base_command podman u sec).
Proof. unfold base_command. pl. Qed.
Lemma plain_add_raw_exec svc k args : plain (add_raw_exec svc k args).
Proof. unfold add_raw_exec. pl. Qed.
Lemma plain_add_strings u sec keys : forall args, plain (add_strings u sec keys args).
Proof. induction keys as [|[k f] r IH]; intros args; cbn [add_strings]; pl; try apply IH. Qed.
Lemma plain_add_all_strings u sec keys : forall args, plain (add_all_strings u sec keys args).
Proof. induction keys as [|[k f] r IH]; intros args; cbn [add_all_strings]; pl; try apply IH. Qed.
#[export] Hint Resolve plain_check plain_unquotes plain_base plain_add_raw_exec plain_add_strings plain_add_all_strings : plain.

Lemma plain_health u sec args : plain (handle_health u sec args).
Proof. unfold handle_health. pl. Qed.
Lemma plain_image_source n svc tbl : plain (handle_image_source n svc tbl).
Proof. unfold handle_image_source. pl. Qed.
Lemma plain_log_driver u sec args : plain (handle_log_driver u sec args).
Proof. unfold handle_log_driver. pl. Qed.
#[export] Hint Resolve plain_health plain_image_source plain_log_driver : plain.

Lemma plain_networks_loop tbl nets : forall svc args, plain (networks_loop nets svc tbl args).
Proof.
  induction nets as [|n r IH]; intros svc args; cbn [networks_loop]; [pl|]. destruct n as [|c n]; [apply IH|].
  destruct (match split_once cCOLON (c :: n) with Some (a, b) => (a, Some b) | None => (c :: n, None) end) as [name opts]. cbv zeta.
  apply plain_bind; [pl|]. intros [rn svc']. destruct opts; [destruct (ends_with _ name); [pl|apply IH]|apply IH].
Qed.
#[export] Hint Resolve plain_networks_loop : plain.
Lemma plain_networks u sec svc tbl args : plain (handle_networks u sec svc tbl args).
Proof. unfold handle_networks. pl. Qed.
Lemma plain_set_if_absent svc k v : plain (set_if_absent svc k v).
Proof. unfold set_if_absent. pl. Qed.
#[export] Hint Resolve plain_networks plain_set_if_absent : plain.
Lemma plain_one_shot svc r : plain (one_shot_section svc r).
Proof. unfold one_shot_section. pl. Qed.
Lemma plain_abs p up : plain (abs_from_unit p up).
Proof. unfold abs_from_unit. pl. Qed.
#[export] Hint Resolve plain_one_shot plain_abs : plain.
Lemma plain_storage up svc src tbl ci : plain (handle_storage_source up svc src tbl ci).
Proof. unfold handle_storage_source. pl. Qed.
Lemma plain_user u sec args : plain (handle_user u sec args).
Proof. unfold handle_user. pl. Qed.
Lemma plain_user_remap u sec args sm : plain (handle_user_remap u sec args sm).
Proof. unfold handle_user_remap. cbv zeta. pl. Qed.
#[export] Hint Resolve plain_storage plain_user plain_user_remap : plain.
Lemma plain_user_mappings u sec args sm : plain (handle_user_mappings u sec args sm).
Proof. unfold handle_user_mappings. cbv zeta. pl. Qed.
#[export] Hint Resolve plain_user_mappings : plain.

Lemma plain_volumes_loop pinned up tbl vols : forall svc args, plain (volumes_loop pinned up vols svc tbl args).
Proof.
  induction vols as [|v r IH]; intros svc args; cbn [volumes_loop]; [pl|].
  lazymatch goal with |- plain (match ?e with pair _ _ => _ end) => destruct e as [[source dest] options] end.
  destruct source; [apply IH|]. apply plain_bind; [pl|]. intros [src svc']. apply IH.
Qed.
#[export] Hint Resolve plain_volumes_loop : plain.
Lemma plain_volumes pinned u up sec svc tbl args : plain (handle_volumes pinned u up sec svc tbl args).
Proof. unfold handle_volumes. pl. Qed.
Lemma plain_pod u sec svc sp tbl args : plain (handle_pod u sec svc sp tbl args).
Proof. unfold handle_pod. cbv zeta. pl. Qed.
Lemma plain_hswd u up svc t : plain (handle_set_working_directory u up svc t).
Proof. unfold handle_set_working_directory. cbv zeta. pl. Qed.
#[export] Hint Resolve plain_volumes plain_pod plain_hswd : plain.
Lemma plain_mount_tokens up tbl tokens : forall svc acc, plain (mount_tokens up tokens svc tbl acc).
Proof.
  induction tokens as [|t r IH]; intros svc acc; cbn [mount_tokens]; [pl|]. destruct (_ || _); [|apply IH].
  destruct (split_once cEQ t) as [[a v]|]; [|pl]. apply plain_bind; [pl|]. intros [src svc']. apply IH.
Qed.
#[export] Hint Resolve plain_mount_tokens : plain.
Lemma plain_resolve_mount nl up m svc tbl : plain (resolve_mount nl up m svc tbl).
Proof. unfold resolve_mount. cbv zeta. pl. Qed.
#[export] Hint Resolve plain_resolve_mount : plain.
Lemma plain_mounts_loop nl up tbl ms : forall svc args, plain (mounts_loop nl up ms svc tbl args).
Proof. induction ms as [|m r IH]; intros svc args; cbn [mounts_loop]; [pl|]. apply plain_bind; [pl|]. intros [s svc']. apply IH. Qed.
Lemma plain_expose ports : forall args, plain (expose_loop ports args).
Proof. induction ports as [|p r IH]; intros args; cbn [expose_loop]; pl; apply IH. Qed.
Lemma plain_default_resource_name path : plain (default_resource_name path).
Proof. unfold default_resource_name. pl. Qed.
#[export] Hint Resolve plain_mounts_loop plain_expose plain_default_resource_name : plain.
Lemma plain_prologue u path tbl t sup : plain (prologue u path tbl t sup).
Proof. unfold prologue. cbv zeta. pl. Qed.
Lemma plain_container_name {E} u path : plain (@container_name E u path).
Proof. unfold container_name. pl. Qed.
#[export] Hint Resolve plain_prologue plain_container_name : plain.

Lemma plain_ct_service podman kf u path svc : plain (ct_service podman kf u path svc).
Proof. unfold ct_service. cbv zeta. pl. Qed.
Lemma plain_ct_run_head u base cname svc : plain (ct_run_head u base cname svc).
Proof. unfold ct_run_head. cbv zeta. pl. Qed.
Lemma plain_ct_net_notify u tbl args svc : plain (ct_net_notify u tbl args svc).
Proof. unfold ct_net_notify. cbv zeta. pl. Qed.
Lemma plain_ct_security ex u args : plain (ct_security ex u args).
Proof. unfold ct_security. pl. Qed.
Lemma plain_envfiles path l : plain ((fix go (l : list str) : bres (list str) :=
                    match l with
                    | [] => COk []
                    | f :: r => do a <- abs_from_unit f path; do rest <- go r; COk (a :: rest)
                    end) l).
Proof. induction l as [|f r IH]; pl. Qed.
#[export] Hint Resolve plain_envfiles : plain.
Lemma plain_ct_labels_ports u path penv args : plain (ct_labels_ports u path penv args).
Proof. unfold ct_labels_ports. pl. Qed.
#[export] Hint Resolve plain_ct_service plain_ct_run_head plain_ct_net_notify plain_ct_security plain_ct_labels_ports : plain.

(* ---- the table a conversion leaves behind ---- *)
Definition tbl_out (tbl : table) (r : cres (unit * str * table)) : table :=
  match r with COk (_, _, t') => t' | CErr _ (Some t') => t' | _ => tbl end.

Definition res_of (r : cres (unit * str * table)) : conv_res :=
  match r with COk (svc, sp, _) => ROk svc sp | CErr e _ => RErr e | CPanic => RPanic | CSkip => RSkip end.

Lemma convert_all_cons podman ex kf mn x r tbl :
  convert_all podman ex kf mn (x :: r) tbl =
  let r0 := convert_one podman ex kf mn (l_unit x) (l_path x) (i_type (l_info x)) tbl in
  (l_path x, res_of r0) :: convert_all podman ex kf mn r (tbl_out tbl r0).
Proof. cbn [convert_all]. cbv zeta. destruct (convert_one _ _ _ _ _ _ _ _) as [[[s p] t]|e [t|]| |]; reflexivity. Qed.

(* a successful result returns the table it was given *)
Definition retT {E A} (tbl : table) (r : res E (A * table)) : Prop := forall v, r = COk v -> snd v = tbl.

Lemma retT_ok {E A} tbl (a : A) : @retT E A tbl (COk (a, tbl)).  Proof. intros v H. injection H as <-. reflexivity. Qed.
Lemma retT_err {E A} tbl (e : E) : @retT E A tbl (err e).  Proof. intros v H. discriminate. Qed.
Lemma retT_panic {E A} tbl : @retT E A tbl CPanic.  Proof. intros v H. discriminate. Qed.
Lemma retT_skip {E A} tbl : @retT E A tbl CSkip.  Proof. intros v H. discriminate. Qed.
Lemma retT_bind {E X A} tbl (m : res E X) (f : X -> res E (A * table)) : (forall a, retT tbl (f a)) -> retT tbl (bind m f).
Proof. intros Hf v. destruct m; cbn [bind]; try discriminate. apply Hf. Qed.
Lemma retT_lift {A} tbl (m : bres (A * table)) : retT tbl m -> retT tbl (lift m).
Proof. intros Hm v. destruct m as [a|b tb| |]; cbn [lift]; try discriminate. intros H. injection H as <-. exact (Hm a eq_refl). Qed.

Ltac rt :=
  repeat first
    [ apply retT_ok | apply retT_err | apply retT_panic | apply retT_skip
    | apply retT_lift
    | match goal with |- retT _ (bind _ _) => apply retT_bind; intros end
    | match goal with
      | |- retT _ (match ?x with _ => _ end) => destruct x
      | |- retT _ (if ?b then _ else _) => destruct b
      end ].

Section TableEffects.
Variables (podman : str) (exists_path : str -> bool) (kill_fixed mount_nl : bool).

Lemma tbl_out_keeps tbl (r : cres (unit * str * table)) : plain r -> retT tbl r -> tbl_out tbl r = tbl.
Proof.
  intros Hp Hr. destruct r as [[[s p] t]|e [t|]| |]; cbn [tbl_out]; try reflexivity.
  - exact (Hr _ eq_refl).
  - exfalso. exact (Hp e t eq_refl).
Qed.

Lemma kube_keeps u path tbl : tbl_out tbl (from_kube podman kill_fixed u path tbl) = tbl.
Proof.
  apply tbl_out_keeps; unfold from_kube; cbv zeta.
  - pl.
  - rt.
Qed.

Lemma pod_keeps u path tbl : tbl_out tbl (from_pod podman mount_nl u path tbl) = tbl.
Proof. apply tbl_out_keeps; unfold from_pod; cbv zeta; [pl|rt]. Qed.

Lemma build_keeps u path tbl : tbl_out tbl (from_build podman mount_nl u path tbl) = tbl.
Proof. apply tbl_out_keeps; unfold from_build; cbv zeta; [pl|rt]. Qed.
End TableEffects.

(* ---- table projections and the two kinds of update ---- *)
Lemma tbl_get_set_same t n i : tbl_get (tbl_set t n i) n = Some i.
Proof. unfold tbl_get. induction t as [|[m x] r IH]; cbn [tbl_set assoc_str]; [rewrite str_eqb_refl; reflexivity|].
  destruct (str_eqb_spec n m) as [->|Hne]; cbn [assoc_str]; [rewrite str_eqb_refl; reflexivity|].
  destruct (str_eqb_spec n m); [congruence|exact IH]. Qed.

Lemma tbl_get_set_other t n i n' : n' <> n -> tbl_get (tbl_set t n i) n' = tbl_get t n'.
Proof. intros Hne. unfold tbl_get. induction t as [|[m x] r IH]; cbn [tbl_set assoc_str].
  - destruct (str_eqb_spec n' n); [congruence|reflexivity].
  - destruct (str_eqb_spec n m) as [->|Hm]; cbn [assoc_str].
    + destruct (str_eqb_spec n' m); [congruence|reflexivity].
    + destruct (str_eqb_spec n' m); [reflexivity|exact IH]. Qed.

Definition conts (t : table) (P : str) : list str := match tbl_get t P with Some i => i_containers i | None => [] end.
Definition sfile (t : table) (P : str) : option str := option_map service_file_name (tbl_get t P).

Definition ResUpd (tbl t' : table) : Prop :=
  t' = tbl \/ exists k inf r, tbl_get tbl k = Some inf /\ t' = tbl_set tbl k (with_resource inf r).

Lemma resupd_conts tbl t' P : ResUpd tbl t' -> conts t' P = conts tbl P.
Proof.
  intros [->|(k & inf & r & Hk & ->)]; [reflexivity|]. unfold conts. destruct (str_eqb_spec P k) as [->|Hne].
  - rewrite tbl_get_set_same, Hk. reflexivity.
  - rewrite tbl_get_set_other by exact Hne. reflexivity.
Qed.

Lemma resupd_sfile tbl t' P : ResUpd tbl t' -> sfile t' P = sfile tbl P.
Proof.
  intros [->|(k & inf & r & Hk & ->)]; [reflexivity|]. unfold sfile. destruct (str_eqb_spec P k) as [->|Hne].
  - rewrite tbl_get_set_same, Hk. reflexivity.
  - rewrite tbl_get_set_other by exact Hne. reflexivity.
Qed.

Section MoreEffects.
Variables (podman : str) (exists_path : str -> bool) (kill_fixed mount_nl : bool).

Lemma plain_image_body u svc : plain (image_body podman u svc).
Proof. unfold image_body. cbv zeta. pl. Qed.
Lemma plain_network_body u n svc : plain (network_body podman u n svc).
Proof. unfold network_body. cbv zeta. pl. Qed.
Lemma plain_volume_body u n svc tbl : plain (volume_body podman u n svc tbl).
Proof. unfold volume_body. cbv zeta. pl. Qed.
Lemma plain_image_resource u : plain (image_resource u).
Proof. unfold image_resource. pl. Qed.
Lemma plain_network_name u path : plain (network_name u path).
Proof. unfold network_name. pl. Qed.
Lemma plain_volume_name u path : plain (volume_name u path).
Proof. unfold volume_name. pl. Qed.
Hint Resolve plain_image_body plain_network_body plain_volume_body plain_image_resource plain_network_name plain_volume_name : plain.

Lemma image_upd u path tbl : ResUpd tbl (tbl_out tbl (from_image podman u path tbl)).
Proof.
  destruct (from_image podman u path tbl) as [[[s p] t]|e [t|]| |] eqn:E; cbn [tbl_out]; try (left; reflexivity).
  - right. destruct (image_sets_table _ _ _ _ _ _ _ E) as (fname & inf & name & _ & Ht & _ & ->). exists fname, inf, name. auto.
  - exfalso. assert (P : plain (from_image podman u path tbl)) by (unfold from_image; pl). exact (P e t E).
Qed.


Lemma network_upd u path tbl : ResUpd tbl (tbl_out tbl (from_network podman u path tbl)).
Proof.
  destruct (from_network podman u path tbl) as [[[s p] t]|e [t|]| |] eqn:E; cbn [tbl_out]; try (left; reflexivity).
  - right. destruct (network_sets_table _ _ _ _ _ _ _ E) as (fname & inf & name & _ & Ht & _ & ->). exists fname, inf, name. auto.
  - exfalso. assert (P : plain (from_network podman u path tbl)) by (unfold from_network; pl). exact (P e t E).
Qed.

Lemma volume_upd u path tbl : ResUpd tbl (tbl_out tbl (from_volume podman u path tbl)).
Proof.
  destruct (from_volume podman u path tbl) as [[[s p] t]|e [t|]| |] eqn:E; cbn [tbl_out]; try (left; reflexivity).
  - right. destruct (volume_sets_table _ _ _ _ _ _ _ E) as (fname & inf & name & _ & Ht & _ & ->). exists fname, inf, name. auto.
  - revert E. unfold from_volume.
    destruct (prologue u path tbl TVolume a_SUPPORTED_VOLUME_KEYS) as [[inf svc0]|e0 [t0|]| |] eqn:Ep; cbn [bind]; try discriminate.
    + destruct (prologue_ok _ _ _ _ _ _ _ Ep) as (fname & Ef & Et). cbv zeta.
      destruct (volume_name u path) as [name|e1 [t1|]| |] eqn:En; cbn [bind lift]; try discriminate.
      * rewrite Ef. intros H. right. exists fname, inf, name. split; [exact Et|].
        destruct (volume_body podman u name (rename_own svc0 TVolume) (tbl_set tbl fname (with_resource inf name))) as [sv|e2 [t2|]| |] eqn:Eb;
          cbn [bind with_tbl lift] in H; try discriminate.
        -- exfalso. exact (plain_volume_body u name _ _ e2 t2 Eb).
        -- injection H as _ <-. reflexivity.
      * exfalso. exact (plain_volume_name u path e1 t1 En).
    + exfalso. exact (plain_prologue u path tbl TVolume _ e0 t0 Ep).
Qed.
End MoreEffects.
#[export] Hint Resolve plain_image_body plain_network_body plain_volume_body plain_image_resource plain_network_name plain_volume_name : plain.

(* ---- the container converter's effect on the table ---- *)
Lemma bind_errS_elim {E A B} (m : res E A) (f : A -> res E B) e t (P : Prop) :
  plain m -> (forall a, m = COk a -> f a = CErr e (Some t) -> P) -> bind m f = CErr e (Some t) -> P.
Proof. intros Hp H. destruct m as [a|e0 tb| |]; cbn [bind]; try discriminate; [apply H; reflexivity|]. intros X. injection X as -> ->. exfalso. exact (Hp e t eq_refl). Qed.
Ltac belS := lazymatch goal with |- bind ?m ?f = CErr ?e (Some ?t) -> ?P => refine (@bind_errS_elim _ _ _ m f e t P _ _); [pl|cbv beta] end.

Definition start_with_pod (u : unit) : bool :=
  match lookup_bool u c_CONTAINER_SECTION (s2l "StartWithPod") with Some b => b | None => true end.

(* the pod a container registers with, if any: Pod= names a .pod file of the table and StartWithPod is not switched off *)
Definition pod_reg (u : unit) (tbl : table) : option (str * info) :=
  match @lk berr u c_CONTAINER_SECTION (s2l "Pod") with
  | COk (Some (c :: p)) =>
      if ends_with (s2l ".pod") (c :: p) then
        match tbl_get tbl (c :: p) with
        | Some i => if start_with_pod u then Some (c :: p, i) else None
        | None => None
        end
      else None
  | _ => None
  end.

Definition reg_tbl (u : unit) (tbl : table) (sp : str) : table :=
  match pod_reg u tbl with Some (P, i) => tbl_set tbl P (with_container i sp) | None => tbl end.

Lemma handle_pod_table u svc sp tbl args a s t' :
  handle_pod u c_CONTAINER_SECTION svc sp tbl args = COk (a, s, t') -> t' = reg_tbl u tbl sp.
Proof.
  unfold handle_pod, reg_tbl, pod_reg, start_with_pod. destruct (@lk berr u c_CONTAINER_SECTION (s2l "Pod")) as [[[|c p]|]| | |]; cbn [bind]; try discriminate.
  - intros H. injection H as _ _ <-. reflexivity.
  - destruct (ends_with (s2l ".pod") (c :: p)); cbn [negb]; [|discriminate].
    destruct (tbl_get tbl (c :: p)); [|discriminate]. intros H. injection H as _ _ <-.
    destruct (match lookup_bool u c_CONTAINER_SECTION (s2l "StartWithPod") with Some b => b | None => true end); reflexivity.
  - intros H. injection H as _ _ <-. reflexivity.
Qed.

Section ContainerEffect.
Variables (podman : str) (exists_path : str -> bool) (kill_fixed mount_nl : bool).
Notation fc := (from_container podman exists_path kill_fixed mount_nl).

Lemma container_ok_out u path tbl svc sp t' : fc u path tbl = COk (svc, sp, t') ->
  exists inf svc0, prologue u path tbl TContainer a_SUPPORTED_CONTAINER_KEYS = COk (inf, svc0) /\
                   sp = service_file_name inf /\ t' = reg_tbl u tbl sp.
Proof.
  unfold from_container. cbv zeta. bel. intros [i svc0] Hp H. exists i, svc0. split; [exact Hp|].
  apply lift_ok in H. revert H. bel. intros image0 _. bel. intros rootfs0 _.
  set (image := match image0 with Some s => s | None => [] end). set (rootfs := match rootfs0 with Some s => s | None => [] end).
  clearbody image rootfs. destruct image as [|c im], rootfs as [|d rf]; try discriminate.
  all: bel; intros [image1 svc1] H1; bel; intros [[[cname penv] base] svc2] H2; bel; intros [a3 svc3] H3;
    bel; intros [a4 svc4] H4; bel; intros a5 _; bel; intros [a6 svc6] H6; bel; intros a7 _; bel; intros [a8 svc8] H8;
    bel; intros a9 _; bel; intros [[a10 svc10] tbl10] H10; intros H; apply with_tbl_ok in H; revert H;
    bel; intros svc11 H11; intros H; injection H as _ <- <-; split; [reflexivity|eapply handle_pod_table; exact H10].
Qed.

Lemma container_errS_out u path tbl e t' : fc u path tbl = CErr e (Some t') ->
  exists inf svc0, prologue u path tbl TContainer a_SUPPORTED_CONTAINER_KEYS = COk (inf, svc0) /\
                   t' = reg_tbl u tbl (service_file_name inf) /\ e = EB EParsing.
Proof.
  unfold from_container. cbv zeta. belS. intros [i svc0] Hp H. exists i, svc0. split; [exact Hp|].
  assert (L : forall (m : bres (unit * str * table)), lift m = CErr e (Some t') -> exists b, m = CErr b (Some t') /\ e = EB b).
  { intros m. destruct m as [a|b tb| |]; cbn [lift]; try discriminate. intros X. injection X as <- ->. exists b. auto. }
  apply L in H. destruct H as [b [H ->]]. revert H. belS. intros image0 _. belS. intros rootfs0 _.
  set (image := match image0 with Some s => s | None => [] end). set (rootfs := match rootfs0 with Some s => s | None => [] end).
  clearbody image rootfs. destruct image as [|c im], rootfs as [|d rf]; try discriminate.
  all: belS; intros [image1 svc1] H1; belS; intros [[[cname penv] base] svc2] H2; belS; intros [a3 svc3] H3;
    belS; intros [a4 svc4] H4; belS; intros a5 _; belS; intros [a6 svc6] H6; belS; intros a7 _; belS; intros [a8 svc8] H8;
    belS; intros a9 _; belS; intros [[a10 svc10] tbl10] H10; intros H;
    rewrite (handle_pod_table _ _ _ _ _ _ _ _ H10) in H; unfold with_tbl in H;
    match type of H with context [add_raw_exec ?s ?k ?a] => unfold add_raw_exec in H; destruct (unit_add_raw s SEC_S k (quote_words a)) end;
    cbn [bind err] in H; try discriminate H; injection H as <- <-; split; reflexivity.
Qed.

(* in every other outcome the table is the one that was passed in *)
Lemma container_out u path tbl :
  tbl_out tbl (fc u path tbl) = tbl \/
  exists inf svc0, prologue u path tbl TContainer a_SUPPORTED_CONTAINER_KEYS = COk (inf, svc0) /\
                   tbl_out tbl (fc u path tbl) = reg_tbl u tbl (service_file_name inf).
Proof.
  destruct (fc u path tbl) as [[[s p] t]|e [t|]| |] eqn:E; cbn [tbl_out]; try (left; reflexivity); right.
  - destruct (container_ok_out _ _ _ _ _ _ E) as (inf & svc0 & Hp & -> & ->). exists inf, svc0. auto.
  - destruct (container_errS_out _ _ _ _ _ E) as (inf & svc0 & Hp & -> & _). exists inf, svc0. auto.
Qed.
End ContainerEffect.

(* ---- the table along a run ---- *)
Section RunTables.
Variables (podman : str) (exists_path : str -> bool) (kill_fixed mount_nl : bool).
Notation conv x tbl := (convert_one podman exists_path kill_fixed mount_nl (l_unit x) (l_path x) (i_type (l_info x)) tbl).

Definition step_tbl (x : loaded) (tbl : table) : table := tbl_out tbl (conv x tbl).

Definition own_sfile (x : loaded) (tbl : table) : option str :=
  match file_name (l_path x) with Some f => sfile tbl f | None => None end.

(* what converting x appends to the list of containers pod P starts *)
Definition regd (x : loaded) (tbl : table) (P : str) : list str :=
  match i_type (l_info x) with
  | TContainer =>
      match conv x tbl with
      | COk _ | CErr _ (Some _) =>
          match pod_reg (l_unit x) tbl, own_sfile x tbl with
          | Some (P', _), Some sp => if str_eqb P' P then [sp] else []
          | _, _ => []
          end
      | _ => []
      end
  | _ => []
  end.

Lemma conts_with_container tbl P' i sp P : tbl_get tbl P' = Some i ->
  conts (tbl_set tbl P' (with_container i sp)) P = conts tbl P ++ (if str_eqb P' P then [sp] else []).
Proof.
  intros Hg. unfold conts. destruct (str_eqb_spec P' P) as [->|Hne].
  - rewrite tbl_get_set_same, Hg. reflexivity.
  - rewrite tbl_get_set_other by (intros X; apply Hne; symmetry; exact X). rewrite app_nil_r. reflexivity.
Qed.

Lemma sfile_with_container tbl P' i sp P : tbl_get tbl P' = Some i ->
  sfile (tbl_set tbl P' (with_container i sp)) P = sfile tbl P.
Proof.
  intros Hg. unfold sfile. destruct (str_eqb_spec P P') as [->|Hne].
  - rewrite tbl_get_set_same, Hg. reflexivity.
  - rewrite tbl_get_set_other by exact Hne. reflexivity.
Qed.

Lemma pod_reg_in_table u tbl P i : pod_reg u tbl = Some (P, i) -> tbl_get tbl P = Some i.
Proof.
  unfold pod_reg. destruct (@lk berr u c_CONTAINER_SECTION (s2l "Pod")) as [[[|c p]|]| | |]; try discriminate.
  destruct (ends_with _ _); [|discriminate]. destruct (tbl_get tbl (c :: p)) eqn:E; [|discriminate].
  destruct (start_with_pod u); [|discriminate]. intros H. injection H as <- <-. exact E.
Qed.

Lemma step_sfile x tbl P : sfile (step_tbl x tbl) P = sfile tbl P.
Proof.
  unfold step_tbl. destruct (i_type (l_info x)) eqn:Et; cbn [convert_one].
  - rewrite build_keeps. reflexivity.
  - destruct (container_out podman exists_path kill_fixed mount_nl (l_unit x) (l_path x) tbl) as [->|(inf & svc0 & Hp & ->)]; [reflexivity|].
    unfold reg_tbl. destruct (pod_reg (l_unit x) tbl) as [[P' i]|] eqn:Er; [|reflexivity].
    apply sfile_with_container. eapply pod_reg_in_table. exact Er.
  - apply resupd_sfile, image_upd.
  - rewrite kube_keeps. reflexivity.
  - apply resupd_sfile, network_upd.
  - rewrite pod_keeps. reflexivity.
  - apply resupd_sfile, volume_upd.
Qed.

Lemma step_conts x tbl P : conts (step_tbl x tbl) P = conts tbl P ++ regd x tbl P.
Proof.
  unfold step_tbl, regd. destruct (i_type (l_info x)) eqn:Et; cbn [convert_one].
  - rewrite build_keeps, app_nil_r. reflexivity.
  - destruct (from_container podman exists_path kill_fixed mount_nl (l_unit x) (l_path x) tbl) as [[[s p] t]|e [t|]| |] eqn:E; cbn [tbl_out];
      try (rewrite app_nil_r; reflexivity).
    + destruct (container_ok_out _ _ _ _ _ _ _ _ _ _ E) as (inf & svc0 & Hp & -> & ->).
      destruct (prologue_ok _ _ _ _ _ _ _ Hp) as (fname & Ef & Eg). unfold own_sfile, sfile. rewrite Ef, Eg. cbn [option_map].
      unfold reg_tbl. destruct (pod_reg (l_unit x) tbl) as [[P' i]|] eqn:Er; [|rewrite app_nil_r; reflexivity].
      apply conts_with_container. eapply pod_reg_in_table. exact Er.
    + destruct (container_errS_out _ _ _ _ _ _ _ _ _ E) as (inf & svc0 & Hp & -> & _).
      destruct (prologue_ok _ _ _ _ _ _ _ Hp) as (fname & Ef & Eg). unfold own_sfile, sfile. rewrite Ef, Eg. cbn [option_map].
      unfold reg_tbl. destruct (pod_reg (l_unit x) tbl) as [[P' i]|] eqn:Er; [|rewrite app_nil_r; reflexivity].
      apply conts_with_container. eapply pod_reg_in_table. exact Er.
  - rewrite app_nil_r. apply resupd_conts, image_upd.
  - rewrite kube_keeps, app_nil_r. reflexivity.
  - rewrite app_nil_r. apply resupd_conts, network_upd.
  - rewrite pod_keeps, app_nil_r. reflexivity.
  - rewrite app_nil_r. apply resupd_conts, volume_upd.
Qed.

Fixpoint final_tbl (l : list loaded) (tbl : table) : table :=
  match l with [] => tbl | x :: r => final_tbl r (step_tbl x tbl) end.

Fixpoint members (l : list loaded) (tbl : table) (P : str) : list str :=
  match l with [] => [] | x :: r => regd x tbl P ++ members r (step_tbl x tbl) P end.

Lemma final_conts l : forall tbl P, conts (final_tbl l tbl) P = conts tbl P ++ members l tbl P.
Proof.
  induction l as [|x r IH]; intros tbl P; cbn [final_tbl members]; [rewrite app_nil_r; reflexivity|].
  rewrite IH, step_conts, app_assoc. reflexivity.
Qed.

Lemma final_sfile l : forall tbl P, sfile (final_tbl l tbl) P = sfile tbl P.
Proof. induction l as [|x r IH]; intros tbl P; cbn [final_tbl]; [reflexivity|]. rewrite IH. apply step_sfile. Qed.

Lemma convert_all_app l1 : forall l2 tbl,
  convert_all podman exists_path kill_fixed mount_nl (l1 ++ l2) tbl =
  convert_all podman exists_path kill_fixed mount_nl l1 tbl ++ convert_all podman exists_path kill_fixed mount_nl l2 (final_tbl l1 tbl).
Proof.
  induction l1 as [|x r IH]; intros l2 tbl; [reflexivity|]. cbn [app]. rewrite !convert_all_cons. cbv zeta. cbn [app final_tbl].
  f_equal. apply IH.
Qed.
End RunTables.

(* ---- the pod's own service: Wants= / Before= exactly the recorded containers ---- *)
Definition APODr : list (str * str) :=
  ABASE ++ [(SEC_S, s2l "ExecStart"); (SEC_S, s2l "ExecStop"); (SEC_S, s2l "ExecStopPost"); (SEC_S, s2l "ExecStartPre");
            (SEC_S, s2l "Environment"); (SEC_S, s2l "Type"); (SEC_S, s2l "Restart"); (SEC_S, s2l "PIDFile")].

Lemma incl_base_podr : incl ABASE APODr.
Proof. intros x Hx. unfold APODr. apply in_or_app. left. exact Hx. Qed.

Ltac in_podr := first [assumption | (unfold APODr, ABASE; cbn [In app]; auto 30)].

Lemma Ext_exact_U A K a b k : Ext A K a b -> ~ In (SEC_U, k) A -> vals b SEC_U k = vals a SEC_U k.
Proof. intros He Hn. destruct (He SEC_U k) as [post [E P]]; [discriminate|]. rewrite E, (P Hn), app_nil_r. reflexivity. Qed.

Section PodService.
Variables (podman : str) (mount_nl : bool).

Theorem pod_service_members u path tbl svc sp t' :
  from_pod podman mount_nl u path tbl = COk (svc, sp, t') ->
  exists inf svc0, prologue u path tbl TPod a_SUPPORTED_POD_KEYS = COk (inf, svc0) /\ sp = service_file_name inf /\
    vals svc SEC_U (s2l "Wants") = vals (rename_own svc0 TPod) SEC_U (s2l "Wants") ++ map quote_value (i_containers inf) /\
    vals svc SEC_U (s2l "Before") = vals (rename_own svc0 TPod) SEC_U (s2l "Before") ++ map quote_value (i_containers inf).
Proof.
  unfold from_pod. cbv zeta. bel. intros [inf svc0] Hp H. exists inf, svc0. split; [exact Hp|].
  apply lift_ok in H. revert H.
  bel. intros pn _. bel. intros name _. bel. intros sysl Hsy. bel. intros base _.
  bel. intros svc1 H1. bel. intros svc2 H2. bel. intros svc3 H3. bel. intros a1 _. bel. intros a2 _.
  bel. intros [a3 svc4] H4. bel. intros a4 _. bel. intros a5 _. bel. intros [a6 svc6] H6. bel. intros svc7 H7.
  intros H. injection H as <- <- _. split; [reflexivity|].
  fold (add_members (unit_add (rename_own svc0 TPod) SEC_U (s2l "RequiresMountsFor") (s2l "%t/containers")) (i_containers inf)) in H1.
  set (svc_b := add_members (unit_add (rename_own svc0 TPod) SEC_U (s2l "RequiresMountsFor") (s2l "%t/containers")) (i_containers inf)) in *.
  set (KK := [s2l "SyslogIdentifier"]).
  assert (E : Ext APODr KK svc_b
                (unit_add (unit_add (unit_add (unit_add svc7 SEC_S (s2l "Environment") (s2l "PODMAN_SYSTEMD_UNIT=%n")) SEC_S (s2l "Type") (s2l "forking"))
                   SEC_S (s2l "Restart") (s2l "on-failure")) SEC_S (s2l "PIDFile") (s2l "%t/%N.pid"))).
  { repeat (match goal with |- Ext ?A ?K ?a (unit_add ?b _ _ _) => apply (Ext_trans A K a b); [|apply Ext_add; in_podr] end).
    apply (Ext_trans _ _ _ svc6); [|eapply Ext_add_raw_exec; [|exact H7]; in_podr].
    apply (Ext_trans _ _ _ svc4); [|eapply Ext_handle_volumes; [exact incl_base_podr|exact H6]].
    apply (Ext_trans _ _ _ svc3); [|eapply Ext_handle_networks; [exact incl_base_podr|exact H4]].
    apply (Ext_trans _ _ _ svc2); [|eapply Ext_add_raw_exec; [|exact H3]; in_podr].
    apply (Ext_trans _ _ _ svc1); [|eapply Ext_add_raw_exec; [|exact H2]; in_podr].
    match type of H1 with add_raw_exec ?s _ _ = _ => apply (Ext_trans _ _ _ s); [|eapply Ext_add_raw_exec; [|exact H1]; in_podr] end.
    destruct sysl; [apply Ext_refl|]. apply Ext_set. unfold KK. cbn [In]. auto. }
  assert (N1 : ~ In (SEC_U, s2l "Wants") APODr) by (unfold APODr, ABASE; cbn [In app]; intros X; repeat (destruct X as [X|X]; [vm_compute in X; discriminate X|]); exact X).
  assert (N2 : ~ In (SEC_U, s2l "Before") APODr) by (unfold APODr, ABASE; cbn [In app]; intros X; repeat (destruct X as [X|X]; [vm_compute in X; discriminate X|]); exact X).
  rewrite (Ext_exact_U _ _ _ _ _ E N1), (Ext_exact_U _ _ _ _ _ E N2). unfold svc_b.
  destruct (members_wired (i_containers inf) (unit_add (rename_own svc0 TPod) SEC_U (s2l "RequiresMountsFor") (s2l "%t/containers"))) as [W B].
  rewrite W, B, !vals_unit_add. cbn [andb]. rewrite !app_nil_r. split; reflexivity.
Qed.
End PodService.

(* ---- the member's side ---- *)
Lemma handle_pod_member u svc sp tbl args c p a s t' :
  @lk berr u c_CONTAINER_SECTION (s2l "Pod") = COk (Some (c :: p)) ->
  handle_pod u c_CONTAINER_SECTION svc sp tbl args = COk (a, s, t') ->
  exists i, ends_with (s2l ".pod") (c :: p) = true /\ tbl_get tbl (c :: p) = Some i /\
            a = args ++ [s2l "--pod-id-file"; s2l "%t/" ++ pod_unit_name i ++ s2l ".pod-id"] /\ s = pod_deps svc (service_file_name i).
Proof.
  intros Hl. unfold handle_pod. rewrite Hl. cbn [bind]. destruct (ends_with (s2l ".pod") (c :: p)); cbn [negb]; [|discriminate].
  destruct (tbl_get tbl (c :: p)) as [i|]; [|discriminate]. intros H. injection H as <- <- _. exists i. auto.
Qed.

Lemma pod_deps_bindsto svc sfn : In (quote_value sfn) (vals (pod_deps svc sfn) SEC_U (s2l "BindsTo")).
Proof. unfold pod_deps. rewrite !vals_unit_add, !str_eqb_refl. cbn [andb]. apply in_or_app. left. apply in_or_app. right. left. reflexivity. Qed.
Lemma pod_deps_after svc sfn : In (quote_value sfn) (vals (pod_deps svc sfn) SEC_U (s2l "After")).
Proof. unfold pod_deps. rewrite !vals_unit_add, !str_eqb_refl. cbn [andb]. apply in_or_app. right. left. reflexivity. Qed.

Section MemberSide.
Variables (podman : str) (exists_path : str -> bool) (kill_fixed mount_nl : bool).

Theorem container_pod_wiring u path tbl svc sp t' c p :
  @lk berr u c_CONTAINER_SECTION (s2l "Pod") = COk (Some (c :: p)) ->
  from_container podman exists_path kill_fixed mount_nl u path tbl = COk (svc, sp, t') ->
  exists i, ends_with (s2l ".pod") (c :: p) = true /\ tbl_get tbl (c :: p) = Some i /\
    In (quote_value (service_file_name i)) (vals svc SEC_U (s2l "BindsTo")) /\
    In (quote_value (service_file_name i)) (vals svc SEC_U (s2l "After")) /\
    exists before pre post, vals svc SEC_S (s2l "ExecStart") =
      before ++ [quote_words (pre ++ [s2l "--pod-id-file"; s2l "%t/" ++ pod_unit_name i ++ s2l ".pod-id"] ++ post)].
Proof.
  intros Hl. unfold from_container. cbv zeta. bel. intros [inf svc0] Hp H.
  apply lift_ok in H. revert H. bel. intros image0 _. bel. intros rootfs0 _.
  set (image := match image0 with Some s => s | None => [] end). set (rootfs := match rootfs0 with Some s => s | None => [] end).
  clearbody image rootfs. destruct image as [|c1 im], rootfs as [|d rf]; try discriminate.
  all: bel; intros [image1 svc1] H1; bel; intros [[[cname penv] base] svc2] H2; bel; intros [a3 svc3] H3;
    bel; intros [a4 svc4] H4; bel; intros a5 _; bel; intros [a6 svc6] H6; bel; intros a7 _; bel; intros [a8 svc8] H8;
    bel; intros a9 _; bel; intros [[a10 svc10] tbl10] H10; intros H; apply with_tbl_ok in H; revert H;
    bel; intros svc11 H11; intros H; injection H as <- _ _;
    destruct (handle_pod_member _ _ _ _ _ _ _ _ _ _ Hl H10) as (i & He & Hg & -> & ->); exists i; split; [exact He|split; [exact Hg|]];
    unfold add_raw_exec, unit_add_raw in H11;
    match type of H11 with context [unquote_value ?q] => destruct (unquote_value q); [|discriminate H11] end;
    injection H11 as <-.
  all: split; [rewrite vals_add_entry; apply in_or_app; left; apply pod_deps_bindsto|].
  all: split; [rewrite vals_add_entry; apply in_or_app; left; apply pod_deps_after|].
  all: rewrite vals_add_entry, !str_eqb_refl; change (true && true) with true; cbv iota; eexists; unfold handle_podman_args.
  all: destruct image1; exists a9; eexists; f_equal; f_equal; f_equal; rewrite <- !app_assoc; reflexivity.
Qed.
End MemberSide.

(* ---- the whole run ---- *)
Lemma pod_reg_spec u tbl P i : pod_reg u tbl = Some (P, i) <->
  (@lk berr u c_CONTAINER_SECTION (s2l "Pod") = COk (Some P) /\ P <> [] /\ ends_with (s2l ".pod") P = true /\
   tbl_get tbl P = Some i /\ start_with_pod u = true).
Proof.
  unfold pod_reg. split.
  - destruct (@lk berr u c_CONTAINER_SECTION (s2l "Pod")) as [[[|c p]|]| | |]; try discriminate.
    destruct (ends_with _ _) eqn:E1; [|discriminate]. destruct (tbl_get tbl (c :: p)) eqn:E2; [|discriminate].
    destruct (start_with_pod u) eqn:E3; [|discriminate]. intros H. injection H as <- <-. repeat split; try assumption. discriminate.
  - intros (H1 & H2 & H3 & H4 & H5). rewrite H1. destruct P as [|c p]; [contradiction|]. rewrite H3, H4, H5. reflexivity.
Qed.

Lemma table_of_conts l : Forall (fun x => i_containers (l_info x) = []) l -> forall P, conts (table_of l) P = [].
Proof.
  intros H. unfold table_of.
  assert (G : forall l t, Forall (fun x => i_containers (l_info x) = []) l -> (forall P, conts t P = []) ->
              forall P, conts (fold_left (fun t x => match file_name (l_path x) with Some n => tbl_set t n (l_info x) | None => t end) l t) P = []).
  { clear. induction l as [|x r IH]; intros t Hl Ht P; cbn [fold_left]; [apply Ht|]. inversion Hl as [|? ? Hx Hr]; subst.
    apply IH; [exact Hr|]. intros Q. destruct (file_name (l_path x)) as [n|]; [|apply Ht]. unfold conts.
    destruct (str_eqb_spec Q n) as [->|Hne]; [rewrite tbl_get_set_same; exact Hx|rewrite tbl_get_set_other by exact Hne; apply Ht]. }
  apply G; [exact H|]. intros P. reflexivity.
Qed.

Lemma sorted_tail_not_container l1 xp l2 :
  Sorted.StronglySorted (fun a b => prio a <= prio b) (l1 ++ xp :: l2) -> i_type (l_info xp) = TPod ->
  forall x, In x l2 -> i_type (l_info x) <> TContainer.
Proof.
  intros Hs Hp x Hin Hc. induction l1 as [|y r IH]; cbn [app] in Hs.
  - inversion Hs as [|? ? _ Hall]; subst. rewrite Forall_forall in Hall. specialize (Hall x Hin). unfold prio in Hall. rewrite Hp, Hc in Hall.
    cbn in Hall. lia.
  - inversion Hs; subst. apply IH. assumption.
Qed.

Section WholeRunPods.
Variables (podman : str) (exists_path : str -> bool) (kill_fixed mount_nl : bool).
Notation conv x tbl := (convert_one podman exists_path kill_fixed mount_nl (l_unit x) (l_path x) (i_type (l_info x)) tbl).
Notation step := (step_tbl podman exists_path kill_fixed mount_nl).
Notation fin := (final_tbl podman exists_path kill_fixed mount_nl).
Notation mem := (members podman exists_path kill_fixed mount_nl).

(* the pod's side: when its turn comes, its service wants and precedes exactly the containers registered so far *)
Theorem pod_wants_registered l1 xp tbl0 svc sp t' P :
  NoDup (map fst (l_unit xp)) -> i_type (l_info xp) = TPod -> file_name (l_path xp) = Some P ->
  conv xp (fin l1 tbl0) = COk (svc, sp, t') ->
  sfile tbl0 P = Some sp /\
  exists pre, (pre = [] \/ pre = [NOT]) /\
    vals svc SEC_U (s2l "Wants") = pre ++ vals (l_unit xp) SEC_U (s2l "Wants") ++ map quote_value (conts tbl0 P ++ mem l1 tbl0 P) /\
    vals svc SEC_U (s2l "Before") = vals (l_unit xp) SEC_U (s2l "Before") ++ map quote_value (conts tbl0 P ++ mem l1 tbl0 P).
Proof.
  intros Hnd Ht Hf. rewrite Ht. cbn [convert_one]. intros H.
  destruct (pod_service_members _ _ _ _ _ _ _ _ H) as (inf & svc0 & Hp & -> & HW & HB).
  destruct (prologue_ok _ _ _ _ _ _ _ Hp) as (fname & Ef & Eg). rewrite Hf in Ef. injection Ef as <-.
  destruct (shape_prologue _ _ _ _ _ _ _ Hnd Hp) as [Hs _].
  assert (Hc : i_containers inf = conts tbl0 P ++ mem l1 tbl0 P).
  { rewrite <- final_conts. unfold conts. rewrite Eg. reflexivity. }
  split.
  - rewrite <- (final_sfile podman exists_path kill_fixed mount_nl l1 tbl0 P). unfold sfile. rewrite Eg. reflexivity.
  - assert (Hh : ~ In SEC_U (hidden TPod)) by (unfold hidden; cbn [In]; intros [X|[X|[X|[X|[]]]]]; vm_compute in X; discriminate X).
    rewrite HW, HB, !(vals_rename_own svc0 TPod SEC_U _ Hh), Hc.
    destruct (Hs SEC_U (s2l "Wants")) as [pre [post [E1 [_ [P1 P2]]]]].
    destruct (Hs SEC_U (s2l "Before")) as [pre' [post' [E2 [_ [P1' P2']]]]].
    assert (N1 : ~ In (SEC_U, s2l "Wants") ABASE) by (unfold ABASE; cbn [In]; intros X; repeat (destruct X as [X|X]; [vm_compute in X; discriminate X|]); exact X).
    assert (N2 : ~ In (SEC_U, s2l "Before") ABASE) by (unfold ABASE; cbn [In]; intros X; repeat (destruct X as [X|X]; [vm_compute in X; discriminate X|]); exact X).
    rewrite E1, E2, (P1 N1), (P1' N2), !app_nil_r.
    assert (Hpre' : pre' = []). { destruct P2' as [->|[_ [[X|X] _]]]; [reflexivity| |]; vm_compute in X; discriminate X. }
    rewrite Hpre'. exists pre. split; [destruct P2 as [->|[_ [_ ->]]]; auto|]. rewrite <- !app_assoc. split; reflexivity.
Qed.
End WholeRunPods.

Lemma unit_info_containers u path i : unit_info u path = COk i -> i_containers i = [].
Proof.
  unfold unit_info. destruct (type_of_path path); [|discriminate]. bel. intros sn _. bel. intros rn _. intros H. injection H as <-. reflexivity.
Qed.

Definition loaded_units (files : list (str * str)) : list loaded :=
  flat_map (fun p => match snd p with LOk u i => [{| l_path := fst p; l_unit := u; l_info := i |}] | _ => [] end)
           (map (fun f => (fst f, load_one (fst f) (snd f))) files).

Lemma loaded_units_facts files x : In x (loaded_units files) ->
  exists text, In (l_path x, text) files /\ parse_unit text = Some (l_unit x) /\ i_containers (l_info x) = [].
Proof.
  unfold loaded_units. intros Hx. apply in_flat_map in Hx. destruct Hx as [[pth lr] [Hin Hx]]. cbn [snd fst] in Hx.
  destruct lr as [u i| | |]; try (destruct Hx; fail). destruct Hx as [<-|[]]. cbn [l_path l_unit l_info].
  apply in_map_iff in Hin. destruct Hin as [[pth' text] [Heq Hf]]. cbn [fst snd] in Heq. injection Heq as -> Hl.
  unfold load_one in Hl. destruct (parse_unit text) as [u'|] eqn:Ep; [|discriminate].
  destruct (unit_info u' pth) as [i'| | |] eqn:Ei; try discriminate. injection Hl as -> ->.
  exists text. split; [exact Hf|split; [exact Ep|]]. eapply unit_info_containers. exact Ei.
Qed.

Section WholeRunFinal.
Variables (podman : str) (exists_path : str -> bool) (kill_fixed mount_nl : bool).
Notation conv x tbl := (convert_one podman exists_path kill_fixed mount_nl (l_unit x) (l_path x) (i_type (l_info x)) tbl).
Notation fin := (final_tbl podman exists_path kill_fixed mount_nl).
Notation mem := (members podman exists_path kill_fixed mount_nl).

Lemma process_files_is files :
  snd (process_files podman exists_path kill_fixed mount_nl files) =
  convert_all podman exists_path kill_fixed mount_nl (sort_units (loaded_units files)) (table_of (sort_units (loaded_units files))).
Proof. reflexivity. Qed.

(* where a unit's result sits in the run, and with which table it was converted *)
Lemma run_position l1 x l2 tbl0 :
  convert_all podman exists_path kill_fixed mount_nl (l1 ++ x :: l2) tbl0 =
  convert_all podman exists_path kill_fixed mount_nl l1 tbl0 ++
  (l_path x, res_of (conv x (fin l1 tbl0))) :: convert_all podman exists_path kill_fixed mount_nl l2 (fin (l1 ++ [x]) tbl0).
Proof.
  rewrite convert_all_app, convert_all_cons. cbv zeta. f_equal. f_equal.
  assert (E : forall l t, fin (l ++ [x]) t = step_tbl podman exists_path kill_fixed mount_nl x (fin l t)).
  { induction l as [|y r IH]; intros t; cbn [app final_tbl]; [reflexivity|apply IH]. }
  rewrite E. reflexivity.
Qed.

Theorem pods_want_exactly_their_members files l1 xp l2 P svc sp t' :
  sort_units (loaded_units files) = l1 ++ xp :: l2 -> i_type (l_info xp) = TPod -> file_name (l_path xp) = Some P ->
  let tbl0 := table_of (sort_units (loaded_units files)) in
  conv xp (fin l1 tbl0) = COk (svc, sp, t') ->
  (forall x, In x l2 -> i_type (l_info x) <> TContainer) /\
  sfile tbl0 P = Some sp /\
  exists pre, (pre = [] \/ pre = [NOT]) /\
    vals svc SEC_U (s2l "Wants") = pre ++ vals (l_unit xp) SEC_U (s2l "Wants") ++ map quote_value (mem l1 tbl0 P) /\
    vals svc SEC_U (s2l "Before") = vals (l_unit xp) SEC_U (s2l "Before") ++ map quote_value (mem l1 tbl0 P).
Proof.
  intros Hsort Ht Hf tbl0 Hc.
  assert (Hall : forall x, In x (sort_units (loaded_units files)) -> In x (loaded_units files)).
  { intros x Hx. apply (Permutation.Permutation_in _ (Permutation.Permutation_sym (sort_units_perm _))). exact Hx. }
  assert (Hxp : In xp (loaded_units files)) by (apply Hall; rewrite Hsort; apply in_or_app; right; left; reflexivity).
  destruct (loaded_units_facts _ _ Hxp) as (text & _ & Hparse & _).
  assert (Hc0 : forall Q, conts tbl0 Q = []).
  { apply table_of_conts. rewrite Forall_forall. intros x Hx. destruct (loaded_units_facts _ _ (Hall x Hx)) as (_ & _ & _ & E). exact E. }
  split; [|].
  - apply (sorted_tail_not_container l1 xp l2); [rewrite <- Hsort; apply sort_units_sorted|exact Ht].
  - destruct (pod_wants_registered podman exists_path kill_fixed mount_nl l1 xp tbl0 svc sp t' P (parse_nodup _ _ Hparse) Ht Hf Hc) as [Hs (pre & Hpre & HW & HB)].
    split; [exact Hs|]. exists pre. rewrite Hc0 in HW, HB. cbn [app] in HW, HB. auto.
Qed.

(* the member's side, for a container converted at its position in the same run *)
Theorem members_are_bound_to_their_pod files l1 xc l2 svc sp t' c p :
  sort_units (loaded_units files) = l1 ++ xc :: l2 -> i_type (l_info xc) = TContainer ->
  @lk berr (l_unit xc) c_CONTAINER_SECTION (s2l "Pod") = COk (Some (c :: p)) ->
  let tbl0 := table_of (sort_units (loaded_units files)) in
  conv xc (fin l1 tbl0) = COk (svc, sp, t') ->
  exists psf, sfile tbl0 (c :: p) = Some psf /\ ends_with (s2l ".pod") (c :: p) = true /\
    In (quote_value psf) (vals svc SEC_U (s2l "BindsTo")) /\ In (quote_value psf) (vals svc SEC_U (s2l "After")) /\
    (exists before pre post, vals svc SEC_S (s2l "ExecStart") =
       before ++ [quote_words (pre ++ [s2l "--pod-id-file"; s2l "%t/" ++ strip_service psf ++ s2l ".pod-id"] ++ post)]) /\
    (start_with_pod (l_unit xc) = true -> own_sfile xc (fin l1 tbl0) = Some sp /\ In sp (mem (l1 ++ [xc]) tbl0 (c :: p))).
Proof.
  intros Hsort Ht Hl tbl0 Hc. assert (Hc' := Hc). rewrite Ht in Hc'. cbn [convert_one] in Hc'.
  destruct (container_pod_wiring _ _ _ _ _ _ _ _ _ _ _ _ Hl Hc') as (i & He & Hg & HB & HA & HX).
  exists (service_file_name i). split; [|split; [exact He|split; [exact HB|split; [exact HA|split; [exact HX|]]]]].
  - rewrite <- (final_sfile podman exists_path kill_fixed mount_nl l1 tbl0 (c :: p)). unfold sfile. rewrite Hg. reflexivity.
  - intros Hst. destruct (container_ok_out _ _ _ _ _ _ _ _ _ _ Hc') as (inf & svc0 & Hp & Hsp & _).
    destruct (prologue_ok _ _ _ _ _ _ _ Hp) as (fname & Ef & Eg).
    assert (Hown : own_sfile xc (fin l1 tbl0) = Some sp) by (unfold own_sfile, sfile; rewrite Ef, Eg, Hsp; reflexivity).
    split; [exact Hown|].
    assert (E : forall l t, mem (l ++ [xc]) t (c :: p) = mem l t (c :: p) ++ regd podman exists_path kill_fixed mount_nl xc (fin l t) (c :: p)).
    { induction l as [|y r IH]; intros t; cbn [app members final_tbl]; [rewrite app_nil_r; reflexivity|]. rewrite IH, app_assoc. reflexivity. }
    rewrite E. apply in_or_app. right. unfold regd. rewrite Ht. cbn [convert_one]. rewrite Hc', Hown.
    assert (Hr : pod_reg (l_unit xc) (fin l1 tbl0) = Some (c :: p, i)) by (apply pod_reg_spec; repeat split; try assumption; discriminate).
    rewrite Hr, str_eqb_refl. left. reflexivity.
Qed.
End WholeRunFinal.

(* ---- what the list of registered members is, spelled out ---- *)
Section MembersSpec.
Variables (podman : str) (exists_path : str -> bool) (kill_fixed mount_nl : bool).
Notation conv x tbl := (convert_one podman exists_path kill_fixed mount_nl (l_unit x) (l_path x) (i_type (l_info x)) tbl).
Notation fin := (final_tbl podman exists_path kill_fixed mount_nl).
Notation mem := (members podman exists_path kill_fixed mount_nl).
Notation reg := (regd podman exists_path kill_fixed mount_nl).

Lemma regd_spec x tbl P s : In s (reg x tbl P) <->
  (i_type (l_info x) = TContainer /\
   ((exists svc sp t', conv x tbl = COk (svc, sp, t')) \/ (exists t', conv x tbl = CErr (EB EParsing) (Some t'))) /\
   (exists i, pod_reg (l_unit x) tbl = Some (P, i)) /\ own_sfile x tbl = Some s).
Proof.
  unfold regd. split.
  - intros H.
    destruct (i_type (l_info x)) eqn:Et; try (destruct H; fail).
    destruct (pod_reg (l_unit x) tbl) as [[P' i]|] eqn:Er.
    2: { destruct (convert_one podman exists_path kill_fixed mount_nl (l_unit x) (l_path x) TContainer tbl) as [[[sv sp] t]|e [t|]| |]; cbv beta iota in H; destruct H. }
    destruct (own_sfile x tbl) as [o|] eqn:Eo.
    2: { destruct (convert_one podman exists_path kill_fixed mount_nl (l_unit x) (l_path x) TContainer tbl) as [[[sv sp] t]|e [t|]| |]; cbv beta iota in H; destruct H. }
    destruct (str_eqb_spec P' P) as [->|Hne].
    2: { destruct (convert_one podman exists_path kill_fixed mount_nl (l_unit x) (l_path x) TContainer tbl) as [[[sv sp] t]|e [t|]| |]; cbv beta iota in H; destruct H. }
    destruct (convert_one podman exists_path kill_fixed mount_nl (l_unit x) (l_path x) TContainer tbl) as [[[sv sp] t]|e [t|]| |] eqn:Ec; cbv beta iota in H; try (destruct H; fail); destruct H as [<-|[]].
    + split; [reflexivity|]. split; [left; eauto|]. split; [eauto|reflexivity].
    + split; [reflexivity|]. split; [|split; [eauto|reflexivity]].
      right. cbn [convert_one] in Ec. destruct (container_errS_out _ _ _ _ _ _ _ _ _ Ec) as (_ & _ & _ & _ & ->). eauto.
  - intros (Et & Hc & (i & Hr) & Ho). rewrite Hr, Ho, str_eqb_refl. rewrite Et in *.
    destruct Hc as [(sv & sp & t & ->)|(t & ->)]; left; reflexivity.
Qed.

Lemma members_spec l : forall tbl P s, In s (mem l tbl P) <-> exists l1 x l2, l = l1 ++ x :: l2 /\ In s (reg x (fin l1 tbl) P).
Proof.
  induction l as [|y r IH]; intros tbl P s; cbn [members].
  - split; [intros []|]. intros (l1 & x & l2 & H & _). destruct l1; discriminate.
  - rewrite in_app_iff, IH. split.
    + intros [H|(l1 & x & l2 & -> & H)]; [exists [], y, r; split; [reflexivity|exact H]|exists (y :: l1), x, l2; split; [reflexivity|exact H]].
    + intros (l1 & x & l2 & E & H). destruct l1 as [|z l1]; cbn [app] in E; injection E as -> ->; [left; exact H|right; exists l1, x, l2; split; [reflexivity|exact H]].
Qed.
End MembersSpec.
