(* C10, the pod case of independence: a pod of the kept files keeps its service too, unless a container that is left out names it in
   Pod= (such a container joins the pod, and the pod's service lists it: C09).  The development of Proofs/C10run.v with the set of
   names on which the two name tables agree completely made a parameter. *)
From Coq Require Import Sorted Lia.
From QV Require Import Model.Base Generated.Tables Model.Quote Model.Unquote Model.Split Model.PortRange Model.Unit Model.Lex Model.Parser
  Model.Path Model.Names Model.Convert Model.Process Spec.Passthrough Proofs.Util Proofs.C15 Proofs.C07 Proofs.C02 Proofs.C08 Proofs.C07run Proofs.C09 Proofs.C09run Proofs.C08run Proofs.C10 Proofs.C10run.
Open Scope N_scope.
Local Notation L := s2l (only parsing).

Section WithS.
Variable S : str -> Prop.       (* names under which both tables hold the same entry, container lists included *)

Definition InvS (J : list str) (t t' : table) : Prop :=
  TR t t' /\ (forall n, ~ In n J -> S n -> tbl_get t n = tbl_get t' n) /\ (forall n, In n J -> tbl_get t n = None).

Lemma pod_reg_transfer u t t' P i' i : pod_reg u t' = Some (P, i') -> tbl_get t P = Some i -> pod_reg u t = Some (P, i).
Proof.
  unfold pod_reg. destruct (lk u c_CONTAINER_SECTION (L "Pod")) as [[[|c p]|]| | |]; try discriminate.
  destruct (ends_with (L ".pod") (c :: p)); [|discriminate]. destruct (tbl_get t' (c :: p)) as [i0|]; [|discriminate].
  destruct (start_with_pod u); [|discriminate]. intros H. injection H as <- <-. intros ->. reflexivity.
Qed.

Lemma InvS_reg J t t' u sp : InvS J t t' -> InvS J (reg_tbl u t sp) (reg_tbl u t' sp).
Proof.
  intros (HT & HE & HN). unfold reg_tbl.
  destruct (pod_reg u t) as [[P i]|] eqn:E.
  - destruct (pod_reg_pod _ _ _ _ E) as [HP HG]. destruct (HT _ _ HG) as (i' & HG' & Hi).
    assert (E' : pod_reg u t' = Some (P, i')).
    { revert E. unfold pod_reg. destruct (lk u c_CONTAINER_SECTION (L "Pod")) as [[[|c p]|]| | |]; try discriminate.
      destruct (ends_with (L ".pod") (c :: p)); [|discriminate]. destruct (tbl_get t (c :: p)) as [i0|] eqn:G; [|discriminate].
      destruct (start_with_pod u); [|discriminate]. intros H. injection H as <- <-. rewrite HG'. reflexivity. }
    rewrite E'. split; [|split].
    + apply TR_set; [exact HT|apply ieq_with_container; exact Hi].
    + intros n Hn Hs. destruct (str_eqb_spec n P) as [->|Hne].
      * rewrite !tbl_get_set_same. pose proof (HE P Hn Hs) as X. rewrite HG, HG' in X. injection X as <-. reflexivity.
      * rewrite !tbl_get_set_other by exact Hne. apply HE; assumption.
    + intros n Hn. assert (n <> P) by (intros ->; rewrite (HN _ Hn) in HG; discriminate). rewrite tbl_get_set_other by assumption. apply HN; assumption.
  - destruct (pod_reg u t') as [[P i']|] eqn:E'; [|split; [|split]; assumption].
    destruct (pod_reg_pod _ _ _ _ E') as [HP HG']. split; [|split].
    + intros n i Hn. destruct (str_eqb_spec n P) as [->|Hne].
      * rewrite (pod_reg_transfer _ _ _ _ _ _ E' Hn) in E. discriminate E.
      * rewrite tbl_get_set_other by exact Hne. apply HT. exact Hn.
    + intros n Hn Hs. destruct (str_eqb_spec n P) as [->|Hne].
      * exfalso. pose proof (HE P Hn Hs) as X. rewrite HG' in X. rewrite (pod_reg_transfer _ _ _ _ _ _ E' X) in E. discriminate E.
      * rewrite tbl_get_set_other by exact Hne. apply HE; assumption.
    + exact HN.
Qed.

Lemma InvS_reg_right J t t' u sp : InvS J t t' -> (forall P i', pod_reg u t' = Some (P, i') -> ~ S P) -> InvS J t (reg_tbl u t' sp).
Proof.
  intros (HT & HE & HN) HnS. unfold reg_tbl. destruct (pod_reg u t') as [[P i']|] eqn:E'; [|split; [|split]; assumption].
  destruct (pod_reg_pod _ _ _ _ E') as [HP HG']. split; [|split].
  - intros n i Hn. destruct (str_eqb_spec n P) as [->|Hne].
    + rewrite tbl_get_set_same. destruct (HT _ _ Hn) as (i2 & H2 & Hi). rewrite HG' in H2. injection H2 as <-. eexists. split; [reflexivity|]. exact Hi.
    + rewrite tbl_get_set_other by exact Hne. apply HT. exact Hn.
  - intros n Hn Hs. assert (n <> P) by (intros ->; exact (HnS P i' eq_refl Hs)). rewrite tbl_get_set_other by assumption. apply HE; assumption.
  - exact HN.
Qed.

Lemma InvS_set_own J t t' f inf name : InvS J t t' -> tbl_get t f = Some inf -> tbl_get t' f = Some inf ->
  InvS J (tbl_set t f (with_resource inf name)) (tbl_set t' f (with_resource inf name)).
Proof.
  intros (HT & HE & HN) G G'. split; [|split].
  - apply TR_set; [exact HT|apply ieq_refl].
  - intros n Hn Hp. destruct (str_eqb_spec n f) as [->|Hne]; [rewrite !tbl_get_set_same; reflexivity|]. rewrite !tbl_get_set_other by exact Hne. apply HE; assumption.
  - intros n Hn. assert (n <> f) by (intros ->; rewrite (HN _ Hn) in G; discriminate). rewrite tbl_get_set_other by assumption. apply HN; assumption.
Qed.

Lemma InvS_set_right J t t' f v : InvS J t t' -> In f J -> InvS J t (tbl_set t' f v).
Proof.
  intros (HT & HE & HN) Hf. split; [|split].
  - intros n i Hn. assert (n <> f) by (intros ->; rewrite (HN _ Hf) in Hn; discriminate). rewrite tbl_get_set_other by assumption. apply HT. exact Hn.
  - intros n Hn Hp. assert (n <> f) by (intros ->; exact (Hn Hf)). rewrite tbl_get_set_other by assumption. apply HE; assumption.
  - exact HN.
Qed.

Lemma InvS_set_both J t t' f v : InvS J t t' -> ~ In f J -> InvS J (tbl_set t f v) (tbl_set t' f v).
Proof.
  intros (HT & HE & HN) Hf. split; [|split].
  - apply TR_set; [exact HT|apply ieq_refl].
  - intros n Hn Hp. destruct (str_eqb_spec n f) as [->|Hne]; [rewrite !tbl_get_set_same; reflexivity|]. rewrite !tbl_get_set_other by exact Hne. apply HE; assumption.
  - intros n Hn. assert (n <> f) by (intros ->; exact (Hf Hn)). rewrite tbl_get_set_other by assumption. apply HN; assumption.
Qed.

Lemma InvS_nil J : InvS J [] [].
Proof. split; [|split]; [intros n i H; discriminate H|reflexivity|reflexivity]. Qed.

Lemma table_of_invS keep J l :
  (forall x, In x l -> keep x = false -> forall f, name_of x = Some f -> In f J) ->
  (forall x, In x l -> keep x = true -> forall f, name_of x = Some f -> ~ In f J) ->
  InvS J (table_of (filter keep l)) (table_of l).
Proof.
  unfold table_of. fold tstep. intros HJ HK.
  assert (G : forall acc acc', InvS J acc acc' -> InvS J (fold_left tstep (filter keep l) acc) (fold_left tstep l acc')).
  { induction l as [|x r IH]; intros acc acc' HI; [exact HI|]. cbn [filter fold_left].
    assert (HJ' : forall y, In y r -> keep y = false -> forall f, name_of y = Some f -> In f J) by (intros y Hy; apply HJ; right; exact Hy).
    assert (HK' : forall y, In y r -> keep y = true -> forall f, name_of y = Some f -> ~ In f J) by (intros y Hy; apply HK; right; exact Hy).
    destruct (keep x) eqn:Ek.
    - cbn [fold_left]. apply (IH HJ' HK'). unfold tstep. destruct (file_name (l_path x)) as [f|] eqn:Ef; [|exact HI].
      apply InvS_set_both; [exact HI|]. exact (HK x (or_introl eq_refl) Ek f Ef).
    - apply (IH HJ' HK'). unfold tstep. destruct (file_name (l_path x)) as [f|] eqn:Ef; [|exact HI].
      apply InvS_set_right; [exact HI|]. exact (HJ x (or_introl eq_refl) Ek f Ef). }
  apply G. apply InvS_nil.
Qed.

Section Steps.
Variables (podman : str) (exists_path : str -> bool) (kill_fixed mount_nl : bool).
Notation conv1 u path ty tbl := (convert_one podman exists_path kill_fixed mount_nl u path ty tbl).

Lemma junk_stepS J t t' u path ty : InvS J t t' -> (forall f, file_name path = Some f -> In f J) ->
  (forall tb P i', pod_reg u tb = Some (P, i') -> ~ S P) ->
  InvS J t (tbl_out t' (conv1 u path ty t')).
Proof.
  intros HI HJ HP. destruct ty.
  - unfold convert_one. rewrite build_keeps. exact HI.
  - unfold convert_one. destruct (container_out podman exists_path kill_fixed mount_nl u path t') as [->|(inf & svc0 & _ & ->)]; [exact HI|]. apply InvS_reg_right; [exact HI|exact (HP t')].
  - destruct (own_out podman exists_path kill_fixed mount_nl u path TImage t' (or_introl eq_refl)) as [->|(f & v & Hf & ->)]; [exact HI|]. apply InvS_set_right; [exact HI|apply HJ; exact Hf].
  - unfold convert_one. rewrite kube_keeps. exact HI.
  - destruct (own_out podman exists_path kill_fixed mount_nl u path TNetwork t' (or_intror (or_introl eq_refl))) as [->|(f & v & Hf & ->)]; [exact HI|]. apply InvS_set_right; [exact HI|apply HJ; exact Hf].
  - unfold convert_one. rewrite pod_keeps. exact HI.
  - destruct (own_out podman exists_path kill_fixed mount_nl u path TVolume t' (or_intror (or_intror eq_refl))) as [->|(f & v & Hf & ->)]; [exact HI|]. apply InvS_set_right; [exact HI|apply HJ; exact Hf].
Qed.

Lemma kept_stepS J t t' u path ty svc sp t1 t1' : InvS J t t' ->
  (forall f, file_name path = Some f -> ~ In f J /\ S f) ->
  conv1 u path ty t = COk (svc, sp, t1) -> conv1 u path ty t' = COk (svc, sp, t1') -> InvS J t1 t1'.
Proof.
  intros HI Hf H H'. pose proof HI as (HT & HE & HN). destruct ty; unfold convert_one in H, H'.
  - pose proof (build_keeps podman mount_nl u path t) as K. rewrite H in K. pose proof (build_keeps podman mount_nl u path t') as K'. rewrite H' in K'. cbn [tbl_out] in K, K'. subst. exact HI.
  - destruct (container_ok_out _ _ _ _ _ _ _ _ _ _ H) as (inf & svc0 & _ & _ & ->). destruct (container_ok_out _ _ _ _ _ _ _ _ _ _ H') as (inf' & svc0' & _ & _ & ->). apply InvS_reg. exact HI.
  - destruct (image_sets_table _ _ _ _ _ _ _ H) as (f & inf & name & Ef & G & Hn & ->). destruct (image_sets_table _ _ _ _ _ _ _ H') as (f' & inf' & name' & Ef' & G' & Hn' & ->).
    rewrite Ef in Ef'. injection Ef' as <-. rewrite Hn in Hn'. injection Hn' as <-. destruct (Hf f Ef) as [HnJ Hp]. rewrite <- (HE f HnJ Hp), G in G'. injection G' as <-.
    apply InvS_set_own; [exact HI|exact G|rewrite <- (HE f HnJ Hp); exact G].
  - pose proof (kube_keeps podman kill_fixed u path t) as K. rewrite H in K. pose proof (kube_keeps podman kill_fixed u path t') as K'. rewrite H' in K'. cbn [tbl_out] in K, K'. subst. exact HI.
  - destruct (network_sets_table _ _ _ _ _ _ _ H) as (f & inf & name & Ef & G & Hn & ->). destruct (network_sets_table _ _ _ _ _ _ _ H') as (f' & inf' & name' & Ef' & G' & Hn' & ->).
    rewrite Ef in Ef'. injection Ef' as <-. rewrite Hn in Hn'. injection Hn' as <-. destruct (Hf f Ef) as [HnJ Hp]. rewrite <- (HE f HnJ Hp), G in G'. injection G' as <-.
    apply InvS_set_own; [exact HI|exact G|rewrite <- (HE f HnJ Hp); exact G].
  - pose proof (pod_keeps podman mount_nl u path t) as K. rewrite H in K. pose proof (pod_keeps podman mount_nl u path t') as K'. rewrite H' in K'. cbn [tbl_out] in K, K'. subst. exact HI.
  - destruct (volume_sets_table _ _ _ _ _ _ _ H) as (f & inf & name & Ef & G & Hn & ->). destruct (volume_sets_table _ _ _ _ _ _ _ H') as (f' & inf' & name' & Ef' & G' & Hn' & ->).
    rewrite Ef in Ef'. injection Ef' as <-. rewrite Hn in Hn'. injection Hn' as <-. destruct (Hf f Ef) as [HnJ Hp]. rewrite <- (HE f HnJ Hp), G in G'. injection G' as <-.
    apply InvS_set_own; [exact HI|exact G|rewrite <- (HE f HnJ Hp); exact G].
Qed.
End Steps.

(* ---- the two runs ---- *)
Section Runs.
Variables (podman : str) (exists_path : str -> bool) (kill_fixed mount_nl : bool).
Notation conv x tbl := (convert_one podman exists_path kill_fixed mount_nl (l_unit x) (l_path x) (i_type (l_info x)) tbl).
Notation res l tbl := (results podman exists_path kill_fixed mount_nl l tbl).

(* stable x: x's own entry is the same in both tables throughout; every kept unit that is not a pod must be stable and must convert *)
Theorem run_monoS (keep stable : loaded -> bool) (J : list str) : forall l' t t',
  InvS J t t' ->
  (forall x, In x l' -> keep x = false -> forall f, file_name (l_path x) = Some f -> In f J) ->
  (forall x, In x l' -> keep x = false -> forall tb P i', pod_reg (l_unit x) tb = Some (P, i') -> ~ S P) ->
  (forall x, In x l' -> keep x = true -> stable x = true -> forall f, file_name (l_path x) = Some f -> ~ In f J /\ S f) ->
  (forall x, In x l' -> keep x = true -> is_podu x = false -> stable x = true) ->
  (forall x r, In (x, r) (res (filter keep l') t) -> is_podu x = false -> exists svc sp, r = ROk svc sp) ->
  Forall2 (fun a b => fst a = fst b /\ (stable (fst a) = true -> forall svc sp, snd a = ROk svc sp -> snd b = ROk svc sp))
    (res (filter keep l') t) (filter (fun p => keep (fst p)) (res l' t')).
Proof.
  induction l' as [|x r IH]; intros t t' HI HJ HJP HK HNP HS; [constructor|].
  rewrite (results_cons _ _ _ _ x r t'). cbn [filter fst] in HS |- *. destruct (keep x) eqn:Ek.
  - rewrite results_cons in HS |- *.
    assert (HJ' : forall x0, In x0 r -> keep x0 = false -> forall f, file_name (l_path x0) = Some f -> In f J) by (intros x0 Hx0; apply HJ; right; exact Hx0).
    assert (HJP' : forall x0, In x0 r -> keep x0 = false -> forall tb P i', pod_reg (l_unit x0) tb = Some (P, i') -> ~ S P) by (intros x0 Hx0; apply HJP; right; exact Hx0).
    assert (HK' : forall x0, In x0 r -> keep x0 = true -> stable x0 = true -> forall f, file_name (l_path x0) = Some f -> ~ In f J /\ S f) by (intros x0 Hx0; apply HK; right; exact Hx0).
    assert (HNP' : forall x0, In x0 r -> keep x0 = true -> is_podu x0 = false -> stable x0 = true) by (intros x0 Hx0; apply HNP; right; exact Hx0).
    pose proof HI as (HT & HE & HN).
    assert (Hown : stable x = true -> forall f, file_name (l_path x) = Some f -> tbl_get t f = tbl_get t' f).
    { intros Hst f Hf. destruct (HK x (or_introl eq_refl) Ek Hst f Hf) as [HnJ Hp]. apply HE; assumption. }
    destruct (is_podu x) eqn:Ep.
    + assert (Ety : i_type (l_info x) = TPod) by (unfold is_podu in Ep; destruct (i_type (l_info x)); try discriminate; reflexivity).
      constructor.
      * split; [reflexivity|]. cbn [fst snd]. intros Hst svc sp Hr. destruct (res_of_ok _ _ _ Hr) as (t1 & E1).
        destruct (convert_one_mono podman exists_path kill_fixed mount_nl t t' _ _ _ _ _ _ HT (Hown Hst) E1) as (t1' & E1'). rewrite E1'. reflexivity.
      * rewrite Ety in *. unfold convert_one in *. rewrite !pod_keeps in *.
        apply IH; [exact HI|exact HJ'|exact HJP'|exact HK'|exact HNP'|]. intros x0 r0 Hin. apply HS. right. exact Hin.
    + pose proof (HNP x (or_introl eq_refl) Ek Ep) as Hst.
      destruct (HS x _ (or_introl eq_refl) Ep) as (svc & sp & Hr). destruct (res_of_ok _ _ _ Hr) as (t1 & E1).
      destruct (convert_one_mono podman exists_path kill_fixed mount_nl t t' _ _ _ _ _ _ HT (Hown Hst) E1) as (t1' & E1').
      rewrite E1, E1' in *. cbn [res_of tbl_out] in *. constructor; [split; [reflexivity|intros _ s0 p0 X; exact X]|].
      apply IH; [|exact HJ'|exact HJP'|exact HK'|exact HNP'|].
      * eapply kept_stepS; [exact HI| |exact E1|exact E1']. intros f Hf. exact (HK x (or_introl eq_refl) Ek Hst f Hf).
      * intros x0 r0 Hin. apply HS. right. exact Hin.
  - apply IH.
    + apply junk_stepS; [exact HI|exact (HJ x (or_introl eq_refl) Ek)|exact (HJP x (or_introl eq_refl) Ek)].
    + intros x0 Hx0. apply HJ. right. exact Hx0.
    + intros x0 Hx0. apply HJP. right. exact Hx0.
    + intros x0 Hx0. apply HK. right. exact Hx0.
    + intros x0 Hx0. apply HNP. right. exact Hx0.
    + exact HS.
Qed.
End Runs.
End WithS.

(* ---- the whole run, pods included ---- *)
Definition pod_key (u : unit) : option str :=
  match @lk berr u c_CONTAINER_SECTION (L "Pod") with COk (Some (c :: p)) => Some (c :: p) | _ => None end.

Lemma pod_reg_key u tb P i : pod_reg u tb = Some (P, i) -> pod_key u = Some P /\ is_pod_name P = true.
Proof.
  unfold pod_reg, pod_key. destruct (lk u c_CONTAINER_SECTION (L "Pod")) as [[[|c p]|]| | |]; try discriminate.
  destruct (ends_with (L ".pod") (c :: p)) eqn:E; [|discriminate]. destruct (tbl_get tb (c :: p)); [|discriminate].
  destruct (start_with_pod u); [|discriminate]. intros H. injection H as <- _. split; [reflexivity|exact E].
Qed.

(* the Pod= values of the units that are left out *)
Definition junk_pods (keep : loaded -> bool) (l : list loaded) : list str :=
  flat_map (fun x => if keep x then [] else match pod_key (l_unit x) with Some P => [P] | None => [] end) l.

Lemma junk_pods_in keep l P : In P (junk_pods keep l) <-> exists x, In x l /\ keep x = false /\ pod_key (l_unit x) = Some P.
Proof.
  unfold junk_pods. rewrite in_flat_map. split.
  - intros (x & Hx & H). exists x. destruct (keep x); [contradiction H|]. destruct (pod_key (l_unit x)) as [g|]; [|contradiction H]. destruct H as [<-|H]; [|contradiction H]. auto.
  - intros (x & Hx & Hk & Hn). exists x. split; [exact Hx|]. rewrite Hk, Hn. left. reflexivity.
Qed.

(* a kept unit is stable unless it is a pod that a left-out unit names in Pod= *)
Definition stable_unit (T : list str) (x : loaded) : bool :=
  negb (is_podu x) || match name_of x with Some f => negb (mem_str f T) | None => false end.

Section Files.
Variables (podman : str) (exists_path : str -> bool) (kill_fixed mount_nl : bool).
Notation pf := (process_files podman exists_path kill_fixed mount_nl).
Notation ures := (unit_results podman exists_path kill_fixed mount_nl).

(* Adding files to a set of files whose non-pod units convert changes no successful result of that set, except for the pods that
   an added unit names in Pod= . *)
Theorem added_files_change_nothing_pods (keepp : str -> bool) files :
  (forall p q, In p (map fst files) -> In q (map fst files) -> keepp p = true -> keepp q = false ->
     forall f, file_name p = Some f -> file_name q <> Some f) ->
  (forall x r, In (x, r) (ures (filter (fun f => keepp (fst f)) files)) -> is_podu x = false -> exists svc sp, r = ROk svc sp) ->
  let T := junk_pods (fun x => keepp (l_path x)) (sort_units (units_of files)) in
  Forall2 (fun a b => fst a = fst b /\ (stable_unit T (fst a) = true -> forall svc sp, snd a = ROk svc sp -> snd b = ROk svc sp))
    (ures (filter (fun f => keepp (fst f)) files))
    (filter (fun p => keepp (l_path (fst p))) (ures files)).
Proof.
  intros Hd Hs T. unfold unit_results in *. rewrite !process_files_snd in *. rewrite units_filter, sort_filter in *.
  set (keep := fun x : loaded => keepp (l_path x)) in *. set (big := sort_units (units_of files)) in *.
  set (J := junk_names keep big).
  set (S := fun n : str => is_pod_name n = false \/ ~ In n T).
  assert (Hbig : forall x, In x big -> In (l_path x) (map fst files) /\ exists t, type_of_path (l_path x) = Some t /\ i_type (l_info x) = t).
  { intros x Hx. apply units_spec. apply sort_units_in. exact Hx. }
  assert (HJ : forall x, In x big -> keep x = false -> forall f, file_name (l_path x) = Some f -> In f J).
  { intros x Hx Hk f Hf. apply junk_names_in. exists x. auto. }
  assert (HK0 : forall x, In x big -> keep x = true -> forall f, file_name (l_path x) = Some f -> ~ In f J).
  { intros x Hx Hk f Hf Hin. apply junk_names_in in Hin. destruct Hin as (y & Hy & Hky & Hny).
    exact (Hd (l_path x) (l_path y) (proj1 (Hbig x Hx)) (proj1 (Hbig y Hy)) Hk Hky f Hf Hny). }
  apply (run_monoS S podman exists_path kill_fixed mount_nl keep (stable_unit T) J big).
  - apply table_of_invS; [exact HJ|exact HK0].
  - exact HJ.
  - intros x Hx Hk tb P i' Hreg [Hp|Hn].
    + destruct (pod_reg_key _ _ _ _ Hreg) as [_ E]. rewrite E in Hp. discriminate Hp.
    + apply Hn. apply junk_pods_in. exists x. split; [exact Hx|]. split; [exact Hk|]. exact (proj1 (pod_reg_key _ _ _ _ Hreg)).
  - intros x Hx Hk Hst f Hf. split; [exact (HK0 x Hx Hk f Hf)|].
    unfold stable_unit in Hst. apply orb_prop in Hst. destruct Hst as [Hst|Hst].
    + left. destruct (is_pod_name f) eqn:E; [|reflexivity]. exfalso. destruct (Hbig x Hx) as (_ & t & Ht & Hi).
      pose proof (pod_name_type _ _ _ Hf E Ht) as ->. unfold is_podu in Hst. rewrite Hi in Hst. discriminate Hst.
    + right. unfold name_of in Hst. rewrite Hf in Hst. intros Hin. apply mem_str_In in Hin. rewrite Hin in Hst. discriminate Hst.
  - intros x Hx Hk Hp. unfold stable_unit. rewrite Hp. reflexivity.
  - exact Hs.
Qed.
End Files.

(* ---- the premises are satisfiable, and the exception is real: a left-out container that names the pod changes the pod ---- *)
Definition exp_small : list (str * str) :=
  [(L "/d/pd.pod", L "[Pod]" ++ [10]);
   (L "/d/in.container", L "[Container]" ++ [10] ++ L "Image=img" ++ [10] ++ L "Pod=pd.pod" ++ [10])].
Definition exp_big_other : list (str * str) := (L "/d/other.container", L "[Container]" ++ [10] ++ L "Image=img" ++ [10]) :: exp_small.
Definition exp_big_joins : list (str * str) := (L "/d/join.container", L "[Container]" ++ [10] ++ L "Image=img" ++ [10] ++ L "Pod=pd.pod" ++ [10]) :: exp_small.
Definition pod_result (files : list (str * str)) : option conv_res :=
  assoc_str (L "/d/pd.pod") (snd (process_files (L "/usr/bin/podman") (fun _ => false) true false files)).

Example pod_independence_example :
  (exists svc sp, pod_result exp_small = Some (ROk svc sp) /\ pod_result exp_big_other = Some (ROk svc sp)) /\
  pod_result exp_big_joins <> pod_result exp_small.
Proof.
  split.
  - vm_compute. eexists _, _. split; reflexivity.
  - vm_compute. intros H. discriminate H.
Qed.
