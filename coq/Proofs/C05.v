(* C05: the code's two word splitters agree with systemd's extract_first_word wherever systemd succeeds. *)
From QV Require Import Model.Base Generated.Tables Model.Unquote Model.Split Spec.SdExtract Proofs.Util.
Open Scope N_scope.

Definition wof (s : st) : wst :=
  match s with
  | Skip => WSkip | Plain => WPlain | InQ q => WInQ q | Esc q => WEsc q
  | Hex q _ n a => WHex q n a | Oct q n a => WOct q n a
  end.

Lemma wof_back q : wof (back q) = wback q.
Proof. destruct q; reflexivity. Qed.

Lemma is_separator_eq c : is_separator c = is_sep c.
Proof.
  unfold is_separator, is_sep, memN. cbn [existsb ca_WHITESPACE].
  destruct (c =? 32), (c =? 9), (c =? 10), (c =? 13); reflexivity.
Qed.

Lemma is_quote_eq c : is_quote_char c = is_quote c.
Proof. reflexivity. Qed.

(* the regenerated simple-escape table of SplitWord denotes the same partial map as systemd's cunescape table *)
Lemma simple_tbl_low : forallb (fun c => opt_eqb (word_simple_escape c) (simple_esc c)) (upto 128) = true.
Proof. vm_compute. reflexivity. Qed.

Lemma simple_tbl_keys : forallb (fun kv : N * list N => fst kv <? 128) cm_split_parse_escape_sequence = true.
Proof. vm_compute. reflexivity. Qed.

Lemma simple_esc_high c : 128 <= c -> simple_esc c = None.
Proof.
  intros H. unfold simple_esc.
  repeat match goal with |- context[N.eqb c ?k] => destruct (N.eqb_spec c k); [lia|] end. reflexivity.
Qed.

Lemma simple_escape_eq c : word_simple_escape c = simple_esc c.
Proof.
  destruct (N.lt_ge_cases c 128) as [Hlt|Hge].
  - apply opt_eqb_eq. apply (sweep _ 128 simple_tbl_low). exact Hlt.
  - rewrite (simple_esc_high c Hge). unfold word_simple_escape.
    rewrite (assocN_none_ge _ 128 simple_tbl_keys c Hge). reflexivity.
Qed.

(* reachable-state invariant: bounds on the partial value of \x and \u escapes *)
Definition hex_bound (k : hexkind) (n : nat) : N :=
  match k, n with
  | Kx, 2%nat => 1 | Kx, 1%nat => 16
  | Ku, 4%nat => 1 | Ku, 3%nat => 16 | Ku, 2%nat => 256 | Ku, 1%nat => 4096
  | _, _ => 0
  end.

Definition inv (s : st) : Prop :=
  match s with
  | Hex _ KU _ _ => True
  | Hex _ k n a => a < hex_bound k n
  | _ => True
  end.

Lemma inv_back q : inv (back q).
Proof. destruct q; exact I. Qed.

Lemma valid_scalar v : unichar_is_valid v = true -> is_scalar v = true.
Proof.
  unfold unichar_is_valid, is_scalar. intros H.
  repeat (apply andb_true_iff in H; destruct H as [H ?]).
  apply N.ltb_lt in H.
  match goal with H0 : negb ((55296 <=? v) && (v <=? 57343)) = true |- _ => apply negb_true_iff in H0; rename H0 into Hs end.
  apply andb_false_iff in Hs.
  apply andb_true_iff. split.
  - apply orb_true_iff. destruct Hs as [Hs|Hs].
    + apply N.leb_gt in Hs. left. apply N.ltb_lt. lia.
    + apply N.leb_gt in Hs. right. apply N.ltb_lt. lia.
  - apply N.leb_le. lia.
Qed.

Lemma hex_done_char k v r : (k = Kx -> v < 256) -> (k = Ku -> v < 65536) ->
  hex_done k v = Some r -> code_to_char v = Some r.
Proof.
  intros Hx Hu. unfold hex_done, code_to_char. destruct (v =? 0); [discriminate|].
  destruct k.
  - intros E. injection E as <-. rewrite is_scalar_small by (specialize (Hx eq_refl); lia). reflexivity.
  - destruct ((55296 <=? v) && (v <=? 57343)) eqn:E; [discriminate|].
    intros E'. injection E' as <-. specialize (Hu eq_refl).
    apply andb_false_iff in E. unfold is_scalar.
    assert (Hle : (v <=? 1114111) = true) by (apply N.leb_le; lia). rewrite Hle, andb_true_r.
    destruct E as [E|E]; apply N.leb_gt in E.
    + destruct (N.ltb_spec v 55296); [reflexivity|lia].
    + destruct (N.ltb_spec 57343 v); [rewrite orb_true_r; reflexivity|lia].
  - destruct (unichar_is_valid v) eqn:E; [|discriminate].
    intros E'. injection E' as <-. rewrite (valid_scalar v E). reflexivity.
Qed.

Lemma plain_step_sim acc c :
  match plain_step fl_args acc c with
  | SErr => True
  | More s' acc' => wplain_step acc c = WMore (wof s') acc' /\ inv s'
  | Done w => wplain_step acc c = WDone w
  end.
Proof.
  unfold plain_step, wplain_step. change (is_quote_char c) with (is_quote c). rewrite is_separator_eq. cbn [f_retain_escape fl_args negb].
  rewrite andb_true_r.
  destruct (is_quote c); [split; [reflexivity|exact I]|].
  destruct (c =? cBS); [split; [reflexivity|exact I]|].
  destruct (is_sep c); [reflexivity|split; [reflexivity|exact I]].
Qed.

Lemma step_sim s acc c : inv s ->
  match step fl_args s acc c with
  | SErr => True
  | More s' acc' => word_step (wof s) acc c = WMore (wof s') acc' /\ inv s'
  | Done w => word_step (wof s) acc c = WDone w
  end.
Proof.
  intros Hinv. destruct s as [| |q|q|q k n a|q n a]; cbn [step wof word_step].
  - rewrite is_separator_eq. destruct (is_sep c); [split; [reflexivity|exact I]|]. apply plain_step_sim.
  - apply plain_step_sim.
  - cbn [f_retain_escape fl_args negb]. rewrite andb_true_r.
    destruct (c =? q); [split; [reflexivity|exact I]|].
    destruct (c =? cBS); split; try reflexivity; exact I.
  - cbn [f_cunescape fl_args negb]. rewrite simple_escape_eq.
    destruct (simple_esc c) as [r|].
    + rewrite wof_back. split; [reflexivity|apply inv_back].
    + destruct (c =? 120); [split; [reflexivity|cbn; lia]|].
      destruct (c =? 117); [split; [reflexivity|cbn; lia]|].
      destruct (c =? 85); [split; [reflexivity|exact I]|].
      destruct (is_octdigit c); [split; [reflexivity|exact I]|exact I].
  - destruct (hexval c) as [d|] eqn:Hd; [|exact I].
    pose proof (hexval_lt c d Hd) as Hlt.
    destruct n as [|[|n']]; [exact I| |].
    + (* last digit *)
      destruct (hex_done k (a * 16 + d)) as [r|] eqn:E; [|exact I].
      rewrite (hex_done_char k (a * 16 + d) r); [rewrite wof_back; split; [reflexivity|apply inv_back]| | |exact E].
      * intros ->. cbn in Hinv. lia.
      * intros ->. cbn in Hinv. lia.
    + split; [reflexivity|].
      destruct k; cbn [inv] in *; [| |exact I].
      * destruct n' as [|[|n'']]; cbn [hex_bound] in *; lia.
      * destruct n' as [|[|[|[|n'']]]]; cbn [hex_bound] in *; lia.
  - destruct (is_octdigit c) eqn:Ho; [|exact I].
    destruct n as [|[|n']]; [exact I| |split; [reflexivity|exact I]].
    destruct ((a * 8 + (c - 48) =? 0) || (255 <? a * 8 + (c - 48))) eqn:E; [exact I|].
    apply orb_false_iff in E. destruct E as [E0 E1]. apply N.ltb_ge in E1.
    unfold code_to_char. rewrite E0. rewrite is_scalar_small by lia.
    rewrite wof_back. split; [reflexivity|apply inv_back].
Qed.

Lemma word_sim cs : forall s acc r, inv s -> word fl_args s acc cs = Some r -> word_next (wof s) acc cs = Some r.
Proof.
  induction cs as [|c cs IH]; intros s acc r Hinv H.
  - cbn [word word_next] in *. destruct s; cbn [finish wof wfinish f_relax fl_args] in *; exact H.
  - cbn [word word_next] in *. pose proof (step_sim s acc c Hinv) as Hs.
    destruct (step fl_args s acc c) as [|s' acc'|w]; [discriminate| |].
    + destruct Hs as [-> Hi]. apply IH; assumption.
    + rewrite Hs. exact H.
Qed.

Lemma split_sim f : forall cs ws, split fl_args f cs = Some ws -> split_word_fuel true f cs = ws.
Proof.
  induction f as [|f IH]; intros cs ws H; [discriminate|].
  cbn [split split_word_fuel] in *.
  destruct (word fl_args Skip [] cs) as [[[w r]|]|] eqn:E; [| |discriminate].
  - pose proof (word_sim cs Skip [] _ I E) as Hw. cbn [wof] in Hw. rewrite Hw. cbn [negb andb].
    destruct (split fl_args f r) as [ws'|] eqn:E'; [|discriminate].
    injection H as <-. rewrite (IH r ws' E'). reflexivity.
  - pose proof (word_sim cs Skip [] _ I E) as Hw. cbn [wof] in Hw. rewrite Hw. injection H as <-. reflexivity.
Qed.

Theorem args_equiv raw ws : sd_split fl_args raw = Some ws -> split_word_all raw = ws.
Proof. apply split_sim. Qed.

(* ---------- strv ---------- *)
Definition inv_v (s : st) : Prop := match s with Skip | Plain | InQ _ => True | _ => False end.

Lemma vplain_step_sim acc c :
  match plain_step fl_strv acc c with
  | SErr => True
  | More s' acc' => vplain_step acc c = WMore (wof s') acc' /\ inv_v s'
  | Done w => vplain_step acc c = WDone w
  end.
Proof.
  unfold plain_step, vplain_step. change (is_quote_char c) with (is_quote c). rewrite is_separator_eq. cbn [f_retain_escape fl_strv negb].
  rewrite andb_false_r.
  destruct (is_quote c); [split; [reflexivity|exact I]|].
  destruct (is_sep c); [reflexivity|split; [reflexivity|exact I]].
Qed.

Lemma vstep_sim s acc c : inv_v s ->
  match step fl_strv s acc c with
  | SErr => True
  | More s' acc' => strv_step (wof s) acc c = WMore (wof s') acc' /\ inv_v s'
  | Done w => strv_step (wof s) acc c = WDone w
  end.
Proof.
  intros Hinv. destruct s as [| |q|q|q k n a|q n a]; try contradiction; cbn [step wof strv_step].
  - rewrite is_separator_eq. destruct (is_sep c); [split; [reflexivity|exact I]|]. apply vplain_step_sim.
  - apply vplain_step_sim.
  - cbn [f_retain_escape fl_strv negb]. rewrite andb_false_r.
    destruct (c =? q); split; try reflexivity; exact I.
Qed.

Lemma vword_sim cs : forall s acc r, inv_v s -> word fl_strv s acc cs = Some r -> strv_next (wof s) acc cs = Some r.
Proof.
  induction cs as [|c cs IH]; intros s acc r Hinv H.
  - cbn [word strv_next] in *. destruct s; try contradiction; cbn [finish wof f_relax fl_strv] in *;
      try exact H. discriminate.
  - cbn [word strv_next] in *. pose proof (vstep_sim s acc c Hinv) as Hs.
    destruct (step fl_strv s acc c) as [|s' acc'|w]; [discriminate| |].
    + destruct Hs as [-> Hi]. apply IH; assumption.
    + rewrite Hs. exact H.
Qed.

Lemma vsplit_sim f : forall cs ws, split fl_strv f cs = Some ws -> split_strv_fuel true f cs = ws.
Proof.
  induction f as [|f IH]; intros cs ws H; [discriminate|].
  cbn [split split_strv_fuel] in *.
  destruct (word fl_strv Skip [] cs) as [[[w r]|]|] eqn:E; [| |discriminate].
  - pose proof (vword_sim cs Skip [] _ I E) as Hw. cbn [wof] in Hw. rewrite Hw. cbn [negb andb].
    destruct (split fl_strv f r) as [ws'|] eqn:E'; [|discriminate].
    injection H as <-. rewrite (IH r ws' E'). reflexivity.
  - pose proof (vword_sim cs Skip [] _ I E) as Hw. cbn [wof] in Hw. rewrite Hw. injection H as <-. reflexivity.
Qed.

Theorem strv_equiv raw ws : sd_split fl_strv raw = Some ws -> split_strv_all raw = ws.
Proof. apply vsplit_sim. Qed.

(* "No word that follows another word is ever dropped": the word list is systemd's, so in particular an
   explicitly quoted empty word does not end the list.  Kernel-checked witnesses for the pinned code: *)
Lemma pinned_refuted :
  split_word_all_pinned (s2l "sh -c """" foo") = [s2l "sh"; s2l "-c"] /\
  sd_split fl_args (s2l "sh -c """" foo") = Some [s2l "sh"; s2l "-c"; []; s2l "foo"] /\
  split_strv_all_pinned (s2l "a """" b") = [s2l "a"] /\
  sd_split fl_strv (s2l "a """" b") = Some [s2l "a"; []; s2l "b"].
Proof. vm_compute. auto. Qed.

Example args_example :
  split_word_all (s2l "sh -c """" 'a b'\x41\n ""q\""r"" \101") =
    [s2l "sh"; s2l "-c"; []; [97; 32; 98; 65; 10]; [113; 34; 114]; [65]]
  /\ sd_split fl_args (s2l "sh -c """" 'a b'\x41\n ""q\""r"" \101") =
    Some [s2l "sh"; s2l "-c"; []; [97; 32; 98; 65; 10]; [113; 34; 114]; [65]].
Proof. vm_compute. auto. Qed.
