(* C11 over whole conversions: on parsed (validated) units with an ordinary file path, no converter of the model reaches a Panic outcome. *)
From QV Require Import Model.Base Generated.Tables Model.Quote Model.Unquote Model.Split Model.PortRange Model.Unit Model.Lex Model.Parser
  Model.Path Model.Names Model.Convert Model.Process Spec.Passthrough Spec.Spelling Proofs.Util Proofs.C15 Proofs.C04 Proofs.C07 Proofs.C08 Proofs.C11 Proofs.C07run.
Open Scope N_scope.

Definition np {E A} (r : res E A) : Prop := r <> CPanic.

Lemma np_ok {E A} (a : A) : np (@COk E A a).  Proof. discriminate. Qed.
Lemma np_err {E A} (e : E) : np (@err E A e).  Proof. discriminate. Qed.
Lemma np_skip {E A} : np (@CSkip E A).  Proof. discriminate. Qed.
Lemma np_bind {E A B} (m : res E A) (f : A -> res E B) : np m -> (forall a, m = COk a -> np (f a)) -> np (bind m f).
Proof. intros Hm Hf. destruct m as [a|e tb| |]; cbn [bind]; [apply Hf; reflexivity|discriminate|exfalso; apply Hm; reflexivity|discriminate]. Qed.
Lemma np_lift {A} (m : bres A) : np m -> np (lift m).
Proof. intros Hm. destruct m as [a|b tb| |]; cbn [lift]; try discriminate. exfalso; apply Hm; reflexivity. Qed.
Lemma np_with_tbl {E A} tbl (m : res E A) : np m -> np (with_tbl tbl m).
Proof. intros Hm. destruct m as [a|e [t|]| |]; cbn [with_tbl]; try discriminate. exfalso; apply Hm; reflexivity. Qed.
Lemma np_let {E A B} (e : B) (f : B -> res E A) : (forall x, x = e -> np (f x)) -> np (let x := e in f x).
Proof. intros H. exact (H e eq_refl). Qed.

Lemma np_lk {E} u sec k : Validated u -> np (@lk E u sec k).
Proof.
  intros Hu. destruct (lookups_do_not_panic u sec k Hu) as [H _]. unfold np, lk.
  destruct (lookup_last u sec k) as [[s|]|]; try discriminate. congruence.
Qed.
Lemma np_lk_all {E} u sec k : Validated u -> np (@lk_all E u sec k).
Proof.
  intros Hu. destruct (lookups_do_not_panic u sec k Hu) as [_ H]. unfold np, lk_all, of_pres.
  destruct (lookup_all u sec k); [discriminate|congruence].
Qed.
Lemma np_unquotes {E} u sec : Validated u -> np (@section_unquotes E u sec).
Proof.
  intros Hu. unfold np, section_unquotes. pose proof (validated_section u sec Hu) as Hs.
  assert (X : forallb (fun e : entry => match unquote_value (snd e) with Some _ => true | None => false end) (section_entries u sec) = true).
  { apply forallb_forall. intros e He. rewrite Forall_forall in Hs. specialize (Hs e He). unfold entry_valid in Hs.
    destruct (unquote_value (snd e)); [reflexivity|congruence]. }
  rewrite X. discriminate.
Qed.

Create HintDb np.
#[export] Hint Resolve np_lk np_lk_all np_unquotes : np.

(* the goal-directed tactic: hypotheses [Validated _] in the context discharge the look-ups *)
Ltac npt :=
  repeat first
    [ apply np_ok | apply np_err | apply np_skip
    | solve [auto with np]
    | apply np_lift | apply np_with_tbl
    | match goal with |- np (let _ := _ in _) => apply np_let; intros ? ? end
    | match goal with |- np (bind _ _) => apply np_bind; [|intros ? ?] end
    | match goal with
      | |- np (match ?x with _ => _ end) => destruct x eqn:?
      | |- np (if ?b then _ else _) => destruct b eqn:?
      end ].

(* look-ups in the service unit under construction only touch [Service]: validity of that section is enough *)
Definition VS (svc : unit) : Prop := Forall entry_valid (section_entries svc SEC_S).

Lemma lookups_section u sec key : Forall entry_valid (section_entries u sec) ->
  lookup_last u sec key <> Some PPanic /\ lookup_all u sec key <> PPanic.
Proof.
  intros Hs.
  assert (Hv : forall v, In v (values_raw u sec key) -> unquote_value v <> None).
  { intros v Hv. unfold values_raw in Hv. apply in_map_iff in Hv. destruct Hv as [e [<- He]]. apply filter_In in He.
    rewrite Forall_forall in Hs. apply Hs. apply He. }
  split.
  - unfold lookup_last, lookup_last_value. destruct (last_opt (values_raw u sec key)) as [v|] eqn:E; [|discriminate].
    pose proof (Hv v (last_opt_in _ _ E)) as Hn. destruct v; [discriminate|]. cbn [option_map]. unfold unquote_or_panic.
    destruct (unquote_value (n :: v)); [discriminate|congruence].
  - unfold lookup_all. rewrite list_rule.
    assert (He : forall v, In v (Spec.Effective.effective (values_raw u sec key)) -> unquote_value v <> None).
    { intros v Hin. apply Hv. clear -Hin. induction (values_raw u sec key) as [|x r IH]; [destruct Hin|].
      cbn [Spec.Effective.effective] in Hin. destruct (existsb Spec.Effective.is_empty r); [right; apply IH; exact Hin|].
      destruct (Spec.Effective.is_empty x); [right; exact Hin|exact Hin]. }
    induction (Spec.Effective.effective (values_raw u sec key)) as [|x r IH]; [discriminate|].
    cbn [map all_ok]. unfold unquote_or_panic at 1. pose proof (He x (or_introl eq_refl)) as Hx.
    destruct (unquote_value x); [|congruence].
    destruct (all_ok (map unquote_or_panic r)) eqn:E; [discriminate|]. exfalso. apply IH; [|reflexivity].
    intros v Hin. apply He. right. exact Hin.
Qed.

Lemma np_lk_svc {E} svc k : VS svc -> np (@lk E svc SEC_S k).
Proof.
  intros Hs. destruct (lookups_section svc SEC_S k Hs) as [H _]. unfold np, lk.
  destruct (lookup_last svc SEC_S k) as [[s|]|]; try discriminate. congruence.
Qed.
#[export] Hint Resolve np_lk_svc : np.

(* how the store operations act on [Service] *)
Lemma VS_add_entry_other svc sec k raw : sec <> SEC_S -> VS svc -> VS (add_entry svc sec k raw).
Proof. intros Hne H. unfold VS. rewrite section_entries_add_other by (intros X; apply Hne; symmetry; exact X). exact H. Qed.

Lemma VS_add_entry_same svc k raw : unquote_value raw <> None -> VS svc -> VS (add_entry svc SEC_S k raw).
Proof. intros Hr H. unfold VS. rewrite section_entries_add_same. apply Forall_app. split; [exact H|]. constructor; [exact Hr|constructor]. Qed.

Lemma VS_add_U svc k v : VS svc -> VS (unit_add svc SEC_U k v).
Proof. apply VS_add_entry_other. discriminate. Qed.

(* ---- a value without NUL is stored by add()/set() in a form that reads back ---- *)
Definition esc_check (c : N) (sp : str) : bool :=
  match sp with
  | [b; l] => (b =? cBS) && existsb (fun p => (fst p =? l) && (snd p =? c)) esc_table
  | [b; x; h1; h2] => (b =? cBS) && (x =? 120) &&
      match hexval h1, hexval h2 with Some d1, Some d2 => (hexfold [d1; d2] =? c) && negb (c =? 0) | _, _ => false end
  | _ => false
  end.

Lemma esc_check_sound c sp : esc_check c sp = true -> Esc c sp.
Proof.
  unfold esc_check. destruct sp as [|b [|l [|h1 [|h2 [|x r]]]]]; try discriminate.
  - intros H. apply andb_prop in H. destruct H as [Hb He]. apply N.eqb_eq in Hb. subst b.
    apply existsb_exists in He. destruct He as [[l' r'] [Hin Hp]]. cbn [fst snd] in Hp. apply andb_prop in Hp. destruct Hp as [H1 H2].
    apply N.eqb_eq in H1, H2. subst. apply EscSimple. exact Hin.
  - intros H. apply andb_prop in H. destruct H as [H Hd]. apply andb_prop in H. destruct H as [Hb Hx].
    apply N.eqb_eq in Hb, Hx. subst b l. destruct (hexval h1) as [d1|] eqn:E1; [|discriminate]. destruct (hexval h2) as [d2|] eqn:E2; [|discriminate].
    apply andb_prop in Hd. destruct Hd as [Hv Hz]. apply N.eqb_eq in Hv. subst c.
    apply (EscX [h1; h2] [d1; d2]); [reflexivity|repeat constructor; assumption|].
    intros X. rewrite X in Hz. discriminate.
Qed.

Lemma escapes_checked :
  forallb (fun c => negb (char_needs_escaping c) || (c =? 0) || (c =? 32) || (c =? 39) || esc_check c (esc_char c)) (upto 129) = true.
Proof. vm_compute. reflexivity. Qed.

Lemma esc_char_spells c : c <> 0 -> c <> 32 -> c <> 39 -> char_needs_escaping c = true -> Esc c (esc_char c).
Proof.
  intros Hz H32 H39 Hn. assert (Hlt : c < 129).
  { unfold char_needs_escaping in Hn. destruct (128 <? c) eqn:E; [discriminate|]. apply N.ltb_ge in E. lia. }
  pose proof (sweep _ 129 escapes_checked c Hlt) as H. cbv beta in H. rewrite Hn in H. cbn [negb orb] in H.
  apply N.eqb_neq in Hz, H32, H39. rewrite Hz, H32, H39 in H. cbn [orb] in H. apply esc_check_sound. exact H.
Qed.

(* whatever add()/set() store for a value without NUL can be read again (possibly as another string: an apostrophe after white space
   is stored literally and read as a quote -- see DESIGN, observations): the reader never fails on it, so no look-up of it panics *)
Lemma quote_value_readable v : ~ In 0 v -> forall q res, uq_run true q UNorm res (quote_value v) <> None.
Proof.
  unfold quote_value. induction v as [|c v IH]; intros Hnz q res; [cbn; discriminate|].
  assert (Hc0 : c <> 0) by (intros ->; apply Hnz; left; reflexivity).
  specialize (IH (fun X => Hnz (or_intror X))). cbn [flat_map].
  destruct (char_needs_escaping c) eqn:En.
  - destruct (N.eq_dec c 32) as [->|H32]; [|destruct (N.eq_dec c 39) as [->|H39]].
    + change (esc_char 32) with [32]. cbn [app uq_run]. unfold uq_step. cbn [N.eqb Pos.eqb is_quote_char orb andb].
      change (32 =? cBS) with false. cbv iota. destruct q as [qc|].
      * destruct (32 =? qc); apply IH.
      * apply IH.
    + change (esc_char 39) with [39]. cbn [app uq_run]. unfold uq_step. change (39 =? 0) with false. cbv iota.
      destruct (is_quote_char 39 && at_item_start res && (negb true || match q with None => true | Some _ => false end)); [apply IH|].
      change (39 =? cBS) with false. cbv iota. destruct q as [qc|]; [destruct (39 =? qc)|]; apply IH.
    + rewrite (esc_run c (esc_char c) (esc_char_spells c Hc0 H32 H39 En) true q res). apply IH.
  - unfold esc_char. rewrite En. cbn [negb app uq_run]. unfold uq_step. apply N.eqb_neq in Hc0. rewrite Hc0.
    unfold char_needs_escaping in En. assert (Hq : is_quote_char c = false /\ (c =? cBS) = false).
    { destruct (128 <? c) eqn:E128.
      - apply N.ltb_lt in E128. unfold is_quote_char, cDQ, cSQ, cBS. split; [apply Bool.orb_false_iff; split|]; apply N.eqb_neq; lia.
      - apply Bool.orb_false_iff in En. destruct En as [En Hbs]. apply Bool.orb_false_iff in En. destruct En as [En Hsq].
        apply Bool.orb_false_iff in En. destruct En as [_ Hdq]. unfold is_quote_char. rewrite Hdq, Hsq, Hbs. split; reflexivity. }
    destruct Hq as [Hq Hb]. rewrite Hq, Hb. cbn [andb]. destruct q as [qc|]; [destruct (c =? qc)|]; apply IH.
Qed.

Lemma quote_value_reads_back v : ~ In 0 v -> unquote_value (quote_value v) <> None.
Proof. intros H. apply quote_value_readable. exact H. Qed.

Ltac nz := let X := fresh in intros X; vm_compute in X; repeat (destruct X as [X|X]; [discriminate X|]); exact X.

Lemma VS_add_S svc k v : ~ In 0 v -> VS svc -> VS (unit_add svc SEC_S k v).
Proof. intros Hv. apply VS_add_entry_same. apply quote_value_reads_back. exact Hv. Qed.

Lemma Forall_removelast {A} (P : A -> Prop) l : Forall P l -> Forall P (removelast l).
Proof. induction 1 as [|x l Hx Hl IH]; [constructor|]. destruct l; [constructor|]. cbn [removelast]. constructor; assumption. Qed.

Lemma Forall_filter {A} (P : A -> Prop) f l : Forall P l -> Forall P (filter f l).
Proof. induction 1 as [|x l Hx Hl IH]; [constructor|]. cbn [filter]. destruct (f x); [constructor; assumption|exact IH]. Qed.

Lemma VS_set svc k v : ~ In 0 v -> VS svc -> VS (unit_set svc SEC_S k v).
Proof.
  intros Hv H. unfold VS, unit_set. rewrite section_entries_set_same. unfold set_in.
  apply Forall_app. split; [apply Forall_filter; exact H|]. apply Forall_app. split; [apply Forall_removelast, Forall_filter; exact H|].
  constructor; [|constructor]. apply quote_value_reads_back. exact Hv.
Qed.

Lemma VS_add_raw_exec svc k args svc' : VS svc -> add_raw_exec svc k args = COk svc' -> VS svc'.
Proof.
  intros H. unfold add_raw_exec, unit_add_raw. destruct (unquote_value (quote_words args)) eqn:E; [|discriminate]. intros X. injection X as <-.
  apply VS_add_entry_same; [congruence|exact H].
Qed.

(* whole-unit validity through the prologue *)
Lemma validated_remove u sec : Validated u -> Validated (remove_section u sec).
Proof. intros H. induction H as [|[n es] r Hs Hr IH]; cbn [remove_section]; [constructor|]. destruct (str_eqb sec n); [exact Hr|constructor; assumption]. Qed.

Lemma validated_prepend u sec k v : ~ In 0 v -> Validated u -> Validated (unit_prepend u sec k v).
Proof.
  intros Hv H. unfold unit_prepend. apply Forall_app. split; [apply validated_remove; exact H|]. constructor; [|constructor]. cbn [snd].
  constructor; [apply quote_value_reads_back; exact Hv|apply validated_section; exact H].
Qed.

Lemma validated_rename u from to : Validated u -> Validated (rename_section u from to).
Proof.
  intros H. unfold rename_section. destruct (has_section u from); [|exact H].
  apply validated_add_entries; [apply validated_remove; exact H|apply validated_section; exact H].
Qed.

Lemma validated_unit_add u sec k v : ~ In 0 v -> Validated u -> Validated (unit_add u sec k v).
Proof. intros Hv H. apply validated_add_entry; [exact H|apply quote_value_reads_back; exact Hv]. Qed.

Lemma validated_default_dependencies u : Validated u -> Validated (default_dependencies u).
Proof. intros H. unfold default_dependencies. destruct (match lookup_bool _ _ _ with Some b => b | None => true end); [|exact H].
  apply validated_prepend; [nz|]. apply validated_prepend; [nz|exact H]. Qed.

Lemma validated_rename_own svc t : Validated svc -> Validated (rename_own svc t).
Proof. intros H. unfold rename_own. apply validated_rename, validated_rename. exact H. Qed.

Lemma VS_of_validated u : Validated u -> VS u.
Proof. apply validated_section. Qed.

(* ---- path operations do not invent a NUL ---- *)
Definition NZ (s : str) : Prop := ~ In 0 s.

Lemma NZ_app a b : NZ a -> NZ b -> NZ (a ++ b).
Proof. intros Ha Hb H. apply in_app_or in H. destruct H; [apply Ha|apply Hb]; assumption. Qed.
Lemma NZ_cons c s : c <> 0 -> NZ s -> NZ (c :: s).
Proof. intros Hc Hs [H|H]; [apply Hc; exact H|apply Hs; exact H]. Qed.
Lemma NZ_tail c s : NZ (c :: s) -> NZ s.
Proof. intros H X. apply H. right. exact X. Qed.

Lemma split_on_NZ sep s : NZ s -> Forall NZ (split_on sep s).
Proof.
  induction s as [|c r IH]; intros H; cbn [split_on]; [constructor; [intros []|constructor]|].
  specialize (IH (NZ_tail _ _ H)). destruct (c =? sep); [constructor; [intros []|exact IH]|].
  destruct (split_on sep r) as [|w ws]; [constructor; [|constructor]|inversion IH; subst; constructor; [|assumption]].
  - apply NZ_cons; [intros ->; apply H; left; reflexivity|intros []].
  - apply NZ_cons; [intros ->; apply H; left; reflexivity|assumption].
Qed.

Lemma segs_NZ p : NZ p -> Forall NZ (segs p).
Proof. intros H. unfold segs. apply Forall_filter. apply split_on_NZ. exact H. Qed.

Definition comp_NZ (c : comp) : Prop := NZ (comp_str c).

Lemma classify_NZ s : NZ s -> comp_NZ (classify s).
Proof. intros H. unfold classify, comp_NZ. destruct (str_eqb s dotdot); cbn [comp_str]; [nz|exact H]. Qed.

Lemma components_NZ p : NZ p -> Forall comp_NZ (components p).
Proof.
  intros H. unfold components. pose proof (segs_NZ p H) as Hs.
  assert (G : forall l, Forall NZ l -> Forall comp_NZ (map classify (filter (fun s => negb (str_eqb s dot)) l))).
  { intros l Hl. induction Hl as [|x l Hx Hl IH]; [constructor|]. cbn [filter]. destruct (negb (str_eqb x dot)); [|exact IH].
    cbn [map]. constructor; [apply classify_NZ; exact Hx|exact IH]. }
  destruct (is_absolute p).
  - constructor; [unfold comp_NZ; cbn; intros []|apply G; exact Hs].
  - destruct (segs p) as [|s r]; [constructor|]. inversion Hs; subst. constructor; [|apply G; assumption].
    destruct (str_eqb s dot); [unfold comp_NZ; cbn [comp_str]; nz|apply classify_NZ; assumption].
Qed.

Lemma join_NZ sep l : NZ sep -> Forall NZ l -> NZ (join sep l).
Proof.
  intros Hs H. induction H as [|x l Hx Hl IH]; [intros []|]. cbn [join]. destruct l; [exact Hx|].
  apply NZ_app; [exact Hx|apply NZ_app; [exact Hs|exact IH]].
Qed.

Lemma render_comps_NZ cs : Forall comp_NZ cs -> NZ (render_comps cs).
Proof.
  intros H. assert (G : forall l, Forall comp_NZ l -> Forall NZ (map comp_str l)).
  { intros l Hl. induction Hl; [constructor|constructor; assumption]. }
  unfold render_comps. destruct cs as [|c r]; [intros []|]. inversion H; subst.
  destruct c; try (apply join_NZ; [nz|apply G; exact H]).
  apply NZ_cons; [discriminate|apply join_NZ; [nz|apply G; assumption]].
Qed.

Lemma removelast_Forall {A} (P : A -> Prop) l : Forall P l -> Forall P (removelast l).
Proof. apply Forall_removelast. Qed.

Lemma clean_step_NZ buf c : Forall comp_NZ buf -> comp_NZ c -> Forall comp_NZ (clean_step buf c).
Proof.
  intros Hb Hc. unfold clean_step, pb_push, pb_pop. destruct c.
  - constructor; [exact Hc|constructor].
  - exact Hb.
  - destruct buf as [|b r]; [constructor; [exact Hc|constructor]|]. destruct b; try (apply Forall_removelast; exact Hb).
    destruct r; [exact Hb|apply Forall_removelast; exact Hb].
  - apply Forall_app. split; [exact Hb|constructor; [exact Hc|constructor]].
Qed.

Lemma cleaned_NZ p : NZ p -> NZ (cleaned p).
Proof.
  intros H. unfold cleaned. apply render_comps_NZ.
  assert (G : forall cs buf, Forall comp_NZ cs -> Forall comp_NZ buf -> Forall comp_NZ (fold_left clean_step cs buf)).
  { induction cs as [|c r IH]; intros buf Hc Hb; cbn [fold_left]; [exact Hb|]. inversion Hc; subst. apply IH; [assumption|apply clean_step_NZ; assumption]. }
  apply G; [apply components_NZ; exact H|constructor].
Qed.

Lemma path_join_NZ a b : NZ a -> NZ b -> NZ (path_join a b).
Proof.
  intros Ha Hb. unfold path_join. destruct (is_absolute b); [exact Hb|]. destruct a as [|c a']; [exact Hb|].
  destruct (ends_with _ _); [apply NZ_app; assumption|apply NZ_app; [exact Ha|apply NZ_app; [nz|exact Hb]]].
Qed.

Lemma absolute_from_NZ p root r : NZ p -> NZ root -> absolute_from p root = Some r -> NZ r.
Proof.
  intros Hp Hr. unfold absolute_from. destruct (_ && _).
  - destruct root; [discriminate|]. intros H. injection H as <-. apply cleaned_NZ, path_join_NZ; assumption.
  - intros H. injection H as <-. apply cleaned_NZ. exact Hp.
Qed.

Lemma parent_NZ p d : NZ p -> parent p = Some d -> NZ d.
Proof.
  intros Hp. unfold parent. pose proof (components_NZ p Hp) as Hc. apply Forall_rev in Hc.
  destruct (rev (components p)) as [|c r]; [discriminate|]. inversion Hc; subst.
  assert (G : NZ (render_comps (rev r))) by (apply render_comps_NZ, Forall_rev; assumption).
  destruct c; try (intros H; injection H as <-; exact G). destruct r; [discriminate|]. intros H; injection H as <-; exact G.
Qed.

Lemma absolute_from_unit_NZ p up r : NZ p -> NZ up -> absolute_from_unit p up = Some r -> NZ r.
Proof.
  intros Hp Hu. unfold absolute_from_unit. destruct (parent up) as [d|] eqn:E; [|discriminate].
  apply absolute_from_NZ; [exact Hp|eapply parent_NZ; eassumption].
Qed.

(* ---- handlers that only touch [Unit] keep [Service] valid (through the extension relation of C07) ---- *)
Lemma VS_Ext svc svc' : Ext ABASE [] svc svc' -> VS svc -> VS svc'.
Proof.
  intros He H. unfold VS in *. rewrite Forall_forall in *. intros e Hin.
  assert (Hv : In (snd e) (vals svc' SEC_S (fst e))).
  { unfold vals, values_raw. apply in_map. apply filter_In. split; [exact Hin|]. unfold key_is. apply str_eqb_refl. }
  destruct (He SEC_S (fst e)) as [post [E P]]; [intros _ []|]. rewrite E, P in Hv.
  - rewrite app_nil_r in Hv. unfold vals, values_raw in Hv. apply in_map_iff in Hv. destruct Hv as [e0 [Hs He0]]. apply filter_In in He0.
    unfold entry_valid. rewrite <- Hs. apply H. apply He0.
  - unfold ABASE. cbn [In]. intros X. repeat (destruct X as [X|X]; [vm_compute in X; discriminate X|]). exact X.
Qed.

Lemma incl_base_base : incl ABASE ABASE.  Proof. intros x H. exact H. Qed.

Section Handlers.
Variables (podman : str) (exists_path : str -> bool) (kill_fixed mount_nl : bool).
Variable u : unit.
Hypothesis Hu : Validated u.

Lemma np_base sec : np (base_command podman u sec).
Proof. unfold base_command. npt. Qed.
Lemma np_add_raw_exec svc k args : np (add_raw_exec svc k args).
Proof. unfold add_raw_exec. npt. Qed.
Lemma np_add_strings sec keys : forall args, np (add_strings u sec keys args).
Proof. induction keys as [|[k f] r IH]; intros args; cbn [add_strings]; npt; try apply IH. Qed.
Lemma np_add_all_strings sec keys : forall args, np (add_all_strings u sec keys args).
Proof. induction keys as [|[k f] r IH]; intros args; cbn [add_all_strings]; npt; try apply IH. Qed.
Hint Resolve np_base np_add_raw_exec np_add_strings np_add_all_strings : np.
Lemma np_health sec args : np (handle_health u sec args).
Proof. unfold handle_health. npt. Qed.
Lemma np_image_source n svc tbl : np (handle_image_source n svc tbl).
Proof. unfold handle_image_source. npt. Qed.
Lemma np_log_driver sec args : np (handle_log_driver u sec args).
Proof. unfold handle_log_driver. npt. Qed.
Hint Resolve np_health np_image_source np_log_driver : np.
Lemma np_networks_loop tbl nets : forall svc args, np (networks_loop nets svc tbl args).
Proof.
  induction nets as [|n r IH]; intros svc args; cbn [networks_loop]; [npt|]. destruct n as [|c n]; [apply IH|].
  destruct (match split_once cCOLON (c :: n) with Some (a, b) => (a, Some b) | None => (c :: n, None) end) as [name opts]. cbv zeta.
  apply np_bind; [npt|]. intros [rn svc'] _. destruct opts; [destruct (ends_with _ name); [npt|apply IH]|apply IH].
Qed.
Hint Resolve np_networks_loop : np.
Lemma np_networks sec svc tbl args : np (handle_networks u sec svc tbl args).
Proof. unfold handle_networks. npt. Qed.
Lemma np_abs p up : np (abs_from_unit p up).
Proof. unfold abs_from_unit. npt. Qed.
Hint Resolve np_networks np_abs : np.
Lemma np_storage up svc src tbl ci : np (handle_storage_source up svc src tbl ci).
Proof. unfold handle_storage_source. npt. Qed.
Lemma np_user sec args : np (handle_user u sec args).
Proof. unfold handle_user. npt. Qed.
Lemma np_user_remap sec args sm : np (handle_user_remap u sec args sm).
Proof. unfold handle_user_remap. npt. Qed.
Hint Resolve np_storage np_user np_user_remap : np.
Lemma np_user_mappings sec args sm : np (handle_user_mappings u sec args sm).
Proof. unfold handle_user_mappings. npt. Qed.
Hint Resolve np_user_mappings : np.
Lemma np_volumes_loop pinned up tbl vols : forall svc args, np (volumes_loop pinned up vols svc tbl args).
Proof.
  induction vols as [|v r IH]; intros svc args; cbn [volumes_loop]; [npt|].
  lazymatch goal with |- np (match ?e with pair _ _ => _ end) => destruct e as [[source dest] options] end.
  destruct source; [apply IH|]. apply np_bind; [npt|]. intros [src svc'] _. apply IH.
Qed.
Hint Resolve np_volumes_loop : np.
Lemma np_volumes pinned up sec svc tbl args : np (handle_volumes pinned u up sec svc tbl args).
Proof. unfold handle_volumes. npt. Qed.
Lemma np_pod sec svc sp tbl args : np (handle_pod u sec svc sp tbl args).
Proof. unfold handle_pod. npt. Qed.
Lemma np_hswd up svc t : np (handle_set_working_directory u up svc t).
Proof. unfold handle_set_working_directory. npt. Qed.
Hint Resolve np_volumes np_pod np_hswd : np.
Lemma np_mount_tokens up tbl tokens : forall svc acc, np (mount_tokens up tokens svc tbl acc).
Proof.
  induction tokens as [|t r IH]; intros svc acc; cbn [mount_tokens]; [npt|]. destruct (_ || _); [|apply IH].
  destruct (split_once cEQ t) as [[a v]|]; [|npt]. apply np_bind; [npt|]. intros [src svc'] _. apply IH.
Qed.
Hint Resolve np_mount_tokens : np.
Lemma np_resolve_mount nl up m svc tbl : np (resolve_mount nl up m svc tbl).
Proof. unfold resolve_mount. npt. Qed.
Hint Resolve np_resolve_mount : np.
Lemma np_mounts_loop nl up tbl ms : forall svc args, np (mounts_loop nl up ms svc tbl args).
Proof. induction ms as [|m r IH]; intros svc args; cbn [mounts_loop]; [npt|]. apply np_bind; [npt|]. intros [s svc'] _. apply IH. Qed.
Lemma np_expose ports : forall args, np (expose_loop ports args).
Proof. induction ports as [|p r IH]; intros args; cbn [expose_loop]; npt; apply IH. Qed.
Hint Resolve np_mounts_loop np_expose : np.
Lemma np_container_name {E} path : np (@container_name E u path).
Proof. unfold container_name. npt. Qed.
Lemma np_check sec sup : np (check_for_unknown_keys u sec sup).
Proof. unfold check_for_unknown_keys. npt. Qed.
Hint Resolve np_container_name np_check : np.
Lemma np_envfiles path l : np ((fix go (l : list str) : bres (list str) :=
                    match l with
                    | [] => COk []
                    | f :: r => do a <- abs_from_unit f path; do rest <- go r; COk (a :: rest)
                    end) l).
Proof. induction l as [|f r IH]; npt. Qed.
Hint Resolve np_envfiles : np.
Lemma np_set_if_absent svc k v : VS svc -> np (set_if_absent svc k v).
Proof. intros H. unfold set_if_absent. npt. Qed.
End Handlers.

Section Converters.
Variables (podman : str) (exists_path : str -> bool) (kill_fixed mount_nl : bool).
Variable u : unit.
Hypothesis Hu : Validated u.
Variable path : str.
Hypothesis Hpath : NZ path.

Hint Resolve np_base np_add_raw_exec np_add_strings np_add_all_strings np_health np_image_source np_log_driver np_networks_loop
  np_networks np_abs np_storage np_user np_user_remap np_user_mappings np_volumes_loop np_volumes np_pod np_hswd np_mount_tokens
  np_resolve_mount np_mounts_loop np_expose np_container_name np_check np_envfiles np_set_if_absent : np.

Lemma np_prologue tbl t sup f : file_name path = Some f -> np (prologue u path tbl t sup).
Proof. intros Hf. unfold prologue. rewrite Hf. npt. Qed.

Lemma prologue_valid tbl t sup i svc0 : prologue u path tbl t sup = COk (i, svc0) -> Validated svc0.
Proof.
  unfold prologue. destruct (file_name path); [|discriminate]. destruct (tbl_get tbl l); [|discriminate]. cbv zeta.
  bel. intros ? _. bel. intros ? _. bel. intros ? _. bel. intros ? _. intros H. injection H as _ <-.
  assert (V0 : Validated (default_dependencies (merge_from [] u))).
  { apply validated_default_dependencies. apply merged_units_validated; [constructor|exact Hu]. }
  destruct path; [exact V0|]. apply validated_unit_add; [exact Hpath|exact V0].
Qed.

Lemma np_ct_service svc : VS svc -> np (ct_service podman kill_fixed u path svc).
Proof.
  intros Hs. unfold ct_service. cbv zeta. apply np_bind; [npt|]. intros cn _.
  assert (V1 : VS (unit_add svc SEC_S (s2l "Environment") (s2l "PODMAN_SYSTEMD_UNIT=%n"))) by (apply VS_add_S; [nz|exact Hs]).
  npt.
Qed.
Lemma np_ct_run_head base cname svc : np (ct_run_head u base cname svc).
Proof. unfold ct_run_head. npt. Qed.
Lemma np_ct_net_notify tbl args svc : np (ct_net_notify u tbl args svc).
Proof. unfold ct_net_notify. npt. Qed.
Lemma np_ct_security args : np (ct_security exists_path u args).
Proof. unfold ct_security. npt. Qed.
Lemma np_ct_labels_ports penv args : np (ct_labels_ports u path penv args).
Proof. unfold ct_labels_ports. npt. Qed.
Hint Resolve np_ct_run_head np_ct_net_notify np_ct_security np_ct_labels_ports : np.

Theorem container_no_panic tbl f : file_name path = Some f ->
  np (from_container podman exists_path kill_fixed mount_nl u path tbl).
Proof.
  intros Hf. unfold from_container. cbv zeta. apply np_bind; [eapply np_prologue; exact Hf|]. intros [i svc0] Hp.
  pose proof (VS_of_validated _ (validated_rename_own _ TContainer (prologue_valid _ _ _ _ _ Hp))) as V0.
  apply np_lift. apply np_bind; [npt|]. intros image0 _. apply np_bind; [npt|]. intros rootfs0 _.
  set (image := match image0 with Some s => s | None => [] end). set (rootfs := match rootfs0 with Some s => s | None => [] end).
  clearbody image rootfs. destruct image as [|c im], rootfs as [|d rf]; try (apply np_err).
  all: apply np_bind; [npt|]; intros [image1 svc1] H1;
    assert (V1 : VS svc1) by (first [injection H1 as _ <-; exact V0 | eapply VS_Ext; [eapply Ext_image_source; [exact incl_base_base|exact H1]|exact V0]]);
    apply np_bind; [apply np_ct_service; exact V1|]; intros [[[cname penv] base] svc2] _; npt.
Qed.

Lemma VS_set_if_absent svc k v s' : ~ In 0 v -> VS svc -> set_if_absent svc k v = COk s' -> VS s'.
Proof. intros Hv H. unfold set_if_absent. bel. intros o _ X. injection X as <-. destruct o; [exact H|apply VS_set; assumption]. Qed.

Lemma np_one_shot svc remain : VS svc -> np (one_shot_section svc remain).
Proof.
  intros H. unfold one_shot_section. apply np_bind; [apply np_set_if_absent; exact H|]. intros s1 E1.
  assert (V1 : VS s1) by (eapply VS_set_if_absent; [|exact H|exact E1]; nz).
  apply np_bind; [apply np_set_if_absent; exact V1|]. intros s2 E2.
  assert (V2 : VS s2) by (eapply VS_set_if_absent; [|exact V1|exact E2]; nz).
  destruct remain; [apply np_set_if_absent; exact V2|apply np_ok].
Qed.

Lemma np_image_resource : np (image_resource u).
Proof. unfold image_resource. npt. Qed.

Theorem image_no_panic tbl f : file_name path = Some f -> np (from_image podman u path tbl).
Proof.
  intros Hf. unfold from_image. apply np_bind; [eapply np_prologue; exact Hf|]. intros [i svc0] Hp.
  apply np_lift. apply np_bind.
  - unfold image_body. cbv zeta. apply np_bind; [npt|]. intros img _. destruct img as [[|c s]|]; try apply np_err.
    apply np_bind; [npt|]. intros base _. apply np_bind; [npt|]. intros a1 _. apply np_bind; [npt|]. intros svc1 H1.
    apply np_one_shot. eapply VS_add_raw_exec; [|exact H1]. apply VS_add_U.
    apply VS_of_validated, validated_rename_own. eapply prologue_valid. exact Hp.
  - intros svc1 _. apply np_bind; [apply np_image_resource|]. intros rn _. rewrite Hf. apply np_ok.
Qed.

Lemma np_default_resource_name st : file_stem path = Some st -> np (default_resource_name path).
Proof. intros H. unfold default_resource_name. rewrite H. apply np_ok. Qed.

Theorem network_no_panic tbl f st : file_name path = Some f -> file_stem path = Some st -> np (from_network podman u path tbl).
Proof.
  intros Hf Hst. unfold from_network. apply np_bind; [eapply np_prologue; exact Hf|]. intros [i svc0] Hp.
  apply np_lift. apply np_bind.
  - unfold network_name. apply np_bind; [npt|]. intros nn _. destruct nn as [[|c s]|]; try apply np_ok; eapply np_default_resource_name; exact Hst.
  - intros name _. apply np_bind; [|intros svc1 _; rewrite Hf; apply np_ok].
    unfold network_body. cbv zeta.
    apply np_bind; [npt|]. intros base _. apply np_bind; [npt|]. intros a1 _. apply np_bind; [npt|]. intros a2 _.
    apply np_bind; [npt|]. intros sn _. apply np_bind; [npt|]. intros gw _. apply np_bind; [npt|]. intros rg _.
    apply np_bind; [npt|]. intros a3 _. apply np_bind; [npt|]. intros svc1 H1.
    apply np_one_shot. eapply VS_add_raw_exec; [|exact H1]. apply VS_add_U.
    apply VS_of_validated, validated_rename_own. eapply prologue_valid. exact Hp.
Qed.

Lemma np_volume_name st : file_stem path = Some st -> np (volume_name u path).
Proof. intros Hst. unfold volume_name. apply np_bind; [npt|]. intros vn _. destruct vn as [[|c s]|]; try apply np_ok; eapply np_default_resource_name; exact Hst. Qed.

Theorem volume_no_panic tbl f st : file_name path = Some f -> file_stem path = Some st -> np (from_volume podman u path tbl).
Proof.
  intros Hf Hst. unfold from_volume. apply np_bind; [eapply np_prologue; exact Hf|]. intros [i svc0] Hp.
  apply np_lift. cbv zeta. apply np_bind; [eapply np_volume_name; exact Hst|]. intros name _. rewrite Hf. apply np_with_tbl.
  apply np_bind; [|intros; apply np_ok].
  pose proof (VS_of_validated _ (validated_rename_own _ TVolume (prologue_valid _ _ _ _ _ Hp))) as V0.
  unfold volume_body. cbv zeta. apply np_bind; [npt|]. intros base _. apply np_bind; [npt|]. intros drv _.
  apply np_bind; [npt|]. intros [a1 svc1] H1. apply np_bind; [npt|]. intros svc2 H2.
  apply np_one_shot. eapply VS_add_raw_exec; [|exact H2].
  revert H1. destruct (str_eqb _ _).
  - bel. intros img _. destruct img as [im|]; [|discriminate]. bel. intros [iname svcx] Hx. intros H. injection H as _ <-.
    eapply VS_Ext; [eapply Ext_image_source; [exact incl_base_base|exact Hx]|]. apply VS_add_U. exact V0.
  - bel. intros usr _. bel. intros grp _. bel. intros dev _.
    destruct (match dev with Some (c :: s) => _ | _ => _ end) as [a2 dv]. bel. intros ty _. bel. intros a3 _. bel. intros mo _. bel. intros op _.
    intros H. injection H as _ <-. apply VS_add_U. exact V0.
Qed.

Theorem pod_no_panic tbl f st : file_name path = Some f -> file_stem path = Some st -> np (from_pod podman mount_nl u path tbl).
Proof.
  intros Hf Hst. unfold from_pod. cbv zeta. apply np_bind; [eapply np_prologue; exact Hf|]. intros [i svc0] Hp.
  apply np_lift. apply np_bind; [npt|]. intros pn _.
  apply np_bind; [destruct pn as [[|c s]|]; try apply np_ok; eapply np_default_resource_name; exact Hst|]. intros name _. npt.
Qed.

Lemma VS_hswd up svc t c svc' : NZ up -> VS svc -> handle_set_working_directory u up svc t = COk (c, svc') -> VS svc'.
Proof.
  intros Hup Hs. unfold handle_set_working_directory. cbv zeta. bel. intros swd Hswd.
  destruct swd as [[|c0 w]|]; try (intros H; injection H as _ <-; exact Hs).
  bel. intros [ctx rel] Hrel. destruct rel as [|r0 rel]; [intros H; injection H as _ <-; exact Hs|].
  destruct (is_url ctx); [intros H; injection H as _ <-; exact Hs|].
  bel. intros wd _.
  assert (Hr : NZ (r0 :: rel)).
  { (* rel is the unit's path, or a value of the unit (Yaml= / File= / SetWorkingDirectory=) *)
    assert (Hval : forall k v, @lk berr u (type_section t) k = COk (Some v) -> NZ v).
    { intros k v Hk. apply lk_some_inv in Hk. destruct Hk as [raw [_ Hq]]. eapply unquoted_values_have_no_nul. exact Hq. }
    pose proof (Hval _ _ Hswd) as Hw. revert Hrel.
    destruct (str_eqb (to_lower (c0 :: w)) (s2l "yaml")).
    - destruct t; try discriminate. bel. intros y Hy. destruct y as [y|]; [|discriminate]. intros H. injection H as _ <-. eapply Hval. exact Hy.
    - destruct (str_eqb (to_lower (c0 :: w)) (s2l "file")).
      + destruct t; try discriminate. bel. intros fl Hfl. destruct fl as [fl|]; [|discriminate]. intros H. injection H as _ <-. eapply Hval. exact Hfl.
      + destruct (str_eqb (to_lower (c0 :: w)) (s2l "unit")); [intros H; injection H as _ <-; exact Hup|].
        destruct t; try discriminate. destruct (is_absolute (c0 :: w)); intros H; [discriminate H|]. injection H as _ <-. exact Hup. }
  assert (G : forall fpath, abs_from_unit (r0 :: rel) up = COk fpath -> NZ (match parent fpath with Some d => d | None => fpath end)).
  { intros fpath Hf. unfold abs_from_unit in Hf. destruct (absolute_from_unit (r0 :: rel) up) as [a|] eqn:Ea; [|discriminate]. injection Hf as <-.
    pose proof (absolute_from_unit_NZ _ _ _ Hr Hup Ea) as Ha. destruct (parent a) as [d|] eqn:Ed; [eapply parent_NZ; eassumption|exact Ha]. }
  destruct wd as [[|w0 wd]|].
  1,3: bel; intros fpath Hfp H; injection H as _ <-; apply VS_add_S; [apply G; exact Hfp|exact Hs].
  intros H; injection H as _ <-; exact Hs.
Qed.

Theorem kube_no_panic tbl f : file_name path = Some f -> np (from_kube podman kill_fixed u path tbl).
Proof.
  intros Hf. unfold from_kube. cbv zeta. apply np_bind; [eapply np_prologue; exact Hf|]. intros [i svc0] Hp.
  pose proof (VS_of_validated _ (validated_rename_own _ TKube (prologue_valid _ _ _ _ _ Hp))) as V0.
  apply np_lift. apply np_bind; [npt|]. intros y _. destruct y as [[|c s]|]; try apply np_err.
  apply np_bind; [npt|]. intros yaml _.
  apply np_bind; [destruct kill_fixed; npt|]. intros svc1 H1.
  assert (V1 : VS svc1).
  { destruct kill_fixed.
    - revert H1. bel. intros km _. destruct km as [k|].
      + destruct (_ || _); [|discriminate]. intros H. injection H as <-. exact V0.
      + intros H. injection H as <-. apply VS_set; [nz|exact V0].
    - injection H1 as <-. apply VS_set; [nz|exact V0]. }
  assert (V2 : VS (unit_add (unit_add svc1 SEC_S (s2l "Environment") (s2l "PODMAN_SYSTEMD_UNIT=%n")) SEC_U (s2l "RequiresMountsFor") (s2l "%t/containers")))
    by (apply VS_add_U, VS_add_S; [nz|exact V1]).
  npt.
Qed.

Theorem build_no_panic tbl f : file_name path = Some f -> np (from_build podman mount_nl u path tbl).
Proof.
  intros Hf. unfold from_build. rewrite Hf. destruct (tbl_get tbl f); [|apply np_err]. destruct (i_resource_name i); [apply np_err|]. cbv zeta.
  apply np_bind; [npt|]. intros q1 _. apply np_bind; [npt|]. intros q2 _. apply np_bind; [npt|]. intros q3 _. apply np_bind; [npt|]. intros q4 _.
  apply np_lift.
  assert (V0 : VS (rename_own (build_svc0 u path) TBuild)).
  { apply VS_of_validated, validated_rename_own. unfold build_svc0. cbv zeta.
    assert (Vd : Validated (unit_add (default_dependencies (merge_from [] u)) SEC_U (s2l "RequiresMountsFor") (s2l "%t/containers"))).
    { apply validated_unit_add; [nz|]. apply validated_default_dependencies. apply merged_units_validated; [constructor|exact Hu]. }
    destruct path; [exact Vd|]. apply validated_unit_add; [exact Hpath|exact Vd]. }
  fold (build_svc0 u path).
  apply np_bind; [npt|]. intros base _. apply np_bind; [npt|]. intros pull _. apply np_bind; [npt|]. intros a1 _. apply np_bind; [npt|]. intros a2 _.
  apply np_bind; [npt|]. intros [a3 svc3] H3. apply np_bind; [npt|]. intros [a4 svc4] H4. apply np_bind; [npt|]. intros [ctx svc5] H5.
  assert (V5 : VS svc5).
  { eapply VS_hswd; [exact Hpath| |exact H5].
    eapply VS_Ext; [eapply Ext_handle_volumes; [exact incl_base_base|exact H4]|].
    eapply VS_Ext; [eapply Ext_handle_networks; [exact incl_base_base|exact H3]|exact V0]. }
  apply np_bind; [npt|]. intros wd _. apply np_bind; [npt|]. intros fp _. apply np_bind; [npt|]. intros [wdir fpath] _.
  apply np_bind; [npt|]. intros a5 _. apply np_bind; [npt|]. intros svc6 H6.
  apply np_bind; [apply np_one_shot; eapply VS_add_raw_exec; [exact V5|exact H6]|]. intros svc7 _. apply np_ok.
Qed.

(* every converter, on every validated unit with an ordinary path: never a Panic outcome *)
Theorem convert_no_panic t tbl f st : file_name path = Some f -> file_stem path = Some st ->
  np (convert_one podman exists_path kill_fixed mount_nl u path t tbl).
Proof.
  intros Hf Hst. destruct t; cbn [convert_one].
  - eapply build_no_panic; exact Hf.
  - eapply container_no_panic; exact Hf.
  - eapply image_no_panic; exact Hf.
  - eapply kube_no_panic; exact Hf.
  - eapply network_no_panic; eassumption.
  - eapply pod_no_panic; eassumption.
  - eapply volume_no_panic; eassumption.
Qed.
End Converters.

(* ---- the whole run ---- *)
Definition Ordinary (p : str) : Prop := NZ p /\ exists f, file_name p = Some f /\ file_name f = Some f.

Lemma file_stem_of_name p f : file_name p = Some f -> exists st, file_stem p = Some st.
Proof. intros H. unfold file_stem. rewrite H. cbn [option_map]. eauto. Qed.

Section Loads.
Variable u : unit.
Hypothesis Hu : Validated u.

Lemma np_service_name_of {E} path t f : file_name path = Some f -> file_name f = Some f -> np (@service_name_of E u path t).
Proof.
  intros Hf Hff. unfold service_name_of. apply np_bind; [npt|]. intros sn _. destruct sn; [apply np_ok|]. rewrite Hf.
  unfold replace_extension. destruct (file_stem_of_name f f Hff) as [st ->]. apply np_ok.
Qed.

Lemma np_unit_info path f : file_name path = Some f -> file_name f = Some f -> np (unit_info u path).
Proof.
  intros Hf Hff. unfold unit_info. destruct (type_of_path path) as [t|]; [|apply np_err].
  apply np_bind; [eapply np_service_name_of; eassumption|]. intros sn _. apply np_bind; [|intros; apply np_ok].
  destruct t; try apply np_ok.
  - unfold built_image_name. npt.
  - unfold container_resource_name. apply np_bind; [unfold container_name; npt|]. intros nm _.
    apply np_bind; [eapply np_service_name_of; eassumption|]. intros; apply np_ok.
Qed.
End Loads.

(* unit_info never leaves the modelled domain *)
Lemma ns_bind {E A B} (m : res E A) (f : A -> res E B) : m <> CSkip -> (forall a, f a <> CSkip) -> bind m f <> CSkip.
Proof. intros Hm Hf. destruct m as [a|e tb| |]; cbn [bind]; [apply Hf|discriminate|discriminate|exfalso; apply Hm; reflexivity]. Qed.
Lemma ns_lk {E} u sec k : @lk E u sec k <> CSkip.
Proof. unfold lk. destruct (lookup_last u sec k) as [[s|]|]; discriminate. Qed.
Lemma ns_lk_all {E} u sec k : @lk_all E u sec k <> CSkip.
Proof. unfold lk_all, of_pres. destruct (lookup_all u sec k); discriminate. Qed.
Lemma ns_service_name_of {E} u path t : @service_name_of E u path t <> CSkip.
Proof.
  unfold service_name_of. apply ns_bind; [apply ns_lk|]. intros [n|]; [discriminate|]. destruct (file_name path); [|discriminate].
  unfold replace_extension. destruct (file_stem l); discriminate.
Qed.
Lemma unit_info_no_skip u path : unit_info u path <> CSkip.
Proof.
  unfold unit_info. destruct (type_of_path path) as [t|]; [|discriminate]. apply ns_bind; [apply ns_service_name_of|]. intros sn.
  apply ns_bind; [|discriminate]. destruct t; try discriminate.
  - unfold built_image_name. apply ns_bind; [apply ns_lk_all|discriminate].
  - unfold container_resource_name. apply ns_bind; [unfold container_name; apply ns_bind; [apply ns_lk|intros [n|]; discriminate]|]. intros nm.
    apply ns_bind; [apply ns_service_name_of|discriminate].
Qed.

Lemma load_one_no_panic path text : Ordinary path -> load_one path text <> LPanic.
Proof.
  intros [_ (f & Hf & Hff)]. unfold load_one. destruct (parse_unit text) as [u|] eqn:Ep; [|discriminate].
  pose proof (np_unit_info u (parsed_units_validated _ _ Ep) path f Hf Hff) as H. unfold np in H.
  pose proof (unit_info_no_skip u path) as H2. destruct (unit_info u path); try discriminate; congruence.
Qed.

Section RunNoPanic.
Variables (podman : str) (exists_path : str -> bool) (kill_fixed mount_nl : bool).

Lemma convert_all_panic_origin l : forall tbl path,
  In (path, RPanic) (convert_all podman exists_path kill_fixed mount_nl l tbl) ->
  exists x tbl0, In x l /\ convert_one podman exists_path kill_fixed mount_nl (l_unit x) (l_path x) (i_type (l_info x)) tbl0 = CPanic.
Proof.
  induction l as [|x r IH]; intros tbl path; cbn [convert_all]; [intros []|].
  destruct (convert_one podman exists_path kill_fixed mount_nl (l_unit x) (l_path x) (i_type (l_info x)) tbl) as [[[s1 p1] t1]|e [t1|]| |] eqn:E;
    cbn [In]; intros [Heq|Hin]; try discriminate Heq;
    try (destruct (IH _ _ Hin) as (y & a & Hy & Hc); exists y, a; split; [right; exact Hy|exact Hc]).
  exists x, tbl. split; [left; reflexivity|exact E].
Qed.

Theorem run_no_panic files : (forall p t, In (p, t) files -> Ordinary p) ->
  let '(loads, results) := process_files podman exists_path kill_fixed mount_nl files in
  (forall p, ~ In (p, LPanic) loads) /\ (forall p, ~ In (p, RPanic) results).
Proof.
  intros Hord. unfold process_files. cbv zeta. split.
  - intros p Hin. apply in_map_iff in Hin. destruct Hin as [[p' t] [Heq Hf]]. cbn [fst snd] in Heq. injection Heq as -> Hl.
    exact (load_one_no_panic p t (Hord _ _ Hf) Hl).
  - intros p Hin. destruct (convert_all_panic_origin _ _ _ Hin) as (x & tbl0 & Hx & Hc).
    apply (Permutation.Permutation_in _ (Permutation.Permutation_sym (sort_units_perm _))) in Hx.
    apply in_flat_map in Hx. destruct Hx as [[pth lr] [Hin2 Hx]]. cbn [snd fst] in Hx.
    destruct lr as [u i| | |]; try (destruct Hx; fail). destruct Hx as [<-|[]]. cbn [l_path l_unit l_info] in Hc.
    apply in_map_iff in Hin2. destruct Hin2 as [[pth' text] [Heq Hf]]. cbn [fst snd] in Heq. injection Heq as -> Hl.
    unfold load_one in Hl. destruct (parse_unit text) as [u'|] eqn:Ep; [|discriminate].
    destruct (unit_info u' pth) as [i'| | |]; try discriminate. injection Hl as -> ->.
    destruct (Hord _ _ Hf) as [Hnz (f & Hff & _)]. destruct (file_stem_of_name _ _ Hff) as [st Hst].
    exact (convert_no_panic podman exists_path kill_fixed mount_nl u (parsed_units_validated _ _ Ep) pth Hnz (i_type i) tbl0 f st Hff Hst Hc).
Qed.
End RunNoPanic.
