(* C07, continued: the two managed choices of .kube/.build units that need a finer list of appendable pairs *)
From QV Require Import Model.Base Generated.Tables Model.Quote Model.Unquote Model.Split Model.PortRange Model.Unit Model.Lex Model.Parser
  Model.Path Model.Names Model.Convert Model.Process Proofs.Util Proofs.C15 Proofs.C07 Spec.Passthrough Proofs.C08 Proofs.C07run.
Open Scope N_scope.

Lemma lk_vals {E} a b sec k : vals a sec k = vals b sec k -> @lk E a sec k = @lk E b sec k.
Proof. intros H. unfold lk, lookup_last. rewrite (lookup_last_value_vals a b sec k H). reflexivity. Qed.

(* handle_set_working_directory appends WorkingDirectory only when the user has no non-empty one *)
Lemma Ext_hswd_kept A K u path svc t c svc' :
  In (SEC_S, s2l "WorkingDirectory") A \/ (exists c0 w, @lk berr u SEC_S (s2l "WorkingDirectory") = COk (Some (c0 :: w))) ->
  handle_set_working_directory u path svc t = COk (c, svc') -> Ext A K svc svc'.
Proof.
  intros [HA|[c0 [w Hw]]]; [apply Ext_hswd; exact HA|].
  unfold handle_set_working_directory. cbv zeta. bel. intros swd _.
  destruct swd as [[|c1 w1]|]; try (intros H; injection H as _ <-; apply Ext_refl).
  bel. intros [ctx rel] _. destruct rel as [|r0 rel]; [intros H; injection H as _ <-; apply Ext_refl|].
  destruct (is_url ctx); [intros H; injection H as _ <-; apply Ext_refl|].
  rewrite Hw. cbn [bind]. intros H; injection H as _ <-; apply Ext_refl.
Qed.

Section KubeG.
Variables (podman : str) (exists_path : str -> bool) (kill_fixed mount_nl : bool).
Variable A : list (str * str).
Variable K : list str.
Hypothesis HA : incl ABASE A.
Hypothesis HEnv : In (SEC_S, s2l "Environment") A.
Hypothesis HStart : In (SEC_S, s2l "ExecStart") A.
Hypothesis HStopPost : In (SEC_S, s2l "ExecStopPost") A.

Theorem kube_run_ext_g u path tbl svc p tbl' i svc0 :
  prologue u path tbl TKube a_SUPPORTED_KUBE_KEYS = COk (i, svc0) ->
  In (s2l "KillMode") K \/ (kill_fixed = true /\ lookup_last_value (rename_own svc0 TKube) SEC_S (s2l "KillMode") <> None) ->
  In (s2l "SyslogIdentifier") K \/ has_key u SEC_S (s2l "SyslogIdentifier") = true ->
  (In (SEC_S, s2l "Type") A /\ In (SEC_S, s2l "NotifyAccess") A) \/
    (~ In (s2l "Type") K /\ @lk berr (rename_own svc0 TKube) SEC_S (s2l "Type") = COk (Some (s2l "oneshot"))) ->
  In (SEC_S, s2l "WorkingDirectory") A \/ (exists c0 w, @lk berr u SEC_S (s2l "WorkingDirectory") = COk (Some (c0 :: w))) ->
  from_kube podman kill_fixed u path tbl = COk (svc, p, tbl') -> Ext A K (rename_own svc0 TKube) svc.
Proof.
  intros Hp HKm HS HT HW. unfold from_kube. cbv zeta. rewrite Hp. cbn [bind]. intros H. apply lift_ok in H. revert H.
  bel. intros y _. destruct y as [[|c s]|]; try discriminate.
  bel. intros yaml _. bel. intros svc1 H1. bel. intros ty Hty. bel. intros base _. bel. intros ecp _. bel. intros a1 _. bel. intros a2 _.
  bel. intros [a3 svc3] H3. bel. intros cms _. bel. intros a4 _. bel. intros svc4 H4. bel. intros base2 _. bel. intros svc5 H5.
  bel. intros [ctx svc6] H6. intros H. injection H as <- _ _. cbn [snd].
  assert (E1 : Ext A K (rename_own svc0 TKube) svc1).
  { destruct kill_fixed.
    - revert H1. bel. intros km Hkm. destruct km as [k|].
      + destruct (_ || _); [|discriminate]. intros H. injection H as <-. apply Ext_refl.
      + intros H. injection H as <-. destruct HKm as [HKm|[_ HKm]]; [peel; apply Ext_refl|].
        exfalso. apply HKm. apply lk_none_inv in Hkm. exact Hkm.
    - injection H1 as <-. destruct HKm as [HKm|[HKm _]]; [peel; apply Ext_refl|discriminate]. }
  apply (Ext_trans _ _ _ svc5); [|eapply Ext_hswd_kept; [exact HW|exact H6]].
  do 2 peel.
  match type of H3 with handle_networks _ _ ?M _ _ = _ =>
    apply (Ext_trans _ _ _ M); [|eapply Ext_handle_networks; [exact HA|exact H3]] end.
  apply (Ext_trans _ _ _ svc1); [exact E1|].
  assert (Hone : (In (SEC_S, s2l "Type") A /\ In (SEC_S, s2l "NotifyAccess") A) \/ ty = Some (s2l "oneshot")).
  { destruct HT as [HT|[HnK HT]]; [left; exact HT|right].
    assert (X : @lk berr (unit_add (unit_add svc1 SEC_S (s2l "Environment") (s2l "PODMAN_SYSTEMD_UNIT=%n")) SEC_U (s2l "RequiresMountsFor") (s2l "%t/containers"))
                  SEC_S (s2l "Type") = @lk berr (rename_own svc0 TKube) SEC_S (s2l "Type")).
    { apply lk_vals. rewrite !vals_unit_add. cbn [andb]. rewrite !app_nil_r.
      destruct (E1 SEC_S (s2l "Type")) as [post [Ev _]]; [intros _; exact HnK|]. 
      (* the KillMode step changes no Type value: E1 gives a prefix; exactness needs the step itself *)
      clear - H1. destruct kill_fixed.
      - revert H1. bel. intros km _. destruct km as [k|].
        + destruct (_ || _); [|discriminate]. intros H. injection H as <-. reflexivity.
        + intros H. injection H as <-. apply vals_set_other_key. sne.
      - injection H1 as <-. apply vals_set_other_key. sne. }
    rewrite X, HT in Hty. injection Hty as <-. reflexivity. }
  destruct (has_key u SEC_S (s2l "SyslogIdentifier")) eqn:Ehk.
  - destruct Hone as [[Ht1 Ht2]| ->]; [destruct ty as [t|]; [destruct (str_eqb t (s2l "oneshot"))|]|cbv beta iota; rewrite str_eqb_refl]; repeat peel.
  - destruct HS as [HS|HS]; [|discriminate]. peel.
    destruct Hone as [[Ht1 Ht2]| ->]; [destruct ty as [t|]; [destruct (str_eqb t (s2l "oneshot"))|]|cbv beta iota; rewrite str_eqb_refl]; repeat peel.
Qed.
End KubeG.

Lemma lk_svc0 {E} t u svc0 key : Shape0 u svc0 -> @lk E (rename_own svc0 t) SEC_S key = @lk E u SEC_S key.
Proof.
  intros Hs. apply lk_vals. rewrite vals_rename_own by apply service_not_hidden.
  destruct (Hs SEC_S key) as [pre [post [E0 [P _]]]]. destruct P as [-> ->]; [discriminate|]. rewrite E0, app_nil_r. reflexivity.
Qed.

Definition AKUBE_oneshot : list (str * str) :=
  ABASE ++ [(SEC_S, s2l "Environment"); (SEC_S, s2l "ExecStart"); (SEC_S, s2l "ExecStopPost"); (SEC_S, s2l "WorkingDirectory")].
Definition AKUBE_wd : list (str * str) :=
  ABASE ++ [(SEC_S, s2l "Environment"); (SEC_S, s2l "ExecStart"); (SEC_S, s2l "ExecStopPost"); (SEC_S, s2l "Type"); (SEC_S, s2l "NotifyAccess")].
Definition ABUILD_wd : list (str * str) := ABASE ++ [(SEC_S, s2l "ExecStart")].

Ltac in_list2 := cbv [AKUBE_oneshot AKUBE_wd ABUILD_wd ABASE app]; cbn [In]; auto 40.
Ltac solve_incl2 := intros x Hx; unfold ABASE in Hx; cbn [In] in Hx; repeat (destruct Hx as [<-|Hx]; [in_list2|]); destruct Hx.
Ltac notin_list2 := let X := fresh in intros X; cbv [AKUBE_oneshot AKUBE_wd ABUILD_wd ABASE app] in X; cbn [In] in X;
                    repeat (destruct X as [X|X]; [vm_compute in X; discriminate X|]); exact X.

Section KubeKept.
Variables (podman : str) (exists_path : str -> bool) (mount_nl : bool).

Theorem kube_oneshot_kept u path tbl svc p tbl' : NoDup (map fst u) -> @lk berr u SEC_S (s2l "Type") = COk (Some (s2l "oneshot")) ->
  from_kube podman true u path tbl = COk (svc, p, tbl') ->
  vals svc SEC_S (s2l "Type") = vals u SEC_S (s2l "Type") /\ vals svc SEC_S (s2l "NotifyAccess") = vals u SEC_S (s2l "NotifyAccess").
Proof.
  intros Hnd Hl H. assert (H' := H). unfold from_kube in H'. revert H'. cbv zeta. bel. intros [i svc0] Hp _.
  destruct (shape_prologue _ _ _ _ _ _ _ Hnd Hp) as [Hs Hn0].
  assert (He : Ext AKUBE_oneshot [s2l "KillMode"; s2l "SyslogIdentifier"] (rename_own svc0 TKube) svc).
  { eapply (kube_run_ext_g podman true); [solve_incl2|in_list2|in_list2|in_list2|exact Hp|left; cbn [In]; auto|left; cbn [In]; auto| |left; in_list2|exact H].
    right. split; [cbn [In]; intros [X|[X|[]]]; vm_compute in X; discriminate X|]. rewrite (lk_svc0 TKube u svc0 _ Hs). exact Hl. }
  assert (Hp' : PassThrough AKUBE_oneshot [s2l "KillMode"; s2l "SyslogIdentifier"] TKube u svc).
  { eapply passthrough_of; [solve_incl2|exact Hs|exact He]. }
  split; (eapply passthrough_exact; [exact Hp'|apply service_not_hidden| | |left; discriminate]);
    try notin_list2; intros _; cbn [In]; intros [X|[X|[]]]; vm_compute in X; discriminate X.
Qed.

Theorem kube_workdir_kept kill_fixed u path tbl svc p tbl' c0 w : NoDup (map fst u) ->
  @lk berr u SEC_S (s2l "WorkingDirectory") = COk (Some (c0 :: w)) ->
  from_kube podman kill_fixed u path tbl = COk (svc, p, tbl') ->
  vals svc SEC_S (s2l "WorkingDirectory") = vals u SEC_S (s2l "WorkingDirectory").
Proof.
  intros Hnd Hl H. assert (H' := H). unfold from_kube in H'. revert H'. cbv zeta. bel. intros [i svc0] Hp _.
  destruct (shape_prologue _ _ _ _ _ _ _ Hnd Hp) as [Hs Hn0].
  assert (He : Ext AKUBE_wd KSET (rename_own svc0 TKube) svc).
  { eapply (kube_run_ext_g podman kill_fixed); [solve_incl2|in_list2|in_list2|in_list2|exact Hp|left; in_kset|left; in_kset|left; split; in_list2| |exact H].
    right. exists c0, w. exact Hl. }
  assert (Hp' : PassThrough AKUBE_wd KSET TKube u svc) by (eapply passthrough_of; [solve_incl2|exact Hs|exact He]).
  eapply passthrough_exact; [exact Hp'|apply service_not_hidden| |notin_list2|left; discriminate].
  intros _. unfold KSET. cbn [In]. intros X. repeat (destruct X as [X|X]; [vm_compute in X; discriminate X|]). exact X.
Qed.
End KubeKept.

Section BuildG.
Variables (podman : str) (exists_path : str -> bool) (mount_nl : bool).
Variable A : list (str * str).
Variable K : list str.
Hypothesis HA : incl ABASE A.
Hypothesis HStart : In (SEC_S, s2l "ExecStart") A.

Theorem build_run_ext_g u path tbl svc p tbl' :
  In (s2l "SyslogIdentifier") K \/ lookup_last_value (rename_own (build_svc0 u path) TBuild) SEC_S (s2l "SyslogIdentifier") <> None ->
  In (s2l "Type") K \/ lookup_last_value (rename_own (build_svc0 u path) TBuild) SEC_S (s2l "Type") <> None ->
  In (SEC_S, s2l "WorkingDirectory") A \/ (exists c0 w, @lk berr u SEC_S (s2l "WorkingDirectory") = COk (Some (c0 :: w))) ->
  ~ In (SEC_S, s2l "SyslogIdentifier") A -> ~ In (SEC_S, s2l "Type") A ->
  from_build podman mount_nl u path tbl = COk (svc, p, tbl') -> Ext A K (rename_own (build_svc0 u path) TBuild) svc.
Proof.
  intros HS HT HW N1 N2. unfold from_build. destruct (file_name path); [|discriminate]. destruct (tbl_get tbl l); [|discriminate].
  destruct (i_resource_name i); [discriminate|]. cbv zeta. fold (build_svc0 u path).
  bel. intros q1 _. bel. intros q2 _. bel. intros q3 _. bel. intros q4 _. intros H. apply lift_ok in H. revert H.
  bel. intros base _. bel. intros pull _. bel. intros a1 _. bel. intros a2 _. bel. intros [a3 svc3] H3. bel. intros [a4 svc4] H4.
  bel. intros [ctx svc5] H5. bel. intros wd _. bel. intros fp _. bel. intros [wdir fpath] _. bel. intros a5 _.
  bel. intros svc6 H6. bel. intros svc7 H7. intros H. injection H as <- _ _.
  assert (E1 : forall K', Ext A K' (rename_own (build_svc0 u path) TBuild) svc6).
  { intros K'. peel.
    apply (Ext_trans _ _ _ svc4); [|eapply Ext_hswd_kept; [exact HW|exact H5]].
    apply (Ext_trans _ _ _ svc3); [|eapply Ext_handle_volumes; [exact HA|exact H4]].
    eapply Ext_handle_networks; [exact HA|exact H3]. }
  apply (Ext_trans _ _ _ svc6); [apply E1|].
  eapply Ext_one_shot_noremain; [| |exact H7]; (eapply cond_transfer; [apply (E1 [])|assumption|assumption]).
Qed.
End BuildG.

Theorem build_workdir_kept podman mount_nl u path tbl svc p tbl' c0 w : NoDup (map fst u) ->
  @lk berr u SEC_S (s2l "WorkingDirectory") = COk (Some (c0 :: w)) ->
  from_build podman mount_nl u path tbl = COk (svc, p, tbl') ->
  vals svc SEC_S (s2l "WorkingDirectory") = vals u SEC_S (s2l "WorkingDirectory").
Proof.
  intros Hnd Hl H. destruct (shape_build u path Hnd) as [Hs Hn0].
  assert (He : Ext ABUILD_wd KSET (rename_own (build_svc0 u path) TBuild) svc).
  { eapply (build_run_ext_g podman mount_nl); [solve_incl2|in_list2|left; in_kset|left; in_kset|right; exists c0, w; exact Hl|notin_list2|notin_list2|exact H]. }
  assert (Hp' : PassThrough ABUILD_wd KSET TBuild u svc) by (eapply passthrough_of; [solve_incl2|exact Hs|exact He]).
  eapply passthrough_exact; [exact Hp'|apply service_not_hidden| |notin_list2|left; discriminate].
  intros _. unfold KSET. cbn [In]. intros X. repeat (destruct X as [X|X]; [vm_compute in X; discriminate X|]). exact X.
Qed.
