(* C02, the whole-command clauses: the shape of the generated podman command line, for every successful conversion.
   Every handler only APPENDS to the argument vector, so the command is
       [podman] ++ (--module M)* ++ GlobalArgs  ++  sub-command words  ++  key options  ++  PodmanArgs  ++  object  ++  Exec words
   -- global options before the sub-command, PodmanArgs after all key options, the image (or --rootfs R) after them and the Exec=
   words last.  Proved for .container (ExecStart=), .image, .network, .volume, .kube (ExecStart=) and .pod (ExecStartPre=).
   Also the call site of C20: every ExposeHostPort= value of a converted container is a port range, passed on as --expose <trimmed>. *)
From QV Require Import Model.Base Generated.Tables Model.Quote Model.Unquote Model.Split Model.PortRange Model.Unit Model.Lex Model.Parser
  Model.Path Model.Names Model.Convert Model.Process Spec.Passthrough Proofs.Util Proofs.C15 Proofs.C07 Proofs.C02 Proofs.C08 Proofs.C07run Proofs.C09
  Proofs.C09run Proofs.C08run Proofs.C02run Proofs.C02types.
Open Scope N_scope.
Local Notation L := s2l (only parsing).

(* b is a with something appended *)
Definition App (a b : list str) : Prop := exists d, b = a ++ d.
Lemma App_refl a : App a a.  Proof. exists []. rewrite app_nil_r. reflexivity. Qed.
Lemma App_app a d : App a (a ++ d).  Proof. exists d. reflexivity. Qed.
Lemma App_trans a b c : App a b -> App b c -> App a c.
Proof. intros [d ->] [e ->]. exists (d ++ e). rewrite app_assoc. reflexivity. Qed.
Lemma App_of_Rel a b : Rel a b a b -> App a b.
Proof. intros [d [H _]]. exists d. exact H. Qed.

Ltac app_eq E := rewrite E; unfold add_bool, add_keys;
  repeat (match goal with
          | |- App _ (if ?b then _ else _) => destruct b
          | |- App _ (match ?x with _ => _ end) => destruct x
          end);
  rewrite <- ?app_assoc; first [apply App_refl | apply App_app].
Ltac app_solve := subst; unfold add_bool, add_keys;
  repeat (match goal with
          | |- App _ (if ?b then _ else _) => destruct b
          | |- App _ (match ?x with _ => _ end) => destruct x
          end);
  rewrite <- ?app_assoc; first [apply App_refl | apply App_app].

Section Handlers.
Variable u : unit.
Variable exists_path : str -> bool.

Lemma add_strings_app sec keys a b : add_strings u sec keys a = COk b -> App a b.
Proof. intros H. apply App_of_Rel. eapply add_strings_rel; eassumption. Qed.
Lemma add_all_strings_app sec keys a b : add_all_strings u sec keys a = COk b -> App a b.
Proof. intros H. apply App_of_Rel. eapply add_all_strings_rel; eassumption. Qed.
Lemma add_bools_app sec keys a : App a (add_bools u sec keys a).
Proof. apply App_of_Rel. apply add_bools_rel. Qed.
Lemma log_driver_app sec a b : handle_log_driver u sec a = COk b -> App a b.
Proof. intros H. apply App_of_Rel. eapply log_driver_rel; eassumption. Qed.
Lemma user_app sec a b : handle_user u sec a = COk b -> App a b.
Proof. intros H. apply App_of_Rel. eapply user_rel; eassumption. Qed.
Lemma user_mappings_app sec sm a b : handle_user_mappings u sec a sm = COk b -> App a b.
Proof. intros H. apply App_of_Rel. eapply user_mappings_rel; eassumption. Qed.
Lemma networks_app sec tbl s a b t : handle_networks u sec s tbl a = COk (b, t) -> App a b.
Proof. intros H. apply App_of_Rel. eapply networks_rel; eassumption. Qed.
Lemma volumes_app pinned up sec tbl s a b t : handle_volumes pinned u up sec s tbl a = COk (b, t) -> App a b.
Proof. intros H. apply App_of_Rel. eapply volumes_rel; eassumption. Qed.
Lemma mounts_loop_app nl up tbl ms s a b t : mounts_loop nl up ms s tbl a = COk (b, t) -> App a b.
Proof. intros H. apply App_of_Rel. eapply mounts_loop_rel; eassumption. Qed.
Lemma pod_app sec tbl sp s a b t x : handle_pod u sec s sp tbl a = COk (b, t, x) -> App a b.
Proof. intros H. apply App_of_Rel. eapply pod_rel; eassumption. Qed.
Lemma health_app sec a b : handle_health u sec a = COk b -> App a b.
Proof. unfold handle_health. apply add_strings_app. Qed.

Lemma devices_app devs : forall a, App a (devices_loop exists_path devs a).
Proof.
  induction devs as [|d r IH]; intros a; cbn [devices_loop]; [apply App_refl|].
  destruct d as [|c0 d']; [eapply App_trans; [apply App_app|apply IH]|].
  destruct (c0 =? cDASH); [|eapply App_trans; [apply App_app|apply IH]].
  destruct (exists_path _); [eapply App_trans; [apply App_app|apply IH]|apply IH].
Qed.

(* what ExposeHostPort= contributes: one "--expose <trimmed value>" per value, all of them port ranges *)
Lemma expose_loop_ok ports : forall a b, expose_loop ports a = COk b ->
  Forall (fun p => is_port_range (trim p) = true) ports /\ b = a ++ flat_map (fun p => [L "--expose"; trim p]) ports.
Proof.
  induction ports as [|p r IH]; intros a b; cbn [expose_loop].
  - intros H. injection H as <-. split; [constructor|]. rewrite app_nil_r. reflexivity.
  - cbv zeta. destruct (is_port_range (trim p)) eqn:E; [|discriminate]. intros H. destruct (IH _ _ H) as [F ->].
    split; [constructor; assumption|]. cbn [flat_map]. rewrite <- app_assoc. reflexivity.
Qed.

Lemma expose_loop_err ports : forall a, Exists (fun p => is_port_range (trim p) = false) ports -> forall b, expose_loop ports a <> COk b.
Proof.
  intros a Hex b H. destruct (expose_loop_ok _ _ _ H) as [F _]. apply Exists_exists in Hex. destruct Hex as [p [Hp Hn]].
  rewrite Forall_forall in F. rewrite (F p Hp) in Hn. discriminate.
Qed.

Lemma ct_security_app a b : ct_security exists_path u a = COk b -> App a b.
Proof.
  cbv beta delta [ct_security]. intros R1. revert R1.
  lel; intros sec Hsec; subst sec. lel; intros bof Hbof. lel; intros x1 E1. lel; intros x2 E2. lel; intros x3 E3. bel; intros slt Hslt. lel; intros x4 E4.
  bel; intros slf Hslf. lel; intros x5 E5. bel; intros sll Hsll. lel; intros x6 E6. lel; intros x7 E7. bel; intros secc Hsecc.
  lel; intros x8 E8. lel; intros x9 E9. lel; intros x10 E10. lel; intros x11 E11. lel; intros ro Hro. lel; intros x12 E12. lel; intros x13 E13.
  bel; intros x14 H14. bel; intros x15 H15. intros Ef. injection Ef as <-.
  subst bof. cbv beta in E1, E2, E3, E13.
  assert (A1 : App a x1) by (app_eq E1). assert (A2 : App x1 x2) by (app_eq E2). assert (A3 : App x2 x3) by (app_eq E3).
  assert (A4 : App x3 x4) by (app_eq E4). assert (A5 : App x4 x5) by (app_eq E5). assert (A6 : App x5 x6) by (app_eq E6).
  assert (A7 : App x6 x7) by (rewrite E7; apply devices_app).
  assert (A8 : App x7 x8) by (app_eq E8). assert (A9 : App x8 x9) by (app_eq E9). assert (A10 : App x9 x10) by (app_eq E10).
  assert (A11 : App x10 x11) by (app_eq E11). assert (A12 : App x11 x12) by (app_eq E12). assert (A13 : App x12 x13) by (app_eq E13).
  pose proof (user_app _ _ _ H14) as A14. pose proof (user_mappings_app _ _ _ _ H15) as A15.
  repeat (eapply App_trans; [eassumption|]). apply App_refl.
Qed.

(* the labels-and-ports segment: appends only, and its --expose words are the trimmed ExposeHostPort= values *)
Lemma ct_labels_ports_app path penv a b : ct_labels_ports u path penv a = COk b ->
  exists (ports : list str) (e1 e2 : list str), @lk_all berr u c_CONTAINER_SECTION (L "ExposeHostPort") = COk ports /\ Forall (fun p => is_port_range (trim p) = true) ports /\ b = a ++ e1 ++ flat_map (fun p => [L "--expose"; trim p]) ports ++ e2.
Proof.
  cbv beta delta [ct_labels_ports]. intros R1. revert R1.
  lel; intros sec Hsec; subst sec. bel; intros au Hau. lel; intros x1 E1. bel; intros ports Hports. bel; intros x2 H2. bel; intros x3 H3.
  lel; intros x4 E4. lel; intros x5 E5. lel; intros x6 E6. lel; intros x7 E7. lel; intros x8 E8. bel; intros ef Hef. lel; intros x9 E9. lel; intros x10 E10.
  intros Ef. injection Ef as <-.
  assert (A1 : App a x1) by (app_eq E1).
  destruct (expose_loop_ok _ _ _ H2) as [F E2].
  pose proof (add_all_strings_app _ _ _ _ H3) as A3.
  assert (A4 : App x3 x4) by (app_eq E4). assert (A5 : App x4 x5) by (app_eq E5). assert (A6 : App x5 x6) by (app_eq E6).
  assert (A7 : App x6 x7) by (app_eq E7). assert (A8 : App x7 x8) by (app_eq E8). assert (A9 : App x8 x9) by (app_eq E9). assert (A10 : App x9 x10) by (app_eq E10).
  assert (A310 : App x2 x10) by (repeat (eapply App_trans; [eassumption|]); apply App_refl).
  destruct A1 as [e1 ->]. destruct A310 as [e2 ->]. exists ports, e1, e2. split; [exact Hports|]. split; [exact F|]. rewrite E2, <- !app_assoc. reflexivity.
Qed.

Lemma ct_net_notify_app tbl s a b t : ct_net_notify u tbl a s = COk (b, t) -> App a b.
Proof.
  cbv beta delta [ct_net_notify]. intros R1. revert R1.
  lel; intros sec Hsec; subst sec. bel; intros [x1 s1'] H1. bel; intros stype Hst. bel; intros [x2 s2'] H2. bel; intros sysl Hsy. lel; intros svcf Hsf. intros Ef.
  assert (b = x2) by congruence. subst b.
  eapply App_trans; [eapply networks_app; exact H1|].
  assert (N : forall (A : list str) (sv : unit) (r : list str) (w : unit),
    (do nt <- @lk berr u c_CONTAINER_SECTION (L "Notify");
     (let a := match nt with
               | Some n => if str_eqb n (L "healthy") then A ++ [L "--sdnotify=healthy"]
                           else if match lookup_bool u c_CONTAINER_SECTION (L "Notify") with Some b => b | None => false end then A ++ [L "--sdnotify=container"] else A ++ [L "--sdnotify=conmon"]
               | None => A ++ [L "--sdnotify=conmon"] end in COk (a ++ [L "-d"], sv))) = COk (r, w) -> App A r).
  { intros A sv r w. destruct (@lk berr u c_CONTAINER_SECTION (L "Notify")) as [nt| | |]; cbn [bind]; try discriminate. cbv zeta.
    intros X. injection X as <- _.
    destruct nt as [n|]; [destruct (str_eqb n (L "healthy")); [|destruct (match lookup_bool u c_CONTAINER_SECTION (L "Notify") with Some b => b | None => false end)]|];
      rewrite <- app_assoc; apply App_app. }
  cbv zeta in H2. destruct stype as [ty|].
  - destruct (str_eqb ty (L "oneshot")); [injection H2 as <- _; apply App_refl|].
    destruct (str_eqb ty (L "notify")); [|discriminate]. eapply N; eassumption.
  - eapply N; eassumption.
Qed.
Lemma ct_run_head_app base cname s a t : ct_run_head u base cname s = COk (a, t) ->
  App (base ++ [L "run"; L "--name"; cname; L "--cidfile=%t/%N.cid"; L "--replace"; L "--rm"]) a.
Proof.
  cbv beta delta [ct_run_head]. intros R. revert R.
  lel; intros sec Hsec; subst sec. lel; intros x0 E0. bel; intros x1 H1. lel; intros x2 E2. lel; intros sv Esv. bel; intros cg Hcg. lel; intros x3 E3.
  bel; intros x4 H4. bel; intros x5 H5. lel; intros x6 E6. intros X. injection X as <- _.
  rewrite <- E0.
  apply (App_trans _ x1); [eapply log_driver_app; exact H1|].
  apply (App_trans _ x2); [rewrite E2; unfold handle_log_opt; apply App_app|].
  apply (App_trans _ x3); [rewrite E3; apply App_app|].
  apply (App_trans _ x4); [eapply add_strings_app; exact H4|].
  apply (App_trans _ x5); [eapply add_all_strings_app; exact H5|].
  rewrite E6. apply add_bools_app.
Qed.
End Handlers.

(* ---- .container ---- *)
Definition exec_words (u : unit) (sec : str) : list str :=
  match lookup_last_value u sec (L "Exec") with Some raw => split_word_all raw | None => [] end.
Definition global_words (podman : str) (mods : list str) (u : unit) (sec : str) : list str :=
  [podman] ++ flat_map (fun v => [L "--module"; v]) mods ++ lookup_all_args u sec (L "GlobalArgs").

Theorem container_shape podman exists_path kill_fixed mount_nl u path tbl svc sp t' :
  from_container podman exists_path kill_fixed mount_nl u path tbl = COk (svc, sp, t') ->
  exists before mods cname mid obj ports,
    @lk_all berr u c_CONTAINER_SECTION (L "ContainersConfModule") = COk mods /\
    @lk_all berr u c_CONTAINER_SECTION (L "ExposeHostPort") = COk ports /\
    Forall (fun p => is_port_range (trim p) = true) ports /\
    (exists m1 m2, mid = m1 ++ flat_map (fun p => [L "--expose"; trim p]) ports ++ m2) /\
    (exists image, obj = [image] \/ obj = [L "--rootfs"; image]) /\
    vals svc SEC_S (L "ExecStart") =
      before ++ [quote_words (global_words podman mods u c_CONTAINER_SECTION
                              ++ [L "run"; L "--name"; cname; L "--cidfile=%t/%N.cid"; L "--replace"; L "--rm"]
                              ++ mid ++ lookup_all_args u c_CONTAINER_SECTION (L "PodmanArgs") ++ obj ++ exec_words u c_CONTAINER_SECTION)].
Proof.
  unfold from_container. cbv zeta. bel. intros [i svc0] Hp. intros R. apply lift_ok in R. revert R.
  bel. intros image0 _. bel. intros rootfs0 _.
  set (image := match image0 with Some s => s | None => [] end). set (rootfs := match rootfs0 with Some s => s | None => [] end).
  clearbody image rootfs. destruct image as [|ci im], rootfs as [|d rf]; try discriminate.
  all: bel; intros [image1 s1] H1; bel; intros [[[cname penv] base] s2] H2; bel; intros [a3 s3] H3;
    bel; intros [a4 s4] H4; bel; intros a5 H5; bel; intros [a6 s6] H6; bel; intros a7 H7; bel; intros [a8 s8] H8;
    bel; intros a9 H9; bel; intros [[a10 s10] tbl10] H10; intros R; apply with_tbl_ok in R; revert R;
    bel; intros s11 H11; intros E; injection E as <- _ _.
  all: rewrite (add_raw_exec_execstart _ _ _ H11).
  (* the base command and the head of "podman run" *)
  all: assert (Hb : exists mods, @lk_all berr u c_CONTAINER_SECTION (L "ContainersConfModule") = COk mods /\ base = global_words podman mods u c_CONTAINER_SECTION)
    by (revert H2; unfold ct_service; cbv zeta; bel; intros cn _; bel; intros km _; bel; intros sv1 _; bel; intros bs Hbs; bel; intros sv2 _; bel; intros sv3 _;
        intros X; injection X as _ _ <- _; revert Hbs; unfold base_command; bel; intros mods Hm; intros X; injection X as <-; exists mods; split; [exact Hm|reflexivity]).
  all: destruct Hb as (mods & Hmods & ->).
  all: assert (Hh : App (global_words podman mods u c_CONTAINER_SECTION ++ [L "run"; L "--name"; cname; L "--cidfile=%t/%N.cid"; L "--replace"; L "--rm"]) a3)
    by (eapply ct_run_head_app; exact H3).
  all: assert (A4 : App a3 a4) by (eapply ct_net_notify_app; exact H4).
  all: assert (A5 : App a4 a5) by (eapply ct_security_app; exact H5).
  all: assert (A6 : App a5 a6) by (eapply volumes_app; exact H6).
  all: destruct (ct_labels_ports_app _ _ _ _ _ H7) as (ports & e1 & e2 & Hports & Fports & E7).
  all: assert (A8 : App a7 a8) by (eapply mounts_loop_app; exact H8).
  all: assert (A9 : App a8 a9) by (eapply health_app; exact H9).
  all: assert (A10 : App a9 a10) by (eapply pod_app; exact H10).
  all: assert (A36 : App (global_words podman mods u c_CONTAINER_SECTION ++ [L "run"; L "--name"; cname; L "--cidfile=%t/%N.cid"; L "--replace"; L "--rm"]) a6)
    by (repeat (eapply App_trans; [eassumption|]); apply App_refl).
  all: assert (A710 : App a7 a10) by (repeat (eapply App_trans; [eassumption|]); apply App_refl).
  all: destruct A36 as [d1 E36]; destruct A710 as [d3 ->].
  - exists (vals s10 SEC_S (L "ExecStart")), mods, cname, ((d1 ++ e1) ++ flat_map (fun p => [L "--expose"; trim p]) ports ++ (e2 ++ d3)),
      (match image1 with _ :: _ => [image1] | [] => [L "--rootfs"; d :: rf] end), ports.
    (split; [exact Hmods|]); (split; [exact Hports|]); (split; [exact Fports|]); (split; [eexists _, _; reflexivity|]).
    split; [destruct image1; [exists (d :: rf); right; reflexivity|eexists; left; reflexivity]|].
    f_equal; f_equal; unfold handle_podman_args, exec_words; rewrite E7, E36; destruct image1; rewrite <- ?app_assoc; cbn [app]; reflexivity.
  - exists (vals s10 SEC_S (L "ExecStart")), mods, cname, ((d1 ++ e1) ++ flat_map (fun p => [L "--expose"; trim p]) ports ++ (e2 ++ d3)),
      (match image1 with _ :: _ => [image1] | [] => [L "--rootfs"; []] end), ports.
    (split; [exact Hmods|]); (split; [exact Hports|]); (split; [exact Fports|]); (split; [eexists _, _; reflexivity|]).
    split; [destruct image1; [exists []; right; reflexivity|eexists; left; reflexivity]|].
    f_equal; f_equal; unfold handle_podman_args, exec_words; rewrite E7, E36; destruct image1; rewrite <- ?app_assoc; cbn [app]; reflexivity.
Qed.

(* ---- .image, .network, .kube ---- *)
Lemma base_command_is podman u sec base : base_command podman u sec = COk base ->
  exists mods, @lk_all berr u sec (L "ContainersConfModule") = COk mods /\ base = global_words podman mods u sec.
Proof. unfold base_command. bel. intros mods Hm X. injection X as <-. exists mods. split; [exact Hm|reflexivity]. Qed.

Theorem image_shape podman u path tbl svc sp t' :
  from_image podman u path tbl = COk (svc, sp, t') ->
  exists before mods mid image,
    @lk_all berr u c_IMAGE_SECTION (L "ContainersConfModule") = COk mods /\
    @lk berr u c_IMAGE_SECTION (L "Image") = COk (Some image) /\
    vals svc SEC_S (L "ExecStart") =
      before ++ [quote_words (global_words podman mods u c_IMAGE_SECTION ++ [L "image"; L "pull"] ++ mid
                              ++ lookup_all_args u c_IMAGE_SECTION (L "PodmanArgs") ++ [image])].
Proof.
  unfold from_image. bel. intros [i svc0] _. intros R. apply lift_ok in R. revert R. bel. intros s1 B1. bel. intros rn _.
  destruct (file_name path); [|discriminate]. intros E. injection E as <- _ _.
  revert B1. unfold image_body. bel. intros img Hi. destruct img as [[|c s]|]; try discriminate. cbv zeta.
  bel. intros base Hb. bel. intros a1 H1. bel. intros s2 H2. intros H3.
  destruct (base_command_is _ _ _ _ Hb) as (mods & Hm & ->).
  rewrite (one_shot_keeps_execstart _ _ _ H3), (add_raw_exec_execstart _ _ _ H2).
  assert (A : App (global_words podman mods u c_IMAGE_SECTION ++ [L "image"; L "pull"]) (add_bools u c_IMAGE_SECTION pt_from_image_unit_bool_keys a1))
    by (eapply App_trans; [eapply add_strings_app; exact H1|apply add_bools_app]).
  destruct A as [mid E]. eexists _, mods, mid, (c :: s). split; [exact Hm|]. split; [exact Hi|].
  f_equal. f_equal. f_equal. unfold handle_podman_args. rewrite E, <- !app_assoc. reflexivity.
Qed.

Lemma subnets_loop_app subnets : forall gw rg a, App a (subnets_loop subnets gw rg a).
Proof. intros gw rg a. apply App_of_Rel. apply subnets_loop_rel. Qed.

Theorem network_shape podman u path tbl svc sp t' :
  from_network podman u path tbl = COk (svc, sp, t') ->
  exists before mods mid name,
    @lk_all berr u c_NETWORK_SECTION (L "ContainersConfModule") = COk mods /\
    network_name u path = COk name /\
    vals svc SEC_S (L "ExecStart") =
      before ++ [quote_words (global_words podman mods u c_NETWORK_SECTION ++ [L "network"; L "create"; L "--ignore"] ++ mid
                              ++ lookup_all_args u c_NETWORK_SECTION (L "PodmanArgs") ++ [name])].
Proof.
  unfold from_network. bel. intros [i svc0] _. intros R. apply lift_ok in R. revert R. bel. intros nm Hn. bel. intros s1 B1.
  destruct (file_name path); [|discriminate]. intros E. injection E as <- _ _.
  revert B1. unfold network_body. cbv zeta.
  bel. intros base Hb. bel. intros c1 H1. bel. intros d1 H2. bel. intros sn _. bel. intros gw _. bel. intros rg _. bel. intros e1 H3. bel. intros x1 X1. intros O1.
  destruct (base_command_is _ _ _ _ Hb) as (mods & Hm & ->).
  rewrite (one_shot_keeps_execstart _ _ _ O1), (add_raw_exec_execstart _ _ _ X1).
  assert (A3 : App d1 e1).
  { destruct sn as [|s0 sr].
    - destruct gw, rg; try discriminate. injection H3 as <-. apply App_refl.
    - destruct (Nat.ltb _ _); [discriminate|]. destruct (Nat.ltb _ _); [discriminate|]. assert (E1 : e1 = subnets_loop (s0 :: sr) gw rg d1) by congruence. rewrite E1. apply subnets_loop_app. }
  assert (A : App (global_words podman mods u c_NETWORK_SECTION ++ [L "network"; L "create"; L "--ignore"])
                  (add_keys (add_keys e1 (L "--opt") (lookup_all_key_val u c_NETWORK_SECTION (L "Options"))) (L "--label") (lookup_all_key_val u c_NETWORK_SECTION (L "Label")))).
  { eapply App_trans; [apply add_bools_app|]. eapply App_trans; [eapply add_strings_app; exact H1|]. eapply App_trans; [eapply add_all_strings_app; exact H2|].
    eapply App_trans; [exact A3|]. unfold add_keys. rewrite <- app_assoc. apply App_app. }
  destruct A as [mid E]. eexists _, mods, mid, nm. split; [exact Hm|]. split; [exact Hn|].
  f_equal. f_equal. f_equal. unfold handle_podman_args. rewrite E, <- !app_assoc. reflexivity.
Qed.

(* ---- .kube (ExecStart=) and .pod (ExecStartPre=, the `podman pod create` line) ---- *)
Lemma vals_add_raw_exec svc k args svc' k' : add_raw_exec svc k args = COk svc' ->
  vals svc' SEC_S k' = vals svc SEC_S k' ++ (if str_eqb k k' then [quote_words args] else []).
Proof.
  unfold add_raw_exec, unit_add_raw. destruct (unquote_value _); [|discriminate]. intros H. injection H as <-.
  rewrite vals_add_entry, str_eqb_refl. cbn [andb]. reflexivity.
Qed.

Theorem pod_shape podman mount_nl u path tbl svc sp t' :
  from_pod podman mount_nl u path tbl = COk (svc, sp, t') ->
  exists before mods mid,
    @lk_all berr u c_POD_SECTION (L "ContainersConfModule") = COk mods /\
    vals svc SEC_S (L "ExecStartPre") =
      before ++ [quote_words (global_words podman mods u c_POD_SECTION
                              ++ [L "pod"; L "create"; L "--infra-conmon-pidfile=%t/%N.pid"; L "--pod-id-file=%t/%N.pod-id"; L "--exit-policy=stop"; L "--replace"]
                              ++ mid ++ lookup_all_args u c_POD_SECTION (L "PodmanArgs"))].
Proof.
  unfold from_pod. cbv zeta. bel. intros [i svc0] _. intros R. apply lift_ok in R. revert R.
  bel. intros pn _. bel. intros name _. bel. intros sysl _. bel. intros base Hb. bel. intros s1 H1. bel. intros s2 H2. bel. intros s3 H3.
  bel. intros a1 A1. bel. intros a2 A2. bel. intros [a3 s4] A3. bel. intros a4 A4. bel. intros a5 A5. bel. intros [a6 s5] A6. bel. intros s6 H6.
  intros E. injection E as <- _ _.
  destruct (base_command_is _ _ _ _ Hb) as (mods & Hm & ->).
  unfold unit_add. rewrite !vals_add_entry.
  repeat (match goal with |- context [if ?b then _ else _] => let v := eval vm_compute in b in progress (change b with v; cbv iota) end).
  rewrite !app_nil_r.
  rewrite (vals_add_raw_exec _ _ _ _ (L "ExecStartPre") H6), str_eqb_refl.
  assert (A : App (global_words podman mods u c_POD_SECTION ++ [L "pod"; L "create"; L "--infra-conmon-pidfile=%t/%N.pid"; L "--pod-id-file=%t/%N.pod-id"; L "--exit-policy=stop"; L "--replace"])
                  (a6 ++ [L "--infra-name"; name ++ L "-infra"; L "--name"; name])).
  { eapply App_trans; [eapply user_mappings_app; exact A1|]. eapply App_trans; [eapply add_all_strings_app; exact A2|].
    eapply App_trans; [eapply networks_app; exact A3|]. eapply App_trans; [eapply add_strings_app; exact A4|].
    eapply App_trans; [eapply add_all_strings_app; exact A5|]. eapply App_trans; [eapply volumes_app; exact A6|]. apply App_app. }
  destruct A as [mid E]. exists (vals s5 SEC_S (L "ExecStartPre")), mods, mid. split; [exact Hm|].
  unfold handle_podman_args. rewrite E, <- !app_assoc. reflexivity.
Qed.

(* ---- .kube: podman kube play ... PodmanArgs yaml ---- *)
Theorem kube_shape podman kill_fixed u path tbl svc sp t' :
  from_kube podman kill_fixed u path tbl = COk (svc, sp, t') ->
  exists before mods mid yaml,
    @lk_all berr u c_KUBE_SECTION (L "ContainersConfModule") = COk mods /\
    vals svc SEC_S (L "ExecStart") =
      before ++ [quote_words (global_words podman mods u c_KUBE_SECTION ++ [L "kube"; L "play"; L "--replace"; L "--service-container=true"] ++ mid
                              ++ lookup_all_args u c_KUBE_SECTION (L "PodmanArgs") ++ [yaml])].
Proof.
  unfold from_kube. cbv zeta. bel. intros [i svc0] _. intros R. apply lift_ok in R. revert R.
  bel. intros y _. destruct y as [[|c s]|]; try discriminate.
  bel. intros yaml _. bel. intros s1 _. bel. intros ty _. bel. intros base Hb. bel. intros ecp _. bel. intros a1 A1.
  bel. intros a2 A2. bel. intros [a3 s3] A3. bel. intros cms _. bel. intros a4 A4.
  bel. intros s4 H4. bel. intros base2 _. bel. intros s5 H5. bel. intros [cx s6] H6. intros E. injection E as <- _ _. cbn [snd].
  destruct (base_command_is _ _ _ _ Hb) as (mods & Hm & ->).
  assert (E6 : vals s6 SEC_S (L "ExecStart") = vals s5 SEC_S (L "ExecStart")).
  { revert H6. unfold handle_set_working_directory. cbv zeta. bel. intros swd _.
    destruct swd as [[|c0 w]|]; try (intros X; injection X as _ <-; reflexivity).
    bel. intros [ctx rel] _. destruct rel as [|r0 rel]; [intros X; injection X as _ <-; reflexivity|].
    destruct (is_url ctx); [intros X; injection X as _ <-; reflexivity|]. bel. intros wd _.
    destruct wd as [[|w0 wd]|]; try (intros X; injection X as _ <-; reflexivity).
    all: bel; intros fp _ X; injection X as _ <-; unfold unit_add; rewrite vals_add_entry;
      match goal with |- context [if ?b then _ else _] => let v := eval vm_compute in b in change b with v; cbv iota end; rewrite app_nil_r; reflexivity. }
  rewrite E6, (vals_add_raw_exec _ _ _ _ (L "ExecStart") H5), (vals_add_raw_exec _ _ _ _ (L "ExecStart") H4).
  repeat (match goal with |- context [if ?b then _ else _] => let v := eval vm_compute in b in progress (change b with v; cbv iota) end).
  rewrite app_nil_r.
  assert (A : App (global_words podman mods u c_KUBE_SECTION ++ [L "kube"; L "play"; L "--replace"; L "--service-container=true"]) a4).
  { pose proof (log_driver_app _ _ _ _ A1) as P1. pose proof (user_mappings_app _ _ _ _ _ A2) as P2. pose proof (networks_app _ _ _ _ _ _ _ A3) as P3.
    pose proof (add_all_strings_app _ _ _ _ _ A4) as P4. unfold handle_log_opt in P2.
    destruct P1 as [d1 E1]. destruct P2 as [d2 E2]. destruct P3 as [d3 E3]. destruct P4 as [d4 E4].
    rewrite E4, E3, E2, E1. clear. set (hd := global_words podman mods u c_KUBE_SECTION ++ [L "kube"; L "play"; L "--replace"; L "--service-container=true"]).
    destruct ecp as [[|d e]|]; rewrite <- !app_assoc; apply App_app. }
  destruct A as [mid E]. exists (vals s3 SEC_S (L "ExecStart")), mods, mid, yaml. split; [exact Hm|].
  unfold handle_podman_args. rewrite E, <- !app_assoc. reflexivity.
Qed.

(* ---- .build: podman build ... PodmanArgs [context | working directory] ---- *)
Theorem build_shape podman mount_nl u path tbl svc sp t' :
  from_build podman mount_nl u path tbl = COk (svc, sp, t') ->
  exists before mods mid tail,
    @lk_all berr u c_BUILD_SECTION (L "ContainersConfModule") = COk mods /\
    (tail = [] \/ exists x, tail = [x]) /\
    vals svc SEC_S (L "ExecStart") =
      before ++ [quote_words (global_words podman mods u c_BUILD_SECTION ++ [L "build"] ++ mid ++ lookup_all_args u c_BUILD_SECTION (L "PodmanArgs") ++ tail)].
Proof.
  unfold from_build. destruct (file_name path); [|discriminate]. destruct (tbl_get tbl l); [|discriminate]. destruct (i_resource_name i); [discriminate|]. cbv zeta.
  bel. intros ? _. bel. intros ? _. bel. intros ? _. bel. intros ? _. intros R. apply lift_ok in R. revert R.
  bel. intros base Hb. bel. intros pull _. bel. intros g1 G1. bel. intros g2 G2. bel. intros [g3 s3] G3. bel. intros [g4 s4] G4. bel. intros [ctx s5] _.
  bel. intros wd _. bel. intros fp _. bel. intros [wdir fpath] _. bel. intros g5 G5. bel. intros s6 H6. bel. intros s7 H7. intros E. injection E as <- _ _.
  destruct (base_command_is _ _ _ _ Hb) as (mods & Hm & ->).
  rewrite (one_shot_keeps_execstart _ _ _ H7), (add_raw_exec_execstart _ _ _ H6).
  pose proof (add_strings_app _ _ _ _ _ G1) as P1. pose proof (add_all_strings_app _ _ _ _ _ G2) as P2. pose proof (networks_app _ _ _ _ _ _ _ G3) as P3.
  pose proof (volumes_app _ _ _ _ _ _ _ _ _ G4) as P4.
  destruct P1 as [d1 E1]. destruct P2 as [d2 E2]. destruct P3 as [d3 E3]. destruct P4 as [d4 E4].
  set (hd := global_words podman mods u c_BUILD_SECTION ++ [L "build"]) in *.
  assert (A : exists mid, match fpath with [] => g4 | _ => g4 ++ [L "--file"; fpath] end = hd ++ mid).
  { destruct (add_bools_app u c_BUILD_SECTION pt_from_build_unit_bool_keys g1) as [db Eb]. rewrite Eb in E2.
    unfold add_keys in E3. rewrite E4, E3, E2, E1. clear.
    destruct pull as [[|c s]|]; destruct fpath; eexists; rewrite <- !app_assoc; reflexivity. }
  destruct A as [mid EA].
  assert (T : exists tail, g5 = handle_podman_args u c_BUILD_SECTION (match fpath with [] => g4 | _ => g4 ++ [L "--file"; fpath] end) ++ tail /\ (tail = [] \/ exists x, tail = [x])).
  { revert G5. destruct ctx as [|c0 ctx]; [|intros X; injection X as <-; eexists; split; [reflexivity|right; eexists; reflexivity]].
    destruct (_ && _); [|intros X; injection X as <-; exists []; split; [rewrite app_nil_r; reflexivity|left; reflexivity]].
    destruct wdir; [discriminate|]. intros X. injection X as <-. eexists. split; [reflexivity|right; eexists; reflexivity]. }
  destruct T as (tail & -> & Ht). exists (vals s5 SEC_S (L "ExecStart")), mods, mid, tail. split; [exact Hm|]. split; [exact Ht|].
  unfold handle_podman_args. rewrite EA. unfold hd. rewrite <- !app_assoc. reflexivity.
Qed.

(* ---- .volume: podman volume create --ignore ... PodmanArgs name ---- *)
Theorem volume_shape podman u path tbl svc sp t' :
  from_volume podman u path tbl = COk (svc, sp, t') ->
  exists before mods mid name,
    @lk_all berr u c_VOLUME_SECTION (L "ContainersConfModule") = COk mods /\
    volume_name u path = COk name /\
    vals svc SEC_S (L "ExecStart") =
      before ++ [quote_words (global_words podman mods u c_VOLUME_SECTION ++ [L "volume"; L "create"; L "--ignore"] ++ mid
                              ++ lookup_all_args u c_VOLUME_SECTION (L "PodmanArgs") ++ [name])].
Proof.
  unfold from_volume. bel. intros [i svc0] _. intros R. apply lift_ok in R. revert R. cbv zeta. bel. intros nm Hn.
  destruct (file_name path); [|discriminate]. intros R. apply with_tbl_ok in R. revert R. bel. intros s1 B1. intros E. injection E as <- _ _.
  revert B1. unfold volume_body. cbv zeta.
  bel. intros base Hb. bel. intros driver _. bel. intros [a1 s2] H1. bel. intros s3 H3. intros H4.
  destruct (base_command_is _ _ _ _ Hb) as (mods & Hm & ->).
  rewrite (one_shot_keeps_execstart _ _ _ H4), (add_raw_exec_execstart _ _ _ H3).
  set (hd := global_words podman mods u c_VOLUME_SECTION ++ [L "volume"; L "create"; L "--ignore"]) in *.
  assert (A : App hd a1).
  { set (a0 := match driver with Some d => hd ++ [L "--driver"; d] | None => hd end) in *.
    assert (A0 : App hd a0) by (unfold a0; destruct driver; [apply App_app|apply App_refl]).
    eapply App_trans; [exact A0|]. revert H1. destruct (str_eqb _ (L "image")).
    - bel. intros img _. destruct img as [im|]; [|discriminate]. bel. intros [iname s4] _. intros X. injection X as <- _. apply App_app.
    - bel. intros usr _. bel. intros grp _. bel. intros dev _.
      set (a2 := match lookup_bool u c_VOLUME_SECTION (L "Copy") with Some true => a0 ++ [L "--opt"; L "copy"] | Some false => a0 ++ [L "--opt"; L "nocopy"] | None => a0 end).
      assert (A2 : App a0 a2) by (unfold a2; destruct (lookup_bool u c_VOLUME_SECTION (L "Copy")) as [[|]|]; first [apply App_app|apply App_refl]).
      destruct dev as [[|dc ds]|]; cbv iota beta.
      all: bel; intros ty _; bel; intros a3 H3'; bel; intros mo _; bel; intros opts _; intros X; injection X as <- _.
      all: eapply App_trans; [exact A2|].
      all: destruct ty as [[|tc ts]|]; try discriminate; injection H3' as <-.
      all: repeat match goal with |- App _ (match ?o with [] => _ | _ :: _ => _ end) => destruct o end; rewrite <- ?app_assoc; first [apply App_refl|apply App_app]. }
  destruct A as [mid E]. exists (vals s2 SEC_S (L "ExecStart")), mods, (mid ++ flat_map (fun kv : str * str => [L "--label"; fst kv ++ [cEQ] ++ snd kv]) (lookup_all_key_val u c_VOLUME_SECTION (L "Label"))), nm.
  split; [exact Hm|]. split; [exact Hn|].
  unfold handle_podman_args, add_keys. rewrite E. unfold hd. rewrite <- !app_assoc. reflexivity.
Qed.
