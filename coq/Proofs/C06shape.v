(* C06, generator clause, first half: nothing the generator stores can add a line.
   For arbitrary file contents, every service produced by any of the seven converters -- and so every service of the whole run --
   contains no newline in any section name, key or value; with [line_count] the written file therefore has exactly one physical
   line per entry and two per section.  The argument: user entries come from the parser (which never lets a newline into a name,
   key or value); everything the generator adds goes through quote_value (add/set/prepend) or quote_words (Exec lines), whose
   results never contain a control character, under literal keys and section names. *)
From QV Require Import Model.Base Generated.Tables Model.Quote Model.Unquote Model.Split Model.PortRange Model.Unit Model.Lex Model.Parser
  Model.Path Model.Names Model.Convert Model.Process Spec.Layout Proofs.Util Proofs.C01 Proofs.C03 Proofs.C06 Proofs.C07 Proofs.C07run.
Open Scope N_scope.
Local Notation L := s2l (only parsing).

Definition NN (s : str) : Prop := ~ In cNL s.
(* section names: as Spec/Layout.v name_ok;  keys: key characters only (possibly none: "=v" is a legal line) *)
Definition NNn (n : str) : Prop := n <> [] /\ ~ In cRB n /\ NN n.
Definition keyc (k : str) : Prop := forallb is_key_char k = true.
Definition NNk (k : str) : Prop := keyc k /\ NN k.
Definition NNe (e : entry) : Prop := NNk (fst e) /\ NN (snd e).
Definition NoNL (u : unit) : Prop := NoDup (map fst u) /\ Forall (fun s : str * entries => NNn (fst s) /\ Forall NNe (snd s)) u.

Lemma NoNL_no_nl u : NoNL u -> no_nl_unit u.
Proof.
  intros [_ H]. unfold no_nl_unit. revert H. apply Forall_impl. intros [n es] [(_ & _ & Hn) He]. split; [exact Hn|].
  revert He. apply Forall_impl. intros [k v] [[_ Hk] Hv]. split; assumption.
Qed.

(* literal names *)
Ltac nn0 := let X := fresh in intros X; vm_compute in X; repeat (destruct X as [X|X]; [discriminate X|]); exact X.
Ltac nnl := lazymatch goal with
  | |- NNn _ => (split; [discriminate|split; nn0])
  | |- NNk _ => (split; [vm_compute; reflexivity|nn0])
  | |- NN _ => nn0
  | |- ~ In _ _ => nn0
  end.

Lemma NN_app a b : NN a -> NN b -> NN (a ++ b).
Proof. intros Ha Hb X. apply in_app_or in X. destruct X; [apply Ha|apply Hb]; assumption. Qed.

(* ---- what the generator writes ---- *)
Lemma quote_value_nn v : NN (quote_value v).
Proof. intros X. pose proof (quote_value_no_ctl v cNL X) as H. vm_compute in H. discriminate H. Qed.

Lemma quote_word_nn w : NN (quote_word w).
Proof.
  unfold quote_word. destruct w as [|c w]; [nnl|].
  destruct (word_needs_escaping (c :: w)) eqn:E.
  - intros [X|X]; [discriminate X|]. apply in_app_or in X. destruct X as [X|[X|[]]]; [exact (quote_value_nn _ X)|discriminate X].
  - intros X. unfold word_needs_escaping in E.
    assert (H : char_needs_escaping cNL = true) by (vm_compute; reflexivity).
    assert (E' : existsb char_needs_escaping (c :: w) = true) by (apply existsb_exists; exists cNL; split; assumption).
    congruence.
Qed.

Lemma join_nn sep l : NN sep -> Forall NN l -> NN (join sep l).
Proof.
  intros Hs H. induction H as [|x l Hx Hl IH]; [intros []|].
  cbn [join]. destruct l as [|y l']; [exact Hx|]. apply NN_app; [exact Hx|]. apply NN_app; [exact Hs|exact IH].
Qed.

Lemma quote_words_nn args : NN (quote_words args).
Proof.
  unfold quote_words. apply join_nn; [nnl|]. apply Forall_forall. intros x Hx. apply in_map_iff in Hx. destruct Hx as [w [<- _]]. apply quote_word_nn.
Qed.

(* ---- the unit operations ---- *)
Lemma NoNL_nil : NoNL [].
Proof. split; constructor. Qed.

Lemma F_add_entry (P : str -> Prop) (Q : entry -> Prop) u sec k raw : P sec -> Q (k, raw) ->
  Forall (fun s : str * entries => P (fst s) /\ Forall Q (snd s)) u -> Forall (fun s : str * entries => P (fst s) /\ Forall Q (snd s)) (add_entry u sec k raw).
Proof.
  intros Hs He Hu. induction Hu as [|[n es] r [Hn Hes] Hr' IH]; cbn [add_entry].
  - constructor; [|constructor]. cbn [fst snd]. split; [exact Hs|]. constructor; [exact He|constructor].
  - destruct (str_eqb sec n).
    + constructor; [|exact Hr']. cbn [fst snd] in *. split; [exact Hn|]. apply Forall_app. split; [exact Hes|]. constructor; [exact He|constructor].
    + constructor; [split; assumption|exact IH].
Qed.

Lemma NoNL_add_entry u sec k raw : NNn sec -> NNk k -> NN raw -> NoNL u -> NoNL (add_entry u sec k raw).
Proof. intros Hs Hk Hr [Hd Hu]. split; [apply nodup_add_entry; exact Hd|]. apply F_add_entry; [exact Hs|split; assumption|exact Hu]. Qed.

Lemma NoNL_ensure u n : NNn n -> NoNL u -> NoNL (ensure_section u n).
Proof.
  intros Hn [Hd Hu]. split; [apply nodup_ensure_section; exact Hd|]. clear Hd. induction Hu as [|[m es] r Hs Hr IH]; cbn [ensure_section].
  - constructor; [split; [exact Hn|constructor]|constructor].
  - destruct (str_eqb n m); constructor; assumption.
Qed.

Lemma NoNL_remove u sec : NoNL u -> NoNL (remove_section u sec).
Proof.
  intros [Hd H]. split; [apply nodup_remove; exact Hd|]. clear Hd.
  induction H as [|[n es] r Hs Hr IH]; cbn [remove_section]; [constructor|]. destruct (str_eqb sec n); [exact Hr|constructor; assumption].
Qed.

Lemma NoNL_section u sec : NoNL u -> Forall NNe (section_entries u sec).
Proof.
  intros [_ Hu]. unfold section_entries. induction Hu as [|[n es] r [Hn Hs] Hr IH]; cbn [assoc_str]; [constructor|].
  destruct (str_eqb sec n); [exact Hs|exact IH].
Qed.

Lemma NoNL_add_entries es : forall u sec, NNn sec -> NoNL u -> Forall NNe es -> NoNL (add_entries u sec es).
Proof.
  unfold add_entries. induction es as [|[k v] es IH]; intros u sec Hs Hu He; [exact Hu|].
  inversion He as [|? ? [H1 H1'] H2]; subst. cbn [fold_left fst snd] in *. apply IH; [exact Hs| |exact H2].
  apply NoNL_add_entry; assumption.
Qed.

Lemma NoNL_merge_from d : forall u, NoNL u -> Forall (fun s : str * entries => NNn (fst s) /\ Forall NNe (snd s)) d -> NoNL (merge_from u d).
Proof.
  unfold merge_from. induction d as [|[n es] d IH]; intros u Hu Hd; [exact Hu|].
  inversion Hd as [|? ? [H1 H1'] H2]; subst. cbn [fold_left fst snd] in *. apply IH; [|exact H2]. apply NoNL_add_entries; assumption.
Qed.

Lemma NoNL_rename u from to : NNn to -> NoNL u -> NoNL (rename_section u from to).
Proof.
  intros Ht H. unfold rename_section. destruct (has_section u from); [|exact H].
  apply NoNL_add_entries; [exact Ht|apply NoNL_remove; exact H|apply NoNL_section; exact H].
Qed.

Lemma NoNL_unit_add u sec k v : NNn sec -> NNk k -> NoNL u -> NoNL (unit_add u sec k v).
Proof. intros Hs Hk H. apply NoNL_add_entry; [exact Hs|exact Hk|apply quote_value_nn|exact H]. Qed.

Lemma NoNL_prepend u sec k v : NNn sec -> NNk k -> NoNL u -> NoNL (unit_prepend u sec k v).
Proof.
  intros Hs Hk H. split; [apply nodup_prepend; exact (proj1 H)|]. unfold unit_prepend. apply Forall_app. split; [exact (proj2 (NoNL_remove _ _ H))|]. constructor; [|constructor]. cbn [fst snd].
  split; [exact Hs|]. constructor; [split; [exact Hk|apply quote_value_nn]|apply NoNL_section; exact H].
Qed.

Lemma Forall_removelast' {A} (P : A -> Prop) l : Forall P l -> Forall P (removelast l).
Proof. induction 1 as [|x l Hx Hl IH]; [constructor|]. cbn [removelast]. destruct l; [constructor|]. constructor; assumption. Qed.
Lemma Forall_filter' {A} (P : A -> Prop) f l : Forall P l -> Forall P (filter f l).
Proof. induction 1 as [|x l Hx Hl IH]; [constructor|]. cbn [filter]. destruct (f x); [constructor; assumption|exact IH]. Qed.

Lemma names_set_entry u sec k raw : map fst (set_entry u sec k raw) = map fst (add_entry u sec k raw).
Proof. induction u as [|[n es] r IH]; cbn [set_entry add_entry map fst]; [reflexivity|]. destruct (str_eqb sec n); cbn [map fst]; [reflexivity|]. rewrite IH. reflexivity. Qed.

Lemma NoNL_set_entry u sec k raw : NNn sec -> NNk k -> NN raw -> NoNL u -> NoNL (set_entry u sec k raw).
Proof.
  intros Hs Hk Hr [Hd Hu]. split; [rewrite names_set_entry; apply nodup_add_entry; exact Hd|]. clear Hd.
  induction Hu as [|[n es] r [Hn Hes] Hr' IH]; cbn [set_entry].
  - constructor; [|constructor]. cbn [fst snd]. split; [exact Hs|]. constructor; [split; assumption|constructor].
  - destruct (str_eqb sec n).
    + constructor; [|exact Hr']. cbn [fst snd] in *. split; [exact Hn|]. unfold set_in.
      apply Forall_app. split; [apply Forall_filter'; exact Hes|]. apply Forall_app. split; [apply Forall_removelast', Forall_filter'; exact Hes|].
      constructor; [split; assumption|constructor].
    + constructor; [split; assumption|exact IH].
Qed.

Lemma NoNL_unit_set u sec k v : NNn sec -> NNk k -> NoNL u -> NoNL (unit_set u sec k v).
Proof. intros Hs Hk H. apply NoNL_set_entry; [exact Hs|exact Hk|apply quote_value_nn|exact H]. Qed.

Lemma NoNL_add_raw_exec svc k args svc' : NNk k -> NoNL svc -> add_raw_exec svc k args = COk svc' -> NoNL svc'.
Proof.
  intros Hk H. unfold add_raw_exec, unit_add_raw. destruct (unquote_value (quote_words args)); [|discriminate].
  intros X. injection X as <-. apply NoNL_add_entry; [nnl|exact Hk|apply quote_words_nn|exact H].
Qed.

(* ---- the parser never lets a newline into a name, key or value; names are non-empty without ']'; keys are key characters ---- *)
Lemma trim_start_sub s x : In x (trim_start s) -> In x s.
Proof. induction s as [|c s IH]; [intros []|]. cbn [trim_start]. destruct (is_unicode_ws c); [intros H; right; apply IH; exact H|intros H; exact H]. Qed.
Lemma trim_end_nn s : NN s -> NN (trim_end s).
Proof. intros H X. apply H. unfold trim_end in X. apply in_rev in X. apply trim_start_sub in X. apply in_rev in X. exact X. Qed.

Lemma cont_repl_nn : NN c_LINE_CONTINUATION_REPLACEMENT.  Proof. nnl. Qed.

Lemma NN_snoc s c : NN s -> c <> cNL -> NN (s ++ [c]).
Proof. intros Hs Hc. apply NN_app; [exact Hs|]. intros [X|[]]. apply Hc. exact X. Qed.

Lemma repeat_sp_nn n : NN (repeat cSP n).
Proof. induction n as [|n IH]; [intros []|]. cbn [repeat]. intros [X|X]; [discriminate X|exact (IH X)]. Qed.

Lemma value_step_nn m ign acc c m' ign' acc' : value_step m ign acc c = Some (m', ign', acc') -> NN acc -> NN acc'.
Proof.
  intros H Ha. destruct m; cbn [value_step] in H.
  - destruct (N.eqb_spec c cBS); [injection H as _ _ <-; exact Ha|]. destruct (N.eqb_spec c cNL); [discriminate|]. injection H as _ _ <-. apply NN_snoc; assumption.
  - destruct (c =? cSP); [injection H as _ _ <-; exact Ha|]. destruct (N.eqb_spec c cNL); [injection H as _ _ <-; apply NN_app; [exact Ha|exact cont_repl_nn]|].
    injection H as _ _ <-. apply NN_app; [exact Ha|]. intros [X|X]; [discriminate X|]. revert X. apply NN_snoc; [apply repeat_sp_nn|assumption].
  - destruct (is_comment_start c); [injection H as _ _ <-; exact Ha|]. destruct (N.eqb_spec c cNL); [discriminate|]. destruct (c =? cLB); [discriminate|].
    destruct (c =? cBS); [injection H as _ _ <-; exact Ha|]. injection H as _ _ <-. apply NN_snoc; assumption.
  - destruct (c =? cNL); injection H as _ _ <-; exact Ha.
Qed.

(* a header name being read: no ']' and no newline so far *)
Definition hdr (n : str) : Prop := ~ In cRB n /\ NN n.

(* strings carried by a parser state *)
Definition st_nn (st : pstate) : Prop :=
  match st with
  | PTop | PCommentTop => True
  | PHeader name => hdr name
  | PBody sec | PCommentBody sec => NNn sec
  | PKey sec key | PAfterKey sec key | PAfterEq sec key => NNn sec /\ NNk key
  | PValue sec key _ _ acc => NNn sec /\ NNk key /\ NN acc
  end.

Lemma key_char_not_nl c : is_key_char c = true -> c <> cNL.
Proof. intros H ->. vm_compute in H. discriminate H. Qed.

Lemma keyc_snoc k c : keyc k -> is_key_char c = true -> keyc (k ++ [c]).
Proof. unfold keyc. intros Hk Hc. rewrite forallb_app, Hk. cbn [forallb]. rewrite Hc. reflexivity. Qed.

Lemma NNk_nil : NNk [].  Proof. split; [reflexivity|intros []]. Qed.

Lemma finish_nn u sec key acc u' : NNn sec -> NNk key -> NN acc -> NoNL u -> finish_entry u sec key acc = Some u' -> NoNL u'.
Proof.
  intros Hs Hk Ha Hu. unfold finish_entry, unit_add_raw. destruct (unquote_value (trim_end acc)); [|discriminate].
  intros X. injection X as <-. apply NoNL_add_entry; [exact Hs|exact Hk|apply trim_end_nn; exact Ha|exact Hu].
Qed.

Lemma body_step_nn sec u c st' u' : NNn sec -> body_step sec u c = Some (st', u') -> st_nn st' /\ u' = u.
Proof.
  intros Hs. unfold body_step. intros H.
  destruct (is_comment_start c); [injection H as <- <-; split; [exact Hs|reflexivity]|].
  destruct (c =? cLB); [injection H as <- <-; split; [split; intros []|reflexivity]|].
  destruct (is_ascii_whitespace c); [injection H as <- <-; split; [exact Hs|reflexivity]|].
  destruct (key_stop c).
  - destruct (c =? cEQ); [|discriminate]. injection H as <- <-. split; [split; [exact Hs|exact NNk_nil]|reflexivity].
  - destruct (is_key_char c) eqn:Ek; [|discriminate]. injection H as <- <-. split; [|reflexivity]. split; [exact Hs|]. split.
    + unfold keyc. cbn [forallb]. rewrite Ek. reflexivity.
    + intros [X|[]]. exact (key_char_not_nl c Ek X).
Qed.

Lemma pstep_nn st u c st' u' : pstep st u c = Some (st', u') -> st_nn st -> NoNL u -> st_nn st' /\ NoNL u'.
Proof.
  intros H Hst Hu. destruct st as [| |name|sec|sec|sec key|sec key|sec key|sec key m ign acc]; cbn [pstep st_nn] in *.
  - destruct (is_comment_start c); [injection H as <- <-; split; [exact I|exact Hu]|].
    destruct (c =? cLB); [injection H as <- <-; split; [split; intros []|exact Hu]|].
    destruct (is_ascii_whitespace c); [|discriminate]. injection H as <- <-. split; [exact I|exact Hu].
  - destruct (c =? cNL); injection H as <- <-; split; try exact I; exact Hu.
  - destruct Hst as [Hrb Hnl]. destruct (N.eqb_spec c cRB) as [->|Hc].
    + destruct name as [|n0 name]; [discriminate|]. injection H as <- <-.
      assert (Hn : NNn (n0 :: name)) by (split; [discriminate|split; assumption]). split; [exact Hn|apply NoNL_ensure; assumption].
    + destruct (N.eqb_spec c cNL); [discriminate|]. injection H as <- <-. split; [|exact Hu]. split; [|apply NN_snoc; assumption].
      intros X. apply in_app_or in X. destruct X as [X|[X|[]]]; [exact (Hrb X)|exact (Hc X)].
  - destruct (body_step_nn _ _ _ _ _ Hst H) as [H1 ->]. split; assumption.
  - destruct (c =? cNL); injection H as <- <-; split; assumption.
  - destruct Hst as [Hs [Hk Hkn]]. destruct (key_stop c).
    + destruct (is_blank c); [injection H as <- <-; split; [split; [exact Hs|split; assumption]|exact Hu]|].
      destruct (c =? cEQ); [|discriminate]. injection H as <- <-. split; [split; [exact Hs|split; assumption]|exact Hu].
    + destruct (is_key_char c) eqn:Ek; [|discriminate]. injection H as <- <-. split; [|exact Hu]. split; [exact Hs|]. split.
      * apply keyc_snoc; assumption.
      * apply NN_snoc; [exact Hkn|exact (key_char_not_nl c Ek)].
  - destruct (is_blank c); [injection H as <- <-; split; assumption|]. destruct (c =? cEQ); [|discriminate]. injection H as <- <-. split; assumption.
  - destruct Hst as [Hs Hk]. destruct (is_blank c); [injection H as <- <-; split; [split; assumption|exact Hu]|]. unfold value_start in H.
    destruct (value_step VNormal O [] c) as [[[m' i'] a']|] eqn:Ev.
    + injection H as <- <-. split; [|exact Hu]. split; [exact Hs|split; [exact Hk|]]. eapply value_step_nn; [exact Ev|intros []].
    + destruct (finish_entry u sec key []) as [u1|] eqn:E; [|discriminate].
      destruct (body_step_nn _ _ _ _ _ Hs H) as [H1 ->]. split; [exact H1|]. eapply finish_nn; [exact Hs|exact Hk| |exact Hu|exact E]. intros [].
  - destruct Hst as (Hs & Hk & Ha). destruct (value_step m ign acc c) as [[[m' i'] a']|] eqn:Ev.
    + injection H as <- <-. split; [|exact Hu]. split; [exact Hs|split; [exact Hk|]]. eapply value_step_nn; eassumption.
    + destruct (finish_entry u sec key acc) as [u1|] eqn:E; [|discriminate].
      destruct (body_step_nn _ _ _ _ _ Hs H) as [H1 ->]. split; [exact H1|]. exact (finish_nn u sec key acc u1 Hs Hk Ha Hu E).
Qed.

Lemma prun_nn cs : forall st u r, prun st u cs = Some r -> st_nn st -> NoNL u -> NoNL r.
Proof.
  induction cs as [|c cs IH]; intros st u r H Hst Hu.
  - cbn [prun] in H. destruct st; cbn [pfinish st_nn] in *; try discriminate; try (injection H as <-; exact Hu).
    + destruct Hst as [Hs Hk]. eapply finish_nn; [exact Hs|exact Hk| |exact Hu|exact H]. intros [].
    + destruct Hst as (Hs & Hk & Ha). exact (finish_nn _ _ _ _ _ Hs Hk Ha Hu H).
  - cbn [prun] in H. destruct (pstep st u c) as [[st' u']|] eqn:E; [|discriminate].
    destruct (pstep_nn _ _ _ _ _ E Hst Hu) as [H1 H2]. exact (IH st' u' r H H1 H2).
Qed.

Theorem parsed_units_have_no_newline text u : parse_unit text = Some u -> NoNL u.
Proof. intros H. exact (prun_nn text PTop [] u H I NoNL_nil). Qed.

(* ---- handlers ---- *)
Ltac nn :=
  repeat first
    [ assumption
    | apply NoNL_unit_add; [nnl|nnl|]
    | apply NoNL_unit_set; [nnl|nnl|]
    | apply NoNL_prepend; [nnl|nnl|]
    | match goal with
      | |- NoNL (if ?b then _ else _) => destruct b
      | |- NoNL (match ?x with _ => _ end) => destruct x
      end ].

Lemma NoNL_default_dependencies svc : NoNL svc -> NoNL (default_dependencies svc).
Proof. intros H. unfold default_dependencies. nn. Qed.

Lemma type_section_nn t : NNn (type_section t).  Proof. destruct t; nnl. Qed.
Lemma type_xsection_nn t : NNn (type_xsection t).  Proof. destruct t; nnl. Qed.

Lemma NoNL_rename_own svc t : NoNL svc -> NoNL (rename_own svc t).
Proof. intros H. unfold rename_own. apply NoNL_rename; [nnl|]. apply NoNL_rename; [apply type_xsection_nn|exact H]. Qed.

Lemma NoNL_image_source n svc tbl x svc' : handle_image_source n svc tbl = COk (x, svc') -> NoNL svc -> NoNL svc'.
Proof.
  unfold handle_image_source. intros H Hs. destruct (_ || _).
  - destruct (tbl_get tbl n); [|discriminate]. injection H as _ <-. nn.
  - injection H as _ <-. exact Hs.
Qed.

Lemma NoNL_networks_loop tbl nets : forall svc args a svc', networks_loop nets svc tbl args = COk (a, svc') -> NoNL svc -> NoNL svc'.
Proof.
  induction nets as [|net r IH]; intros svc args a svc'; cbn [networks_loop]; [intros H Hs; injection H as _ <-; exact Hs|].
  destruct net as [|c0 net]; [apply IH|].
  destruct (match split_once cCOLON (c0 :: net) with Some (a0, b) => (a0, Some b) | None => (c0 :: net, None) end) as [name opts].
  cbv zeta. bel. intros [rname svc1] H1 H2 Hs.
  assert (V1 : NoNL svc1).
  { destruct (_ || _).
    - destruct (tbl_get tbl name); [|discriminate]. destruct (i_resource_name i); [discriminate|]. injection H1 as _ <-. nn.
    - injection H1 as _ <-. exact Hs. }
  destruct opts as [o|].
  - destruct (ends_with (L ".container") name); [discriminate|]. eapply IH; eassumption.
  - eapply IH; eassumption.
Qed.

Lemma NoNL_networks u sec svc tbl args a svc' : handle_networks u sec svc tbl args = COk (a, svc') -> NoNL svc -> NoNL svc'.
Proof. unfold handle_networks. bel. intros nets _. apply NoNL_networks_loop. Qed.

Lemma NoNL_storage up svc src tbl ci x svc' : handle_storage_source up svc src tbl ci = COk (x, svc') -> NoNL svc -> NoNL svc'.
Proof.
  unfold handle_storage_source. bel. intros s _. intros H Hs. destruct (starts_with [cSLASH] s).
  - injection H as _ <-. nn.
  - destruct (_ || _).
    + destruct (tbl_get tbl s); [|discriminate]. injection H as _ <-. nn.
    + injection H as _ <-. exact Hs.
Qed.

Lemma NoNL_volumes_loop pinned up tbl vols : forall svc args a svc', volumes_loop pinned up vols svc tbl args = COk (a, svc') -> NoNL svc -> NoNL svc'.
Proof.
  induction vols as [|v r IH]; intros svc args a svc'; cbn [volumes_loop]; [intros H Hs; injection H as _ <-; exact Hs|].
  destruct (match split_on cCOLON v with
            | [] => ([], [], [])
            | [d] => ([], d, [])
            | s :: d :: rest => (s, d, match rest with [] => [] | o :: more => cCOLON :: (if pinned then o else join [cCOLON] (o :: more)) end)
            end) as [[source dest] options].
  destruct source as [|s0 source]; [apply IH|].
  bel. intros [src svc1] H1 H2 Hs. eapply IH; [exact H2|]. eapply NoNL_storage; eassumption.
Qed.

Lemma NoNL_volumes pinned u up sec svc tbl args a svc' : handle_volumes pinned u up sec svc tbl args = COk (a, svc') -> NoNL svc -> NoNL svc'.
Proof. unfold handle_volumes. bel. intros vols _. apply NoNL_volumes_loop. Qed.

Lemma NoNL_mount_tokens up tbl tokens : forall svc acc o svc', mount_tokens up tokens svc tbl acc = COk (o, svc') -> NoNL svc -> NoNL svc'.
Proof.
  induction tokens as [|t r IH]; intros svc acc o svc'; cbn [mount_tokens]; [intros H Hs; injection H as _ <-; exact Hs|].
  destruct (_ || _); [|apply IH]. destruct (split_once cEQ t) as [[k v]|]; [|discriminate].
  bel. intros [src svc1] H1 H2 Hs. eapply IH; [exact H2|]. eapply NoNL_storage; eassumption.
Qed.

Lemma NoNL_resolve_mount nl up m svc tbl x svc' : resolve_mount nl up m svc tbl = COk (x, svc') -> NoNL svc -> NoNL svc'.
Proof.
  unfold resolve_mount. destruct (negb (csv_plain m)); [discriminate|]. destruct m as [|c0 m]; [discriminate|].
  destruct (find_type _ _ _) as [[ty|] tokens]; [|discriminate].
  destruct (negb _); [intros H Hs; injection H as _ <-; exact Hs|].
  bel. intros [out svc1] H1. destruct (existsb _ out); [discriminate|]. intros H Hs. injection H as _ <-. eapply NoNL_mount_tokens; eassumption.
Qed.

Lemma NoNL_mounts_loop nl up tbl ms : forall svc args a svc', mounts_loop nl up ms svc tbl args = COk (a, svc') -> NoNL svc -> NoNL svc'.
Proof.
  induction ms as [|m r IH]; intros svc args a svc'; cbn [mounts_loop]; [intros H Hs; injection H as _ <-; exact Hs|].
  bel. intros [s svc1] H1 H2 Hs. eapply IH; [exact H2|]. eapply NoNL_resolve_mount; eassumption.
Qed.

Lemma NoNL_pod u sec svc sp tbl args a svc' t' : handle_pod u sec svc sp tbl args = COk (a, svc', t') -> NoNL svc -> NoNL svc'.
Proof.
  unfold handle_pod. bel. intros pod _. destruct pod as [[|c p]|]; try (intros H Hs; injection H as _ <- _; exact Hs).
  destruct (negb _); [discriminate|]. destruct (tbl_get tbl (c :: p)); [|discriminate]. intros H Hs. injection H as _ <- _. nn.
Qed.

Lemma NoNL_hswd u up svc t c svc' : handle_set_working_directory u up svc t = COk (c, svc') -> NoNL svc -> NoNL svc'.
Proof.
  unfold handle_set_working_directory. cbv zeta. bel. intros swd _.
  destruct swd as [[|c0 w]|]; try (intros H Hs; injection H as _ <-; exact Hs).
  bel. intros [ctx rel] _. destruct rel as [|r0 rel]; [intros H Hs; injection H as _ <-; exact Hs|].
  destruct (is_url ctx); [intros H Hs; injection H as _ <-; exact Hs|].
  bel. intros wd _. destruct wd as [[|w0 wd]|].
  1,3: bel; intros fpath _ H Hs; injection H as _ <-; nn.
  intros H Hs; injection H as _ <-; exact Hs.
Qed.

Lemma NoNL_set_if_absent svc k v s' : NNk k -> set_if_absent svc k v = COk s' -> NoNL svc -> NoNL s'.
Proof.
  intros Hk. unfold set_if_absent. bel. intros o _ X Hs. injection X as <-. destruct o; [exact Hs|]. apply NoNL_unit_set; [nnl|exact Hk|exact Hs].
Qed.

Lemma NoNL_one_shot svc remain s' : one_shot_section svc remain = COk s' -> NoNL svc -> NoNL s'.
Proof.
  unfold one_shot_section. bel. intros s1 H1. bel. intros s2 H2. intros H3 Hs.
  assert (V2 : NoNL s2).
  { eapply NoNL_set_if_absent; [|exact H2|]; [nnl|]. eapply NoNL_set_if_absent; [|exact H1|exact Hs]. nnl. }
  destruct remain; [eapply NoNL_set_if_absent; [|exact H3|exact V2]; nnl|injection H3 as <-; exact V2].
Qed.

(* ---- the converters ---- *)
Section Converters.
Variables (podman : str) (exists_path : str -> bool) (kill_fixed mount_nl : bool).
Variable u : unit.
Hypothesis Hu : NoNL u.
Variable path : str.

Lemma prologue_nn tbl t sup i svc0 : prologue u path tbl t sup = COk (i, svc0) -> NoNL svc0.
Proof.
  unfold prologue. destruct (file_name path); [|discriminate]. destruct (tbl_get tbl l); [|discriminate]. cbv zeta.
  bel. intros ? _. bel. intros ? _. bel. intros ? _. bel. intros ? _. intros H. injection H as _ <-.
  assert (V0 : NoNL (default_dependencies (merge_from [] u))).
  { apply NoNL_default_dependencies. apply NoNL_merge_from; [exact NoNL_nil|exact (proj2 Hu)]. }
  destruct path; [exact V0|]. nn.
Qed.

Lemma ct_service_nn svc cn env base svc' : ct_service podman kill_fixed u path svc = COk (cn, env, base, svc') -> NoNL svc -> NoNL svc'.
Proof.
  unfold ct_service. cbv zeta. bel. intros cname _. bel. intros km _. bel. intros s1 H1. bel. intros b _. bel. intros s2 H2. bel. intros s3 H3.
  intros H Hs. injection H as _ _ _ <-.
  assert (V1 : NoNL s1).
  { destruct km as [k|].
    - destruct (_ || _); [|discriminate]. injection H1 as <-. nn.
    - injection H1 as <-. nn. }
  eapply NoNL_add_raw_exec; [|eapply NoNL_add_raw_exec; [| |exact H2]|exact H3]; [nnl|nnl|]. nn.
Qed.

Lemma ct_run_head_nn base cname svc a svc' : ct_run_head u base cname svc = COk (a, svc') -> NoNL svc -> NoNL svc'.
Proof.
  unfold ct_run_head. cbv zeta. bel. intros a1 _. bel. intros cg _. bel. intros a2 _. bel. intros a3 _. intros H Hs. injection H as _ <-. nn.
Qed.

Lemma ct_net_notify_nn tbl args svc a svc' : ct_net_notify u tbl args svc = COk (a, svc') -> NoNL svc -> NoNL svc'.
Proof.
  unfold ct_net_notify. cbv zeta. bel. intros [a1 s1] H1. bel. intros stype _. bel. intros [a2 s2] H2. bel. intros sysl _.
  intros H Hs. injection H as _ <-.
  assert (V1 : NoNL s1) by (eapply NoNL_networks; eassumption).
  assert (V2 : NoNL s2).
  { assert (N : forall A, (do nt <- @lk berr u c_CONTAINER_SECTION (L "Notify");
                       (let a := match nt with
                                 | Some n => if str_eqb n (L "healthy") then A ++ [L "--sdnotify=healthy"]
                                             else if match lookup_bool u c_CONTAINER_SECTION (L "Notify") with Some b => b | None => false end
                                                  then A ++ [L "--sdnotify=container"] else A ++ [L "--sdnotify=conmon"]
                                 | None => A ++ [L "--sdnotify=conmon"]
                                 end in
                        COk (a ++ [L "-d"], unit_set (unit_set s1 SEC_S (L "Type") (L "notify")) SEC_S (L "NotifyAccess") (L "all")))) = COk (a2, s2) -> NoNL s2).
    { intros A. bel. intros nt _. cbv zeta. intros X. injection X as _ <-. nn. }
    destruct stype as [ty|].
    - destruct (str_eqb ty (L "oneshot")); [injection H2 as _ <-; exact V1|]. destruct (str_eqb ty (L "notify")); [|discriminate]. eapply N. exact H2.
    - eapply N. exact H2. }
  nn.
Qed.

Theorem container_nn tbl svc sp t' : from_container podman exists_path kill_fixed mount_nl u path tbl = COk (svc, sp, t') -> NoNL svc.
Proof.
  unfold from_container. cbv zeta. bel. intros [i svc0] Hp. intros R. apply lift_ok in R. revert R.
  pose proof (NoNL_rename_own _ TContainer (prologue_nn _ _ _ _ _ Hp)) as V0.
  bel. intros image0 _. bel. intros rootfs0 _.
  set (image := match image0 with Some s => s | None => [] end). set (rootfs := match rootfs0 with Some s => s | None => [] end).
  clearbody image rootfs. destruct image as [|ci im], rootfs as [|d rf]; try discriminate.
  all: bel; intros [image1 s1] H1; bel; intros [[[cname penv] base] s2] H2; bel; intros [a3 s3] H3;
    bel; intros [a4 s4] H4; bel; intros a5 _; bel; intros [a6 s6] H6; bel; intros a7 _; bel; intros [a8 s8] H8;
    bel; intros a9 _; bel; intros [[a10 s10] tbl10] H10; intros R; apply with_tbl_ok in R; revert R;
    bel; intros s11 H11; intros E; injection E as <- _ _.
  all: assert (V1 : NoNL s1) by (first [injection H1 as _ <-; exact V0 | eapply NoNL_image_source; eassumption]).
  all: eapply NoNL_add_raw_exec; [|eapply NoNL_pod; [exact H10|]|exact H11]; [nnl|].
  all: eapply NoNL_mounts_loop; [exact H8|]. all: eapply NoNL_volumes; [exact H6|]. all: eapply ct_net_notify_nn; [exact H4|].
  all: eapply ct_run_head_nn; [exact H3|]. all: eapply ct_service_nn; [exact H2|exact V1].
Qed.

Theorem image_nn tbl svc sp t' : from_image podman u path tbl = COk (svc, sp, t') -> NoNL svc.
Proof.
  unfold from_image. bel. intros [i svc0] Hp. intros R. apply lift_ok in R. revert R. bel. intros s1 B1. bel. intros rn _.
  destruct (file_name path); [|discriminate]. intros E. injection E as <- _ _.
  pose proof (prologue_nn _ _ _ _ _ Hp) as V0. revert B1. unfold image_body. bel. intros img _. destruct img as [[|c s]|]; try discriminate.
  cbv zeta. bel. intros base _. bel. intros a1 _. bel. intros s2 H2. intros H3.
  eapply NoNL_one_shot; [exact H3|]. eapply NoNL_add_raw_exec; [| |exact H2]; [nnl|]. apply NoNL_unit_add; [nnl|nnl|]. apply NoNL_rename_own. exact V0.
Qed.

Theorem network_nn tbl svc sp t' : from_network podman u path tbl = COk (svc, sp, t') -> NoNL svc.
Proof.
  unfold from_network. bel. intros [i svc0] Hp. intros R. apply lift_ok in R. revert R. bel. intros nm _. bel. intros s1 B1.
  destruct (file_name path); [|discriminate]. intros E. injection E as <- _ _.
  pose proof (prologue_nn _ _ _ _ _ Hp) as V0. revert B1. unfold network_body. cbv zeta.
  bel. intros base _. bel. intros a1 _. bel. intros a2 _. bel. intros sn _. bel. intros gw _. bel. intros rg _. bel. intros a3 _. bel. intros s2 H2. intros H3.
  eapply NoNL_one_shot; [exact H3|]. eapply NoNL_add_raw_exec; [| |exact H2]; [nnl|]. apply NoNL_unit_add; [nnl|nnl|]. apply NoNL_rename_own. exact V0.
Qed.

Theorem volume_nn tbl svc sp t' : from_volume podman u path tbl = COk (svc, sp, t') -> NoNL svc.
Proof.
  unfold from_volume. bel. intros [i svc0] Hp. intros R. apply lift_ok in R. revert R. cbv zeta. bel. intros nm _.
  destruct (file_name path); [|discriminate]. intros R. apply with_tbl_ok in R. revert R. bel. intros s1 B1. intros E. injection E as <- _ _.
  pose proof (NoNL_rename_own _ TVolume (prologue_nn _ _ _ _ _ Hp)) as V0. revert B1. unfold volume_body. cbv zeta.
  bel. intros base _. bel. intros driver _. bel. intros [a1 s2] H1. bel. intros s3 H3. intros H4.
  eapply NoNL_one_shot; [exact H4|]. eapply NoNL_add_raw_exec; [| |exact H3]; [nnl|].
  assert (Vb : NoNL (unit_add (rename_own svc0 TVolume) SEC_U (L "RequiresMountsFor") (L "%t/containers"))) by nn.
  revert H1. destruct (str_eqb _ (L "image")).
  - bel. intros img _. destruct img as [im|]; [|discriminate]. bel. intros [iname s4] H5. intros X. injection X as _ <-. eapply NoNL_image_source; eassumption.
  - bel. intros usr _. bel. intros grp _. bel. intros dev _.
    destruct (match dev with Some (c :: s) => _ | _ => _ end) as [a2 dv]. bel. intros ty _. bel. intros a3 _. bel. intros mo _. bel. intros opts _.
    intros X. injection X as _ <-. exact Vb.
Qed.

Theorem kube_nn tbl svc sp t' : from_kube podman kill_fixed u path tbl = COk (svc, sp, t') -> NoNL svc.
Proof.
  unfold from_kube. cbv zeta. bel. intros [i svc0] Hp. intros R. apply lift_ok in R. revert R.
  pose proof (NoNL_rename_own _ TKube (prologue_nn _ _ _ _ _ Hp)) as V0.
  bel. intros y _. destruct y as [[|c s]|]; try discriminate.
  bel. intros yaml _. bel. intros s1 H1.
  assert (V1 : NoNL s1).
  { destruct kill_fixed.
    - revert H1. bel. intros km _. destruct km as [k|].
      + destruct (_ || _); [|discriminate]. intros H. injection H as <-. exact V0.
      + intros H. injection H as <-. nn.
    - injection H1 as <-. nn. }
  bel. intros ty _. bel. intros base _. bel. intros ecp _. bel. intros a1 _. bel. intros a2 _. bel. intros [a3 s3] H3. bel. intros cms _. bel. intros a4 _.
  bel. intros s4 H4. bel. intros base2 _. bel. intros s5 H5. bel. intros [cx s6] H6. intros E. injection E as <- _ _. cbn [snd].
  eapply NoNL_hswd; [exact H6|]. eapply NoNL_add_raw_exec; [| |exact H5]; [nnl|]. eapply NoNL_add_raw_exec; [| |exact H4]; [nnl|].
  eapply NoNL_networks; [exact H3|]. nn.
Qed.

Theorem pod_nn tbl svc sp t' : from_pod podman mount_nl u path tbl = COk (svc, sp, t') -> NoNL svc.
Proof.
  unfold from_pod. cbv zeta. bel. intros [i svc0] Hp. intros R. apply lift_ok in R. revert R.
  pose proof (NoNL_rename_own _ TPod (prologue_nn _ _ _ _ _ Hp)) as V0.
  bel. intros pn _. bel. intros name _. bel. intros sysl _. bel. intros base _. bel. intros s1 H1. bel. intros s2 H2. bel. intros s3 H3.
  bel. intros a1 _. bel. intros a2 _. bel. intros [a3 s4] H4. bel. intros a4 _. bel. intros a5 _. bel. intros [a6 s5] H5. bel. intros s6 H6.
  intros E. injection E as <- _ _.
  assert (Vc : forall cs s, NoNL s -> NoNL (fold_left (fun s c => unit_add (unit_add s SEC_U (L "Wants") c) SEC_U (L "Before") c) cs s)).
  { induction cs as [|c cs IH]; intros s Hs; [exact Hs|]. cbn [fold_left]. apply IH. nn. }
  nn. eapply NoNL_add_raw_exec; [| |exact H6]; [nnl|]. eapply NoNL_volumes; [exact H5|]. eapply NoNL_networks; [exact H4|].
  eapply NoNL_add_raw_exec; [| |exact H3]; [nnl|]. eapply NoNL_add_raw_exec; [| |exact H2]; [nnl|]. eapply NoNL_add_raw_exec; [| |exact H1]; [nnl|].
  destruct sysl; [|apply NoNL_unit_set; [nnl|nnl|]]; apply Vc; nn.
Qed.

Theorem build_nn tbl svc sp t' : from_build podman mount_nl u path tbl = COk (svc, sp, t') -> NoNL svc.
Proof.
  unfold from_build. destruct (file_name path); [|discriminate]. destruct (tbl_get tbl l); [|discriminate]. destruct (i_resource_name i); [discriminate|]. cbv zeta.
  bel. intros ? _. bel. intros ? _. bel. intros ? _. bel. intros ? _. intros R. apply lift_ok in R. revert R.
  bel. intros base _. bel. intros pull _. bel. intros g1 _. bel. intros g2 _. bel. intros [g3 s3] H3. bel. intros [g4 s4] H4. bel. intros [ctx s5] H5.
  bel. intros wd _. bel. intros fp _. bel. intros [wdir fpath] _. bel. intros g5 _. bel. intros s6 H6. bel. intros s7 H7. intros E. injection E as <- _ _.
  eapply NoNL_one_shot; [exact H7|]. eapply NoNL_add_raw_exec; [| |exact H6]; [nnl|]. eapply NoNL_hswd; [exact H5|]. eapply NoNL_volumes; [exact H4|].
  eapply NoNL_networks; [exact H3|]. apply NoNL_rename_own.
  assert (Vd : NoNL (unit_add (default_dependencies (merge_from [] u)) SEC_U (L "RequiresMountsFor") (L "%t/containers"))).
  { apply NoNL_unit_add; [nnl|nnl|]. apply NoNL_default_dependencies. apply NoNL_merge_from; [exact NoNL_nil|exact (proj2 Hu)]. }
  destruct path; [exact Vd|]. nn.
Qed.

Theorem convert_nn t tbl svc sp t' : convert_one podman exists_path kill_fixed mount_nl u path t tbl = COk (svc, sp, t') -> NoNL svc.
Proof.
  destruct t; cbn [convert_one]; [apply build_nn|apply container_nn|apply image_nn|apply kube_nn|apply network_nn|apply pod_nn|apply volume_nn].
Qed.
End Converters.

(* ---- the whole run ---- *)
Lemma convert_all_nn podman exists_path kill_fixed mount_nl l : forall tbl p svc sp,
  (forall x, In x l -> NoNL (l_unit x)) ->
  In (p, ROk svc sp) (convert_all podman exists_path kill_fixed mount_nl l tbl) -> NoNL svc.
Proof.
  induction l as [|x r IH]; intros tbl p svc sp Hl Hin; [destruct Hin|].
  cbn [convert_all] in Hin.
  destruct (convert_one podman exists_path kill_fixed mount_nl (l_unit x) (l_path x) (i_type (l_info x)) tbl) as [[[s q] t1]|e [t1|]| |] eqn:E;
    (destruct Hin as [Hin|Hin]; [try discriminate Hin|eapply IH; [intros y Hy; apply Hl; right; exact Hy|exact Hin]]).
  injection Hin as _ <- _. eapply convert_nn; [|exact E]. apply Hl. left. reflexivity.
Qed.

Lemma in_insert_sorted x y l : In y (insert_sorted x l) -> y = x \/ In y l.
Proof.
  induction l as [|z l IH]; cbn [insert_sorted]; [intros [<-|[]]; left; reflexivity|].
  destruct (_ <? _); [intros [<-|H]; [left; reflexivity|right; exact H]|].
  intros [<-|H]; [right; left; reflexivity|]. destruct (IH H) as [->|H']; [left; reflexivity|right; right; exact H'].
Qed.

Lemma in_sort_units l : forall acc y, In y (fold_left (fun acc x => insert_sorted x acc) l acc) -> In y acc \/ In y l.
Proof.
  induction l as [|x l IH]; intros acc y H; [left; exact H|]. cbn [fold_left] in H.
  destruct (IH _ _ H) as [H1|H1]; [|right; right; exact H1]. destruct (in_insert_sorted _ _ _ H1) as [->|H2]; [right; left; reflexivity|left; exact H2].
Qed.

Theorem run_services_have_no_newline podman exists_path kill_fixed mount_nl files p svc sp :
  In (p, ROk svc sp) (snd (process_files podman exists_path kill_fixed mount_nl files)) -> NoNL svc.
Proof.
  unfold process_files. cbv zeta. cbn [snd]. intros H. eapply convert_all_nn; [|exact H].
  intros x Hx. unfold sort_units in Hx. apply in_sort_units in Hx. destruct Hx as [[]|Hx].
  apply in_flat_map in Hx. destruct Hx as [[q lr] [Hq Hx]]. apply in_map_iff in Hq. destruct Hq as [[q' text] [Eq _]]. cbn [fst snd] in Eq.
  injection Eq as <- <-. cbn [snd fst] in Hx. destruct (load_one q' text) as [u0 i0| | |] eqn:El; [|destruct Hx|destruct Hx|destruct Hx].
  destruct Hx as [<-|[]]. cbn [l_unit]. unfold load_one in El. destruct (parse_unit text) as [u1|] eqn:Ep; [|discriminate].
  destruct (unit_info u1 q'); try discriminate. injection El as <- _. eapply parsed_units_have_no_newline. exact Ep.
Qed.

(* hence: one physical line per entry, two per section, in every file the generator writes *)
Corollary run_services_line_count podman exists_path kill_fixed mount_nl files p svc sp :
  In (p, ROk svc sp) (snd (process_files podman exists_path kill_fixed mount_nl files)) ->
  count_nl (to_string svc) = (fold_right (fun s n => 2 + length (snd s) + n) 0 svc)%nat.
Proof. intros H. apply line_count. apply NoNL_no_nl. eapply run_services_have_no_newline. exact H. Qed.

(* ---- reading a generated service back ---- *)
(* what is left to a value: it is validated (C11) and has no blank at either edge (the known class BlankAtValueEdge); and keys are not empty *)
Definition value_ok_edges (v : str) : Prop :=
  unquote_value v <> None /\ (match v with c :: _ => is_blank_c c = false | [] => True end) /\ trim_end v = v.
Definition EntriesOk (u : unit) : Prop := Forall (fun s : str * entries => Forall (fun e : entry => fst e <> [] /\ value_ok_edges (snd e)) (snd s)) u.

Lemma shaped_wf u : NoNL u -> EntriesOk u -> WF_unit u.
Proof.
  intros [Hd Hs] He. split; [exact Hd|]. clear Hd. induction Hs as [|[n es] r [Hn Hes] Hr IH]; [constructor|].
  inversion He as [|? ? He1 He2]; subst. constructor; [|apply IH; exact He2]. split; [exact Hn|]. cbn [snd] in *.
  clear -Hes He1. induction Hes as [|[k v] es [[Hk Hkn] Hv] Hes IH]; [constructor|].
  inversion He1 as [|? ? [Hne Hvo] He2]; subst. constructor; [|apply IH; exact He2]. cbn [fst snd] in *.
  split; [|split; [exact Hvo|exact Hv]]. split; [exact Hne|]. apply Forall_forall. intros c Hc. unfold keyc in Hk. rewrite forallb_forall in Hk. exact (Hk c Hc).
Qed.

(* every service of the run whose entries have non-empty keys and validated values without a blank at an edge is read back, from the text
   the generator writes, as exactly itself: same sections, same entries, same order *)
Theorem run_services_read_back podman exists_path kill_fixed mount_nl files p svc sp :
  In (p, ROk svc sp) (snd (process_files podman exists_path kill_fixed mount_nl files)) ->
  EntriesOk svc -> parse_unit (to_string svc) = Some svc.
Proof. intros H He. apply roundtrip. apply shaped_wf; [eapply run_services_have_no_newline; exact H|exact He]. Qed.
